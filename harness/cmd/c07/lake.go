package main

import (
	"fmt"
	"regexp"
	"strings"

	zed "github.com/brimdata/super"
	"github.com/brimdata/super/compiler/ast/dag"
	"github.com/brimdata/super/order"
	"github.com/brimdata/super/pkg/field"
	"github.com/brimdata/super/runtime/sam/expr"
	"github.com/brimdata/super/zio/zsonio"
	"github.com/brimdata/super/zson"
	. "zvh/hx"
)

type lakeCase struct {
	KeyPath string
	Desc    bool
	Unique  bool
	Ranged  bool // loads cover consecutive, partly overlapping key ranges
	MaxKey  int  // largest key value (for filter literals)
	KeyOnly bool // values are {<key>:K} only (duplicates allowed): equal keys = equal values
	Mixed   bool
	Stride  int
	Thresh  int64
	Loads   [][]string
	// optional second pool q (for joins)
	QDesc  bool
	QLoads [][]string
}

func (lc *lakeCase) layout() string {
	return fmt.Sprintf("key=%s desc=%v unique=%v", lc.KeyPath, lc.Desc, lc.Unique)
}

func (lc *lakeCase) build() (*LakeEnv, error) {
	env, err := NewLakeEnv()
	if err != nil {
		return nil, err
	}
	pool, err := env.CreatePool("p", lc.KeyPath, lc.Desc, lc.Stride, lc.Thresh)
	if err != nil {
		return nil, err
	}
	for _, ld := range lc.Loads {
		if len(ld) == 0 {
			continue
		}
		if _, err := env.LoadZSON(pool, "main", strings.Join(ld, "\n")); err != nil {
			return nil, fmt.Errorf("load p: %w", err)
		}
	}
	if lc.QLoads != nil {
		q, err := env.CreatePool("q", lc.KeyPath, lc.QDesc, lc.Stride, lc.Thresh)
		if err != nil {
			return nil, err
		}
		for _, ld := range lc.QLoads {
			if len(ld) == 0 {
				continue
			}
			if _, err := env.LoadZSON(q, "main", strings.Join(ld, "\n")); err != nil {
				return nil, fmt.Errorf("load q: %w", err)
			}
		}
	}
	return env, nil
}

func splitLoads(r *Rng, vals []string, n int) [][]string {
	loads := make([][]string, n)
	for _, v := range vals {
		i := r.Intn(n)
		loads[i] = append(loads[i], v)
	}
	return loads
}

// rangedLoads splits vals (ordered by key) into n loads of consecutive,
// partly overlapping key ranges: every object covers its own part of the key
// space, so a range pruner has objects and seek ranges to skip.
func rangedLoads(r *Rng, sortedVals []string, n int) [][]string {
	loads := make([][]string, n)
	w := (len(sortedVals) + n - 1) / n
	if w == 0 {
		w = 1
	}
	for i, v := range sortedVals {
		j := i / w
		if j >= n {
			j = n - 1
		}
		// a few values spill into the neighbouring load
		if r.Chance(1, 6) && j+1 < n {
			j++
		} else if r.Chance(1, 6) && j > 0 {
			j--
		}
		loads[j] = append(loads[j], v)
	}
	Shuffle(r, loads)
	return loads
}

func sortedByKey(vals []string, keyPath string, desc bool) []string {
	o := order.Asc
	if desc {
		o = order.Desc
	}
	s, err := sortInput(strings.Join(vals, "\n"), field.Dotted(keyPath), o)
	if err != nil {
		return vals
	}
	return strings.Split(strings.TrimSpace(s), "\n")
}

func genLakeCase(r *Rng) *lakeCase {
	lc := &lakeCase{KeyPath: "k", Desc: r.Bool(), Unique: r.Chance(2, 3)}
	if r.Chance(1, 6) {
		lc.KeyPath = "n.x"
	}
	lc.Stride = Pick(r, []int{0, 1, 2, 64})
	lc.Thresh = int64(Pick(r, []int{0, 0, 1, 120, 400}))
	cfg := inputCfg{N: 6 + r.Intn(26), KeyPath: lc.KeyPath, Unique: lc.Unique, KeysMixed: !lc.Unique && r.Chance(2, 3)}
	cfg.Shapes = lc.Unique && r.Chance(1, 3)
	lc.Mixed = cfg.KeysMixed
	if r.Chance(1, 2) {
		lc.Ranged = true
		lc.Stride = Pick(r, []int{1, 1, 2, 64})
		lc.Loads = rangedLoads(r, sortedByKey(genInput(r, cfg), lc.KeyPath, false), 2+r.Intn(4))
	} else {
		lc.Loads = splitLoads(r, genInput(r, cfg), 1+r.Intn(5))
	}
	lc.MaxKey = 3 * cfg.N
	if !lc.Unique {
		lc.MaxKey = cfg.N / 2
	}
	if r.Chance(1, 3) {
		lc.QDesc = r.Bool()
		qcfg := inputCfg{N: 3 + r.Intn(14), KeyPath: lc.KeyPath, KeysMixed: r.Chance(1, 3)}
		lc.QLoads = splitLoads(r, genInput(r, qcfg), 1+r.Intn(3))
	}
	return lc
}

func (lc *lakeCase) program(r *Rng) string {
	g := &progGen{r: r, key: lc.KeyPath, noOrderSensitiveAggs: true, mixedKeys: lc.Mixed}
	if lc.QLoads != nil && r.Chance(2, 3) {
		k := lc.KeyPath
		style := Pick(r, []string{"", "inner ", "left ", "right ", "anti "})
		left, right := "", ""
		if r.Chance(1, 3) {
			left = " | " + Pick(r, []func() string{g.filter, g.put, g.cut, g.drop, g.rename, func() string { return "pass" }})()
		}
		if r.Chance(1, 3) {
			right = " | " + Pick(r, []func() string{g.filter, g.put, g.cut, g.drop, func() string { return "sort " + k }, func() string { return "sort -r " + k }})()
		}
		rk := k
		if r.Chance(1, 6) {
			rk = "a"
		}
		args := Pick(r, []string{"", " z:=c", " rid:=id"})
		if style == "anti " {
			args = ""
		}
		tail := ""
		if r.Bool() {
			tail = " | " + g.simpleOp()
		}
		return fmt.Sprintf("from p%s | %sjoin (from q%s) on %s=%s%s%s", left, style, right, k, rk, args, tail)
	}
	if r.Chance(1, 3) {
		// a filter the range pruner has to analyse, alone or in front of something
		p := "from p | where " + g.keyFilter(1+r.Intn(3), lc.MaxKey)
		switch r.Intn(4) {
		case 0:
			p += " | " + g.simpleOp()
		case 1:
			p += " | where " + g.keyFilter(1, lc.MaxKey)
		}
		return p
	}
	if lc.Unique && r.Chance(1, 3) {
		return "from p | " + g.positionalIdiom()
	}
	for {
		p := g.program()
		if hasLimit(p) && lc.Mixed {
			continue
		}
		return "from p | " + p
	}
}

// checkLake compares the plan as analysed (raw PoolScan) with the optimized
// plan at the given parallelism.
// lakeMark journals which plan is about to run (set by lakeCase).
var lakeMark = func(phase string) {}

func checkLake(env *LakeEnv, lc *lakeCase, prog string, par int) (d *diff, a, b runOut, st ordState) {
	lakeMark("unopt")
	a = runLake(env, prog, planMode{})
	if a.Err != nil {
		return nil, a, b, st
	}
	lakeMark("opt")
	b = runLake(env, prog, planMode{Optimize: true, Par: par})
	if b.Err == errTimeout && !shrinking {
		b = confirmHang(func() runOut { return runLake(env, prog, planMode{}) },
			func() runOut { return runLake(env, prog, planMode{Optimize: true, Par: par}) })
	}
	if b.Err == errRefUnstable {
		a.Err, a.Stage = b.Err, "retime"
		return nil, a, b, st
	}
	init := ordState{Class: clsSorted, Keys: []string{lc.KeyPath}, IDIntact: true}
	if lc.Unique {
		// distinct, present, non-null keys (or values determined by their
		// key): the scan order is fully defined
		init = ordState{Class: clsSeq, IDIntact: true}
	}
	uniq := "id"
	if lc.KeyOnly {
		// equal keys = equal values: a sort on the key defines the whole sequence
		uniq = lc.KeyPath
	}
	st = judgeCfg{UniqueField: uniq, SortDropsTies: true}.seq(a.Analysed, init)
	if b.Err != nil {
		return &diff{"opt-" + errClass(b.Err) + "-" + b.Stage, "plan as analysed succeeds: " + joinShort(a.Out), b.Err.Error()}, a, b, st
	}
	d = refine(compareOutputs(st, a.Out, b.Out), a.Out, b.Out)
	if d != nil && d.Kind == "bag-differs" && onlyTypedNullKeyRowsLost(a.Out, b.Out, lc.KeyPath) {
		d.Kind = "typed-null-key-rows-dropped"
	}
	return d, a, b, st
}

// onlyTypedNullKeyRowsLost: the optimized output is the reference output minus
// rows whose pool key is a typed null (null(int64), ...).
func onlyTypedNullKeyRowsLost(a, b []string, keyPath string) bool {
	leaf := keyPath
	if i := strings.LastIndex(keyPath, "."); i >= 0 {
		leaf = keyPath[i+1:]
	}
	re := regexp.MustCompile(`[{,]` + regexp.QuoteMeta(leaf) + `:null\(`)
	cnt := map[string]int{}
	for _, x := range b {
		cnt[x]++
	}
	lost := 0
	for _, x := range a {
		if cnt[x] > 0 {
			cnt[x]--
			continue
		}
		if !re.MatchString(x) {
			return false
		}
		lost++
	}
	for _, n := range cnt {
		if n > 0 {
			return false
		}
	}
	return lost > 0
}

// mergeKeyCheck is the deterministic form of "the parallel plan reproduces the
// sequential order": on a pool whose keys are distinct and present, the values
// reaching `merge <poolkey>` out of the scatter legs must still carry distinct,
// ordered keys, otherwise the merge is free to emit them in any order.  The
// legs are evaluated sequentially (plan as analysed: ordered scan) for this.
func mergeKeyCheck(env *LakeEnv, lc *lakeCase, final dag.Seq) (bad string) {
	if !lc.Unique || lc.KeyOnly {
		return ""
	}
	for i := 0; i+1 < len(final); i++ {
		sc, ok := final[i].(*dag.Scatter)
		if !ok || len(sc.Paths) == 0 {
			continue
		}
		mg, ok := final[i+1].(*dag.Merge)
		if !ok {
			continue
		}
		this, ok := mg.Expr.(*dag.This)
		if !ok || strings.Join(this.Path, ".") != lc.KeyPath {
			continue
		}
		if i+2 < len(final) {
			if _, ok := final[i+2].(*dag.Sort); ok {
				// the merged order is discarded by a full sort
				continue
			}
		}
		leg := sc.Paths[0]
		scan, ok := leg[0].(*dag.SeqScan)
		if !ok {
			continue
		}
		hasSort := false
		for _, op := range leg[1:] {
			if _, ok := op.(*dag.Sort); ok {
				hasSort = true
			}
		}
		if hasSort {
			continue
		}
		seq := dag.Seq{&dag.PoolScan{Kind: "PoolScan", ID: scan.Pool, Commit: scan.Commit}}
		if scan.Filter != nil {
			seq = append(seq, &dag.Filter{Kind: "Filter", Expr: scan.Filter})
		}
		seq = append(seq, copySeq(dag.Seq(leg[1:]))...)
		seq = append(seq, &dag.Output{Kind: "Output", Name: "main"})
		out, err := runLakeDag(env, seq)
		if err != nil || len(out) < 2 {
			continue
		}
		// keys along the sequential order of the leg
		zctx := zed.NewContext()
		zr := zsonio.NewReader(zctx, strings.NewReader(strings.Join(out, "\n")))
		var vals []zed.Value
		var kept []string
		for {
			v, err := zr.Read()
			if err != nil || v == nil {
				break
			}
			if v.IsError() {
				// error values carry no key; where they land is not checked here
				continue
			}
			vals = append(vals, v.Copy())
			kept = append(kept, zson.FormatValue(*v))
		}
		out = kept
		cmp := expr.NewComparator(true, expr.NewSortEvaluator(expr.NewDottedExpr(zctx, field.Path(this.Path)), order.Which(mg.Order))).WithMissingAsNull()
		for j := 0; j+1 < len(vals); j++ {
			if c := cmp.Compare(vals[j], vals[j+1]); c >= 0 {
				what := "tie"
				if c > 0 {
					what = "inversion"
				}
				return fmt.Sprintf("%s on merge key %s between consecutive values %s and %s of a scatter leg", what, lc.KeyPath, out[j], out[j+1])
			}
		}
	}
	return ""
}

// Lake idioms run on every invocation (unit 0, both key orders).
var lakeSeeded = []string{
	"from p | cut c",
	"from p | cut c,id",
	"from p | cut k,c",
	"from p | drop k",
	"from p | drop c",
	"from p | put k:=c",
	"from p | put d:=c",
	"from p | rename kk:=k",
	"from p | where c > 5 | cut c | head 4",
	"from p | where c > 5 | where a > 1",
	"from p | head 5",
	"from p | tail 3",
	"from p | sort c,id | head 4",
	"from p | sort -r k | head 4",
	"from p | count() by k | head 3",
	"from p | count() by k:=floor(k)",
	"from p | sum(c) by a | sort a",
	"from p | yield {k,c} | head 5",
	"from p | uniq | cut k",
	"from p | fuse | head 3",
	"from p | fork ( => where a > 1 => where a <= 1 ) | sort k,id",
	"from p | cut c | rename k:=c | count() by k",
	// a whole-stream / position-dependent operator (fuse, head, tail, uniq)
	// followed by a consumer that does not itself need ordered input: the
	// scan must still be ordered, and the operator must not be copied into
	// the parallel legs without a final instance
	"from p | fuse | sort k",
	"from p | fuse | sort -r c,id",
	"from p | fuse | count() by typeof(this)",
	"from p | fuse | sum(c) by a",
	"from p | where c > 3 | fuse | sort id",
	"from p | fuse",
	"from p | head 7 | sort c,id",
	"from p | head 7 | count() by a",
	"from p | where c > 3 | head 6 | sum(c)",
	"from p | tail 7 | sort c,id",
	"from p | tail 6 | count() by a",
	"from p | put d:=c | tail 5 | sort id",
	"from p | uniq | sort c,id",
	"from p | head 9 | fuse | sort k",
	"from p | drop b | head 5 | sort -r id",
	"from p | sort c,id | fuse | head 5",
	"from p | count() by a | sort a | head 2",
}

// The same on a pool whose values are determined by their key ({k:K}, with
// duplicates), so that uniq has something to do and the scan order of equal
// keys does not matter.
var lakeSeededShapes = []string{
	"from p | fuse | sort k",
	"from p | fuse | sort -r id",
	"from p | fuse | count() by typeof(this)",
	"from p | fuse | sum(c) by a",
	"from p | where k > 5 | fuse | sort id",
	"from p | fuse",
	"from p | fuse | head 4",
	"from p | head 10 | fuse | sort k",
	"from p | tail 10 | fuse | count() by typeof(this)",
	"from p | put d:=1 | fuse | sort k",
	"from p | sort k | fuse | sort id",
	"from p | sort -r id | fuse | sort k",
}

var lakeSeededKeyOnly = []string{
	"from p | uniq | count()",
	"from p | uniq -c | sort k",
	"from p | uniq | sort -r k | head 4",
	"from p | uniq | count() by k | sort k",
	"from p | where k > 2 | uniq | sum(k)",
	"from p | uniq",
	"from p | head 6 | count() by k",
	"from p | tail 5 | sum(k)",
}

func (c *c07) lakeSeededUnit(r *Rng) {
	for _, desc := range []bool{false, true} {
		lc := &lakeCase{KeyPath: "k", Desc: desc, Unique: true, Stride: 1, Thresh: 0}
		lc.Loads = splitLoads(r, genInput(r, inputCfg{N: 40, KeyPath: "k", Unique: true}), 6)
		c.mark(map[string]any{"oracle": "lake", "phase": "build", "pool": lc})
		env, err := lc.build()
		if err != nil {
			c.res.Count("lake:build-error")
			return
		}
		for _, prog := range lakeSeeded {
			c.lakeCase(env, lc, prog, 1)
			c.lakeCase(env, lc, prog, 3)
		}
		// nearly disjoint shapes spread over loads with interleaved key ranges:
		// the fused type depends on the order in which the scan delivers them
		sh := &lakeCase{KeyPath: "k", Desc: desc, Unique: true, Stride: 1, Thresh: 0}
		shVals := genInput(r, inputCfg{N: 30, KeyPath: "k", Unique: true, Shapes: true})
		sh.Loads = make([][]string, 3)
		for i, v := range shVals {
			sh.Loads[i%3] = append(sh.Loads[i%3], v)
		}
		c.mark(map[string]any{"oracle": "lake", "phase": "build", "pool": sh})
		env, err = sh.build()
		if err != nil {
			c.res.Count("lake:build-error")
			return
		}
		for _, prog := range lakeSeededShapes {
			c.lakeCase(env, sh, prog, 1)
			c.lakeCase(env, sh, prog, 2)
		}
		c.lakeSeededFilters(r, desc)
		ko := &lakeCase{KeyPath: "k", Desc: desc, Unique: true, KeyOnly: true, Stride: 1, Thresh: 0}
		var vals []string
		for i := 0; i < 36; i++ {
			vals = append(vals, fmt.Sprintf("{k:%d}", r.Intn(9)))
		}
		ko.Loads = splitLoads(r, vals, 5)
		c.mark(map[string]any{"oracle": "lake", "phase": "build", "pool": ko})
		env, err = ko.build()
		if err != nil {
			c.res.Count("lake:build-error")
			return
		}
		for _, prog := range lakeSeededKeyOnly {
			c.lakeCase(env, ko, prog, 1)
			c.lakeCase(env, ko, prog, 2)
		}
	}
}

// Filters over pools whose objects cover different, partly overlapping key
// ranges with a small seek stride: fixed shapes for every comparison operator
// and connective, plus generated combinations (depth <= 3).
var lakeSeededFilterShapes = []string{
	"k < %[1]d", "k <= %[1]d", "k > %[2]d", "k >= %[2]d", "k == %[1]d", "k != %[1]d", "%[1]d > k", "%[2]d <= k",
	"k < %[1]d or c == 5", "c == 5 or k < %[1]d", "k > %[2]d or has(s)", "k == %[1]d or a == 2", "k >= %[2]d or k < c",
	"k < %[1]d and c > 5", "c > 5 and k >= %[2]d", "k < %[1]d or k > %[2]d", "k > %[1]d and k <= %[2]d",
	"(k < %[1]d or c == 5) and k < %[2]d", "(k < %[1]d and c > 3) or k > %[2]d", "(k < %[1]d and c > 3) or (k > %[2]d and a == 1)",
	"(k < %[1]d or a == 1) or k > %[2]d", "not (k < %[1]d)", "not (k < %[1]d or c == 5)", "not (k >= %[1]d and c != 5)",
	"(k == %[1]d or k == %[2]d) or id %% 5 == 0", "k < %[1]d or (k > %[2]d and c > 10)", "k + 0 < %[1]d or k > %[2]d",
	"k <= %[1]d or missing(a)", "k < %[1]d or not (k < %[2]d)",
}

func (c *c07) lakeSeededFilters(r *Rng, desc bool) {
	for _, mixed := range []bool{false, true} {
		lc := &lakeCase{KeyPath: "k", Desc: desc, Unique: !mixed, Mixed: mixed, Ranged: true, Stride: 1, Thresh: 0}
		n := 36
		vals := genInput(r, inputCfg{N: n, KeyPath: "k", Unique: !mixed, KeysMixed: mixed})
		lc.MaxKey = 3 * n
		if mixed {
			lc.MaxKey = n / 2
		}
		lc.Loads = rangedLoads(r, sortedByKey(vals, "k", false), 4)
		c.mark(map[string]any{"oracle": "lake", "phase": "build", "pool": lc})
		env, err := lc.build()
		if err != nil {
			c.res.Count("lake:build-error")
			return
		}
		lo, hi := lc.MaxKey/4, lc.MaxKey*2/3
		var progs []string
		for _, sh := range lakeSeededFilterShapes {
			if mixed && (strings.Contains(sh, "k + 0") || strings.Contains(sh, "k < c")) {
				continue
			}
			progs = append(progs, "from p | where "+fmt.Sprintf(sh, lo, hi))
		}
		g := &progGen{r: r, key: "k", noOrderSensitiveAggs: true, mixedKeys: mixed}
		for i := 0; i < 14; i++ {
			progs = append(progs, "from p | where "+g.keyFilter(2+i%2, lc.MaxKey))
		}
		progs = append(progs, fmt.Sprintf("from p | where k < %d or c == 5 | count()", lo), fmt.Sprintf("from p | where c == 5 or k > %d | sort c,id | head 3", hi))
		for i, prog := range progs {
			c.lakeCase(env, lc, prog, 1)
			if i%3 == 0 {
				c.lakeCase(env, lc, prog, 2)
			}
		}
	}
}

func (c *c07) lakeUnit(r *Rng) {
	res := c.res
	if c.curUnit == 0 {
		c.lakeSeededUnit(r)
		return
	}
	lc := genLakeCase(r)
	c.mark(map[string]any{"oracle": "lake", "phase": "build", "pool": lc})
	env, err := lc.build()
	if err != nil {
		res.Count("lake:build-error")
		return
	}
	res.Count("lake:pools")
	res.Count("lake:" + lc.layout())
	nprog := 4
	for i := 0; i < nprog; i++ {
		prog := lc.program(r)
		par := Pick(r, []int{1, 1, 2, 3, 4})
		c.lakeCase(env, lc, prog, par)
	}
}

func (c *c07) lakeCase(env *LakeEnv, lc *lakeCase, prog string, par int) {
	res := c.res
	tag := "lake"
	if par > 1 {
		tag = "lakepar"
	}
	lakeMark = func(phase string) {
		c.mark(map[string]any{"oracle": tag, "phase": phase, "program": prog, "pool": lc, "par": par})
	}
	defer func() { lakeMark = func(string) {} }()
	d, a, b, st := checkLake(env, lc, prog, par)
	if a.Err != nil {
		res.Count(tag + ":skipped-unopt-" + errClass(a.Err) + "-" + a.Stage)
		return
	}
	res.Evaluations++
	res.Count(tag + ":class-" + st.Class.String())
	if c.mc != nil && b.Err == nil {
		c.mc.addLake(a.Analysed, b.Final, lc.KeyPath, lc.Desc)
	}
	changed := dagText(a.Analysed) != dagText(b.Final)
	if len(a.Out) > 0 && changed && st.Class != clsAmb {
		c.distinct(fmt.Sprintf("%s|%s|%s|par%d", tag, opKinds(a.Analysed), lc.layout(), par))
	}
	if par > 1 && b.Err == nil && st.Class == clsSeq {
		// only where the program defines the whole output sequence
		if bad := mergeKeyCheck(env, lc, b.Final); bad != "" && d == nil {
			d = &diff{"merge-key-destroyed", "values reaching `merge " + lc.KeyPath + "` keep the distinct pool keys of the sequential scan order", bad}
		}
	}
	if d == nil {
		return
	}
	if d.Kind != "merge-key-destroyed" && !strings.HasPrefix(d.Kind, "opt-timeout") {
		if !stable(func() (*diff, runOut) { d, a, _, _ := checkLake(env, lc, prog, par); return d, a }, d, a, st) {
			res.Count(tag + ":unstable-disagreement-ignored")
			return
		}
		p2, _ := shrink(prog, []string{"-"}, func(p string, _ []string) bool {
			if !strings.HasPrefix(p, "from p") {
				return false
			}
			d2, a2, _, _ := checkLake(env, lc, p, par)
			return a2.Err == nil && d2 != nil && d2.Kind == d.Kind
		})
		if d2, a2, b2, st2 := checkLake(env, lc, p2, par); a2.Err == nil && d2 != nil {
			prog, d, a, b, st = p2, d2, a2, b2, st2
		}
	}
	oracle := "lake-opt"
	if par > 1 {
		oracle = "lake-parallel"
	}
	if lc.Mixed {
		// the pool holds null, typed null, missing or mixed-type keys
		oracle += "[nullish-keys]"
	}
	res.Fail(Failure{
		Kind: "oracle",
		Sig:  fmt.Sprintf("%s:%s:%s", oracle, d.Kind, opKinds(a.Analysed)),
		Detail: fmt.Sprintf("pool(%s, %d loads) program %q at parallelism %d (order class %s): optimized plan differs from the plan as analysed [%s]; optimized plan:\n%s",
			lc.layout(), len(lc.Loads), prog, par, st, d.Kind, dagText(b.Final)),
		Replay:   map[string]any{"program": prog, "pool": lc, "par": par, "entry": "compiler.NewJob(lake) [+Optimize+Parallelize] + Build"},
		Expected: d.Expected, Observed: d.Observed,
	})
}
