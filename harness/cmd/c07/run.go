package main

import (
	"context"
	"errors"
	"fmt"
	"regexp"
	"strings"
	"time"

	zed "github.com/brimdata/super"
	"github.com/brimdata/super/compiler"
	"github.com/brimdata/super/compiler/ast/dag"
	"github.com/brimdata/super/compiler/data"
	"github.com/brimdata/super/compiler/kernel"
	"github.com/brimdata/super/order"
	"github.com/brimdata/super/pkg/field"
	"github.com/brimdata/super/pkg/storage"
	"github.com/brimdata/super/runtime"
	"github.com/brimdata/super/runtime/exec"
	"github.com/brimdata/super/runtime/sam/expr"
	"github.com/brimdata/super/zbuf"
	"github.com/brimdata/super/zfmt"
	"github.com/brimdata/super/zio/zsonio"
	"github.com/brimdata/super/zson"
	. "zvh/hx"
)

// A plan is one way of turning the analysed DAG into a running flowgraph.
type planMode struct {
	Optimize bool
	Decl     *order.SortKey // declared sort key of the default scan (file/stream input)
	Par      int            // lake only: Parallelize(n) after Optimize when > 1
}

type runOut struct {
	Out      []string
	Err      error  // compile/build/run error (or PANIC/TIMEOUT)
	Stage    string // where Err happened: parse, analyze, optimize, build, run
	Analysed dag.Seq
	Final    dag.Seq
}

var errTimeout = errors.New("TIMEOUT: query did not finish")

var watchdog = 5 * time.Second

// drainWatch drains p under a watchdog; on timeout the context is cancelled.
func drainWatch(rctx *runtime.Context, p zbuf.Puller, d time.Duration) ([]string, error) {
	type res struct {
		out []string
		err error
	}
	ch := make(chan res, 1)
	go func() {
		var out []string
		err := Safely(func() error {
			var e error
			out, e = Drain(p)
			return e
		})
		ch <- res{out, err}
	}()
	select {
	case r := <-ch:
		return r.out, r.err
	case <-time.After(d):
		cancelAsync(rctx)
		select {
		case <-ch:
		case <-time.After(2 * time.Second):
		}
		return nil, errTimeout
	}
}

// cancelAsync: runtime.Context.Cancel waits for the operators' goroutines
// (WaitGroup); one that never finishes must not block the harness.
func cancelAsync(rctx *runtime.Context) {
	if rctx == nil {
		return
	}
	done := make(chan struct{})
	go func() {
		defer close(done)
		defer func() { recover() }()
		rctx.Cancel()
	}()
	select {
	case <-done:
	case <-time.After(2 * time.Second):
		cancelStuck++
	}
}

var cancelStuck int

// guard bounds a whole compile+build+run: whatever blocks outside the drain
// watchdog (Build, Optimize, Cancel) is reported as a timeout as well.
func guard(f func() runOut) runOut {
	ch := make(chan runOut, 1)
	go func() { ch <- f() }()
	select {
	case r := <-ch:
		return r
	case <-time.After(watchdog + 8*time.Second):
		guardStuck++
		return runOut{Err: errTimeout, Stage: "run"}
	}
}

var guardStuck int

func copySeq(seq dag.Seq) dag.Seq {
	// JSON round trip, the same way the optimizer copies ops.
	var out dag.Seq
	err := Safely(func() error {
		for _, o := range seq {
			b, err := jsonMarshal(o)
			if err != nil {
				return err
			}
			c, err := dag.UnmarshalOp(b)
			if err != nil {
				return err
			}
			out = append(out, c)
		}
		return nil
	})
	if err != nil {
		return nil
	}
	return out
}

// runFile runs src over the ZSON text input with the plain (file/stream) compiler
// entry points: compiler.NewJob [+ Job.Optimize] + Job.Build(reader).
func runFile(src, input string, m planMode) runOut {
	return guard(func() runOut { return runFile1(src, input, m) })
}

func runFile1(src, input string, m planMode) (r runOut) {
	var rctx *runtime.Context
	err := Safely(func() error {
		r.Stage = "parse"
		seq, _, err := compiler.Parse(src)
		if err != nil {
			return err
		}
		zctx := zed.NewContext()
		rctx = runtime.NewContext(context.Background(), zctx)
		r.Stage = "analyze"
		job, err := compiler.NewJob(rctx, seq, data.NewSource(nil, nil), nil)
		if err != nil {
			return err
		}
		scan, ok := job.DefaultScan()
		if !ok {
			return errNoDefaultScan
		}
		if m.Decl != nil {
			scan.SortKeys = order.SortKeys{*m.Decl}
		}
		r.Analysed = copySeq(job.Entry())
		if m.Optimize {
			r.Stage = "optimize"
			if err := job.Optimize(); err != nil {
				return err
			}
		}
		r.Final = job.Entry()
		r.Stage = "build"
		if err := job.Build(zsonio.NewReader(zctx, strings.NewReader(input))); err != nil {
			return err
		}
		p := job.Puller()
		if p == nil {
			return errors.New("no puller")
		}
		q := exec.NewQuery(rctx, p, job.Builder().Meter())
		r.Stage = "run"
		out, err := drainWatch(rctx, q, watchdog)
		r.Out = out
		return err
	})
	cancelAsync(rctx)
	r.Err = err
	if err == nil {
		r.Stage = ""
	}
	return r
}

var errNoDefaultScan = errors.New("program has its own source")

// runLake runs src (which starts with "from <pool>") on the lake.
func runLake(env *LakeEnv, src string, m planMode) runOut {
	return guard(func() runOut { return runLake1(env, src, m) })
}

func runLake1(env *LakeEnv, src string, m planMode) (r runOut) {
	var rctx *runtime.Context
	err := Safely(func() error {
		r.Stage = "analyze"
		job, rc, err := env.LakeJob(src)
		if err != nil {
			return err
		}
		rctx = rc
		r.Analysed = copySeq(job.Entry())
		if m.Optimize {
			r.Stage = "optimize"
			if err := job.Optimize(); err != nil {
				return err
			}
			if m.Par > 1 {
				r.Stage = "parallelize"
				if err := job.Parallelize(m.Par); err != nil {
					return err
				}
			}
		}
		r.Final = job.Entry()
		r.Stage = "build"
		if err := job.Build(); err != nil {
			return err
		}
		p := job.Puller()
		if p == nil {
			return errors.New("no puller")
		}
		q := exec.NewQuery(rctx, p, job.Builder().Meter())
		r.Stage = "run"
		out, err := drainWatch(rctx, q, watchdog)
		r.Out = out
		return err
	})
	cancelAsync(rctx)
	r.Err = err
	if err == nil {
		r.Stage = ""
	}
	return r
}

func dagText(seq dag.Seq) (s string) {
	if seq == nil {
		return ""
	}
	if err := Safely(func() error { s = zfmt.DAG(seq); return nil }); err != nil {
		return "<zfmt: " + err.Error() + ">"
	}
	return s
}

// sortInput returns the values of input (ZSON text) stably sorted the way a
// pool / a declared sort key orders them: expr.NewComparator(nullsMax=true,
// key, order).WithMissingAsNull().
func sortInput(input string, key field.Path, o order.Which) (string, error) {
	var sb strings.Builder
	err := Safely(func() error {
		zctx := zed.NewContext()
		zr := zsonio.NewReader(zctx, strings.NewReader(input))
		var vals []zed.Value
		for {
			v, err := zr.Read()
			if err != nil {
				return err
			}
			if v == nil {
				break
			}
			vals = append(vals, v.Copy())
		}
		cmp := expr.NewComparator(true, expr.NewSortEvaluator(expr.NewDottedExpr(zctx, key), o)).WithMissingAsNull()
		cmp.SortStable(vals)
		for _, v := range vals {
			sb.WriteString(zson.FormatValue(v))
			sb.WriteByte('\n')
		}
		return nil
	})
	return sb.String(), err
}

// project evaluates `yield [e1,e2,...]` over already formatted values.
func project(vals []string, exprs []string) ([]string, error) {
	if len(vals) == 0 {
		return nil, nil
	}
	out, err := RunQuery("yield ["+strings.Join(exprs, ",")+"]", strings.Join(vals, "\n"))
	// sort, merge and pools order missing, null and typed null keys alike
	for i := range out {
		out[i] = nullish.ReplaceAllString(out[i], "null")
	}
	return out, err
}

var nullish = regexp.MustCompile(`error\("missing"\)|null\([a-z0-9]+\)`)

func errClass(err error) string {
	if err == nil {
		return "ok"
	}
	s := err.Error()
	switch {
	case strings.HasPrefix(s, "PANIC"):
		return "panic"
	case strings.HasPrefix(s, "TIMEOUT"):
		return "timeout"
	}
	return "error"
}

func short(s string, n int) string {
	if len(s) > n {
		return s[:n] + fmt.Sprintf("...(%d bytes)", len(s))
	}
	return s
}

// runLakeDag builds and runs a DAG as it is (no optimizer) on the lake.
func runLakeDag(env *LakeEnv, seq dag.Seq) (out []string, err error) {
	var rctx *runtime.Context
	err = Safely(func() error {
		rctx = runtime.NewContext(context.Background(), zed.NewContext())
		b := kernel.NewBuilder(rctx, data.NewSource(storage.NewRemoteEngine(), env.Root))
		outs, err := b.Build(seq)
		if err != nil {
			return err
		}
		for _, p := range outs {
			out, err = drainWatch(rctx, p, watchdog)
			return err
		}
		return errors.New("no output")
	})
	cancelAsync(rctx)
	return out, err
}
