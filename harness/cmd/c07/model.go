package main

import (
	"encoding/json"
	"fmt"
	"os"
	"strings"

	"github.com/brimdata/super/compiler/ast/dag"
	"github.com/brimdata/super/order"
	. "zvh/hx"
)

// Correspondence with coq/Model/Optimizer.v: for every file/stream program
// whose analysed DAG lies in the modelled subset, the analysed DAG and the DAG
// Optimizer.Optimize produced are written as Gallina terms; Coq evaluates the
// model's optimize on the former and compares.

type modelCases struct {
	n       int
	items   []string
	slicer  []string // lake cases: (analysed DAG, Slicer inserted?)
	poolSK  string   // sort keys of the pool a PoolScan is written with ("" = not a lake case)
	seen    map[string]bool
	skipped int
	intern  map[string]int
}

func newModelCases() *modelCases {
	return &modelCases{seen: map[string]bool{}, intern: map[string]int{}}
}

type notModelled struct{ what string }

func (m *modelCases) id(s string) int {
	if n, ok := m.intern[s]; ok {
		return n
	}
	n := len(m.intern) + 10
	m.intern[s] = n
	return n
}

func (m *modelCases) path(p []string) string {
	var xs []string
	for _, f := range p {
		xs = append(xs, fmt.Sprintf("%d", m.id("field:"+f)))
	}
	return "[" + strings.Join(xs, ";") + "]%N"
}

func jsonOf(v any) string {
	b, _ := json.Marshal(v)
	return string(b)
}

// operator codes shared with coq/Model/Optimizer.v (prunable)
var binopCodes = map[string]int{"and": 0, "or": 1, "==": 2, "<": 3, "<=": 4, ">": 5, ">=": 6}

var orderCalls = map[string]int{"bucket": 1, "ceil": 2, "floor": 3, "round": 4, "every": 5}

func (m *modelCases) expr(e dag.Expr) string {
	switch e := e.(type) {
	case *dag.This:
		return "(EThis " + m.path(e.Path) + ")"
	case *dag.Literal:
		return fmt.Sprintf("(ELit %d)", m.id("lit:"+e.Value))
	case *dag.Search:
		return fmt.Sprintf("(ESearch %d)", m.id("search:"+jsonOf(e)))
	case *dag.UnaryExpr:
		return fmt.Sprintf("(EUnary %d %s)", m.id("unop:"+e.Op), m.expr(e.Operand))
	case *dag.BinaryExpr:
		op, ok := binopCodes[e.Op]
		if !ok {
			op = m.id("binop:" + e.Op)
		}
		return fmt.Sprintf("(EBinary %d %s %s)", op, m.expr(e.LHS), m.expr(e.RHS))
	case *dag.RegexpMatch:
		return fmt.Sprintf("(ERegexp %d %s)", m.id("re:"+e.Pattern), m.expr(e.Expr))
	case *dag.Call:
		fn, ok := orderCalls[e.Name]
		if !ok {
			fn = m.id("fn:" + e.Name)
		}
		var args []string
		for _, a := range e.Args {
			args = append(args, m.expr(a))
		}
		return fmt.Sprintf("(ECall %d [%s])", fn, strings.Join(args, ";"))
	case nil:
		panic(notModelled{"nil expr"})
	}
	return fmt.Sprintf("(EOther %d)", m.id("expr:"+jsonOf(e)))
}

func (m *modelCases) assignments(as []dag.Assignment) string {
	var xs []string
	for _, a := range as {
		if a.LHS == nil {
			panic(notModelled{"assignment without LHS"})
		}
		xs = append(xs, "("+m.expr(a.LHS)+", "+m.expr(a.RHS)+")")
	}
	return "[" + strings.Join(xs, ";") + "]"
}

func coqBool(b bool) string {
	if b {
		return "true"
	}
	return "false"
}

func (m *modelCases) sortKeys(sk order.SortKeys) string {
	var xs []string
	for _, k := range sk {
		xs = append(xs, fmt.Sprintf("(%s, %s)", coqBool(k.Order == order.Desc), m.path(k.Key)))
	}
	return "[" + strings.Join(xs, ";") + "]"
}

func (m *modelCases) seq(s dag.Seq) string {
	var xs []string
	for _, o := range s {
		xs = append(xs, m.op(o))
	}
	return "[" + strings.Join(xs, ";\n   ") + "]"
}

func (m *modelCases) op(o dag.Op) string {
	switch o := o.(type) {
	case *dag.DefaultScan:
		f := "None"
		if o.Filter != nil {
			f = "(Some " + m.expr(o.Filter) + ")"
		}
		return fmt.Sprintf("(OScan %s %s)", m.sortKeys(o.SortKeys), f)
	case *dag.PoolScan:
		if m.poolSK == "" {
			panic(notModelled{"pool scan outside a lake case"})
		}
		return fmt.Sprintf("(OScan %s None)", m.poolSK)
	case *dag.Filter:
		return "(OFilter " + m.expr(o.Expr) + ")"
	case *dag.Cut:
		return "(OCut " + m.assignments(o.Args) + ")"
	case *dag.Drop:
		var xs []string
		for _, e := range o.Args {
			xs = append(xs, m.expr(e))
		}
		return "(ODrop [" + strings.Join(xs, ";") + "])"
	case *dag.Put:
		return "(OPut " + m.assignments(o.Args) + ")"
	case *dag.Rename:
		return "(ORename " + m.assignments(o.Args) + ")"
	case *dag.Sort:
		var xs []string
		for _, a := range o.Args {
			xs = append(xs, fmt.Sprintf("(%s, %s)", m.expr(a.Key), coqBool(a.Order == order.Desc)))
		}
		return fmt.Sprintf("(OSort [%s] %s %s)", strings.Join(xs, ";"), coqBool(o.NullsFirst), coqBool(o.Reverse))
	case *dag.Head:
		return fmt.Sprintf("(OHead %d)", o.Count)
	case *dag.Tail:
		return fmt.Sprintf("(OTail %d)", o.Count)
	case *dag.Pass:
		return "OPass"
	case *dag.Uniq:
		return "(OUniq " + coqBool(o.Cflag) + ")"
	case *dag.Fuse:
		return "OFuse"
	case *dag.Yield:
		return fmt.Sprintf("(OYield %d)", m.id("yield:"+jsonOf(o)))
	case *dag.Summarize:
		return fmt.Sprintf("(OSummarize %d %s %d (%d)%%Z %s %s)", o.Limit, m.assignments(o.Keys), m.id("aggs:"+jsonOf(o.Aggs)),
			o.InputSortDir, coqBool(o.PartialsIn), coqBool(o.PartialsOut))
	case *dag.Fork:
		var ps []string
		for _, p := range o.Paths {
			ps = append(ps, m.seq(p))
		}
		return "(OFork [" + strings.Join(ps, ";\n   ") + "])"
	case *dag.Merge:
		return fmt.Sprintf("(OMerge %s %s)", m.expr(o.Expr), coqBool(o.Order == order.Desc))
	case *dag.Combine:
		return "OCombine"
	case *dag.Join:
		return fmt.Sprintf("(OJoin %d %s %s (%d)%%Z (%d)%%Z)", m.id("join:"+o.Style+jsonOf(o.Args)), m.expr(o.LeftKey), m.expr(o.RightKey), int(o.LeftDir), int(o.RightDir))
	case *dag.Over:
		if len(o.Defs) > 0 && false {
			panic(notModelled{"over with locals"})
		}
		id := m.id("over:" + jsonOf(o.Exprs) + jsonOf(o.Defs))
		if o.Body == nil {
			return fmt.Sprintf("(OOver %d None)", id)
		}
		return fmt.Sprintf("(OOver %d (Some %s))", id, m.seq(o.Body))
	case *dag.Output:
		return fmt.Sprintf("(OOutput %d)", m.id("out:"+o.Name))
	case *dag.Switch:
		// walk, walkEntries and propagateSortKey do not look inside a switch
		return fmt.Sprintf("(OOther %d)", m.id("switch:"+jsonOf(o)))
	case *dag.Top, *dag.Explode, *dag.Shape:
		return fmt.Sprintf("(OOther %d)", m.id("other:"+jsonOf(o)))
	}
	panic(notModelled{fmt.Sprintf("%T", o)})
}

// add records one correspondence case: analysed DAG -> optimized DAG
// (final == nil: the optimizer panicked with "Duplicate op value").
func (m *modelCases) add(analysed, final dag.Seq, panicked bool) {
	var item string
	err := func() (err error) {
		defer func() {
			if r := recover(); r != nil {
				if nm, ok := r.(notModelled); ok {
					err = fmt.Errorf("not modelled: %s", nm.what)
					return
				}
				panic(r)
			}
		}()
		a := m.seq(analysed)
		b := "None"
		if !panicked {
			b = "(Some " + m.seq(final) + ")"
		}
		item = "(" + a + ",\n  " + b + ")"
		return nil
	}()
	if err != nil {
		m.skipped++
		return
	}
	if m.seen[item] {
		return
	}
	m.seen[item] = true
	m.items = append(m.items, item)
	m.n++
}

// addLake records one lake case: the analysed DAG of `from p | ...` and
// whether the optimized plan has a Slicer between Lister and SeqScan.
func (m *modelCases) addLake(analysed, final dag.Seq, keyPath string, desc bool) {
	if len(analysed) < 2 || len(final) < 2 {
		return
	}
	if _, ok := analysed[0].(*dag.PoolScan); !ok {
		return
	}
	if _, ok := final[0].(*dag.Lister); !ok {
		return
	}
	_, hasSlicer := final[1].(*dag.Slicer)
	hasPruner := final[0].(*dag.Lister).KeyPruner != nil
	var item string
	err := func() (err error) {
		defer func() {
			if r := recover(); r != nil {
				if nm, ok := r.(notModelled); ok {
					err = fmt.Errorf("not modelled: %s", nm.what)
					return
				}
				panic(r)
			}
		}()
		m.poolSK = fmt.Sprintf("[(%s, %s)]", coqBool(desc), m.path(strings.Split(keyPath, ".")))
		defer func() { m.poolSK = "" }()
		item = "(" + m.seq(analysed) + ",\n  " + coqBool(hasSlicer) + ", " + coqBool(hasPruner) + ")"
		return nil
	}()
	if err != nil {
		m.skipped++
		return
	}
	if m.seen[item] {
		return
	}
	m.seen[item] = true
	m.slicer = append(m.slicer, item)
	m.n++
}

func writeCases(sb *strings.Builder, name, ty string, items []string, maxBytes int) {
	total := 0
	for i, it := range items {
		total += len(it)
		if total > maxBytes {
			items = items[:i]
			break
		}
	}
	const chunk = 200
	var parts []string
	for i := 0; i < len(items); i += chunk {
		j := i + chunk
		if j > len(items) {
			j = len(items)
		}
		pn := fmt.Sprintf("%s_%d", name, i/chunk)
		fmt.Fprintf(sb, "Definition %s : list %s := [\n %s].\n", pn, ty, strings.Join(items[i:j], ";\n "))
		parts = append(parts, pn)
	}
	if len(parts) == 0 {
		fmt.Fprintf(sb, "Definition %s : list %s := [].\n", name, ty)
	} else {
		fmt.Fprintf(sb, "Definition %s : list %s := %s.\n", name, ty, strings.Join(parts, " ++ "))
	}
}

func (m *modelCases) write(path string) error {
	var sb strings.Builder
	sb.WriteString("From ZV Require Import Base.Prelude Model.Dag Model.Optimizer Model.OptimizerCases.\nLocal Open Scope N_scope.\n")
	writeCases(&sb, "opt_cases", "(seq * option seq)", m.items, 800<<10)
	writeCases(&sb, "lake_cases", "(seq * bool * bool)", m.slicer, 300<<10)
	sb.WriteString("Definition M := Eval vm_compute in (opt_mismatches opt_cases, lake_mismatches lake_cases).\nPrint M.\n")
	return os.WriteFile(path, []byte(sb.String()), 0644)
}

var _ = Safely
