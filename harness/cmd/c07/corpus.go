package main

import (
	"fmt"
	"io/fs"
	"os"
	"path/filepath"
	"sort"
	"strings"

	"github.com/brimdata/super/order"
	"github.com/brimdata/super/ztest"
	. "zvh/hx"
)

// The repo's own program corpus: every ztest (*.yaml under a ztests directory)
// that has a `zed:` program and an inline `input:`, plus the programs of
// compiler/parser/valid.zed run over a generated input.

type corpusItem struct {
	Name  string
	Prog  string
	Input string // "" = generated
}

var corpusCache []corpusItem

func repoRoot() string {
	if r := os.Getenv("VERIF_REPO"); r != "" {
		return r
	}
	return "/repo"
}

func corpusItems() []corpusItem {
	if corpusCache != nil {
		return corpusCache
	}
	var items []corpusItem
	root := repoRoot()
	var files []string
	filepath.WalkDir(root, func(p string, d fs.DirEntry, err error) error {
		if err != nil {
			return nil
		}
		if d.IsDir() && (d.Name() == ".git" || d.Name() == "node_modules") {
			return filepath.SkipDir
		}
		if !d.IsDir() && strings.HasSuffix(p, ".yaml") && strings.Contains(p, "/ztests/") {
			files = append(files, p)
		}
		return nil
	})
	sort.Strings(files)
	for _, f := range files {
		var z *ztest.ZTest
		if err := Safely(func() error {
			var err error
			z, err = ztest.FromYAMLFile(f)
			return err
		}); err != nil || z == nil {
			continue
		}
		if z.Zed == "" || z.Input == "" || z.ErrorRE != "" || z.InputFlags != "" || z.Skip != "" {
			continue
		}
		items = append(items, corpusItem{Name: strings.TrimPrefix(f, root+"/"), Prog: z.Zed, Input: z.Input})
	}
	if b, err := os.ReadFile(root + "/compiler/parser/valid.zed"); err == nil {
		for i, l := range strings.Split(string(b), "\n") {
			if strings.TrimSpace(l) == "" {
				continue
			}
			items = append(items, corpusItem{Name: fmt.Sprintf("compiler/parser/valid.zed:%d", i+1), Prog: l})
		}
	}
	corpusCache = items
	return items
}

func corpusSize() int { return len(corpusItems()) }

func (c *c07) corpusUnit(r *Rng, i int) {
	items := corpusItems()
	if i >= len(items) {
		return
	}
	it := items[i]
	c.curKey = ""
	c.res.Count("corpus:programs")
	saved := judgeUnique
	defer func() { judgeUnique = saved }()
	if it.Input == "" {
		input := genInput(r, inputCfg{N: 10 + r.Intn(20), KeyPath: "k", KeysMixed: r.Bool()})
		c.fileCase("corpus", it.Prog, input, nil)
		return
	}
	judgeUnique = ""
	// the input must be ZSON for this harness
	if _, err := RunQuery("pass", it.Input); err != nil {
		c.res.Count("corpus:skipped-input-not-zson")
		return
	}
	var lines []string
	for _, l := range strings.Split(it.Input, "\n") {
		if strings.TrimSpace(l) != "" {
			lines = append(lines, l)
		}
	}
	if _, err := RunQuery("pass", strings.Join(lines, "\n")); err != nil {
		lines = []string{it.Input}
	}
	c.fileCase("corpus", it.Prog, lines, nil)
}

// ---------------------------------------------------------------- seeded idioms

type seededCase struct {
	Prog string
	Decl string // "", "k:asc", "k:desc", "n.x:asc"
	Big  bool   // several batches of input (> 100 values)
	Null bool   // null / missing / mixed-type keys
}

// Programs aimed at particular optimizer branches; run on every invocation so
// that the branches are exercised whatever the seed.
var seededCases = []seededCase{
	{Prog: "where a > 1 | where c < 10"},
	{Prog: "where a > 1 | pass | where c < 10 | pass | where b == \"x\""},
	{Prog: "pass"},
	{Prog: "pass | pass"},
	{Prog: "cut k,c | where k > 2 | where c > 3"},
	{Prog: "fork ( => where a > 1 | where c < 10 => pass | pass ) | sort id"},
	{Prog: "over arr => ( where this > 1 | pass | where this < 8 )"},
	{Prog: "where a"},
	{Prog: "where len(s) > 1 | where c > 3"},
	{Prog: "fork ( => pass => pass ) | sort k"},
	{Prog: "fork ( => pass => pass ) | sort -r k"},
	{Prog: "fork ( => pass => pass ) | sort -nulls first k", Null: true},
	{Prog: "fork ( => pass => pass ) | sort k,id"},
	{Prog: "fork ( => pass => where a > 1 ) | head 3 | count()"},
	{Prog: "fork ( => pass => where a > 1 ) | cut k,c,id | sort id"},
	{Prog: "fork ( => pass => where a > 1 ) | count() by k | sort k"},
	{Prog: "fork ( => pass => where a > 1 ) | n:=count(),t:=sum(c) by kk:=k | sort kk"},
	{Prog: "fork ( => sort k => sort k ) | merge k | cut c,id"},
	{Prog: "fork ( => sort k => sort k ) | merge k | drop k"},
	{Prog: "fork ( => sort k => sort k ) | merge k | put z:=1"},
	{Prog: "fork ( => pass => pass ) | where c > 3 | fork ( => pass => pass ) | where a > 1"},
	{Prog: "count() by k", Decl: "k:asc", Big: true},
	{Prog: "count() by k", Decl: "k:desc", Big: true, Null: true},
	{Prog: "sum(c) by k | sort k", Decl: "k:asc", Big: true, Null: true},
	{Prog: "count() by kk:=k", Decl: "k:asc", Big: true},
	{Prog: "count() by k:=c", Decl: "k:asc", Big: true},
	{Prog: "count() by k:=floor(k)", Decl: "k:asc", Big: true},
	{Prog: "count() by a,k", Decl: "k:asc", Big: true},
	{Prog: "count() by k,a", Decl: "k:desc", Big: true},
	{Prog: "count() by n.x", Decl: "n.x:asc", Big: true},
	{Prog: "where c > 2 | head 250 | uniq | count() by k", Decl: "k:asc", Big: true},
	{Prog: "drop k | count() by k", Decl: "k:asc", Big: true},
	{Prog: "drop a | count() by k", Decl: "k:desc", Big: true},
	{Prog: "put k:=c | count() by k", Decl: "k:asc", Big: true},
	{Prog: "put d:=c | count() by k", Decl: "k:asc", Big: true},
	{Prog: "rename kk:=k | count() by kk", Decl: "k:asc", Big: true},
	{Prog: "rename q:=c | count() by k", Decl: "k:asc", Big: true},
	{Prog: "cut k,c | count() by k", Decl: "k:asc", Big: true},
	{Prog: "cut kk:=k,c | count() by kk", Decl: "k:desc", Big: true},
	{Prog: "cut k:=c | count() by k", Decl: "k:asc", Big: true},
	{Prog: "cut c | rename k:=c | count() by k", Decl: "k:asc", Big: true},
	{Prog: "put n:={x:c} | count() by n.x", Decl: "n.x:asc", Big: true},
	{Prog: "drop n | count() by n.x", Decl: "n.x:asc", Big: true},
	{Prog: "yield {k:c} | count() by k", Decl: "k:asc", Big: true},
	{Prog: "sort c | count() by k", Decl: "k:asc", Big: true},
	{Prog: "sort -r k | count() by k", Big: true},
	{Prog: "sort k | count() by k | head 5", Big: true},
	{Prog: "fork ( => pass => pass ) | count() by k", Decl: "k:asc", Big: true},
	{Prog: "count() by k with -limit 2", Decl: "k:asc", Big: true},
	{Prog: "fork ( => pass => pass ) | join on k=k z:=c", Big: false},
	{Prog: "fork ( => sort k => sort k ) | join on k=k z:=c"},
	{Prog: "fork ( => sort -r k => sort -r k ) | left join on k=k z:=c", Null: true},
	{Prog: "fork ( => sort k => sort -r k ) | inner join on k=k z:=c"},
	{Prog: "fork ( => sort k => sort a ) | right join on k=a z:=c"},
	{Prog: "fork ( => pass => pass ) | join on k=k z:=c", Decl: "k:asc"},
	{Prog: "fork ( => pass => sort -r k ) | anti join on k=k", Decl: "k:desc", Null: true},
	{Prog: "fork ( => pass => put n.z:=1 | uniq ) | join on k=k rid:=id", Decl: "k:desc", Big: true},
	{Prog: "put n:={x:c} | count() by n.x | sort n.x", Decl: "n.x:asc", Big: true},
	{Prog: "rename m:=n | count() by n.x", Decl: "n.x:desc", Big: true},
	{Prog: "union(c) by n.x with -limit 3 | sort n.x", Decl: "n.x:desc", Big: true},
	{Prog: "summarize and(a > 0) by k with -limit 3", Decl: "k:asc", Big: true},
	{Prog: "summarize union(a) by k", Decl: "k:asc", Big: true, Null: true},
	{Prog: "fork ( => fuse => pass ) | sort n.x"},
}

func parseDeclString(s string) *order.SortKey {
	if s == "" {
		return nil
	}
	parts := strings.Split(s, ":")
	return parseDecl(parts[0], len(parts) > 1 && parts[1] == "desc")
}

func (c *c07) seededUnit(i int) {
	if i >= len(seededCases) {
		return
	}
	sc := seededCases[i]
	r := unitRng(c.o.Seed, "seeded-input", i)
	decl := parseDeclString(sc.Decl)
	keyPath := "k"
	if decl != nil {
		keyPath = strings.Join(decl.Key, ".")
	}
	n := 14 + r.Intn(12)
	if sc.Big {
		n = 230 + r.Intn(80)
	}
	input := genInput(r, inputCfg{N: n, KeyPath: keyPath, KeysMixed: sc.Null})
	c.curKey = keyPath
	c.res.Count("seeded:programs")
	if decl == nil {
		c.fileCase("seeded", sc.Prog, input, nil)
		return
	}
	sorted, err := sortInput(strings.Join(input, "\n"), decl.Key, decl.Order)
	if err != nil {
		return
	}
	c.fileCase("seeded", sc.Prog, strings.Split(strings.TrimSpace(sorted), "\n"), decl)
}

// ---------------------------------------------------------------- the `and` law

// The Coq model's hypothesis about filters: on values where p and q evaluate
// cleanly (no error other than missing), `where p | where q` and
// `where p and q` keep the same values in the same order.  Checked here on the
// real evaluator (both programs run as analysed, without the optimizer).
func (c *c07) lawUnit(r *Rng, i int) {
	g := &progGen{r: r, key: "k"}
	p, q := g.pred(), g.pred()
	input := strings.Join(genInput(r, inputCfg{N: 20, KeyPath: "k", KeysMixed: true}), "\n")
	c.mark(map[string]any{"oracle": "law", "phase": "unopt", "program": p + " / " + q})
	clean := func(pred string) bool {
		out := runFile("yield "+pred, input, planMode{})
		if out.Err != nil {
			return false
		}
		for _, v := range out.Out {
			if strings.HasPrefix(v, "error(") && v != `error("missing")` {
				return false
			}
			if v != "true" && v != "false" && v != "null(bool)" && v != `error("missing")` {
				return false
			}
		}
		return true
	}
	if !clean(p) || !clean(q) {
		c.res.Count("law:skipped-unclean-predicate")
		return
	}
	a := runFile("where "+p+" | where "+q, input, planMode{})
	b := runFile("where ("+p+") and ("+q+")", input, planMode{})
	if a.Err != nil || b.Err != nil {
		c.res.Count("law:skipped-error")
		return
	}
	c.res.Evaluations++
	c.res.Count("law:checked")
	if strings.Join(a.Out, "\n") != strings.Join(b.Out, "\n") {
		c.res.Fail(Failure{Kind: "oracle", Sig: "law:and-of-clean-filters", Detail: fmt.Sprintf("where %s | where %s differs from where (%s) and (%s) although both predicates evaluate to bool/null/missing on every input value (hypothesis and_law of the Coq model)", p, q, p, q),
			Replay: map[string]any{"p": p, "q": q, "input": strings.Split(input, "\n")}, Expected: joinShort(a.Out), Observed: joinShort(b.Out)})
	}
}
