package main

import (
	"fmt"
	"strings"

	. "zvh/hx"
)

// ---------------------------------------------------------------- inputs

type inputCfg struct {
	N         int
	KeyPath   string // "k" or "n.x": the field used as (declared / pool) sort key
	KeysMixed bool   // strings, floats, nulls and missing keys next to ints
	Unique    bool   // keys are distinct non-null ints present in every record
	Shapes    bool   // nearly disjoint field sets (what a fused type looks like depends on arrival order)
}

var genWords = []string{"foo", "bar", "baz", "Foo bar", "qux", ""}

func genKeyValue(r *Rng, c inputCfg, i int, perm []int) string {
	if c.Unique {
		return fmt.Sprint(perm[i])
	}
	span := c.N/2 + 1
	if c.KeysMixed {
		switch r.Intn(10) {
		case 0:
			return "null"
		case 1:
			return "" // missing
		case 2:
			return fmt.Sprintf("%q", Pick(r, []string{"a", "b", "foo"}))
		case 3:
			return Pick(r, []string{"1.5", "0.5", "2.", "-1."})
		case 4:
			return "null(int64)"
		}
	}
	return fmt.Sprint(r.Intn(span))
}

// genInput returns ZSON records: heterogeneous shapes, nulls, missing and
// duplicate keys.  Every record carries a unique int field id.
func genInput(r *Rng, c inputCfg) []string {
	perm := make([]int, c.N)
	for i := range perm {
		perm[i] = i * 3
	}
	Shuffle(r, perm)
	var out []string
	for i := 0; i < c.N; i++ {
		kv := genKeyValue(r, c, i, perm)
		if c.Shapes && c.KeyPath == "k" {
			// the shape is a function of the key, so that loads which split
			// the key space also split the shapes
			kk := i
			fmt.Sscan(kv, &kk)
			extra := [][]string{
				{fmt.Sprintf("a:%d", r.Intn(5))},
				{fmt.Sprintf("b:%q", Pick(r, []string{"x", "y", "z"}))},
				{fmt.Sprintf("c:%d", r.Intn(20)), fmt.Sprintf("s:%q", Pick(r, genWords))},
				{fmt.Sprintf("n:{x:%d}", r.Intn(4))},
				{fmt.Sprintf("ts:2024-01-01T%02d:00:00Z", r.Intn(4)), fmt.Sprintf("a:%d", r.Intn(5))},
			}[(kk/3)%5]
			f := []string{}
			if kv != "" {
				f = append(f, "k:"+kv)
			}
			f = append(f, extra...)
			f = append(f, fmt.Sprintf("id:%d", i))
			out = append(out, "{"+strings.Join(f, ",")+"}")
			continue
		}
		var f []string
		add := func(name, val string) { f = append(f, name+":"+val) }
		nested := c.KeyPath == "n.x"
		idFirst := r.Chance(1, 6)
		if idFirst {
			add("id", fmt.Sprint(i))
		}
		if !nested && kv != "" {
			add("k", kv)
		}
		if nested {
			// the key lives in n.x; k is just another field
			if r.Chance(4, 5) {
				add("k", fmt.Sprint(r.Intn(4)))
			}
		}
		switch r.Intn(8) {
		case 0:
			add("a", "null(int64)")
		case 1:
		default:
			add("a", fmt.Sprint(r.Intn(5)))
		}
		switch r.Intn(8) {
		case 0:
			add("b", fmt.Sprint(r.Intn(3)))
		case 1:
		default:
			add("b", fmt.Sprintf("%q", Pick(r, []string{"x", "y", "z", "foo"})))
		}
		add("c", fmt.Sprint(r.Intn(20)))
		if r.Chance(3, 4) {
			add("s", fmt.Sprintf("%q", Pick(r, genWords)))
		}
		if nested {
			if kv == "" {
				if r.Bool() {
					add("n", fmt.Sprintf("{y:%q}", Pick(r, genWords)))
				}
			} else {
				add("n", fmt.Sprintf("{x:%s,y:%q}", kv, Pick(r, genWords)))
			}
		} else {
			switch r.Intn(6) {
			case 0:
			case 1:
				add("n", fmt.Sprint(r.Intn(3)))
			case 2:
				add("n", fmt.Sprintf("{x:%d}", r.Intn(4)))
			default:
				add("n", fmt.Sprintf("{x:%d,y:%q}", r.Intn(4), Pick(r, genWords)))
			}
		}
		if r.Chance(1, 2) {
			var xs []string
			for j := r.Intn(4); j > 0; j-- {
				xs = append(xs, fmt.Sprint(r.Intn(10)))
			}
			add("arr", "["+strings.Join(xs, ",")+"]")
		}
		if r.Chance(2, 3) {
			add("ts", fmt.Sprintf("2024-01-01T%02d:%02d:00Z", r.Intn(4), r.Intn(60)))
		}
		if !idFirst {
			add("id", fmt.Sprint(i))
		}
		out = append(out, "{"+strings.Join(f, ",")+"}")
	}
	return out
}

// ---------------------------------------------------------------- programs

type progGen struct {
	r   *Rng
	key string // the field the generator treats as "the key" (k or n.x)
	// lake: avoid operators whose result legitimately depends on which of
	// several equal-key records comes first
	noOrderSensitiveAggs bool
	mixedKeys            bool // the key column holds strings, floats, nulls: no arithmetic on it
}

func (g *progGen) pred() string {
	r := g.r
	k := g.key
	switch r.Intn(16) {
	case 0:
		return fmt.Sprintf("%s > %d", k, r.Intn(6))
	case 1:
		return fmt.Sprintf("%s <= %d", k, r.Intn(8))
	case 2:
		return fmt.Sprintf("%s == %d", k, r.Intn(6))
	case 3:
		return fmt.Sprintf("a >= %d", r.Intn(4))
	case 4:
		return fmt.Sprintf("c < %d", 5+r.Intn(15))
	case 5:
		return fmt.Sprintf("b == %q", Pick(r, []string{"x", "y", "foo"}))
	case 6:
		return "has(s)"
	case 7:
		return fmt.Sprintf("n.x != %d", r.Intn(3))
	case 8:
		return fmt.Sprintf("a == null or c > %d", r.Intn(20))
	case 9:
		return fmt.Sprintf("not (a == %d)", r.Intn(4))
	case 10:
		return fmt.Sprintf("%d < %s and c != %d", r.Intn(5), k, r.Intn(20))
	case 11:
		return fmt.Sprintf("id %% %d == %d", 2+r.Intn(2), r.Intn(2))
	case 12:
		if r.Chance(1, 8) {
			return fmt.Sprintf("len(s) > %d", r.Intn(4)) // an error when s is missing
		}
		return fmt.Sprintf("c %% %d == 0", 2+r.Intn(3))
	case 13:
		return fmt.Sprintf("a + c > %d", r.Intn(15))
	case 14:
		if r.Chance(1, 8) {
			return "a" // non-boolean / missing valued predicate
		}
		return fmt.Sprintf("s in [%q,%q]", Pick(r, genWords), Pick(r, genWords))
	}
	return fmt.Sprintf("grep(/%s/, s)", Pick(r, []string{"fo", "ba", "^b", "x"}))
}

func (g *progGen) filter() string {
	r := g.r
	switch r.Intn(8) {
	case 0:
		return "search " + Pick(r, []string{"foo", "bar", "\"Foo bar\"", "x"})
	case 1:
		return Pick(r, []string{"foo", "baz", "search y or foo"})
	case 2:
		return fmt.Sprintf("where %s and %s", g.pred(), g.pred())
	}
	return "where " + g.pred()
}

func (g *progGen) cut() string {
	r := g.r
	k := g.key
	return "cut " + Pick(r, []string{
		k + ",a,c,id", "c", "c,id", k, "x:=" + k, k + ":=c", k + ":=a,id", "a,b,c,s,id," + k,
		"n", "n.x", "n.y,id", k + ",s:=lower(s)", "id," + k, k + ":=" + k + ",c", "z:=" + k + "," + k, "c:=" + k + ",id",
		"k,n,id", "a:=c,c:=a", "x:=a+c," + k,
	})
}

func (g *progGen) drop() string {
	k := g.key
	return "drop " + Pick(g.r, []string{"a", k, "n", "n.x", "n.y", "b,s", "arr,ts", "c," + k, "k", "nosuch"})
}

func (g *progGen) put() string {
	k := g.key
	return "put " + Pick(g.r, []string{
		"d:=a+1", k + ":=c", "n.x:=c", "n:=c", "a:=" + k, "z:=" + k + ",w:=c*2", k + ":=" + k, "n:={x:c}",
		"k:=c", "s:=upper(s)", "t:=1", k + ":=-" + k, "n.z:=1",
	})
}

func (g *progGen) rename() string {
	k := g.key
	return "rename " + Pick(g.r, []string{"z:=a", "kk:=" + k, "n.z:=n.x", "k:=c", "q:=k", "c2:=c,a2:=a", "m:=n", "n.x:=n.y", "k:=a"})
}

func (g *progGen) yield() string {
	k := g.key
	return "yield " + Pick(g.r, []string{
		"{" + k + ",a}", "this", "{k:" + k + ",z:c,id}", "{k:c,id}", "{...this,w:1}", "a", "n", "{id,k,n}", "{k:k,a:a,c:c,id:id}",
	})
}

func (g *progGen) sortOp() string {
	r := g.r
	k := g.key
	flags := ""
	if r.Chance(1, 3) {
		flags += " -r"
	}
	if r.Chance(1, 5) {
		flags += " -nulls first"
	}
	keys := Pick(r, []string{k, k, k, "id", k + ",id", "a," + k, "c", "a", "", k + ",a", "n.x", "k", "b", "-" + k, "a,id", "c,id"})
	if keys == "" {
		return "sort" + flags
	}
	return "sort" + flags + " " + keys
}

func (g *progGen) summarize() string {
	r := g.r
	k := g.key
	aggs := []string{"count()", "sum(a)", "n:=count(),t:=sum(c)", "max(c)", "min(a),max(a)", "union(a)", "avg(c)", "count() where a > 1", "dcount(b)", "and(a > 0)"}
	if !g.noOrderSensitiveAggs {
		aggs = append(aggs, "collect(c)", "first(c)", "last(id)")
	}
	agg := Pick(r, aggs)
	var by string
	switch r.Intn(16) {
	case 0:
		by = ""
	case 1, 2, 3, 4:
		by = " by " + k
	case 5:
		by = " by a," + k
	case 6:
		by = " by " + k + ",a"
	case 7:
		by = " by a"
	case 8:
		by = " by kk:=" + k
	case 9:
		by = " by " + k + ":=a"
	case 10:
		by = " by k:=floor(" + k + ")"
	case 11:
		by = " by every(1h)"
	case 12:
		by = " by b"
	case 13:
		by = " by n.x"
	case 14:
		by = " by k"
	default:
		by = " by " + k + ":=round(" + k + ")"
	}
	if by == "" && strings.Contains(agg, "where") {
		agg = "count()"
	}
	s := agg + by
	if !strings.Contains(s, ":=") && !strings.HasPrefix(s, "count() where") && r.Chance(1, 3) {
		s = "summarize " + s
	}
	return s
}

func (g *progGen) simpleOp() string {
	r := g.r
	switch r.Intn(20) {
	case 0, 1, 2, 3:
		return g.filter()
	case 4, 5:
		return g.cut()
	case 6:
		return g.drop()
	case 7, 8:
		return g.put()
	case 9:
		return g.rename()
	case 10:
		return g.yield()
	case 11, 12:
		return g.sortOp()
	case 13:
		return fmt.Sprintf("head %d", 1+r.Intn(6))
	case 14:
		return fmt.Sprintf("tail %d", 1+r.Intn(6))
	case 15:
		return Pick(r, []string{"uniq", "uniq -c", "fuse"})
	case 16, 17:
		return "pass"
	}
	return g.summarize()
}

func (g *progGen) path(depth, maxLen int) string {
	n := 1 + g.r.Intn(maxLen)
	var ops []string
	for i := 0; i < n; i++ {
		ops = append(ops, g.op(depth))
	}
	return strings.Join(ops, " | ")
}

func (g *progGen) fork(depth int) string {
	r := g.r
	n := 2
	if r.Chance(1, 4) {
		n = 3
	}
	if r.Chance(1, 12) {
		n = 1
	}
	var ps []string
	for i := 0; i < n; i++ {
		if r.Chance(1, 5) {
			ps = append(ps, "=> pass")
		} else {
			ps = append(ps, "=> "+g.path(depth-1, 2))
		}
	}
	return "fork ( " + strings.Join(ps, " ") + " )"
}

func (g *progGen) switchOp(depth int) string {
	r := g.r
	if r.Bool() {
		return fmt.Sprintf("switch ( case a > %d => %s case a <= 1 => %s default => %s )",
			1+r.Intn(2), g.path(depth-1, 2), g.path(depth-1, 1), g.path(depth-1, 1))
	}
	return fmt.Sprintf("switch a ( case 1 => %s case 2 => %s default => %s )", g.path(depth-1, 1), g.path(depth-1, 2), g.path(depth-1, 1))
}

func (g *progGen) over() string {
	r := g.r
	return Pick(r, []string{
		"over arr",
		"over arr => ( where this > 1 | where this < 8 )",
		"over arr with z=" + g.key + " => ( yield {z,v:this} )",
		"over arr => ( pass | where this != 3 | pass )",
		"over arr => ( sum(this) )",
		"over arr with i=id => ( where this > 2 | pass | yield {i,v:this} | where v < 9 )",
	})
}

func (g *progGen) join(depth int) string {
	r := g.r
	k := g.key
	style := Pick(r, []string{"", "inner ", "left ", "right ", "anti "})
	side := func() string {
		switch r.Intn(6) {
		case 0:
			return "pass"
		case 1:
			return "sort " + k
		case 2:
			return "sort -r " + k
		case 3:
			return g.filter()
		case 4:
			return "sort " + k + " | " + g.simpleOp()
		}
		return g.path(0, 2)
	}
	lk, rk := k, k
	if r.Chance(1, 5) {
		rk = "a"
	}
	if r.Chance(1, 8) {
		lk = "c"
	}
	args := Pick(r, []string{"", " z:=c", " rid:=id", " z:=c,w:=a"})
	if style == "anti " {
		args = ""
	}
	return fmt.Sprintf("fork ( => %s => %s ) | %sjoin on %s=%s%s", side(), side(), style, lk, rk, args)
}

func (g *progGen) op(depth int) string {
	r := g.r
	if depth > 0 {
		switch r.Intn(14) {
		case 0, 1:
			// fork followed by something the optimizer may lift
			f := g.fork(depth)
			switch r.Intn(10) {
			case 0:
				return f
			case 1:
				return f + " | merge " + g.key + " | " + g.simpleOp()
			case 2:
				return f + " | " + g.sortOp()
			case 3:
				return f + " | " + g.summarize()
			}
			return f + " | " + g.simpleOp()
		case 2:
			return g.switchOp(depth)
		case 3:
			return g.over()
		case 4:
			if r.Chance(1, 2) {
				return g.join(depth)
			}
		}
	}
	return g.simpleOp()
}

// program returns a pipeline of 1..5 stages.
func (g *progGen) program() string {
	r := g.r
	// idioms aimed at particular optimizer branches
	switch r.Intn(12) {
	case 0:
		// adjacent filters, pass in between, leading filter pushdown
		parts := []string{g.filter()}
		for i := r.Intn(3); i >= 0; i-- {
			if r.Chance(1, 3) {
				parts = append(parts, "pass")
			}
			parts = append(parts, g.filter())
		}
		if r.Bool() {
			parts = append(parts, g.simpleOp())
		}
		return strings.Join(parts, " | ")
	case 1, 2:
		// sort, key-preserving (or not) operators, then an aggregation on the key
		parts := []string{}
		if r.Chance(2, 3) {
			parts = append(parts, Pick(r, []string{"sort " + g.key, "sort -r " + g.key, "sort " + g.key + ",id"}))
		}
		for i := r.Intn(3); i > 0; i-- {
			parts = append(parts, Pick(r, []func() string{g.cut, g.drop, g.put, g.rename, g.filter, func() string { return "pass" }, func() string { return "uniq" }, func() string { return "head 7" }, func() string { return "fuse" }})())
		}
		parts = append(parts, g.summarize())
		if r.Bool() {
			parts = append(parts, g.simpleOp())
		}
		return strings.Join(parts, " | ")
	}
	if r.Chance(1, 12) {
		return g.limitIdiom()
	}
	depth := 1
	if r.Chance(1, 10) {
		depth = 2
	}
	return g.path(depth, 4)
}

// limitIdiom: an aggregation on the untouched key with a small table limit
// (spills), optionally behind operators that leave every field alone.  The
// input generator keeps null and missing keys out of these cases (hasLimit):
// the spill merge of group-by identifies null and missing keys, which makes
// the plan as analysed itself unstable (that is C10's subject, not C07's).
func (g *progGen) limitIdiom() string {
	r := g.r
	k := g.key
	var parts []string
	if r.Chance(1, 3) {
		parts = append(parts, Pick(r, []string{"sort " + k, "sort -r " + k}))
	}
	for i := r.Intn(3); i > 0; i-- {
		parts = append(parts, Pick(r, []string{"pass", "where c < 15", "where id % 3 != 0", "head 20", "uniq", "where a >= 1"}))
	}
	agg := Pick(r, []string{"count()", "sum(c)", "n:=count(),t:=sum(c)", "max(c)", "and(c > 3)", "union(c)", "avg(c)"})
	by := Pick(r, []string{k, k, k + ",c", "c," + k})
	parts = append(parts, fmt.Sprintf("%s by %s with -limit %d", agg, by, 1+r.Intn(4)))
	if r.Bool() {
		parts = append(parts, Pick(r, []string{"sort " + k, "head 3", "where " + k + " > 2", "pass"}))
	}
	return strings.Join(parts, " | ")
}

func hasLimit(prog string) bool { return strings.Contains(prog, "-limit") }

// positionalIdiom: [per-record ops] + an operator whose result depends on the
// positions of the values or on the whole stream (fuse, head, tail, uniq) +
// a consumer that imposes its own order or none.  On a pool the optimizer
// must keep the scan ordered for the former although the latter does not
// need it, and must not run the former per parallel leg only.
func (g *progGen) positionalIdiom() string {
	r := g.r
	k := g.key
	var parts []string
	for i := r.Intn(3); i > 0; i-- {
		parts = append(parts, Pick(r, []string{"where c > 3", "where a >= 1", "put d:=c", "drop b", "pass", "rename q:=s", "where id % 3 != 0"}))
	}
	parts = append(parts, Pick(r, []string{"fuse", "fuse", fmt.Sprintf("head %d", 3+r.Intn(6)), fmt.Sprintf("tail %d", 3+r.Intn(6)), "uniq", "fuse | head 6", "head 8 | fuse"}))
	parts = append(parts, Pick(r, []string{"sort " + k, "sort -r " + k, "sort c,id", "sort -r id", "count() by a", "sum(c) by a", "count() by typeof(this)", "count()", "sum(c)", "sort a,id | head 3"}))
	return strings.Join(parts, " | ")
}

// ---------------------------------------------------------------- pool-key filters

// keyFilter: a boolean combination (and / or / not, depth <= 3) of comparisons
// of the pool key with literals -- what the range pruner analyses -- and of
// predicates it cannot analyse (other fields, functions, field-to-field
// comparisons).  None of the leaves evaluates to an error other than missing.
func (g *progGen) keyLeaf(hi int) string {
	r := g.r
	k := g.key
	lit := fmt.Sprint(r.Intn(hi + 1))
	if r.Chance(1, 12) {
		lit = Pick(r, []string{"null", "\"b\"", "1.5", "-1"})
	}
	op := Pick(r, []string{"==", "<", "<=", ">", ">=", "!="})
	if r.Chance(1, 3) {
		return fmt.Sprintf("%s %s %s", lit, op, k)
	}
	return fmt.Sprintf("%s %s %s", k, op, lit)
}

func (g *progGen) opaqueLeaf() string {
	r := g.r
	k := g.key
	if g.mixedKeys {
		// arithmetic and ordering against other fields are errors on string keys
		return Pick(r, []string{
			fmt.Sprintf("c > %d", r.Intn(20)), fmt.Sprintf("c == %d", r.Intn(20)), fmt.Sprintf("a == %d", r.Intn(5)),
			fmt.Sprintf("c != %d", r.Intn(20)), "has(s)", fmt.Sprintf("id %% 3 == %d", r.Intn(3)), "b == \"x\"",
			fmt.Sprintf("n.x == %d", r.Intn(4)), "a == null", "missing(a)", "has(" + k + ")", k + " == c",
		})
	}
	return Pick(r, []string{
		fmt.Sprintf("c > %d", r.Intn(20)), fmt.Sprintf("c == %d", r.Intn(20)), fmt.Sprintf("a == %d", r.Intn(5)),
		fmt.Sprintf("c != %d", r.Intn(20)), "has(s)", fmt.Sprintf("id %% 3 == %d", r.Intn(3)), k + " < c", "c <= " + k,
		fmt.Sprintf("%s + 0 > %d", k, r.Intn(40)), "b == \"x\"", fmt.Sprintf("n.x == %d", r.Intn(4)), "a == null",
		fmt.Sprintf("%s %% 2 == 0", k), "missing(a)",
	})
}

func (g *progGen) keyFilter(depth, hi int) string {
	r := g.r
	if depth == 0 || r.Chance(1, 4) {
		if r.Chance(3, 5) {
			return g.keyLeaf(hi)
		}
		return g.opaqueLeaf()
	}
	switch r.Intn(7) {
	case 0:
		return "not (" + g.keyFilter(depth-1, hi) + ")"
	case 1, 2, 3:
		return "(" + g.keyFilter(depth-1, hi) + ") or (" + g.keyFilter(depth-1, hi) + ")"
	}
	return "(" + g.keyFilter(depth-1, hi) + ") and (" + g.keyFilter(depth-1, hi) + ")"
}
