package main

import (
	"strings"

	"github.com/brimdata/super/compiler/ast/dag"
	"github.com/brimdata/super/zfmt"
)

// ordered(program): a conservative judgement, computed on the analysed DAG, of
// how much of the output order the program defines.
//
//	clsSeq    the whole output sequence is defined (single path of
//	          deterministic operators over a defined input sequence, or a sort
//	          on a total key): plans must agree as sequences
//	clsSorted the order is defined on the listed sort/merge keys only: plans
//	          must agree as multisets and on the sequence of key projections
//	clsBag    no order is defined (after fork/switch/join/summarize): multisets
//	clsAmb    even the multiset is not defined by the program (head after an
//	          undefined order, collect() over it, ...): nothing is compared
//	          beyond "both plans succeed"
type ordClass int

const (
	clsSeq ordClass = iota
	clsSorted
	clsBag
	clsAmb
)

func (c ordClass) String() string {
	return [...]string{"seq", "sorted", "bag", "amb"}[c]
}

type ordState struct {
	Class ordClass
	Keys  []string // zed text of the sort keys when Class == clsSorted
	// UniqueField (when non-empty) is a top-level field that is present and
	// unique in every record reaching this point, so a sort on it is total.
	IDIntact bool
}

type judgeCfg struct {
	UniqueField string // e.g. "id"; "" when nothing is known about the input
	// SortDropsTies: a sort on a non-total key defines the order on that key
	// only (lake plans may feed it an unordered scan); otherwise (file input,
	// both plans sequential) a stable sort of a defined sequence is defined.
	SortDropsTies bool
}

var orderSensitiveAggs = map[string]bool{"collect": true, "first": true, "last": true, "any": true, "fuse": true, "collect_map": true}

func aggsOrderSensitive(aggs []dag.Assignment) bool {
	for _, a := range aggs {
		if ag, ok := a.RHS.(*dag.Agg); ok {
			if orderSensitiveAggs[ag.Name] {
				return true
			}
		} else {
			return true
		}
	}
	return false
}

func isThisPath(e dag.Expr, name string) bool {
	t, ok := e.(*dag.This)
	return ok && len(t.Path) == 1 && t.Path[0] == name
}

func worse(a, b ordClass) ordClass {
	if a > b {
		return a
	}
	return b
}

func (cfg judgeCfg) seq(seq dag.Seq, st ordState) ordState {
	for _, op := range seq {
		st = cfg.op(op, st)
	}
	return st
}

// perRecord: the operator maps each input value to zero or more outputs
// without looking at its neighbours.
func perRecord(st ordState) ordState {
	if st.Class == clsSorted {
		// The key may have been changed: only the multiset remains defined.
		st.Class = clsBag
		st.Keys = nil
	}
	return st
}

// positional: the outcome depends on the positions of the values (head, tail,
// uniq, fuse, sort without keys, ...).
func positional(st ordState) ordState {
	if st.Class != clsSeq {
		st.Class = clsAmb
		st.Keys = nil
	}
	return st
}

func (cfg judgeCfg) op(op dag.Op, st ordState) ordState {
	if st.Class == clsAmb {
		return st
	}
	switch op := op.(type) {
	case *dag.DefaultScan, *dag.PoolScan, *dag.Pass, *dag.Output, *dag.Filter:
		return st
	case *dag.Cut:
		keep := false
		for _, a := range op.Args {
			if isThisPath(a.LHS, cfg.UniqueField) && isThisPath(a.RHS, cfg.UniqueField) {
				keep = true
			}
		}
		st.IDIntact = st.IDIntact && keep
		return perRecord(st)
	case *dag.Drop:
		for _, e := range op.Args {
			if isThisPath(e, cfg.UniqueField) {
				st.IDIntact = false
			}
		}
		return perRecord(st)
	case *dag.Put:
		for _, a := range op.Args {
			if isThisPath(a.LHS, cfg.UniqueField) {
				st.IDIntact = false
			}
		}
		return perRecord(st)
	case *dag.Rename:
		for _, a := range op.Args {
			if isThisPath(a.LHS, cfg.UniqueField) || isThisPath(a.RHS, cfg.UniqueField) {
				st.IDIntact = false
			}
		}
		return perRecord(st)
	case *dag.Yield, *dag.Explode, *dag.Shape:
		st.IDIntact = false
		return perRecord(st)
	case *dag.Over:
		st.IDIntact = false
		if op.Body != nil {
			b := cfg.seq(op.Body, ordState{Class: clsSeq})
			if b.Class != clsSeq {
				st.Class = clsAmb
				return st
			}
		}
		return perRecord(st)
	case *dag.Head, *dag.Tail, *dag.Uniq, *dag.Fuse, *dag.Top:
		if _, ok := op.(*dag.Fuse); ok {
			// fuse keeps every value but the fused type depends on arrival order
			return positional(st)
		}
		return positional(st)
	case *dag.Sort:
		if st.Class == clsSeq && !cfg.SortDropsTies {
			return st
		}
		if len(op.Args) == 0 {
			// the key is guessed from the first values that arrive
			if cfg.SortDropsTies {
				st.Class = clsAmb
				return st
			}
			return positional(st)
		}
		var keys []string
		total := false
		for _, a := range op.Args {
			if st.IDIntact && cfg.UniqueField != "" && isThisPath(a.Key, cfg.UniqueField) {
				total = true
			}
			keys = append(keys, zfmt.DAGExpr(a.Key))
		}
		if total {
			st.Class = clsSeq
			st.Keys = nil
			return st
		}
		st.Class = clsSorted
		st.Keys = keys
		return st
	case *dag.Merge:
		if st.Class == clsSeq {
			// a merge of a single defined stream
			return st
		}
		st.Class = clsSorted
		st.Keys = []string{zfmt.DAGExpr(op.Expr)}
		return st
	case *dag.Combine:
		if st.Class == clsSeq {
			return st
		}
		st.Class = clsBag
		st.Keys = nil
		return st
	case *dag.Summarize:
		if st.Class != clsSeq && aggsOrderSensitive(op.Aggs) {
			st.Class = clsAmb
			return st
		}
		st.Class = clsBag
		st.Keys = nil
		st.IDIntact = false
		return st
	case *dag.Fork:
		out := ordState{Class: clsBag}
		for _, p := range op.Paths {
			r := cfg.seq(p, st)
			if r.Class == clsAmb {
				out.Class = clsAmb
			}
		}
		if len(op.Paths) == 1 && out.Class != clsAmb {
			return cfg.seq(op.Paths[0], st)
		}
		return out
	case *dag.Switch:
		out := ordState{Class: clsBag, IDIntact: st.IDIntact}
		for _, c := range op.Cases {
			r := cfg.seq(c.Path, st)
			if r.Class == clsAmb {
				out.Class = clsAmb
			}
			out.IDIntact = out.IDIntact && r.IDIntact
		}
		return out
	case *dag.Join:
		return ordState{Class: clsBag}
	case *dag.Scope:
		return cfg.seq(op.Body, st)
	default:
		// An operator this judgement does not know: deterministic only when
		// it is fed a defined sequence.
		st.IDIntact = false
		return positional(st)
	}
}

func (st ordState) String() string {
	if st.Class == clsSorted {
		return "sorted(" + strings.Join(st.Keys, ",") + ")"
	}
	return st.Class.String()
}
