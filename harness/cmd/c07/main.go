package main

import (
	"encoding/json"
	"errors"
	"fmt"
	"os"
	"strings"
	"time"

	"github.com/brimdata/super/compiler/ast/dag"
	"github.com/brimdata/super/order"
	"github.com/brimdata/super/pkg/field"
	. "zvh/hx"
)

func jsonMarshal(v any) ([]byte, error) { return json.Marshal(v) }

// ---------------------------------------------------------------- comparison

type diff struct {
	Kind     string // seq-differs, bag-differs, keyseq-differs, opt-error, ...
	Expected string
	Observed string
}

func joinShort(xs []string) string { return short(strings.Join(xs, " "), 1500) }

// compareOutputs compares the optimized output b with the reference a under
// the order class st.  nil = equivalent.
func compareOutputs(st ordState, a, b []string) *diff {
	switch st.Class {
	case clsAmb:
		return nil
	case clsSeq:
		if strings.Join(a, "\n") != strings.Join(b, "\n") {
			kind := "seq-differs"
			if strings.Join(SortedCopy(a), "\n") != strings.Join(SortedCopy(b), "\n") {
				kind = "bag-differs"
			}
			return &diff{kind, joinShort(a), joinShort(b)}
		}
		return nil
	}
	if strings.Join(SortedCopy(a), "\n") != strings.Join(SortedCopy(b), "\n") {
		return &diff{"bag-differs", joinShort(a), joinShort(b)}
	}
	if st.Class == clsSorted && len(a) > 1 {
		pa, err1 := project(a, st.Keys)
		pb, err2 := project(b, st.Keys)
		if err1 != nil || err2 != nil || len(pa) != len(a) || len(pb) != len(b) {
			return nil // projection not evaluable: fall back to the multiset
		}
		if strings.Join(pa, "\n") != strings.Join(pb, "\n") {
			return &diff{"keyseq-differs", joinShort(a), joinShort(b)}
		}
	}
	return nil
}

// refine names the disagreement more precisely when it has a recognisable form.
func refine(d *diff, a, b []string) *diff {
	if d == nil || d.Kind != "bag-differs" {
		return d
	}
	cnt := map[string]int{}
	for _, x := range b {
		cnt[x]++
	}
	onlyA := 0
	allErr := true
	for _, x := range a {
		if cnt[x] > 0 {
			cnt[x]--
			continue
		}
		onlyA++
		if !strings.HasPrefix(x, "error(") {
			allErr = false
		}
	}
	onlyB := 0
	for _, n := range cnt {
		onlyB += n
	}
	allErrB := true
	for x, n := range cnt {
		if n > 0 && !strings.HasPrefix(x, "error(") {
			allErrB = false
		}
	}
	if onlyA > 0 && onlyB == 0 && allErr {
		d.Kind = "error-values-dropped"
	} else if onlyA+onlyB > 0 && allErr && allErrB {
		// the plans differ only in which error values they emit
		d.Kind = "error-values-differ"
	}
	return d
}

// opKinds is the shape of a DAG: operator kinds in order, nested paths in parentheses.
func opKinds(seq dag.Seq) string {
	var parts []string
	for _, op := range seq {
		switch op := op.(type) {
		case *dag.Fork:
			var ps []string
			for _, p := range op.Paths {
				ps = append(ps, opKinds(p))
			}
			parts = append(parts, "Fork("+strings.Join(ps, ";")+")")
		case *dag.Switch:
			parts = append(parts, "Switch")
		case *dag.Over:
			if op.Body != nil {
				parts = append(parts, "Over("+opKinds(op.Body)+")")
			} else {
				parts = append(parts, "Over")
			}
		case *dag.Scope:
			parts = append(parts, "Scope("+opKinds(op.Body)+")")
		case *dag.Output, *dag.DefaultScan, *dag.PoolScan:
		case *dag.Sort:
			k := "Sort"
			if op.Reverse {
				k += "[r]"
			}
			if op.NullsFirst {
				k += "[nf]"
			}
			if len(op.Args) != 1 {
				k += fmt.Sprintf("[%dkeys]", len(op.Args))
			}
			parts = append(parts, k)
		case *dag.Summarize:
			k := "Summarize"
			if op.Limit > 0 {
				k += "[limit]"
			}
			if len(op.Keys) != 1 {
				k += fmt.Sprintf("[%dkeys]", len(op.Keys))
			}
			parts = append(parts, k)
		case *dag.Join:
			parts = append(parts, "Join["+op.Style+"]")
		default:
			b, _ := json.Marshal(op)
			var k struct {
				Kind string `json:"kind"`
			}
			json.Unmarshal(b, &k)
			parts = append(parts, k.Kind)
		}
	}
	return strings.Join(parts, ">")
}

// splitTop splits a pipeline on its top-level " | " separators.
func splitTop(src string) []string {
	var parts []string
	depth := 0
	start := 0
	inStr := byte(0)
	for i := 0; i < len(src); i++ {
		ch := src[i]
		if inStr != 0 {
			if ch == '\\' {
				i++
			} else if ch == inStr {
				inStr = 0
			}
			continue
		}
		switch ch {
		case '"', '\'':
			inStr = ch
		case '(', '[', '{':
			depth++
		case ')', ']', '}':
			depth--
		case '|':
			if depth == 0 && i > 0 && src[i-1] == ' ' && i+1 < len(src) && src[i+1] == ' ' {
				parts = append(parts, strings.TrimSpace(src[start:i]))
				start = i + 1
			}
		}
	}
	parts = append(parts, strings.TrimSpace(src[start:]))
	return parts
}

// shrink greedily removes pipeline stages and input records while fails(prog,input) holds.
func shrink(prog string, input []string, fails func(prog string, input []string) bool) (string, []string) {
	budget := 120
	deadline := time.Now().Add(20 * time.Second)
	saved := watchdog
	watchdog = 2 * time.Second
	shrinking = true
	defer func() { watchdog = saved; shrinking = false }()
	try := func(p string, in []string) bool {
		if budget <= 0 || time.Now().After(deadline) {
			return false
		}
		budget--
		return fails(p, in)
	}
	for changed := true; changed; {
		changed = false
		parts := splitTop(prog)
		// "fork (...) | join" must stay together
		for i := 0; i < len(parts) && len(parts) > 1; i++ {
			cand := append(append([]string{}, parts[:i]...), parts[i+1:]...)
			p := strings.Join(cand, " | ")
			if try(p, input) {
				prog = p
				parts = cand
				changed = true
				i--
			}
		}
		for len(input) > 1 {
			half := len(input) / 2
			if try(prog, input[:half]) {
				input = input[:half]
				changed = true
			} else if try(prog, input[half:]) {
				input = input[half:]
				changed = true
			} else {
				break
			}
		}
		for i := 0; i < len(input) && len(input) > 1 && len(input) <= 16; i++ {
			cand := append(append([]string{}, input[:i]...), input[i+1:]...)
			if try(prog, cand) {
				input = cand
				changed = true
				i--
			}
		}
	}
	return prog, input
}

// ---------------------------------------------------------------- file / stream oracle

type c07 struct {
	o            Opts
	res          *Result
	mc           *modelCases
	markPath     string
	curKey       string // key field of the generated input ("" = unknown)
	curUnit      int
	distinctKeys []string
	distinctSeen map[string]bool
}

var shrinking bool

var hungPrograms = map[string]bool{}

// confirmHang re-examines an optimized plan that hit the watchdog: the plan as
// analysed is timed again (the machine may be busy) and the optimized plan gets
// at least 8 s and at least 40 times that long, twice more.  Only a plan that
// hangs on all three attempts while the plan as analysed finishes every time is
// reported as hanging.
func confirmHang(ref, opt func() runOut) runOut {
	var b runOut
	for i := 0; i < 2; i++ {
		t0 := time.Now()
		r := withWatchdog(30*time.Second, ref)
		d := time.Since(t0)
		if r.Err != nil {
			// the reference itself is in trouble now: not a finding
			return runOut{Err: errRefUnstable, Stage: "run"}
		}
		limit := 40 * d
		if limit < 8*time.Second {
			limit = 8 * time.Second
		}
		if limit > 90*time.Second {
			limit = 90 * time.Second
		}
		b = withWatchdog(limit, opt)
		if b.Err != errTimeout {
			// finished this time: a slow machine, or one of the runtime's racy
			// fork deadlocks that hit either plan now and then (not this
			// property's subject)
			hangsNotReproduced++
			return b
		}
	}
	return b
}

var hangsNotReproduced int

var errRefUnstable = errors.New("reference plan did not finish when re-timed")

func withWatchdog(d time.Duration, f func() runOut) runOut {
	saved := watchdog
	watchdog = d
	defer func() { watchdog = saved }()
	return f()
}

// judgeUnique names the unique field of generated inputs ("" for corpus inputs).
var judgeUnique = "id"

// checkFile runs prog over input unoptimized and optimized (optionally with a
// declared sort key that the input really has) and returns a description of the
// disagreement, if any.
func checkFile(prog string, input []string, decl *order.SortKey) (d *diff, a, b runOut, st ordState) {
	text := strings.Join(input, "\n")
	a = runFile(prog, text, planMode{})
	if a.Err != nil {
		return nil, a, b, st
	}
	b = runFile(prog, text, planMode{Optimize: true, Decl: decl})
	if b.Err == errTimeout && !shrinking {
		// a busy machine is not a hang
		b = confirmHang(func() runOut { return runFile(prog, text, planMode{}) },
			func() runOut { return runFile(prog, text, planMode{Optimize: true, Decl: decl}) })
	}
	if b.Err == errRefUnstable {
		a.Err, a.Stage = b.Err, "retime"
		return nil, a, b, st
	}
	st = judgeCfg{UniqueField: judgeUnique}.seq(a.Analysed, ordState{Class: clsSeq, IDIntact: judgeUnique != ""})
	if b.Err != nil {
		return &diff{"opt-" + errClass(b.Err) + "-" + b.Stage, "unoptimized plan succeeds: " + joinShort(a.Out), b.Err.Error()}, a, b, st
	}
	return refine(compareOutputs(st, a.Out, b.Out), a.Out, b.Out), a, b, st
}

// stable re-runs a disagreement: it stands only when the plan as analysed
// gives the same answer every time and the disagreement reproduces.
func stable(check func() (*diff, runOut), first *diff, firstA runOut, st ordState) bool {
	for i := 0; i < 4; i++ {
		d, a := check()
		if a.Err != nil || d == nil || d.Kind != first.Kind {
			return false
		}
		if compareOutputs(st, firstA.Out, a.Out) != nil {
			return false
		}
	}
	return true
}

func declString(d *order.SortKey) string {
	if d == nil {
		return ""
	}
	return strings.Join(d.Key, ".") + ":" + d.Order.String()
}

func (c *c07) fileCase(tag, prog string, input []string, decl *order.SortKey) {
	res := c.res
	if os.Getenv("C07_VERBOSE") != "" {
		fmt.Fprintf(os.Stderr, "%s %q decl=%s n=%d\n", tag, prog, declString(decl), len(input))
	}
	if hungPrograms[prog] {
		// already reported as hanging: every further case costs three watchdog periods
		res.Count(tag + ":skipped-program-already-reported-hanging")
		return
	}
	c.mark(map[string]any{"oracle": tag, "phase": "unopt", "program": prog, "input": input, "declared_sort_key": declString(decl)})
	if pre := runFile(prog, strings.Join(input, "\n"), planMode{}); pre.Err == nil {
		c.mark(map[string]any{"oracle": tag, "phase": "opt", "program": prog, "input": input, "declared_sort_key": declString(decl), "kinds": opKinds(pre.Analysed)})
	}
	d, a, b, st := checkFile(prog, input, decl)
	if a.Err != nil {
		res.Count(tag + ":skipped-unopt-" + errClass(a.Err) + "-" + a.Stage)
		if errClass(a.Err) != "error" {
			// the reference plan itself panics/hangs: not this property's
			// subject (C11), but never silently dropped
			res.Count(tag + ":reference-" + errClass(a.Err))
		}
		return
	}
	res.Evaluations++
	res.Count(tag + ":class-" + st.Class.String())
	changed := dagText(a.Analysed) != dagText(b.Final)
	if changed {
		res.Count(tag + ":plan-changed")
	}
	if len(a.Out) > 0 && changed && st.Class != clsAmb {
		c.distinct(tag + "|" + opKinds(a.Analysed) + "|" + declString(decl))
	}
	if c.mc != nil {
		if b.Err == nil {
			c.mc.add(b.Analysed, b.Final, false)
		} else if b.Stage == "optimize" && strings.Contains(b.Err.Error(), "Duplicate op value") {
			c.mc.add(b.Analysed, nil, true)
		}
	}
	if d == nil {
		return
	}
	if strings.HasPrefix(d.Kind, "opt-timeout") {
		hungPrograms[prog] = true
	}
	if !strings.HasPrefix(d.Kind, "opt-timeout") && !stable(func() (*diff, runOut) { d, a, _, _ := checkFile(prog, input, decl); return d, a }, d, a, st) {
		res.Count(tag + ":unstable-disagreement-ignored")
		res.Notes = appendNote(res.Notes, fmt.Sprintf("disagreement that did not reproduce on re-runs (ignored): %s %q declared %q [%s]", tag, short(prog, 200), declString(decl), d.Kind))
		return
	}
	// shrink to a small program/input showing the same kind of disagreement
	// (hangs are reported as found: every attempt would cost a watchdog period)
	p2, in2, d2, a2, b2, st2 := prog, input, d, a, b, st
	if !strings.HasPrefix(d.Kind, "opt-timeout") {
		p2, in2 = shrink(prog, input, func(p string, in []string) bool {
			d2, a2, _, _ := checkFile(p, in, decl)
			return a2.Err == nil && d2 != nil && d2.Kind == d.Kind
		})
		d2, a2, b2, st2 = checkFile(p2, in2, decl)
		if d2 == nil || a2.Err != nil {
			p2, in2, d2, a2, b2, st2 = prog, input, d, a, b, st
		}
	}
	oracle := "file-opt"
	keyOfInput := c.curKey
	if decl != nil {
		oracle = "file-declared-sortkey"
		if len(decl.Key) == 0 {
			oracle = "file-empty-sortkey"
		} else {
			keyOfInput = declString(decl)
		}
	}
	if keyOfInput != "" && nullishKeys(in2, keyOfInput) {
		// some record has a null, typed null or missing key: sort, merge,
		// join and declared orders disagree on where those go
		oracle += "[nullish-keys]"
	}
	res.Fail(Failure{
		Kind: "oracle",
		Sig:  fmt.Sprintf("%s:%s:%s", oracle, d2.Kind, opKinds(a2.Analysed)),
		Detail: fmt.Sprintf("program %q (declared input order %q, order class %s): optimized plan differs from the plan as analysed [%s]; optimized plan:\n%s",
			p2, declString(decl), st2, d2.Kind, dagText(b2.Final)),
		Replay:   map[string]any{"program": p2, "input": in2, "declared_sort_key": declString(decl), "original_program": prog, "entry": "compiler.NewJob [+Optimize] + Build"},
		Expected: d2.Expected, Observed: d2.Observed,
	})
}

// nullishKeys: some record has a null or missing sort key.
func nullishKeys(input []string, decl string) bool {
	for _, l := range input {
		if strings.HasPrefix(decl, "n.x") {
			if !strings.Contains(l, "n:{x:") || strings.Contains(l, "n:{x:null") {
				return true
			}
		} else if !(strings.HasPrefix(l, "{k:") || strings.Contains(l, ",k:")) || strings.Contains(l, "k:null") {
			return true
		}
	}
	return false
}

func parseDecl(keyPath string, desc bool) *order.SortKey {
	if keyPath == "" {
		return &order.SortKey{}
	}
	o := order.Asc
	if desc {
		o = order.Desc
	}
	sk := order.NewSortKey(o, field.Dotted(keyPath))
	return &sk
}

func (c *c07) fileUnit(r *Rng, i int) {
	keyPath := "k"
	if r.Chance(1, 6) {
		keyPath = "n.x"
	}
	g := &progGen{r: r, key: keyPath}
	prog := g.program()
	c.curKey = keyPath
	c.res.Count("programs")
	ninputs := 2
	for j := 0; j < ninputs; j++ {
		cfg := inputCfg{N: 4 + r.Intn(28), KeyPath: keyPath, KeysMixed: r.Chance(1, 2), Unique: r.Chance(1, 5)}
		if r.Chance(1, 15) {
			cfg.N = r.Intn(3)
		}
		if hasLimit(prog) {
			cfg.KeysMixed = false
		}
		if j == 1 && r.Chance(1, 2) {
			cfg.N = 110 + r.Intn(200) // several batches
			cfg.KeysMixed = r.Chance(1, 4)
			if hasLimit(prog) {
				cfg.N = 110 + r.Intn(50) // every spill is a file
			}
		}
		input := genInput(r, cfg)
		c.fileCase("file", prog, input, nil)
		// declared sort key: the input really is sorted that way
		decl := parseDecl(keyPath, r.Bool())
		sorted, err := sortInput(strings.Join(input, "\n"), decl.Key, decl.Order)
		if err != nil {
			c.res.Count("sort-input-error")
			continue
		}
		var lines []string
		for _, l := range strings.Split(sorted, "\n") {
			if l != "" {
				lines = append(lines, l)
			}
		}
		c.fileCase("decl", prog, lines, decl)
		if r.Chance(1, 4) {
			// what compiler.NewCompiler().NewQuery does: CompileWithSortKey with
			// the zero SortKey (non-nil sort keys with an empty key path)
			c.fileCase("decl", prog, input, &order.SortKey{})
		}
	}
	if i%97 == 0 {
		c.res.Sample(map[string]any{"program": prog, "key": keyPath})
	}
}

func c07main(o Opts) error {
	if debugOne(o) {
		return nil
	}
	if spec := os.Getenv("C07_CHILD"); spec != "" {
		return childMain(o, spec)
	}
	if o.Replay != "" {
		c := newC07(o)
		return c.replay(o.Replay)
	}
	nfile, nlake, ncorpus, nlaw := 120, 18, corpusSize(), 20
	limit := 900 * time.Second
	chunk := 30
	if o.Tier == "thorough" {
		nfile, nlake, nlaw = 1500, 300, 200
		limit = 2400 * time.Second
		chunk = 50
	}
	plan := []unitRange{{"seeded", 0, len(seededCases)}, {"file", 0, nfile}, {"lake", 0, nlake}, {"corpus", 0, ncorpus}, {"law", 0, nlaw}}
	res, mc := parentMain(o, plan, chunk, limit)
	res.Rule = "a case = (program, input, plan pair); non-trivial = the optimizer changed the plan, the reference output is non-empty and the order class is not 'amb'; distinct by (oracle, operator-kind shape of the analysed DAG, declared key/order or pool layout and parallelism)"
	res.ModelCases = mc.n
	res.CountN("model:cases", mc.n)
	res.CountN("model:skipped-outside-subset", mc.skipped)
	if err := mc.write(o.Out + "/cases.v"); err != nil {
		return err
	}
	res.Write(o.Out)
	return nil
}

func (c *c07) replay(path string) error {
	b, err := os.ReadFile(path)
	if err != nil {
		return err
	}
	var rep struct {
		FailingInputs []struct {
			Replay map[string]any `json:"replay"`
		} `json:"failing_inputs"`
	}
	if err := json.Unmarshal(b, &rep); err != nil {
		return err
	}
	for _, f := range rep.FailingInputs {
		prog, _ := f.Replay["program"].(string)
		var input []string
		if xs, ok := f.Replay["input"].([]any); ok {
			for _, x := range xs {
				input = append(input, fmt.Sprint(x))
			}
		}
		if prog == "" || input == nil {
			continue
		}
		var decl *order.SortKey
		if s, _ := f.Replay["declared_sort_key"].(string); s != "" {
			parts := strings.Split(s, ":")
			decl = parseDecl(parts[0], len(parts) > 1 && parts[1] == "desc")
		}
		tag := "file"
		if decl != nil {
			tag = "decl"
		}
		c.fileCase(tag, prog, input, decl)
	}
	c.res.Rule = "replay"
	c.res.ModelCases = c.mc.n
	if err := c.mc.write(c.o.Out + "/cases.v"); err != nil {
		return err
	}
	c.res.Write(c.o.Out)
	return nil
}

func main() { Main("c07", c07main) }
