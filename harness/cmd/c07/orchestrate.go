package main

import (
	"encoding/json"
	"fmt"
	"os"
	"os/exec"
	"runtime"
	"strconv"
	"strings"
	"sync"
	"time"

	. "zvh/hx"
)

// The code under test starts goroutines of its own (groupby, merge, fork,
// join); a panic there cannot be recovered and kills the process.  So the
// cases are run in child processes: the parent hands out ranges of units, a
// child journals the case it is about to run (mark) and writes its findings
// to chunk.json; when a child dies the parent turns the journalled case into
// a failure and reruns the range without that unit.  Every unit draws its
// randomness from its own generator (seed, oracle, index), so a rerun
// regenerates exactly the same cases.

type chunkOut struct {
	Evaluations  int            `json:"evaluations"`
	Counts       map[string]int `json:"counts"`
	Distinct     []string       `json:"distinct"`
	Samples      []any          `json:"samples"`
	Failures     []Failure      `json:"failures"`
	Model        []string       `json:"model"`
	Slicer       []string       `json:"slicer"`
	ModelN       int            `json:"model_n"`
	ModelSkipped int            `json:"model_skipped"`
	Notes        []string       `json:"notes"`
}

type unitRange struct {
	Oracle     string
	Start, End int
}

func unitRng(seed uint64, oracle string, i int) *Rng {
	h := uint64(1469598103934665603)
	for _, b := range []byte(oracle) {
		h = (h ^ uint64(b)) * 1099511628211
	}
	return NewRng(seed*0x9E3779B97F4A7C15 ^ h ^ uint64(i)*0xD1B54A32D192ED03)
}

func (c *c07) distinct(key string) {
	if _, ok := c.distinctSeen[key]; !ok {
		c.distinctSeen[key] = true
		c.distinctKeys = append(c.distinctKeys, key)
	}
	c.res.Distinctly(key)
}

// mark journals what is about to run, for the parent to read after a crash.
func (c *c07) mark(m map[string]any) {
	if c.markPath == "" {
		return
	}
	m["unit"] = c.curUnit
	b, _ := json.Marshal(m)
	os.WriteFile(c.markPath, b, 0644)
}

func (c *c07) runUnit(oracle string, i int) {
	r := unitRng(c.o.Seed, oracle, i)
	c.curUnit = i
	switch oracle {
	case "file":
		c.fileUnit(r, i)
	case "lake":
		c.lakeUnit(r)
	case "corpus":
		c.corpusUnit(r, i)
	case "law":
		c.lawUnit(r, i)
	case "seeded":
		c.seededUnit(i)
	}
}

func childMain(o Opts, spec string) error {
	parts := strings.Split(spec, ":")
	if len(parts) != 3 {
		return fmt.Errorf("bad C07_CHILD %q", spec)
	}
	start, _ := strconv.Atoi(parts[1])
	end, _ := strconv.Atoi(parts[2])
	skip := map[int]bool{}
	for _, s := range strings.Split(os.Getenv("C07_SKIP"), ",") {
		if n, err := strconv.Atoi(s); err == nil {
			skip[n] = true
		}
	}
	c := newC07(o)
	c.markPath = o.Out + "/mark.json"
	for i := start; i < end; i++ {
		if skip[i] {
			continue
		}
		c.runUnit(parts[0], i)
	}
	if cancelStuck > 0 {
		c.res.CountN("runtime-context-cancel-never-returned", cancelStuck)
	}
	if hangsNotReproduced > 0 {
		c.res.CountN("opt-hang-not-reproduced", hangsNotReproduced)
	}
	if guardStuck > 0 {
		c.res.CountN("run-stuck-outside-watchdog", guardStuck)
	}
	out := chunkOut{Evaluations: c.res.Evaluations, Counts: c.res.Dist, Distinct: c.distinctKeys, Samples: c.res.Samples,
		Failures: c.res.Failures, Model: c.mc.items, Slicer: c.mc.slicer, ModelN: c.mc.n, ModelSkipped: c.mc.skipped, Notes: c.res.Notes}
	b, err := json.Marshal(out)
	if err != nil {
		return err
	}
	return os.WriteFile(o.Out+"/chunk.json", b, 0644)
}

func newC07(o Opts) *c07 {
	return &c07{o: o, res: NewResult("C07"), mc: newModelCases(), distinctSeen: map[string]bool{}}
}

type chunkResult struct {
	out     *chunkOut
	crashes []Failure
}

func runChunk(o Opts, u unitRange, idx int, limit time.Duration) chunkResult {
	var cr chunkResult
	dir := fmt.Sprintf("%s/chunk-%s-%d", o.Out, u.Oracle, idx)
	var skip []string
	for attempt := 0; attempt < 6; attempt++ {
		os.RemoveAll(dir)
		os.MkdirAll(dir, 0755)
		cmd := exec.Command(os.Args[0], "-seed", fmt.Sprint(o.Seed), "-tier", o.Tier, "-out", dir)
		cmd.Env = append(os.Environ(), fmt.Sprintf("C07_CHILD=%s:%d:%d", u.Oracle, u.Start, u.End), "C07_SKIP="+strings.Join(skip, ","))
		var stderr strings.Builder
		cmd.Stderr = &tailWriter{sb: &stderr, max: 1 << 20}
		done := make(chan error, 1)
		if err := cmd.Start(); err != nil {
			cr.crashes = append(cr.crashes, Failure{Kind: "harness", Sig: "harness:child-start", Detail: err.Error()})
			return cr
		}
		go func() { done <- cmd.Wait() }()
		var werr error
		timedOut := false
		select {
		case werr = <-done:
		case <-time.After(limit):
			cmd.Process.Kill()
			<-done
			timedOut = true
		}
		if b, err := os.ReadFile(dir + "/chunk.json"); err == nil && werr == nil && !timedOut {
			var out chunkOut
			if err := json.Unmarshal(b, &out); err == nil {
				cr.out = &out
				os.RemoveAll(dir)
				return cr
			}
		}
		// the child died: which case was it running?
		var mark map[string]any
		if b, err := os.ReadFile(dir + "/mark.json"); err == nil {
			json.Unmarshal(b, &mark)
		}
		unit := -1
		if f, ok := mark["unit"].(float64); ok {
			unit = int(f)
		}
		what := "crash"
		if timedOut {
			what = "hang"
		}
		trace := stderr.String()
		head := trace
		if i := strings.Index(head, "\n\ngoroutine"); i > 0 {
			head = head[:i]
		}
		where := ""
		for _, l := range strings.Split(trace, "\n") {
			l = strings.TrimSpace(l)
			if strings.HasPrefix(l, "/repo/") {
				where = strings.Fields(l)[0]
				break
			}
		}
		phase, _ := mark["phase"].(string)
		oracle, _ := mark["oracle"].(string)
		kinds, _ := mark["kinds"].(string)
		f := Failure{
			Kind: "panic",
			Sig:  fmt.Sprintf("%s:%s-%s:%s:%s", oracle, what, phase, where, kinds),
			Detail: fmt.Sprintf("the process running the %s plan died (%s) in a goroutine of the code under test at %s while running program %v: %s",
				phase, what, where, mark["program"], short(head, 600)),
			Replay:   mark,
			Expected: "the optimized plan produces the output of the plan as analysed",
			Observed: short(trace, 1500),
		}
		if phase == "unopt" || phase == "build" {
			// the reference plan itself dies: not a disagreement between the plans
			f.Kind = "reference-crash"
			f.Sig = "reference:" + f.Sig
		}
		cr.crashes = append(cr.crashes, f)
		if unit < 0 {
			return cr
		}
		skip = append(skip, fmt.Sprint(unit))
	}
	return cr
}

type tailWriter struct {
	sb  *strings.Builder
	max int
}

func (t *tailWriter) Write(p []byte) (int, error) {
	if t.sb.Len() < t.max {
		t.sb.Write(p)
	}
	return len(p), nil
}

// parentMain splits the units into chunks, runs them in child processes (a
// few at a time) and merges their findings in chunk order.
func parentMain(o Opts, plan []unitRange, chunk int, limit time.Duration) (*Result, *modelCases) {
	var chunks []unitRange
	for _, u := range plan {
		for s := u.Start; s < u.End; s += chunk {
			e := s + chunk
			if e > u.End {
				e = u.End
			}
			chunks = append(chunks, unitRange{u.Oracle, s, e})
		}
	}
	results := make([]chunkResult, len(chunks))
	workers := runtime.NumCPU() / 2
	if workers < 1 {
		workers = 1
	}
	if workers > 8 {
		workers = 8
	}
	var wg sync.WaitGroup
	next := make(chan int)
	for w := 0; w < workers; w++ {
		wg.Add(1)
		go func() {
			defer wg.Done()
			for i := range next {
				results[i] = runChunk(o, chunks[i], i, limit)
			}
		}()
	}
	for i := range chunks {
		next <- i
	}
	close(next)
	wg.Wait()

	res := NewResult("C07")
	mc := newModelCases()
	for i, cr := range results {
		for _, f := range cr.crashes {
			if f.Kind == "reference-crash" {
				res.Count("reference-crash:" + f.Sig)
				res.Notes = appendNote(res.Notes, "reference plan died: "+short(f.Detail, 400))
				continue
			}
			res.Fail(f)
		}
		if cr.out == nil {
			res.Count("chunks-abandoned")
			res.Notes = appendNote(res.Notes, fmt.Sprintf("chunk %v abandoned after repeated crashes", chunks[i]))
			continue
		}
		res.Evaluations += cr.out.Evaluations
		for k, v := range cr.out.Counts {
			if strings.HasPrefix(k, "fail:") || k == "failures" {
				continue
			}
			res.CountN(k, v)
		}
		for _, k := range cr.out.Distinct {
			res.Distinctly(k)
		}
		for _, s := range cr.out.Samples {
			res.Sample(s)
		}
		for _, f := range cr.out.Failures {
			res.Fail(f)
		}
		for _, n := range cr.out.Notes {
			res.Notes = appendNote(res.Notes, n)
		}
		for _, it := range cr.out.Model {
			if !mc.seen[it] {
				mc.seen[it] = true
				mc.items = append(mc.items, it)
				mc.n++
			}
		}
		for _, it := range cr.out.Slicer {
			if !mc.seen[it] {
				mc.seen[it] = true
				mc.slicer = append(mc.slicer, it)
				mc.n++
			}
		}
		mc.skipped += cr.out.ModelSkipped
	}
	return res, mc
}

func appendNote(notes []string, n string) []string {
	for _, x := range notes {
		if x == n {
			return notes
		}
	}
	if len(notes) < 12 {
		notes = append(notes, n)
	}
	return notes
}
