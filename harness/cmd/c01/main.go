package main

import (
	"bytes"
	"context"
	"encoding/binary"
	"encoding/hex"
	"errors"
	"fmt"
	"io"
	"os"
	"runtime"
	"sort"
	"strings"
	"sync"
	"testing/iotest"
	"time"

	zed "github.com/brimdata/super"
	"github.com/brimdata/super/zbuf"
	"github.com/brimdata/super/zio/zngio"
	"github.com/brimdata/super/zson"
	"github.com/pierrec/lz4/v4"
	. "zvh/hx"
)

// ---------------------------------------------------------------- observables

// obs is the canonical observable of one item of a stream: a value (type as
// context-independent type-value bytes + body bytes, null distinguished from
// empty) or a control message.
type obs struct {
	ctl   bool
	typ   string // hex of zed.EncodeTypeValue(type)
	null  bool
	body  string // raw bytes
	cfmt  int
	ztext string // zson.FormatValue (values only; may be empty when not computed)
}

func (o obs) key() string {
	if o.ctl {
		return fmt.Sprintf("ctl:%d:%x", o.cfmt, o.body)
	}
	if o.null {
		return o.typ + "|null"
	}
	return o.typ + "|" + hex.EncodeToString([]byte(o.body))
}

func (o obs) short() string {
	k := o.key()
	if len(k) > 160 {
		k = k[:160] + fmt.Sprintf("...(%d)", len(k))
	}
	if o.ztext != "" {
		z := o.ztext
		if len(z) > 120 {
			z = z[:120] + "..."
		}
		k += " " + z
	}
	return k
}

type typeCache struct {
	mu sync.Mutex
	m  map[zed.Type]string
}

func (tc *typeCache) key(t zed.Type) string {
	tc.mu.Lock()
	defer tc.mu.Unlock()
	if tc.m == nil {
		tc.m = map[zed.Type]string{}
	}
	if s, ok := tc.m[t]; ok {
		return s
	}
	s := hex.EncodeToString(zed.EncodeTypeValue(t))
	tc.m[t] = s
	return s
}

func obsOf(tc *typeCache, v zed.Value, withText bool) obs {
	o := obs{typ: tc.key(v.Type())}
	if v.IsNull() {
		o.null = true
	} else {
		o.body = string(v.Bytes())
	}
	if withText {
		o.ztext = safeFormat(v)
	}
	return o
}

func safeFormat(v zed.Value) (s string) {
	defer func() {
		if r := recover(); r != nil {
			s = fmt.Sprintf("FORMAT-PANIC: %v", r)
		}
	}()
	return zson.FormatValue(v)
}

// ---------------------------------------------------------------- writing with the real writer

type nopCloser struct{ *bytes.Buffer }

func (nopCloser) Close() error { return nil }

type written struct {
	bytes   []byte
	expect  []obs // every item (values and controls) in write order
	nvalues int
	// for the model: per stream bytes
	streamBytes [][]byte
}

func writeCase(c *zcase, tc *typeCache, withText bool) (w written, err error) {
	err = Safely(func() error {
		for si := range c.streams {
			sc := &c.streams[si]
			var buf bytes.Buffer
			zw := zngio.NewWriterWithOpts(nopCloser{&buf}, zngio.WriterOpts{Compress: sc.compress, FrameThresh: sc.thresh})
			for _, op := range sc.ops {
				var err error
				switch op.kind {
				case opWrite:
					w.expect = append(w.expect, obsOf(tc, op.val, withText))
					w.nvalues++
					err = zw.Write(op.val)
				case opEnd:
					err = zw.EndStream()
					if err == nil && zw.Position() != int64(buf.Len()) {
						return fmt.Errorf("Position()=%d after EndStream but %d bytes were written", zw.Position(), buf.Len())
					}
				case opControl:
					w.expect = append(w.expect, obs{ctl: true, cfmt: int(op.cfmt), body: string(op.ctl)})
					err = zw.WriteControl(op.ctl, op.cfmt)
				}
				if err != nil {
					return fmt.Errorf("stream %d: writer error: %w", si, err)
				}
			}
			if err := zw.Close(); err != nil {
				return fmt.Errorf("stream %d: close: %w", si, err)
			}
			if zw.Position() != int64(buf.Len()) {
				return fmt.Errorf("Position()=%d after Close but %d bytes were written", zw.Position(), buf.Len())
			}
			b := append([]byte{}, buf.Bytes()...)
			w.streamBytes = append(w.streamBytes, b)
			w.bytes = append(w.bytes, b...)
		}
		return nil
	})
	return w, err
}

// ---------------------------------------------------------------- independent frame walker (from docs/formats/zng.md)

type frameInfo struct {
	typ        int // 0 types 1 values 2 control 3 eos
	compressed bool
	off        int    // offset of the frame code
	end        int    // offset just past the frame
	usize      int    // uncompressed payload size
	payload    []byte // raw payload (compressed payload without format/size when compressed)
	upayload   []byte // uncompressed payload
}

func walkFrames(b []byte) ([]frameInfo, error) {
	var out []frameInfo
	off := 0
	for off < len(b) {
		code := b[off]
		if code == 0xff {
			out = append(out, frameInfo{typ: 3, off: off, end: off + 1})
			off++
			continue
		}
		if code&0x80 != 0 {
			return out, fmt.Errorf("offset %d: version bit set", off)
		}
		p := off + 1
		u, n := binary.Uvarint(b[p:])
		if n <= 0 {
			return out, fmt.Errorf("offset %d: bad length uvarint", off)
		}
		p += n
		length := int(u)<<4 | int(code&0xf)
		if p+length > len(b) {
			return out, fmt.Errorf("offset %d: frame of %d bytes runs past the end", off, length)
		}
		f := frameInfo{typ: int(code>>4) & 3, compressed: code&0x40 != 0, off: off, end: p + length}
		if f.compressed {
			if length < 2 || b[p] != 0 {
				return out, fmt.Errorf("offset %d: bad compressed header", off)
			}
			us, m := binary.Uvarint(b[p+1 : p+length])
			if m <= 0 {
				return out, fmt.Errorf("offset %d: bad uncompressed size", off)
			}
			f.usize = int(us)
			f.payload = b[p+1+m : p+length]
			f.upayload = make([]byte, f.usize)
			k, err := lz4.UncompressBlock(f.payload, f.upayload)
			if err != nil || k != f.usize {
				return out, fmt.Errorf("offset %d: lz4: %v (%d of %d bytes)", off, err, k, f.usize)
			}
			if len(f.payload) >= f.usize {
				return out, fmt.Errorf("offset %d: compressed frame (%d bytes) is not smaller than its content (%d bytes)", off, len(f.payload), f.usize)
			}
		} else {
			f.usize = length
			f.payload = b[p : p+length]
			f.upayload = f.payload
		}
		if f.usize == 0 {
			return out, fmt.Errorf("offset %d: empty frame", off)
		}
		out = append(out, f)
		off = f.end
	}
	return out, nil
}

// countValues counts the values in an uncompressed values-frame payload.
func countValues(p []byte) (int, error) {
	n := 0
	for len(p) > 0 {
		_, k := binary.Uvarint(p)
		if k <= 0 {
			return n, errors.New("bad type id")
		}
		p = p[k:]
		tag, k := binary.Uvarint(p)
		if k <= 0 {
			return n, errors.New("bad tag")
		}
		p = p[k:]
		if tag > 0 {
			if int(tag-1) > len(p) {
				return n, errors.New("body runs past the frame")
			}
			p = p[tag-1:]
		}
		n++
	}
	return n, nil
}

// ---------------------------------------------------------------- reading with the real reader

type readCfg struct {
	threads  int
	size     int
	max      int
	validate bool
	rkind    int // 0 bytes.Reader 1 one byte at a time 2 seeded chunks 3 data+EOF together 4 half reader
	mode     int // 0 Read 1 ReadPayload 2 Pull with held batches
	chunk    uint64
}

func (c readCfg) String() string {
	return fmt.Sprintf("threads=%d size=%d max=%d validate=%v reader=%d mode=%d", c.threads, c.size, c.max, c.validate, c.rkind, c.mode)
}

type chunkReader struct {
	b []byte
	r *Rng
}

func (c *chunkReader) Read(p []byte) (int, error) {
	if len(c.b) == 0 {
		return 0, io.EOF
	}
	n := 1 + c.r.Intn(37)
	if c.r.Chance(1, 8) {
		n = 1 + c.r.Intn(5000)
	}
	if n > len(p) {
		n = len(p)
	}
	if n > len(c.b) {
		n = len(c.b)
	}
	copy(p, c.b[:n])
	c.b = c.b[n:]
	return n, nil
}

func mkReader(b []byte, cfg readCfg) io.Reader {
	switch cfg.rkind {
	case 1:
		return iotest.OneByteReader(bytes.NewReader(b))
	case 2:
		return &chunkReader{b: b, r: NewRng(cfg.chunk)}
	case 3:
		return iotest.DataErrReader(bytes.NewReader(b))
	case 4:
		return iotest.HalfReader(bytes.NewReader(b))
	}
	return bytes.NewReader(b)
}

type readResult struct {
	items   []obs
	err     error
	hung    bool
	held    string // description of a held batch that changed
	nbatch  int
	interns string // a type that is not the canonical one of the reader's context
}

func readAll(b []byte, cfg readCfg, withText bool, timeout time.Duration) readResult {
	ch := make(chan readResult, 1)
	go func() {
		var res readResult
		err := Safely(func() error {
			res = readAllInner(b, cfg, withText)
			return nil
		})
		if err != nil {
			res.err = err
		}
		ch <- res
	}()
	select {
	case r := <-ch:
		return r
	case <-time.After(timeout):
		return readResult{hung: true, err: fmt.Errorf("reader did not finish within %v", timeout)}
	}
}

func readAllInner(b []byte, cfg readCfg, withText bool) (res readResult) {
	zctx := zed.NewContext()
	tc := &typeCache{}
	zr := zngio.NewReaderWithOpts(zctx, mkReader(b, cfg), zngio.ReaderOpts{Validate: cfg.validate, Size: cfg.size, Max: cfg.max, Threads: cfg.threads})
	defer zr.Close()
	canon := map[string]zed.Type{}
	checkIntern := func(v zed.Value, o obs) {
		if res.interns != "" {
			return
		}
		if t, ok := canon[o.typ]; ok {
			if t != v.Type() {
				res.interns = zson.FormatType(v.Type())
			}
			return
		}
		canon[o.typ] = v.Type()
	}
	switch cfg.mode {
	case 0:
		for {
			v, err := zr.Read()
			if err != nil {
				res.err = err
				return
			}
			if v == nil {
				return
			}
			o := obsOf(tc, *v, withText)
			checkIntern(*v, o)
			res.items = append(res.items, o)
		}
	case 1:
		for {
			v, ctl, err := zr.ReadPayload()
			if err != nil {
				res.err = err
				return
			}
			if ctl != nil {
				res.items = append(res.items, obs{ctl: true, cfmt: ctl.Format, body: string(ctl.Bytes)})
				continue
			}
			if v == nil {
				return
			}
			o := obsOf(tc, *v, withText)
			checkIntern(*v, o)
			res.items = append(res.items, o)
		}
	default:
		sc, err := zr.NewScanner(context.Background(), nil)
		if err != nil {
			res.err = err
			return
		}
		defer sc.Pull(true)
		var prev zbuf.Batch
		var prevObs []obs
		recheck := func() {
			if prev == nil {
				return
			}
			vals := prev.Values()
			if len(vals) != len(prevObs) {
				res.held = fmt.Sprintf("a held batch changed length from %d to %d", len(prevObs), len(vals))
			} else {
				for i := range vals {
					if o := obsOf(tc, vals[i], false); o.key() != prevObs[i].key() && res.held == "" {
						res.held = fmt.Sprintf("value %d of a held batch changed from %s to %s", i, prevObs[i].short(), o.short())
					}
				}
			}
			prev.Unref()
			prev = nil
		}
		for {
			batch, err := sc.Pull(false)
			if err != nil {
				var zc *zbuf.Control
				if errors.As(err, &zc) {
					if ctl, ok := zc.Message.(*zngio.Control); ok {
						res.items = append(res.items, obs{ctl: true, cfmt: ctl.Format, body: string(ctl.Bytes)})
						continue
					}
				}
				recheck()
				res.err = err
				return
			}
			if batch == nil {
				recheck()
				return
			}
			res.nbatch++
			var cur []obs
			for _, v := range batch.Values() {
				o := obsOf(tc, v, withText)
				checkIntern(v, o)
				cur = append(cur, o)
			}
			res.items = append(res.items, cur...)
			recheck()
			prev, prevObs = batch, cur
		}
	}
}

// ---------------------------------------------------------------- comparison

func filterValues(items []obs) []obs {
	var out []obs
	for _, o := range items {
		if !o.ctl {
			out = append(out, o)
		}
	}
	return out
}

// classify returns "" when got == want, else a short class of the difference.
func classify(got, want []obs) (string, string) {
	n := len(got)
	if len(want) < n {
		n = len(want)
	}
	first := -1
	for i := 0; i < n; i++ {
		if got[i].key() != want[i].key() {
			first = i
			break
		}
	}
	if first < 0 && len(got) == len(want) {
		// also compare the text rendering when both sides have it
		for i := range got {
			if got[i].ztext != "" && want[i].ztext != "" && got[i].ztext != want[i].ztext {
				return "text", fmt.Sprintf("item %d: bytes agree but the ZSON text differs: want %s got %s", i, want[i].ztext, got[i].ztext)
			}
		}
		return "", ""
	}
	if len(got) == len(want) {
		g := make([]string, len(got))
		w := make([]string, len(want))
		for i := range got {
			g[i], w[i] = got[i].key(), want[i].key()
		}
		sort.Strings(g)
		sort.Strings(w)
		if strings.Join(g, "\n") == strings.Join(w, "\n") {
			return "order", fmt.Sprintf("same items in a different order; first difference at item %d: want %s got %s", first, want[first].short(), got[first].short())
		}
	}
	if first < 0 {
		if len(got) < len(want) {
			return "missing", fmt.Sprintf("%d items delivered, %d expected; first missing: %s", len(got), len(want), want[len(got)].short())
		}
		return "extra", fmt.Sprintf("%d items delivered, %d expected; first extra: %s", len(got), len(want), got[len(want)].short())
	}
	g, w := got[first], want[first]
	detail := fmt.Sprintf("item %d of %d (delivered %d): want %s got %s", first, len(want), len(got), w.short(), g.short())
	switch {
	case g.ctl != w.ctl:
		return "control-position", detail
	case g.ctl:
		return "control-content", detail
	case g.typ != w.typ:
		return "type", detail
	case g.null != w.null && g.body == "" && w.body == "":
		return "null-vs-empty", detail
	default:
		return "body", detail
	}
}

// ---------------------------------------------------------------- the property check

type ctx struct {
	o    Opts
	res  *Result
	rng  *Rng
	tc   *typeCache
	mu   sync.Mutex
	tmo  time.Duration
	nrun int
}

func describeCase(c *zcase, w *written) map[string]any {
	var ss []map[string]any
	for _, s := range c.streams {
		var ops []string
		for _, op := range s.ops {
			switch op.kind {
			case opWrite:
				ops = append(ops, "W "+CanonValue(op.val))
			case opEnd:
				ops = append(ops, "EOS")
			case opControl:
				ops = append(ops, fmt.Sprintf("CTL %d %x", op.cfmt, op.ctl))
			}
			if len(ops) >= 40 {
				ops = append(ops, fmt.Sprintf("... (%d ops in all)", len(s.ops)))
				break
			}
		}
		for i := range ops {
			if len(ops[i]) > 300 {
				ops[i] = ops[i][:300] + fmt.Sprintf("...(%d chars)", len(ops[i]))
			}
		}
		ss = append(ss, map[string]any{"compress": s.compress, "frame_thresh": s.thresh, "class": s.class, "ops": ops})
	}
	m := map[string]any{"case": c.id, "class": c.class, "streams": ss}
	if w != nil {
		if len(w.bytes) <= 4096 {
			m["zng_hex"] = hex.EncodeToString(w.bytes)
		} else {
			m["zng_len"] = len(w.bytes)
			m["zng_hex_prefix"] = hex.EncodeToString(w.bytes[:512])
		}
	}
	return m
}

func (x *ctx) fail(c *zcase, w *written, cfg *readCfg, sig, detail, expected, observed string) {
	rep := describeCase(c, w)
	rep["seed"] = x.o.Seed
	rep["tier"] = x.o.Tier
	if cfg != nil {
		rep["reader"] = cfg.String()
		rep["reader_chunk_seed"] = cfg.chunk
	}
	x.mu.Lock()
	defer x.mu.Unlock()
	x.res.Fail(Failure{Kind: "oracle", Sig: sig, Detail: fmt.Sprintf("case %d (%s): %s", c.id, c.class, detail), Replay: rep, Expected: expected, Observed: observed})
}

var threadChoices = []int{1, 2, 3, 8, 16, 0}
var sizeChoices = []int{1, 2, 7, 64, 4096, 0}

func (x *ctx) genCfgs(r *Rng, n int, idx int) []readCfg {
	var out []readCfg
	for i := 0; i < n; i++ {
		k := idx*n + i
		cfg := readCfg{
			// systematic in threads x size so that every pair recurs, random in the rest
			threads:  threadChoices[k%len(threadChoices)],
			size:     sizeChoices[(k/len(threadChoices))%len(sizeChoices)],
			validate: r.Bool(),
			rkind:    Pick(r, []int{0, 0, 1, 2, 2, 3, 4}),
			mode:     Pick(r, []int{0, 0, 1, 2, 2}),
			chunk:    r.Next(),
		}
		out = append(out, cfg)
	}
	return out
}

// checkRead runs one reader configuration and applies the oracles.
func (x *ctx) checkRead(c *zcase, w *written, cfg readCfg, expectItems []obs, expectErr bool, withText bool) {
	want := expectItems
	if cfg.mode == 0 {
		want = filterValues(expectItems)
	}
	rr := readAll(w.bytes, cfg, withText, x.tmo)
	x.mu.Lock()
	x.res.Evaluations++
	x.nrun++
	x.mu.Unlock()
	cls := fmt.Sprintf("t%s", map[bool]string{true: "1", false: "N"}[cfg.threads == 1])
	if rr.hung {
		x.fail(c, w, &cfg, "hang:"+cls, "reader hung: "+rr.err.Error(), "the reader terminates", "no result within the watchdog period")
		return
	}
	if rr.err != nil && strings.HasPrefix(rr.err.Error(), "PANIC") {
		x.fail(c, w, &cfg, "panic:"+cls, rr.err.Error(), "no panic", rr.err.Error())
		return
	}
	if rr.held != "" {
		x.fail(c, w, &cfg, "held-batch-changed:"+cls, rr.held+" ["+cfg.String()+"]", "a batch keeps its values until Unref", rr.held)
	}
	if rr.interns != "" {
		x.fail(c, w, &cfg, "type-not-interned:"+cls, "two values of type "+rr.interns+" carry different type pointers of the reader's context ["+cfg.String()+"]", "one type pointer per type and context", "two pointers")
	}
	if expectErr {
		if rr.err == nil {
			x.fail(c, w, &cfg, "max-not-enforced:"+cls, fmt.Sprintf("readmax %d is below the largest frame but the reader reported no error [%s]", cfg.max, cfg), "an error", "no error")
			return
		}
		if k, d := classify(rr.items, want); k != "" {
			x.fail(c, w, &cfg, "prefix-before-error:"+k+":"+cls, "values delivered before the frame-too-large error differ: "+d+" ["+cfg.String()+"]", fmt.Sprintf("%d items", len(want)), fmt.Sprintf("%d items then error %v", len(rr.items), rr.err))
		}
		return
	}
	if rr.err != nil {
		x.fail(c, w, &cfg, "read-error:"+cls, fmt.Sprintf("reader error %q after %d of %d items [%s]", rr.err.Error(), len(rr.items), len(want), cfg), "no error", rr.err.Error())
		return
	}
	if k, d := classify(rr.items, want); k != "" {
		x.fail(c, w, &cfg, "roundtrip:"+k+":"+cls, d+" ["+cfg.String()+"]", fmt.Sprintf("%d items as written", len(want)), d)
	}
}

func (x *ctx) runCase(c *zcase, ncfg int, heavy bool) *written {
	withText := !heavy
	w, err := writeCase(c, x.tc, withText)
	if err != nil {
		x.fail(c, nil, nil, "write-error", err.Error(), "the writer accepts every value", err.Error())
		return nil
	}
	frames, ferr := walkFrames(w.bytes)
	if ferr != nil {
		x.fail(c, &w, nil, "frame-structure", "the written bytes are not a well-formed frame sequence: "+ferr.Error(), "frames as in docs/formats/zng.md", ferr.Error())
		return &w
	}
	// frame-level oracles from the inputs alone: number of values in values
	// frames, EOS only after content, last byte is EOS when anything was written
	nvals, largest := 0, 0
	dirty := false
	for i, f := range frames {
		switch f.typ {
		case 3:
			dirty = false
		case 1:
			n, err := countValues(f.upayload)
			if err != nil {
				x.fail(c, &w, nil, "frame-structure", fmt.Sprintf("values frame %d: %v", i, err), "well-formed values", err.Error())
			}
			nvals += n
			dirty = true
		default:
			dirty = true
		}
		if f.usize > largest {
			largest = f.usize
		}
	}
	if dirty {
		x.fail(c, &w, nil, "no-final-eos", "the output of a closed writer does not end with an end-of-stream marker", "EOS last", "content after the last EOS")
	}
	if nvals != w.nvalues {
		x.fail(c, &w, nil, "frame-value-count", fmt.Sprintf("%d values written but the frames hold %d", w.nvalues, nvals), fmt.Sprint(w.nvalues), fmt.Sprint(nvals))
	}
	// frame threshold: every values frame but the last of a flush holds the
	// smallest prefix reaching the threshold -- checked byte-exactly by the model;
	// here only the cheap consequence for single-stream cases with thresh 1:
	x.mu.Lock()
	x.res.Count("class:" + strings.Split(c.class, "+")[0])
	x.res.CountN("values", w.nvalues)
	x.res.CountN("frames", len(frames))
	x.res.CountN("zng_bytes", len(w.bytes))
	for _, f := range frames {
		if f.compressed {
			x.res.Count("frames_compressed")
		}
		if f.usize > zngio.DefaultFrameThresh {
			x.res.Count("frames_over_512k")
		}
	}
	x.mu.Unlock()
	cfgs := x.genCfgs(x.rng, ncfg, c.id)
	for _, cfg := range cfgs {
		reps := 1
		if cfg.threads != 1 && len(frames) > 3 {
			reps = 2
		}
		for i := 0; i < reps; i++ {
			x.checkRead(c, &w, cfg, w.expect, false, withText && i == 0)
		}
	}
	// readmax exactly at the largest frame: must succeed; one below: must fail
	// after delivering exactly the items of the frames before the first oversized one
	if largest >= 2 {
		cfg := x.genCfgs(x.rng, 1, c.id+7)[0]
		cfg.max = largest
		x.checkRead(c, &w, cfg, w.expect, false, false)
		cfg2 := x.genCfgs(x.rng, 1, c.id+13)[0]
		cfg2.max = largest - 1
		if cfg2.max >= 1 {
			// items before the first frame whose uncompressed size exceeds max
			k := 0
			var prefix []obs
			items := w.expect
			pos := 0
			for _, f := range frames {
				if f.typ != 3 && f.usize > cfg2.max {
					break
				}
				switch f.typ {
				case 1:
					n, _ := countValues(f.upayload)
					for n > 0 && pos < len(items) {
						if !items[pos].ctl {
							n--
						}
						prefix = append(prefix, items[pos])
						pos++
					}
				case 2:
					for pos < len(items) && !items[pos].ctl {
						pos++ // cannot happen: controls are flushed in order
					}
					if pos < len(items) {
						prefix = append(prefix, items[pos])
						pos++
					}
				}
				k++
			}
			x.checkRead(c, &w, cfg2, prefix, true, false)
		}
	}
	return &w
}

func c01(o Opts) error {
	runtime.GOMAXPROCS(max(runtime.GOMAXPROCS(0), 8))
	res := NewResult("C01")
	x := &ctx{o: o, res: res, rng: NewRng(o.Seed), tc: &typeCache{}, tmo: 300 * time.Second}
	thorough := o.Tier == "thorough"
	depth := 4
	nsmall, ncfg := 420, 6
	if thorough {
		depth = 6
		nsmall, ncfg = 9000, 10
		modelMaxBytes = 2500
	}
	var modelCases []*modelCase
	id := 0
	// 1. small cases: the bulk of the type-system and option coverage
	for i := 0; i < nsmall; i++ {
		d := 1 + i%depth
		c := genCase(x.rng, id, d, "small")
		id++
		w := x.runCase(&c, ncfg, false)
		if w != nil {
			res.Distinctly(hashKey(w.bytes))
			if mc := x.modelCaseOf(&c, w); mc != nil {
				modelCases = append(modelCases, mc)
			}
			if len(res.Samples) < 6 && i%50 == 3 {
				res.Sample(describeCase(&c, nil))
			}
		}
	}
	// 2. heavy cases: big frames (both buffer pools, 3-byte length fields),
	// decode-order stress, very many types
	heavy := []string{"big", "big", "big", "bigfirst", "bigfirst", "bulk", "bulk", "manytypes", "hugetypes"}
	rounds := 1
	if thorough {
		rounds = 25
	}
	var heavyCases []*zcase
	var heavyWritten []*written
	for rd := 0; rd < rounds; rd++ {
		for _, cl := range heavy {
			if cl == "hugetypes" && rd%5 != 0 {
				continue
			}
			c := genCase(x.rng, id, 3, cl)
			id++
			w := x.runCase(&c, 4, true)
			if w != nil {
				res.Distinctly(hashKey(w.bytes))
				if rd == 0 {
					cc := c
					heavyCases = append(heavyCases, &cc)
					heavyWritten = append(heavyWritten, w)
				}
			}
		}
	}
	// 3. many readers at once over the shared buffer pools
	x.concurrentReaders(heavyCases, heavyWritten, thorough)

	res.Rule = "one case = 1-4 independently written, concatenated streams; each stream = seeded values over the whole type system (several contexts, shadowed names, boundary sizes, nulls/empties, native values) x EndStream/WriteControl placements x compress x frame threshold, read back under 6+ reader configurations (threads, readsize, readmax at/below the largest frame, validate, 5 io.Reader chunkings, Read/ReadPayload/Pull-with-held-batches); distinct = distinct ZNG byte strings"
	limit := 100
	if thorough {
		limit = 1200
	}
	nmodel, err := writeCasesV(o.Out, modelCases, limit, x.rng)
	if err != nil {
		return err
	}
	res.ModelCases = nmodel
	res.Write(o.Out)
	return nil
}

func hashKey(b []byte) string {
	// FNV-1a over the bytes and the length
	h := uint64(14695981039346656037)
	for _, c := range b {
		h ^= uint64(c)
		h *= 1099511628211
	}
	return fmt.Sprintf("%x:%d", h, len(b))
}

// concurrentReaders reads several large streams at the same time, repeatedly,
// so that pooled buffers and batches are recycled between readers while other
// readers still hold values.
func (x *ctx) concurrentReaders(cases []*zcase, ws []*written, thorough bool) {
	if len(cases) == 0 {
		return
	}
	rounds := 2
	if thorough {
		rounds = 12
	}
	for rd := 0; rd < rounds; rd++ {
		var wg sync.WaitGroup
		for i := range cases {
			cfg := x.genCfgs(x.rng, 1, rd*len(cases)+i)[0]
			if cfg.size == 1 || cfg.size == 2 {
				cfg.size = 4096 // keep the big ones fast
			}
			if cfg.rkind == 1 {
				cfg.rkind = 2
			}
			wg.Add(1)
			go func(c *zcase, w *written, cfg readCfg) {
				defer wg.Done()
				x.checkRead(c, w, cfg, w.expect, false, false)
			}(cases[i], ws[i], cfg)
		}
		wg.Wait()
	}
	x.res.CountN("concurrent_reader_rounds", rounds)
}

func main() { Main("c01", c01) }

var _ = os.Stderr
