package main

import (
	"encoding/binary"
	"fmt"
	"os"
	"strings"

	zed "github.com/brimdata/super"
	"github.com/brimdata/super/zcode"
	. "zvh/hx"
)

// A model case is the Gallina rendering of one zcase: the caller-level writer
// operations (structural types with pointer identities, bodies), the writer
// options, the LZ4 blocks the real writer produced, and the real bytes.
type modelCase struct {
	text string
}

func coqHex(b []byte) string { return fmt.Sprintf("(hex \"%x\")", b) }

func coqBody(v zed.Value) string {
	if v.IsNull() {
		return "None"
	}
	return "(Some " + coqHex(v.Bytes()) + ")"
}

func coqType(t zed.Type, keys map[zed.Type]int) string {
	key := func() int {
		if k, ok := keys[t]; ok {
			return k
		}
		k := len(keys) + 1
		keys[t] = k
		return k
	}
	switch t := t.(type) {
	case *zed.TypeRecord:
		var fs []string
		for _, f := range t.Fields {
			fs = append(fs, fmt.Sprintf("(%s, %s)", coqHex([]byte(f.Name)), coqType(f.Type, keys)))
		}
		return fmt.Sprintf("(TRecord %d [%s])", key(), strings.Join(fs, "; "))
	case *zed.TypeArray:
		return fmt.Sprintf("(TArray %d %s)", key(), coqType(t.Type, keys))
	case *zed.TypeSet:
		return fmt.Sprintf("(TSet %d %s)", key(), coqType(t.Type, keys))
	case *zed.TypeMap:
		return fmt.Sprintf("(TMap %d %s %s)", key(), coqType(t.KeyType, keys), coqType(t.ValType, keys))
	case *zed.TypeUnion:
		var ts []string
		for _, u := range t.Types {
			ts = append(ts, coqType(u, keys))
		}
		return fmt.Sprintf("(TUnion %d [%s])", key(), strings.Join(ts, "; "))
	case *zed.TypeEnum:
		var ss []string
		for _, s := range t.Symbols {
			ss = append(ss, coqHex([]byte(s)))
		}
		return fmt.Sprintf("(TEnum %d [%s])", key(), strings.Join(ss, "; "))
	case *zed.TypeError:
		return fmt.Sprintf("(TError %d %s)", key(), coqType(t.Type, keys))
	case *zed.TypeNamed:
		return fmt.Sprintf("(TNamed %d %s %s)", key(), coqHex([]byte(t.Name)), coqType(t.Type, keys))
	}
	return fmt.Sprintf("(TPrim %d)", t.ID())
}

var modelMaxBytes = 1500
var modelMaxOps = 90

func (x *ctx) modelCaseOf(c *zcase, w *written) *modelCase {
	if len(w.bytes) > modelMaxBytes || len(w.bytes) == 0 {
		return nil
	}
	nops := 0
	for _, s := range c.streams {
		nops += len(s.ops)
	}
	if nops > modelMaxOps {
		return nil
	}
	frames, err := walkFrames(w.bytes)
	if err != nil {
		return nil
	}
	var streams []string
	for _, s := range c.streams {
		keys := map[zed.Type]int{} // one writer = one encoder = one pointer space
		var hops []string
		for _, op := range s.ops {
			switch op.kind {
			case opWrite:
				hops = append(hops, fmt.Sprintf("HWrite %s %s", coqType(op.val.Type(), keys), coqBody(op.val)))
			case opEnd:
				hops = append(hops, "HEnd")
			case opControl:
				hops = append(hops, fmt.Sprintf("HControl %d %s", op.cfmt, coqHex(op.ctl)))
			}
		}
		streams = append(streams, fmt.Sprintf("(%v, %d, [%s])", s.compress, s.thresh, strings.Join(hops, ";\n      ")))
	}
	var tbl []string
	seen := map[string]bool{}
	for _, f := range frames {
		if f.compressed && !seen[string(f.upayload)] {
			seen[string(f.upayload)] = true
			tbl = append(tbl, fmt.Sprintf("(%s, %s)", coqHex(f.upayload), coqHex(f.payload)))
		}
	}
	text := fmt.Sprintf("([%s],\n    [%s],\n    %s)", strings.Join(streams, ";\n     "), strings.Join(tbl, "; "), coqHex(w.bytes))
	if len(text) > 14000 {
		return nil
	}
	return &modelCase{text: text}
}

func uvarintSamples(r *Rng) []string {
	var ns []uint64
	for s := uint(0); s < 64; s += 7 {
		for _, d := range []int64{-2, -1, 0, 1} {
			ns = append(ns, uint64(int64(uint64(1)<<s)+d))
		}
	}
	ns = append(ns, 0, 1, 2, 127, 128, 129, 300, 16383, 16384, 1<<63-1, 1<<63, 1<<63+1, ^uint64(0), ^uint64(0)-1)
	for i := 0; i < 40; i++ {
		ns = append(ns, r.Next()>>uint(r.Intn(64)))
	}
	var out []string
	for _, n := range ns {
		b := binary.AppendUvarint(nil, n)
		out = append(out, fmt.Sprintf("(%d, %s, %d)", n, coqHex(b), zcode.SizeOfUvarint(n)))
	}
	return out
}

const casesPerFile = 150

func writeCasesV(dir string, cases []*modelCase, limit int, r *Rng) (int, error) {
	if len(cases) > limit {
		// keep a seeded sample, spread over the whole run
		Shuffle(r, cases)
		cases = cases[:limit]
	}
	nfiles := (len(cases) + casesPerFile - 1) / casesPerFile
	if nfiles == 0 {
		nfiles = 1
	}
	for fi := 0; fi < nfiles; fi++ {
		lo, hi := fi*casesPerFile, (fi+1)*casesPerFile
		if hi > len(cases) {
			hi = len(cases)
		}
		var items []string
		for _, c := range cases[lo:hi] {
			items = append(items, c.text)
		}
		var sb strings.Builder
		sb.WriteString("From ZV Require Import Base.Prelude Base.Uvarint Base.Zcode Model.Zng Model.ZngCases.\nLocal Open Scope N_scope.\n")
		// one definition per case keeps the parser's memory use flat
		var names []string
		for i, it := range items {
			n := fmt.Sprintf("c%d", i)
			fmt.Fprintf(&sb, "Definition %s : zcase :=\n   %s.\n", n, it)
			names = append(names, n)
		}
		fmt.Fprintf(&sb, "Definition zng_cases : list zcase := [%s].\n", strings.Join(names, "; "))
		if fi == 0 {
			WriteCoqList(&sb, "uv_cases", "(N * bytes * N)", uvarintSamples(r))
		} else {
			sb.WriteString("Definition uv_cases : list (N * bytes * N) := [].\n")
		}
		sb.WriteString("Definition M := Eval vm_compute in (zng_write_mismatches zng_cases, zng_read_mismatches zng_cases, uvarint_mismatches uv_cases).\nPrint M.\n")
		name := "cases.v"
		if fi > 0 {
			name = fmt.Sprintf("cases_%d.v", fi)
		}
		if err := os.WriteFile(dir+"/"+name, []byte(sb.String()), 0644); err != nil {
			return 0, err
		}
	}
	return len(cases), nil
}
