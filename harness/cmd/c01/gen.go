package main

import (
	"fmt"
	"strings"

	zed "github.com/brimdata/super"
	"github.com/brimdata/super/zcode"
	. "zvh/hx"
)

// ---------------------------------------------------------------- writer-side case description

const (
	opWrite   = 0
	opEnd     = 1
	opControl = 2
)

type wop struct {
	kind int
	val  zed.Value // opWrite
	cfmt uint8     // opControl
	ctl  []byte    // opControl
}

// One independently written stream: its own writer, its own options and its
// own type contexts.  The writer is always closed (Close = EndStream).
type streamCase struct {
	compress bool
	thresh   int
	ops      []wop
	class    string
}

type zcase struct {
	id      int
	streams []streamCase
	class   string
}

var threshChoices = []int{1, 1, 2, 3, 5, 8, 15, 16, 17, 31, 32, 33, 64, 100, 127, 128, 129, 255, 256, 257, 1000, 4096, 65536, 1 << 19, 1<<19 + 1, 1 << 20}

func genThresh(r *Rng) int {
	if r.Chance(1, 6) {
		return 1 + r.Intn(1<<20)
	}
	if r.Chance(1, 6) {
		return 1 + r.Intn(300)
	}
	return Pick(r, threshChoices)
}

// pattern bytes of length n: compressible (period 7) or incompressible (splitmix stream)
func patternBytes(r *Rng, n int, compressible bool) []byte {
	b := make([]byte, n)
	if compressible {
		for i := range b {
			b[i] = "abcdefg"[i%7]
		}
		return b
	}
	var x uint64
	for i := range b {
		if i%8 == 0 {
			x = r.Next()
		}
		b[i] = byte(x >> (8 * (i % 8)))
	}
	return b
}

// body lengths around every boundary of the tag uvarint, the frame-length
// nibble/uvarint split, the compressed header and the buffer pool classes.
var sizeBoundaries = []int{0, 1, 2, 13, 14, 15, 16, 17, 30, 31, 32, 125, 126, 127, 128, 129, 130, 253, 254, 255, 256, 2030, 2045, 2046, 2047, 2048, 2049, 16380, 16381, 16382, 16383, 16384, 16385, 32766, 32767, 32768, 65535, 65536}
var bigBoundaries = []int{262140, 262143, 262144, 524280, 524284, 524285, 524286, 524287, 524288, 524289, 524290, 655360, 1048570, 1048575, 1048576, 1048577, 2097150, 2097152, 2097153}

func sizedValue(r *Rng, n int) zed.Value {
	b := patternBytes(r, n, r.Chance(2, 3))
	if r.Bool() {
		return zed.NewValue(zed.TypeBytes, b)
	}
	// strings: keep them ASCII so that validation has nothing to object to
	for i := range b {
		b[i] = 'a' + b[i]%26
	}
	return zed.NewValue(zed.TypeString, b)
}

// nativeValues are values in the native (non-bytes) representation.
func nativeValue(r *Rng) zed.Value {
	switch r.Intn(8) {
	case 0:
		return zed.NewInt64(int64(r.Next()))
	case 1:
		return zed.NewUint64(r.Next())
	case 2:
		return zed.NewBool(r.Bool())
	case 3:
		return zed.NewFloat64(float64(int64(r.Next()>>11)) / 8)
	case 4:
		return zed.NewString(Pick(r, []string{"", "x", "native string"}))
	case 5:
		return zed.NewInt(zed.TypeInt8, int64(int8(r.Next())))
	case 6:
		return zed.NewUint(zed.TypeUint16, uint64(uint16(r.Next())))
	}
	return zed.NewTime(0)
}

// edgeValues: null of every kind of type, empty containers, empty strings.
func edgeValues(r *Rng, zctx *zed.Context) []zed.Value {
	rec, _ := zctx.LookupTypeRecord([]zed.Field{zed.NewField("a", zed.TypeString), zed.NewField("b", zed.TypeBytes)})
	empty, _ := zctx.LookupTypeRecord(nil)
	arr := zctx.LookupTypeArray(zed.TypeString)
	set := zctx.LookupTypeSet(zed.TypeInt64)
	mp := zctx.LookupTypeMap(zed.TypeString, zed.TypeInt64)
	un := zctx.LookupTypeUnion([]zed.Type{zed.TypeInt64, zed.TypeString})
	en := zctx.LookupTypeEnum([]string{"x", "y"})
	er := zctx.LookupTypeError(zed.TypeString)
	nm, _ := zctx.LookupTypeNamed("empty", empty)
	var b zcode.Builder
	b.Append(nil)
	b.Append([]byte{})
	recNullEmpty := append(zcode.Bytes{}, b.Bytes()...)
	b.Reset()
	b.Append([]byte{})
	b.Append(nil)
	recEmptyNull := append(zcode.Bytes{}, b.Bytes()...)
	b.Reset()
	b.Append(nil)
	b.Append([]byte{})
	b.Append(nil)
	arrMixed := append(zcode.Bytes{}, b.Bytes()...)
	all := []zed.Value{
		zed.NewValue(zed.TypeString, nil), zed.NewValue(zed.TypeString, []byte{}),
		zed.NewValue(zed.TypeBytes, nil), zed.NewValue(zed.TypeBytes, []byte{}),
		zed.NewValue(zed.TypeNull, nil),
		zed.NewValue(rec, nil), zed.NewValue(rec, recNullEmpty), zed.NewValue(rec, recEmptyNull),
		zed.NewValue(empty, nil), zed.NewValue(empty, []byte{}),
		zed.NewValue(nm, nil), zed.NewValue(nm, []byte{}),
		zed.NewValue(arr, nil), zed.NewValue(arr, []byte{}), zed.NewValue(arr, arrMixed),
		zed.NewValue(set, nil), zed.NewValue(set, []byte{}),
		zed.NewValue(mp, nil), zed.NewValue(mp, []byte{}),
		zed.NewValue(un, nil), zed.NewValue(en, nil), zed.NewValue(er, nil), zed.NewValue(er, []byte{}),
		zed.NewValue(zed.TypeInt64, nil), zed.NewValue(zed.TypeIP, nil), zed.NewValue(zed.TypeType, nil),
	}
	n := 1 + r.Intn(len(all))
	Shuffle(r, all)
	return all[:n]
}

// shadowValues: the same type name bound to different types inside one
// stream and inside one type; names nested in their own definition.
func shadowValues(r *Rng, zctx *zed.Context) []zed.Value {
	name := Pick(r, []string{"foo", "T", "my type"})
	n1, _ := zctx.LookupTypeNamed(name, zed.TypeInt64)
	n2, _ := zctx.LookupTypeNamed(name, zed.TypeString)
	rec, _ := zctx.LookupTypeRecord([]zed.Field{zed.NewField("a", n1), zed.NewField("b", n2), zed.NewField("c", n1)})
	inner, _ := zctx.LookupTypeRecord([]zed.Field{zed.NewField("x", n1)})
	n3, _ := zctx.LookupTypeNamed(name, inner) // foo={x:foo=int64}
	n4, _ := zctx.LookupTypeNamed(name, n2)    // foo=(foo=string)
	other, _ := zctx.LookupTypeNamed("bar", zed.TypeInt64)
	un := zctx.LookupTypeUnion([]zed.Type{n1, other, zed.TypeInt64, n2})
	arr := zctx.LookupTypeArray(n3)
	// the same binding twice inside one type: the second occurrence is a
	// reference by name in the type's context-independent encoding, resolved
	// against the latest binding of the name in the reading context
	rec2, _ := zctx.LookupTypeRecord([]zed.Field{zed.NewField("x", n1), zed.NewField("y", n1)})
	rec3, _ := zctx.LookupTypeRecord([]zed.Field{zed.NewField("x", n2), zed.NewField("y", n2), zed.NewField("z", zctx.LookupTypeArray(n2))})
	mp := zctx.LookupTypeMap(n1, zctx.LookupTypeSet(n1))
	var out []zed.Value
	o := GenOpts{Depth: 2}
	types := []zed.Type{n1, n2, rec, n3, n4, un, arr, n1, rec, n2, rec2, rec3, mp, rec2}
	if r.Bool() {
		Shuffle(r, types)
	}
	for _, t := range types {
		if r.Chance(1, 4) {
			continue
		}
		out = append(out, GenValue(r, zctx, t, o))
	}
	// type values mentioning the shadowed names
	out = append(out, zed.NewValue(zed.TypeType, zed.EncodeTypeValue(rec)), zed.NewValue(zed.TypeType, zed.EncodeTypeValue(n3)))
	Shuffle(r, out)
	return out
}

// manyTypes: enough distinct types that type IDs need two (or three) uvarint bytes.
func manyTypes(r *Rng, zctx *zed.Context, n int) []zed.Value {
	var out []zed.Value
	for i := 0; i < n; i++ {
		var t zed.Type
		switch i % 3 {
		case 0:
			t, _ = zctx.LookupTypeRecord([]zed.Field{zed.NewField(fmt.Sprintf("f%d", i), zed.TypeInt64)})
		case 1:
			t, _ = zctx.LookupTypeNamed(fmt.Sprintf("n%d", i), zed.TypeString)
		default:
			t = zctx.LookupTypeEnum([]string{fmt.Sprintf("e%d", i)})
		}
		out = append(out, GenValue(r, zctx, t, GenOpts{Depth: 1, NoNulls: true}))
	}
	// and use them again in a scrambled order so that high and low IDs alternate
	m := len(out)
	for i := 0; i < m/4+1; i++ {
		out = append(out, out[r.Intn(m)])
	}
	return out
}

// wideType: one type whose typedef is long (long field names, many fields).
func wideType(r *Rng, zctx *zed.Context, nameLen, nfields int) zed.Value {
	var fields []zed.Field
	for i := 0; i < nfields; i++ {
		name := fmt.Sprintf("%d_", i) + strings.Repeat("n", nameLen)
		fields = append(fields, zed.NewField(name, Pick(r, []zed.Type{zed.TypeInt64, zed.TypeString, zed.TypeBool})))
	}
	t, err := zctx.LookupTypeRecord(fields)
	if err != nil {
		panic(err)
	}
	return GenValue(r, zctx, t, GenOpts{Depth: 1})
}

// genValueSeq builds the values of one stream.  Types may come from several
// contexts (the writer must cope with foreign and structurally equal types).
func genValueSeq(r *Rng, depth int, class string) []zed.Value {
	nctx := 1 + r.Intn(3)
	var ctxs []*zed.Context
	for i := 0; i < nctx; i++ {
		ctxs = append(ctxs, zed.NewContext())
	}
	o := GenOpts{Depth: depth, Floats16: true, FewNames: r.Chance(1, 3)}
	var out []zed.Value
	switch class {
	case "general":
		for _, c := range ctxs {
			out = append(out, GenValues(r, c, 1+r.Intn(12), 1+r.Intn(5), o)...)
		}
		if r.Chance(1, 3) {
			out = append(out, edgeValues(r, Pick(r, ctxs))...)
		}
		if r.Chance(1, 3) {
			out = append(out, shadowValues(r, Pick(r, ctxs))...)
		}
		if r.Chance(1, 3) {
			for i := 0; i < 1+r.Intn(4); i++ {
				out = append(out, nativeValue(r))
			}
		}
		if r.Chance(1, 4) {
			out = append(out, sizedValue(r, Pick(r, sizeBoundaries)))
		}
		Shuffle(r, out)
	case "samestruct":
		// the same structural types built independently in every context
		seed := r.Next()
		for _, c := range ctxs {
			rr := NewRng(seed)
			out = append(out, GenValues(rr, c, 3+int(seed%5), 3, o)...)
		}
		Shuffle(r, out)
	case "edge":
		for _, c := range ctxs {
			out = append(out, edgeValues(r, c)...)
		}
	case "shadow":
		for _, c := range ctxs {
			out = append(out, shadowValues(r, c)...)
		}
	case "sized":
		for i := 0; i < 1+r.Intn(5); i++ {
			n := Pick(r, sizeBoundaries)
			if r.Chance(1, 3) {
				n += r.Intn(5) - 2
				if n < 0 {
					n = 0
				}
			}
			out = append(out, sizedValue(r, n))
		}
	case "manytypes":
		out = manyTypes(r, ctxs[0], 100+r.Intn(120))
	case "hugetypes":
		out = manyTypes(r, ctxs[0], 16400)
	case "widetype":
		out = append(out, wideType(r, ctxs[0], Pick(r, []int{1, 20, 126, 127, 128, 300}), 1+r.Intn(20)))
		out = append(out, GenValues(r, ctxs[0], 1+r.Intn(4), 2, o)...)
	case "tiny":
		out = GenValues(r, ctxs[0], 1+r.Intn(3), 1+r.Intn(2), GenOpts{Depth: 1})
	case "records":
		out = GenRecordValues(r, ctxs[0], 5+r.Intn(60), 1+r.Intn(4), o)
	case "bigfirst":
		// one expensive frame followed by many cheap ones: with several decode
		// workers the later frames finish first
		out = append(out, sizedValue(r, 300000+r.Intn(400000)))
		for i := 0; i < 40+r.Intn(60); i++ {
			out = append(out, zed.NewValue(zed.TypeInt64, zed.EncodeInt(int64(i))))
		}
	case "big":
		out = append(out, GenValues(r, ctxs[0], 2, 2, o)...)
		out = append(out, sizedValue(r, Pick(r, bigBoundaries)+r.Intn(3)-1))
		out = append(out, GenValues(r, ctxs[0], 2, 2, o)...)
		if r.Bool() {
			out = append(out, sizedValue(r, Pick(r, bigBoundaries)))
		}
	case "bulk":
		// many small values so that large thresholds produce large multi-value frames
		recs := GenRecordValues(r, ctxs[0], 40, 4, GenOpts{Depth: 2})
		n := 20000 + r.Intn(30000)
		for i := 0; i < n; i++ {
			out = append(out, recs[r.Intn(len(recs))])
		}
	}
	return out
}

func genOps(r *Rng, vals []zed.Value, eosMode int, ctlProb int) []wop {
	var ops []wop
	maybeExtra := func() {
		switch eosMode {
		case 1: // sparse
			if r.Chance(1, 10) {
				ops = append(ops, wop{kind: opEnd})
			}
		case 2: // dense, with repeats
			for r.Chance(1, 2) {
				ops = append(ops, wop{kind: opEnd})
			}
		case 3: // after every value
			ops = append(ops, wop{kind: opEnd})
		}
		if ctlProb > 0 && r.Chance(1, ctlProb) {
			n := Pick(r, []int{0, 1, 3, 14, 15, 16, 40, 300})
			ops = append(ops, wop{kind: opControl, cfmt: uint8(r.Intn(5)), ctl: patternBytes(r, n, r.Bool())})
		}
	}
	maybeExtra()
	for _, v := range vals {
		ops = append(ops, wop{kind: opWrite, val: v})
		maybeExtra()
	}
	return ops
}

func genStream(r *Rng, depth int, class string) streamCase {
	vals := genValueSeq(r, depth, class)
	sc := streamCase{compress: r.Bool(), thresh: genThresh(r), class: class}
	eosMode := Pick(r, []int{0, 0, 1, 1, 2, 3})
	ctlProb := Pick(r, []int{0, 0, 0, 6, 2})
	switch class {
	case "bulk":
		sc.thresh = Pick(r, []int{4096, 65536, 1 << 19, 1 << 20, 1 + r.Intn(1<<20)})
		eosMode = Pick(r, []int{0, 1})
		if eosMode == 1 {
			eosMode = 0
			// a handful of EOS positions rather than one in ten
			ops := genOps(r, vals, 0, 0)
			for i := 0; i < 5; i++ {
				p := r.Intn(len(ops))
				ops = append(ops[:p], append([]wop{{kind: opEnd}}, ops[p:]...)...)
			}
			sc.ops = ops
			return sc
		}
		ctlProb = 0
	case "hugetypes":
		sc.thresh = Pick(r, []int{1, 100, 65536, 1 << 20})
		eosMode, ctlProb = 0, 0
	case "bigfirst":
		sc.thresh = Pick(r, []int{1, 2, 5})
		sc.compress = true
		eosMode, ctlProb = 0, 0
	case "tiny":
		sc.thresh = Pick(r, []int{1, 2, 3, 5, 8, 16, 64})
	}
	sc.ops = genOps(r, vals, eosMode, ctlProb)
	return sc
}

var smallClasses = []string{"general", "general", "general", "samestruct", "edge", "shadow", "sized", "sized", "widetype", "tiny", "tiny", "records", "manytypes"}

func genCase(r *Rng, id int, depth int, class string) zcase {
	c := zcase{id: id, class: class}
	switch class {
	case "small":
		n := Pick(r, []int{1, 1, 1, 2, 2, 3, 4})
		var cl []string
		for i := 0; i < n; i++ {
			k := Pick(r, smallClasses)
			cl = append(cl, k)
			c.streams = append(c.streams, genStream(r, depth, k))
		}
		c.class = strings.Join(cl, "+")
	default:
		c.streams = append(c.streams, genStream(r, depth, class))
		if r.Chance(1, 3) {
			c.streams = append(c.streams, genStream(r, depth, "tiny"))
		}
	}
	return c
}
