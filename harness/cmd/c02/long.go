package main

import (
	"fmt"
	"strings"
	"unicode/utf8"

	zed "github.com/brimdata/super"
	"github.com/brimdata/super/zson"
	. "zvh/hx"
)

// Long streams: texts of more than two lexer read sizes (zson.ReadSize), dense
// with multi-byte characters in every position where the lexer decodes runes
// (unquoted field names, type names, enum symbols, Unicode white space) and in
// strings, laid out so that a chosen multi-byte character lies across byte
// offset ReadSize with every possible split, so that the lexer's own buffer
// refills fall inside characters and tokens.  Oracle: the values read back
// are the values written (and, through readAllFresh, the same under chunked
// delivery).

type longKind struct {
	name   string
	val    func(zctx *zed.Context) tv
	target string // the character to put across the boundary ("" = separator)
	sep    string // separator placed across the boundary instead of a character of the value
}

func longKinds() []longKind {
	return []longKind{
		{name: "field-name-3byte", target: "語", val: func(zctx *zed.Context) tv {
			return recv(zctx, []string{"日本語フィールド", "ünï"}, i64(1), str("é"))
		}},
		{name: "field-name-2byte", target: "ü", val: func(zctx *zed.Context) tv {
			return recv(zctx, []string{"ünïcödé", "k"}, u8(1), i64(2))
		}},
		{name: "field-name-4byte", target: "𝒜", val: func(zctx *zed.Context) tv {
			return recv(zctx, []string{"x𝒜𝒜y"}, str("s"))
		}},
		{name: "type-name", target: "ü", val: func(zctx *zed.Context) tv {
			return namedv(zctx, "ütypeü", recv(zctx, []string{"a"}, u8(1)))
		}},
		{name: "type-name-in-decorator", target: "本", val: func(zctx *zed.Context) tv {
			return arrv(zctx, namedv(zctx, "日本", u8(7)).t, namedv(zctx, "日本", u8(7)), namedv(zctx, "日本", u8(8)))
		}},
		{name: "enum-symbol", target: "é", val: func(zctx *zed.Context) tv {
			return recv(zctx, []string{"e"}, enumv(zctx, []string{"éé", "b"}, 0))
		}},
		{name: "type-value", target: "語", val: func(zctx *zed.Context) tv {
			return typev(recv(zctx, []string{"日本語"}, u8(0)).t)
		}},
		{name: "string", target: "日", val: func(zctx *zed.Context) tv {
			return recv(zctx, []string{"s"}, str("日本語 é 😀"))
		}},
		{name: "unicode-space", sep: " ", val: func(zctx *zed.Context) tv {
			return recv(zctx, []string{"a"}, i64(1))
		}},
		{name: "unicode-space-2byte", sep: " ", val: func(zctx *zed.Context) tv {
			return recv(zctx, []string{"a"}, i64(1))
		}},
	}
}

func c02Long(o Opts, rng *Rng, res *Result) {
	zctx := zed.NewContext()
	fillers := []tv{
		recv(zctx, []string{"日本語フィールド", "ünï", "k"}, i64(1), str("é日本"), f64(1.5)),
		namedv(zctx, "ütype", recv(zctx, []string{"ключ", "значение"}, u8(1), str("я"))),
		recv(zctx, []string{"e", "ключ"}, enumv(zctx, []string{"éé", "b"}, 0), ipv("::1")),
		arrv(zctx, namedv(zctx, "日本", u8(7)).t, namedv(zctx, "日本", u8(7))),
		typev(recv(zctx, []string{"日本語", "é"}, u8(0), str("")).t),
		mapv(zctx, zed.TypeString, zed.TypeInt64, str("ключ"), i64(1)),
	}
	format := func(v tv) string { return zson.NewFormatter(0, true, nil).FormatRecord(v.val()) }
	var fillText []string
	for _, f := range fillers {
		fillText = append(fillText, format(f))
	}
	kinds := longKinds()
	total := 2*zson.ReadSize + 6000
	if o.Tier != "thorough" {
		// quick: every kind, two splits each (all splits in the thorough tier)
		total = 2*zson.ReadSize + 3000
	}
	for _, k := range kinds {
		special := k.val(zctx)
		stext := format(special)
		width := utf8.RuneLen([]rune(k.sep + k.target)[0])
		for split := 1; split < width; split++ {
			if o.Tier != "thorough" && split > 2 {
				continue
			}
			var sb strings.Builder
			var want []zed.Value
			i := 0
			addFill := func() {
				sb.WriteString(fillText[i%len(fillText)])
				sb.WriteString("\n")
				want = append(want, fillers[i%len(fillers)].val())
				i++
			}
			for sb.Len() < zson.ReadSize-400 {
				addFill()
			}
			// place the chosen character so that [split] of its bytes lie before offset ReadSize
			if k.sep != "" {
				pad := zson.ReadSize - split - sb.Len()
				sb.WriteString(strings.Repeat(" ", pad))
				sb.WriteString(k.sep)
			} else {
				p := strings.Index(stext, k.target)
				if p < 0 {
					res.Notes = append(res.Notes, "long stream: target character not found in "+stext)
					continue
				}
				pad := zson.ReadSize - split - (sb.Len() + p)
				sb.WriteString(strings.Repeat(" ", pad))
			}
			sb.WriteString(stext)
			sb.WriteString("\n")
			want = append(want, special.val())
			for sb.Len() < total {
				// the special value recurs so that later refill boundaries meet it too
				if i%3 == 0 {
					sb.WriteString(stext + k.sep + "\n")
					want = append(want, special.val())
				}
				addFill()
			}
			text := sb.String()
			res.Evaluations++
			res.Count("long-stream:" + k.name)
			got, zc, err := readAllFresh(text)
			bad := ""
			switch {
			case err != nil:
				bad = "read error: " + err.Error()
			case len(got) != len(want):
				bad = fmt.Sprintf("%d values read for %d written", len(got), len(want))
			default:
				for j := range want {
					if ok, _ := sameValue(observe(zctx, want[j]), observe(zc, got[j])); !ok {
						bad = fmt.Sprintf("value #%d written as %s read as %s", j, observe(zctx, want[j]), observe(zc, got[j]))
						break
					}
				}
			}
			if bad != "" {
				at := zson.ReadSize - split
				res.Fail(Failure{
					Kind: "oracle", Sig: fmt.Sprintf("long-stream/%s/%s", k.name, strings.SplitN(bad, ":", 2)[0]),
					Detail:   fmt.Sprintf("a stream of %d bytes (%d values, formatter output separated by white space) with a %d-byte character of kind %q at byte offset %d (lexer read size %d) is not read back: %s; text around the boundary: %q", len(text), len(want), width, k.name, at, zson.ReadSize, clip(bad, 300), text[at-40:at+40]),
					Replay:   map[string]any{"kind": k.name, "split": split, "text_len": len(text), "value_text": stext, "boundary_context": text[at-200 : at+200]},
					Expected: "all values read back identical", Observed: clip(bad, 300),
				})
			}
		}
	}
}
