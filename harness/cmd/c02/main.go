package main

import (
	"fmt"
	"os"
	"strings"

	zed "github.com/brimdata/super"
	"github.com/brimdata/super/zson"
	. "zvh/hx"
)

// C02: ZSON text round trip is the identity; JSON is a subset.

func c02(o Opts) error {
	res := NewResult("C02")
	deliveryRes = res
	// hx.NewRng(s) and hx.NewRng(s+1) are the same stream shifted by one draw;
	// scramble the seed so that different seeds explore different cases.
	rng := NewRng(scramble(o.Seed))
	thorough := o.Tier == "thorough"
	zctx := zed.NewContext()

	// ---- 1. values: boundary (exhaustive lists) + random
	type src struct {
		v    zed.Value
		from string
	}
	var pool []src
	addAll := func(from string, vs []tv) {
		for _, v := range vs {
			pool = append(pool, src{v.val(), from})
		}
	}
	addAll("structural", structuralValues(zctx))
	addAll("field-names", fieldNameValues(zctx))
	addAll("type-names", typeNameValues(zctx))
	nrand := 1000
	if thorough {
		nrand = 150000
	}
	for _, v := range randomValues(rng, zctx, nrand) {
		pool = append(pool, src{v, "random"})
	}
	singleOK := make([]bool, len(pool))
	for i, s := range pool {
		res.Count("values:" + s.from)
		ok := checkSingle(res, zctx, s.v, s.from)
		singleOK[i] = ok
		res.Count("top:" + topKind(s.v.Type()))
		if !s.v.IsNull() && s.v.Type().ID() >= zed.IDTypeComplex {
			res.Distinctly("v:" + observe(zctx, s.v).String())
		}
		if i%400 == 7 {
			res.Sample(map[string]any{"value": zson.FormatValue(s.v), "from": s.from})
		}
	}

	// ---- 2. streams: typedef scope per stream / per value, persist
	nstreams := 200
	if thorough {
		nstreams = 20000
	}
	cfgs := []streamCfg{}
	for _, mode := range []string{"writer", "format", "record", "persist-call"} {
		for _, pretty := range []int{0, 2, 4} {
			for _, persist := range []string{"", ".*", "^(foo|T|a)$", "^$"} {
				if mode == "persist-call" && persist == "" {
					continue
				}
				cfgs = append(cfgs, streamCfg{pretty: pretty, persist: persist, mode: mode})
			}
		}
	}
	// streams biased to values with named types (redefinitions across values)
	// Streams are built from values that round-trip on their own, so that a
	// failure of a stream is a failure of the state shared between values
	// (values that fail alone have been reported above).
	var namedIdx, okIdx []int
	for i, s := range pool {
		if !singleOK[i] {
			continue
		}
		okIdx = append(okIdx, i)
		set := map[string]bool{}
		typeFeatures(s.v.Type(), set)
		if set["named"] {
			namedIdx = append(namedIdx, i)
		}
	}
	res.CountN("values_failing_alone_excluded_from_streams", len(pool)-len(okIdx))
	for k := 0; k < nstreams; k++ {
		n := 2 + rng.Intn(6)
		var idxs []int
		for j := 0; j < n; j++ {
			switch {
			case j > 0 && rng.Chance(1, 5):
				// repeat an earlier value: exercises (name) references
				idxs = append(idxs, idxs[rng.Intn(len(idxs))])
			case rng.Chance(2, 3) && len(namedIdx) > 0:
				idxs = append(idxs, Pick(rng, namedIdx))
			default:
				idxs = append(idxs, Pick(rng, okIdx))
			}
		}
		var vals []zed.Value
		var oks []bool
		for _, i := range idxs {
			vals = append(vals, pool[i].v)
			oks = append(oks, singleOK[i])
		}
		cfg := cfgs[k%len(cfgs)]
		checkStream(res, zctx, vals, oks, cfg)
	}

	// designed streams: names redefined across values, references to earlier
	// typedefs, under every configuration
	for _, all := range designedStreams(zctx) {
		var st []zed.Value
		var oks []bool
		for _, v := range all {
			if checkSingleQuiet(zctx, v) {
				st = append(st, v)
				oks = append(oks, true)
			} else {
				res.Count("designed_stream_value_failing_alone")
			}
		}
		if len(st) == 0 {
			continue
		}
		for _, cfg := range cfgs {
			checkStream(res, zctx, st, oks, cfg)
		}
	}

	// several texts read through one shared type context (two inputs of one query),
	// and a context owner that re-binds type names between reads
	var namedVals []zed.Value
	for _, i := range namedIdx {
		namedVals = append(namedVals, pool[i].v)
	}
	c02Shared(o, NewRng(scramble(o.Seed)+99), res, zctx, namedVals)

	// long streams: the lexer's own buffer refills inside characters and tokens
	c02Long(o, rng, res)

	// ---- 3. JSON subset
	if err := c02JSON(o, rng, res); err != nil {
		return err
	}

	// ---- 4. correspondence with the Coq model
	var sb strings.Builder
	sb.WriteString("From ZV Require Import Base.Prelude Model.Escape Model.EscapeCases Model.Zson Model.ZsonCases.\nLocal Open Scope N_scope.\n")
	if err := c02Model(o, rng, res, zctx, &sb); err != nil {
		return err
	}
	if err := os.WriteFile(o.Out+"/cases.v", []byte(sb.String()), 0644); err != nil {
		return err
	}
	res.Rule = "values: exhaustive boundary lists (every primitive type x boundary values, every type kind as null/type value/empty container/element, names from a list of identifier/keyword/quoted/unicode/control-character spellings, unions with 0..k members seen, redefined names) plus seeded random values of depth <= 4 over the whole type system; each formatted 4 ways and parsed in a fresh context; streams of 2-7 values x {Writer, Formatter.Format, FormatRecord, Persist()} x pretty {0,2,4} x 4 persist regexps; JSON documents from a grammar-directed generator read by jsonio and by zson/zsonio; non-trivial = distinct complex non-null value, distinct JSON document with a container, distinct escaped string"
	if slowCalls > 0 {
		res.Notes = append(res.Notes, fmt.Sprintf("%d guarded calls took more than 30 s (machine load)", slowCalls))
	}
	res.Write(o.Out)
	if res.Dist["failures"] > 0 {
		fmt.Fprintf(os.Stderr, "c02: %d oracle failures\n", res.Dist["failures"])
	}
	return nil
}

func scramble(x uint64) uint64 {
	x ^= x >> 33
	x *= 0xff51afd7ed558ccd
	x ^= x >> 33
	x *= 0xc4ceb9fe1a85ec53
	x ^= x >> 33
	return x ^ 0x5bd1e995c02
}

func topKind(t zed.Type) string {
	switch t.(type) {
	case *zed.TypeNamed:
		return "named"
	case *zed.TypeRecord:
		return "record"
	case *zed.TypeArray:
		return "array"
	case *zed.TypeSet:
		return "set"
	case *zed.TypeMap:
		return "map"
	case *zed.TypeUnion:
		return "union"
	case *zed.TypeEnum:
		return "enum"
	case *zed.TypeError:
		return "error"
	}
	return "primitive"
}

func main() { Main("c02", c02) }
