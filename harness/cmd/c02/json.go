package main

import (
	"encoding/json"
	"fmt"
	"sort"
	"strings"
	"unicode/utf8"

	zed "github.com/brimdata/super"
	"golang.org/x/text/unicode/norm"
	. "zvh/hx"
)

// Grammar-directed JSON generator (RFC 8259).  Every document is valid JSON;
// cls collects the narrow input classes the document falls in.

type jgen struct {
	r   *Rng
	cls map[string]bool
}

var jsonNumbers = []string{
	"0", "-0", "1", "-1", "7", "10", "42", "-128", "255", "65536", "2147483648", "-2147483649",
	"9007199254740993", "9223372036854775807", "-9223372036854775808",
	"0.0", "-0.0", "1.0", "1.5", "-1.5", "0.1", "3.141592653589793", "100.25", "0.000001", "123456.789e3",
	"1e3", "1E3", "1e+3", "1E+3", "1e-3", "1E-3", "-1e3", "0e0", "-0e0", "0E0", "12e0", "1.5e300", "1e308", "5e-324", "2.5E-10", "1e0", "1e22", "1e23",
	"10000000000000000000000", "1.7976931348623157e308", "-1.7976931348623157E+308", "4.9e-324", "1e-400", "0.10", "00.5"[1:], "1.000000000000000000001",
}

// integers outside int64: the JSON reader makes them float64
var jsonBigInts = []string{"9223372036854775808", "-9223372036854775809", "18446744073709551615", "18446744073709551616", "10000000000000000000", "123456789012345678901234567890"}

var jsonPlainRunes = []rune("abcxyzABC019 _-.,:;{}[]()<>=%|`'/!?#$&*+@^~é日本語ß\u00a0\u2028\u2029\ufeff\ufffd😀𝄞\U0010ffff")

func (g *jgen) str(key bool) string {
	var sb strings.Builder
	sb.WriteByte('"')
	n := g.r.Intn(6)
	if g.r.Chance(1, 6) {
		n = 0
	}
	if key && g.r.Chance(1, 2) {
		sb.WriteString(Pick(g.r, []string{"a", "b", "c", "id", "k", "x y", "null", "type", "é", "0", "a.b", "A", "_", "$x"}))
		n = 0
	}
	sawNonASCII := false
	for i := 0; i < n; i++ {
		switch g.r.Intn(12) {
		case 0:
			sb.WriteString(Pick(g.r, []string{`\"`, `\\`, `\/`, `\b`, `\f`, `\n`, `\r`, `\t`}))
		case 1:
			sb.WriteString(Pick(g.r, []string{`\u0041`, `\u00e9`, `\u00E9`, `\u0000`, `\u001f`, `\u001F`, `\u007f`, `\u2028`, `\ufffd`, `\uffff`, `\ud7ff`, `\ue000`, `\u0022`, `\u005c`, `\u002f`, `\u0301`, `\u00C5`, `\u212b`, `\uABCD`, `\uabcd`, `\u0009`, `\u000a`}))
		case 2:
			if sawNonASCII {
				g.cls["surrogate-pair-after-raw-nonascii"] = true
			}
			sb.WriteString(Pick(g.r, []string{`\ud83d\ude00`, `\uD83D\uDE00`, `\ud834\udd1e`, `\udbff\udfff`, `\ud800\udc00`}))
		case 3:
			if g.r.Chance(1, 12) {
				g.cls["lone-surrogate"] = true
				sb.WriteString(Pick(g.r, []string{`\ud800`, `\udc00`, `\ud83dx`, `\ude00\ud83d`, `\ud800\u0041`}))
			} else {
				sb.WriteString("x")
			}
		case 4:
			// decomposed sequences: both readers normalise to NFC
			sb.WriteString(Pick(g.r, []string{"e\u0301", "A\u030a", "\u212b", `e\u0301`, "\u1e9b\u0323"}))
			sawNonASCII = true
		default:
			c := Pick(g.r, jsonPlainRunes)
			if c >= utf8.RuneSelf {
				sawNonASCII = true
			}
			sb.WriteRune(c)
		}
	}
	sb.WriteByte('"')
	return sb.String()
}

func (g *jgen) ws() string {
	if g.r.Chance(3, 4) {
		return ""
	}
	return Pick(g.r, []string{" ", "  ", "\n", "\t", "\r\n", " \n "})
}

func (g *jgen) num() string {
	switch g.r.Intn(10) {
	case 0:
		if g.r.Chance(1, 4) {
			g.cls["integer-beyond-int64"] = true
			return Pick(g.r, jsonBigInts)
		}
		return fmt.Sprint(int64(g.r.Next()))
	case 1, 2:
		return fmt.Sprint(g.r.Intn(2000) - 1000)
	case 3:
		return fmt.Sprintf("%d.%d", g.r.Intn(100)-50, g.r.Intn(1000))
	case 4:
		return fmt.Sprintf("%d%s%s%d", g.r.Intn(100), Pick(g.r, []string{"e", "E"}), Pick(g.r, []string{"", "+", "-"}), g.r.Intn(30))
	}
	return Pick(g.r, jsonNumbers)
}

func (g *jgen) value(depth int) string {
	k := g.r.Intn(10)
	if depth <= 0 && k < 4 {
		k = 4 + g.r.Intn(6)
	}
	switch k {
	case 0, 1: // object
		n := g.r.Intn(5)
		var parts []string
		seen := map[string]bool{}
		parts0 := ""
		for i := 0; i < n; i++ {
			key := g.str(true)
			for tries := 0; seen[decodeKey(key)] && tries < 8; tries++ {
				key = g.str(true)
			}
			if g.r.Chance(1, 30) && len(parts) > 0 {
				// deliberately repeat a key
				key = parts0
			}
			if seen[decodeKey(key)] {
				g.cls["duplicate-keys"] = true
			}
			seen[decodeKey(key)] = true
			if parts0 == "" {
				parts0 = key
			}
			parts = append(parts, g.ws()+key+g.ws()+":"+g.ws()+g.value(depth-1)+g.ws())
		}
		return "{" + strings.Join(parts, ",") + g.wsIfEmpty(parts) + "}"
	case 2, 3: // array
		n := g.r.Intn(5)
		var parts []string
		homog := g.r.Chance(1, 3)
		first := ""
		for i := 0; i < n; i++ {
			if homog && i > 0 && g.r.Chance(3, 4) {
				parts = append(parts, first)
				continue
			}
			v := g.ws() + g.value(depth-1) + g.ws()
			if i == 0 {
				first = v
			}
			parts = append(parts, v)
		}
		return "[" + strings.Join(parts, ",") + g.wsIfEmpty(parts) + "]"
	case 4, 5:
		return g.str(false)
	case 6, 7:
		return g.num()
	case 8:
		return Pick(g.r, []string{"true", "false"})
	}
	return "null"
}

// decodeKey: the key a JSON string literal denotes, by Go's encoding/json
// (independent of the readers under test).
func decodeKey(lit string) string {
	var s string
	if err := json.Unmarshal([]byte(lit), &s); err != nil {
		return lit
	}
	return norm.NFC.String(s)
}

func (g *jgen) wsIfEmpty(parts []string) string {
	if len(parts) == 0 {
		return g.ws()
	}
	return ""
}

func clsString(cls map[string]bool) string {
	var ks []string
	for k := range cls {
		ks = append(ks, k)
	}
	sort.Strings(ks)
	return strings.Join(ks, ",")
}

func readJSON(doc string) (vals []zed.Value, zctx *zed.Context, err error) {
	vals, zctx, err = readJSONFrom(strings.NewReader(doc))
	deliveryJSON(doc, zctx, vals, err)
	return
}

func checkJSON(res *Result, doc string, ndocs int, cls map[string]bool) {
	res.Evaluations++
	sigClass := func(outcome string) string {
		if len(cls) > 0 {
			return "json/" + clsString(cls)
		}
		return "json/plain/" + outcome
	}
	jv, jctx, jerr := readJSON(doc)
	zv, zctxZ, zerr := readAllFresh(doc)
	rep := map[string]any{"json": doc}
	if jerr != nil {
		// the JSON reader rejects a document the generator believes valid:
		// only number range errors are legitimate; then ZSON must not silently accept a different value
		if strings.Contains(jerr.Error(), "out of range") || strings.Contains(jerr.Error(), "value out of range") {
			res.Count("json_number_out_of_range")
			return
		}
		res.Fail(Failure{Kind: "oracle", Sig: sigClass("jsonio-rejects"), Detail: fmt.Sprintf("jsonio rejects valid JSON %q: %v", clip(doc, 300), jerr), Replay: rep, Expected: "accepted", Observed: jerr.Error()})
		return
	}
	if zerr != nil {
		res.Fail(Failure{Kind: "oracle", Sig: sigClass("zson-rejects:" + normErr(zerr)), Detail: fmt.Sprintf("valid JSON %q is not accepted as ZSON: %v", clip(doc, 300), zerr), Replay: rep, Expected: "accepted; same value as jsonio", Observed: zerr.Error()})
		return
	}
	if len(jv) != ndocs || len(zv) != ndocs {
		res.Fail(Failure{Kind: "oracle", Sig: sigClass("count"), Detail: fmt.Sprintf("JSON text with %d documents: jsonio reads %d, zsonio reads %d values: %q", ndocs, len(jv), len(zv), clip(doc, 300)), Replay: rep, Expected: fmt.Sprint(ndocs), Observed: fmt.Sprint(len(jv), len(zv))})
		return
	}
	for i := range jv {
		want, got := observe(jctx, jv[i]), observe(zctxZ, zv[i])
		ok, re := sameValue(want, got)
		if re {
			res.Count("json_union_members_reordered_by_context")
		}
		if !ok {
			cl := "body-differs"
			if want.Type != got.Type {
				cl = "type-differs"
			}
			res.Fail(Failure{Kind: "oracle", Sig: sigClass(cl), Detail: fmt.Sprintf("JSON %q: jsonio reads %s, zsonio reads %s", clip(doc, 300), want, got), Replay: rep, Expected: want.String(), Observed: got.String()})
			return
		}
	}
	if ndocs == 1 {
		// zson.ParseValue on the same text
		g, zc, err := parseFresh(doc)
		o := compareParsed(observe(jctx, jv[0]), zc, g, err)
		if !o.ok {
			res.Fail(Failure{Kind: "oracle", Sig: sigClass("parsevalue-" + o.class), Detail: fmt.Sprintf("JSON %q: jsonio reads %s, zson.ParseValue gives %s %s", clip(doc, 300), observe(jctx, jv[0]), o.got, o.err), Replay: rep, Expected: observe(jctx, jv[0]).String(), Observed: o.got + o.err})
		}
	}
}

func c02JSON(o Opts, rng *Rng, res *Result) error {
	n := 1500
	if o.Tier == "thorough" {
		n = 250000
	}
	// boundary documents: every number spelling and every escape, alone and inside containers
	var fixed []string
	for _, num := range append(append([]string{}, jsonNumbers...), jsonBigInts...) {
		fixed = append(fixed, num, "["+num+"]", `{"a":`+num+"}", "["+num+",1]", "["+num+`,"s"]`, "["+num+",1.5]", " "+num+" ")
	}
	for _, s := range []string{`""`, `"a"`, `"\""`, `"\\"`, `"\/"`, `"\b\f\n\r\t"`, `"\u0041"`, `"\u00e9"`, `"\u0000"`, `"\u001f"`, `"\ud83d\ude00"`, `"\uD83D\uDE00"`, `"a\ud83d\ude00"`, `"\ud83d\ude00a"`, `"é"`, `"日本"`, `"😀"`, `"\u2028"`, `"/"`, `"'"`, `"e\u0301"`, "\"e\u0301\"", `"\u00e9\u0301"`, `"\uffff"`, `"\u007f"`, "\"\u007f\"", `"null"`, `"\\u0041"`, `"\\\""`, `"x\\"`} {
		fixed = append(fixed, s, "["+s+"]", "{"+s+":"+s+"}", "["+s+",1]", `{"k":`+s+`,"k2":[`+s+`]}`)
	}
	fixed = append(fixed, "{}", "[]", "[[]]", "[{}]", "{\"a\":{}}", "{\"a\":[]}", "[[],[]]", "[[],[1]]", "[[1],[\"a\"]]", "[{},{\"a\":1}]", "[{\"a\":1},{\"a\":\"s\"}]", "[{\"a\":1},{\"b\":1}]",
		"[null]", "[null,null]", "[1,null]", "[null,1]", "[null,1,\"a\"]", "[1,\"a\",null,true,1.5,[],{}]", "[true,false]", "[1,2,3]", "[1,2.5]", "[[1,2],[3.5]]", "[[1,\"a\"],[\"b\",2]]", "[[1,\"a\"],[2.5]]",
		"true", "false", "null", " null ", "\n{\n}\n", "[ ]", "{ }", "[1 , 2]", "{\"a\" : 1 , \"b\" : 2}", "{\"\":1}", "{\"\":{\"\":[]}}", "[[[[[[[[[[1]]]]]]]]]]", "{\"a\":{\"a\":{\"a\":{\"a\":{\"a\":null}}}}}",
		"{\"a\":1,\"b\":2,\"c\":3}", "{\"b\":1,\"a\":2}", "{\"a\":null}", "{\"a\":[1,\"x\"],\"b\":[\"x\",1]}", "[{\"a\":[1,\"x\"]},{\"a\":[\"y\",2,null]}]", "[1,[1],[[1]],{\"a\":1},{\"a\":[1]}]", "[\"a\",[\"a\"],{\"a\":\"a\"}]",
		"{\"type\":1,\"null\":2,\"true\":3,\"error\":4,\"enum\":5,\"int64\":6}", "{\"a b\":1,\"a.b\":2,\"a-b\":3,\"1\":4,\"é\":5,\"\\u00e9x\":6}", "[1e3,1000]", "[1.0,1]", "[-0,0]", "[-0.0,0.0]", "[0.1,0.10]")
	for _, d := range fixed {
		res.Count("json:fixed")
		cls := map[string]bool{}
		for _, b := range jsonBigInts {
			if strings.Contains(d, b) {
				cls["integer-beyond-int64"] = true
			}
		}
		checkJSON(res, d, 1, cls)
		res.Distinctly("json:" + d)
	}
	dupFixed := []string{`{"a":1,"a":2}`, `{"a":1,"b":2,"a":3}`, `{"a":1,"\u0061":2}`, `[{"a":1,"a":"s"}]`, `{"a":{"b":1,"b":2}}`, `{"a":1,"b":2,"b":3,"a":4,"c":5}`}
	for _, d := range dupFixed {
		res.Count("json:fixed")
		checkJSON(res, d, 1, map[string]bool{"duplicate-keys": true})
	}
	for i := 0; i < n; i++ {
		g := &jgen{r: rng, cls: map[string]bool{}}
		ndocs := 1
		if rng.Chance(1, 5) {
			ndocs = 2 + rng.Intn(3)
		}
		var docs []string
		for j := 0; j < ndocs; j++ {
			d := g.value(1 + rng.Intn(4))
			if ndocs > 1 && !strings.HasPrefix(d, "{") && !strings.HasPrefix(d, "[") && !strings.HasPrefix(d, "\"") {
				// scalars in a sequence need a separator that both grammars accept
				d = "[" + d + "]"
			}
			docs = append(docs, d)
		}
		doc := g.ws() + strings.Join(docs, Pick(rng, []string{"\n", " ", "\n\n", "\t"})) + g.ws()
		res.Count("json:generated")
		if len(g.cls) > 0 {
			res.Count("json:class:" + clsString(g.cls))
		}
		checkJSON(res, doc, ndocs, g.cls)
		if strings.ContainsAny(doc, "{[") {
			res.Distinctly("json:" + doc)
		}
		if i%500 == 3 {
			res.Sample(map[string]any{"json": clip(doc, 200)})
		}
	}
	return nil
}
