package main

import (
	"fmt"
	"strings"

	"github.com/brimdata/super"
	"github.com/brimdata/super/zio/zsonio"
	"github.com/brimdata/super/zson"
	. "zvh/hx"
)

// Shared type context.  A ZSON stream means the same whoever else uses the
// type context it is read into: a (name) reference denotes the definition made
// earlier in the SAME text, also when another reader of the same context (a
// second input of the same query) or the context's owner (a cast to a named
// type between two reads) binds that name to a different type in between.
// Each text is first read alone in a fresh context; then several texts are
// read through one context with their reads interleaved (every interleaving of
// the designed pairs, seeded random schedules otherwise), optionally with the
// owner re-binding the names between reads; every stream must deliver the
// values it delivers alone.

type sharedStream struct {
	text  string
	alone []Obs
}

func readAloneObs(text string) ([]Obs, error) {
	vals, zc, err := readZSONFrom(strings.NewReader(text))
	if err != nil {
		return nil, err
	}
	var out []Obs
	for _, v := range vals {
		out = append(out, observe(zc, v))
	}
	return out, nil
}

// schedules: all interleavings of a reads of stream 0 and b reads of stream 1
func interleavings(a, b int) [][]int {
	if a == 0 && b == 0 {
		return [][]int{nil}
	}
	var out [][]int
	if a > 0 {
		for _, r := range interleavings(a-1, b) {
			out = append(out, append([]int{0}, r...))
		}
	}
	if b > 0 {
		for _, r := range interleavings(a, b-1) {
			out = append(out, append([]int{1}, r...))
		}
	}
	return out
}

func runShared(res *Result, streams []sharedStream, sched []int, rebind []string, site string) {
	res.Evaluations++
	shared := zed.NewContext()
	var readers []*zsonio.Reader
	for _, s := range streams {
		readers = append(readers, zsonio.NewReader(shared, strings.NewReader(s.text)))
	}
	pos := make([]int, len(streams))
	var first string
	err := guarded(func() error {
		for step, si := range sched {
			if len(rebind) > 0 {
				// the owner of the context binds the names to a type of its own
				for k, name := range rebind {
					other, e := shared.LookupTypeRecord([]zed.Field{{Name: fmt.Sprintf("owner%d", (step+k)%3), Type: zed.TypeIP}})
					if e != nil {
						return e
					}
					if _, e := shared.LookupTypeNamed(name, other); e != nil {
						return e
					}
				}
			}
			v, e := readers[si].Read()
			if e != nil {
				if first == "" {
					first = fmt.Sprintf("stream %d, value %d: read error %v", si, pos[si], e)
				}
				return nil
			}
			if v == nil {
				if first == "" {
					first = fmt.Sprintf("stream %d ends after %d of %d values", si, pos[si], len(streams[si].alone))
				}
				return nil
			}
			got := observe(shared, *v)
			if pos[si] >= len(streams[si].alone) {
				first = fmt.Sprintf("stream %d delivers more than its %d values", si, len(streams[si].alone))
				return nil
			}
			want := streams[si].alone[pos[si]]
			if ok, _ := sameValue(want, got); !ok && first == "" {
				first = fmt.Sprintf("stream %d, value %d: read alone %s, read through the shared context %s", si, pos[si], want, got)
			}
			pos[si]++
		}
		return nil
	})
	if err != nil && first == "" {
		first = "panic/timeout: " + err.Error()
	}
	if first == "" {
		return
	}
	var texts []string
	for _, s := range streams {
		texts = append(texts, s.text)
	}
	kind := "two-readers"
	if len(rebind) > 0 {
		kind = "owner-rebinds"
		if len(streams) > 1 {
			kind = "two-readers+owner-rebinds"
		}
	}
	res.Fail(Failure{Kind: "oracle", Sig: "shared-context/" + kind + "/" + site,
		Detail:   fmt.Sprintf("ZSON texts read through one shared type context (%s, read schedule %v): %s; texts=%q", kind, sched, first, texts),
		Replay:   map[string]any{"texts": texts, "schedule": sched, "owner_rebinds_before_each_read": rebind},
		Expected: "every stream delivers what it delivers when read alone", Observed: first})
}

func c02Shared(o Opts, rng *Rng, res *Result, zctx *zed.Context, named []zed.Value) {
	mk := func(lines ...string) (sharedStream, bool) {
		text := strings.Join(lines, "\n") + "\n"
		alone, err := readAloneObs(text)
		if err != nil || len(alone) != len(lines) {
			res.Count("shared_designed_text_unreadable_alone")
			return sharedStream{}, false
		}
		return sharedStream{text: text, alone: alone}, true
	}
	// designed: the same names with different meanings in the two texts; definitions
	// first, references and type values later
	designed := [][2][]string{
		{{`{id:1}(=foo)`, `{id:2}(foo)`, `<foo>`}, {`{id:1(uint8)}(=foo)`, `{id:2}(foo)`, `<foo>`}},
		{{`1(=T)`, `2(T)`, `[3(T)]`}, {`"a"(=T)`, `"b"(T)`, `{f:"c"(T)}`}},
		{{`{a:1(=port)}`, `{a:2(port),b:3(port)}`}, {`{a:1(port=uint16)}`, `{b:<port>}`, `{a:4(port)}`}},
		{{`{x:{y:1}(=inner)}(=outer)`, `{x:{y:2}}(outer)`, `{y:3}(inner)`}, {`{x:"s"(=inner)}(=outer)`, `"t"(inner)`, `{x:"u"}(outer)`}},
		{{`|[1(=e)]|`, `|[2(e),3(e)]|`}, {`[1.5(=e)]`, `2.5(e)`}},
		{{`{id:1}(=foo)`, `3`, `{id:2}(foo)`}, {`"plain"`, `{k:1}`, `null`}},
	}
	for di, d := range designed {
		a, ok1 := mk(d[0]...)
		b, ok2 := mk(d[1]...)
		if !ok1 || !ok2 {
			continue
		}
		names := []string{"foo", "T", "port", "inner", "outer", "e"}
		for _, sched := range interleavings(len(a.alone), len(b.alone)) {
			runShared(res, []sharedStream{a, b}, sched, nil, fmt.Sprintf("designed%d", di))
		}
		res.Distinctly(fmt.Sprintf("shared:designed:%d", di))
		// one reader, the owner re-binds the names before every read
		for _, s := range []sharedStream{a, b} {
			sched := make([]int, len(s.alone))
			runShared(res, []sharedStream{s}, sched, names, fmt.Sprintf("designed%d", di))
		}
		sch := interleavings(len(a.alone), len(b.alone))
		runShared(res, []sharedStream{a, b}, sch[len(sch)/2], names, fmt.Sprintf("designed%d", di))
	}
	// random: streams of values with named types written by the real writer with a
	// persist pattern (later values refer to earlier definitions by name)
	if len(named) == 0 {
		return
	}
	n := 60
	if o.Tier == "thorough" {
		n = 3000
	}
	for k := 0; k < n; k++ {
		var ss []sharedStream
		for j := 0; j < 2; j++ {
			m := 2 + rng.Intn(4)
			var vals []zed.Value
			for i := 0; i < m; i++ {
				if i > 0 && rng.Chance(1, 3) {
					vals = append(vals, vals[rng.Intn(len(vals))])
				} else {
					vals = append(vals, Pick(rng, named))
				}
			}
			text, _, err := formatStream(vals, streamCfg{pretty: 0, persist: ".*", mode: "writer"})
			if err != nil {
				continue
			}
			alone, err := readAloneObs(text)
			if err != nil || len(alone) != len(vals) {
				res.Count("shared_random_text_unreadable_alone")
				continue
			}
			ss = append(ss, sharedStream{text: text, alone: alone})
		}
		if len(ss) != 2 {
			continue
		}
		var sched []int
		ra, rb := len(ss[0].alone), len(ss[1].alone)
		for ra > 0 || rb > 0 {
			if rb == 0 || (ra > 0 && rng.Bool()) {
				sched = append(sched, 0)
				ra--
			} else {
				sched = append(sched, 1)
				rb--
			}
		}
		runShared(res, ss, sched, nil, "random")
		res.Count("shared_random_pairs")
	}
	_ = zson.FormatValue
}
