package main

import (
	"fmt"
	"math"
	"net/netip"

	zed "github.com/brimdata/super"
	"github.com/brimdata/super/pkg/nano"
	"github.com/brimdata/super/zcode"
	. "zvh/hx"
)

// A tiny DSL to build values directly (types via zed.Context lookups, bodies
// via zcode.Builder): nothing here goes through the text format under test.

type tv struct {
	t zed.Type
	b zcode.Bytes // nil = null
}

func (v tv) val() zed.Value { return zed.NewValue(v.t, v.b) }

func pv(t zed.Type, b zcode.Bytes) tv {
	if b == nil {
		b = zcode.Bytes{}
	}
	return tv{t, b}
}
func nullOf(t zed.Type) tv { return tv{t, nil} }

func finish(b *zcode.Builder) zcode.Bytes {
	it := b.Bytes().Iter()
	body := it.Next()
	if body == nil {
		return zcode.Bytes{}
	}
	return append(zcode.Bytes{}, body...)
}

// appendAs appends v as an element/field of declared type t; if t is a union
// (possibly named) and v is a value of one of its members, v is tagged.
func appendAs(b *zcode.Builder, t zed.Type, v tv) {
	if v.b == nil {
		b.Append(nil)
		return
	}
	if u, ok := zed.TypeUnder(t).(*zed.TypeUnion); ok && v.t != t {
		tag := u.TagOf(v.t)
		if tag < 0 {
			panic(fmt.Sprintf("appendAs: %v not in union", v.t))
		}
		b.BeginContainer()
		b.Append(zed.EncodeInt(int64(tag)))
		b.Append(v.b)
		b.EndContainer()
		return
	}
	b.Append(v.b)
}

func recv(zctx *zed.Context, names []string, vals ...tv) tv {
	var fields []zed.Field
	b := zcode.NewBuilder()
	b.BeginContainer()
	for i, n := range names {
		fields = append(fields, zed.NewField(n, vals[i].t))
		b.Append(vals[i].b)
	}
	b.EndContainer()
	t, err := zctx.LookupTypeRecord(fields)
	if err != nil {
		panic(err)
	}
	return tv{t, finish(b)}
}

// recOf builds a record of a given record type from values for its fields.
func recOf(t *zed.TypeRecord, vals ...tv) tv {
	b := zcode.NewBuilder()
	b.BeginContainer()
	for i, f := range t.Fields {
		appendAs(b, f.Type, vals[i])
	}
	b.EndContainer()
	return tv{t, finish(b)}
}

func arrv(zctx *zed.Context, elem zed.Type, vals ...tv) tv {
	b := zcode.NewBuilder()
	b.BeginContainer()
	for _, v := range vals {
		appendAs(b, elem, v)
	}
	b.EndContainer()
	return tv{zctx.LookupTypeArray(elem), finish(b)}
}

func setv(zctx *zed.Context, elem zed.Type, vals ...tv) tv {
	b := zcode.NewBuilder()
	b.BeginContainer()
	for _, v := range vals {
		appendAs(b, elem, v)
	}
	b.TransformContainer(zed.NormalizeSet)
	b.EndContainer()
	return tv{zctx.LookupTypeSet(elem), finish(b)}
}

func mapv(zctx *zed.Context, kt, vt zed.Type, kvs ...tv) tv {
	b := zcode.NewBuilder()
	b.BeginContainer()
	for i := 0; i+1 < len(kvs); i += 2 {
		appendAs(b, kt, kvs[i])
		appendAs(b, vt, kvs[i+1])
	}
	b.TransformContainer(zed.NormalizeMap)
	b.EndContainer()
	return tv{zctx.LookupTypeMap(kt, vt), finish(b)}
}

func unionv(ut zed.Type, v tv) tv {
	b := zcode.NewBuilder()
	appendAs(b, ut, v)
	return tv{ut, finish(b)}
}

func namedv(zctx *zed.Context, name string, v tv) tv {
	t, err := zctx.LookupTypeNamed(name, v.t)
	if err != nil {
		panic(err)
	}
	return tv{t, v.b}
}

func errv(zctx *zed.Context, v tv) tv { return tv{zctx.LookupTypeError(v.t), v.b} }

func enumv(zctx *zed.Context, syms []string, idx int) tv {
	return pv(zctx.LookupTypeEnum(syms), zed.EncodeUint(uint64(idx)))
}

func typev(t zed.Type) tv { return pv(zed.TypeType, zed.EncodeTypeValue(t)) }

func i64(v int64) tv     { return pv(zed.TypeInt64, zed.EncodeInt(v)) }
func u8(v uint8) tv      { return pv(zed.TypeUint8, zed.EncodeUint(uint64(v))) }
func u64(v uint64) tv    { return pv(zed.TypeUint64, zed.EncodeUint(v)) }
func f64(v float64) tv   { return pv(zed.TypeFloat64, zed.EncodeFloat64(v)) }
func str(s string) tv    { return pv(zed.TypeString, zed.EncodeString(s)) }
func boolv(b bool) tv    { return pv(zed.TypeBool, zed.EncodeBool(b)) }
func ipv(s string) tv    { return pv(zed.TypeIP, zed.EncodeIP(netip.MustParseAddr(s))) }
func netv(s string) tv   { return pv(zed.TypeNet, zed.EncodeNet(netip.MustParsePrefix(s))) }
func bytesv(b []byte) tv { return pv(zed.TypeBytes, zed.EncodeBytes(b)) }

var allPrimTypes = []zed.Type{
	zed.TypeUint8, zed.TypeUint16, zed.TypeUint32, zed.TypeUint64,
	zed.TypeInt8, zed.TypeInt16, zed.TypeInt32, zed.TypeInt64,
	zed.TypeDuration, zed.TypeTime, zed.TypeFloat16, zed.TypeFloat32, zed.TypeFloat64, zed.TypeBool,
	zed.TypeBytes, zed.TypeString, zed.TypeIP, zed.TypeNet, zed.TypeType, zed.TypeNull,
}

// Names that stress QuotedName / QuotedTypeName / the lexer.
var nastyFieldNames = []string{
	"a", "_", "$", "a1", "1a", "1", "", " ", "a b", "a.b", "a-b", "a:b", "a,b", "null", "true", "false", "error", "enum", "type",
	"int64", "string", "ip", "Inf", "NaN", "é", "日本", "éx", "x\"y", "x\\y", "x\ny", "x\ty", "\x01", "\x7f", "😀", "a b", "{", "}", "[", "(", "=", "%a", "<t>", "|", "`", "'", "//", "/*", "0x", "1e3", "e", "E", "a/b", "ｆｕｌｌ", "A", "ǅ", "ªº", "x٣", "x²",
}

var nastyTypeNames = []string{
	"foo", "T", "_t", "$t", "a.b", "a1", "x.1", "my type", "a-b", "é", "日本", "😀", "error.x", "enumx", "int64x", "nullx", "x\"y", "x\\y", "a=b", "a(b)", "1a", ".a", "a.", "type x", "x\ny", "ǅz", "a,b", "a:b", "{x}", "[x]", "|x|", "<x>", "%x", "x/y", "'x'", "`x`",
}

// every primitive type x its boundary values
func primBoundaries() []tv {
	var out []tv
	for _, v := range []uint64{0, 1, 9, 10, 127, 128, 255} {
		out = append(out, pv(zed.TypeUint8, zed.EncodeUint(v)))
	}
	for _, v := range []uint64{0, 255, 256, 32767, 32768, 65535} {
		out = append(out, pv(zed.TypeUint16, zed.EncodeUint(v)))
	}
	for _, v := range []uint64{0, 65535, 65536, 1<<31 - 1, 1 << 31, 1<<32 - 1} {
		out = append(out, pv(zed.TypeUint32, zed.EncodeUint(v)))
	}
	for _, v := range []uint64{0, 1, 1<<32 - 1, 1 << 32, 1<<53 - 1, 1 << 53, 1<<53 + 1, 1<<63 - 1, 1 << 63, 1<<63 + 1, math.MaxUint64 - 1, math.MaxUint64, 9999999999999999999, 10000000000000000000} {
		out = append(out, u64(v))
	}
	for _, v := range []int64{0, 1, -1, 127, -127, -128} {
		out = append(out, pv(zed.TypeInt8, zed.EncodeInt(v)))
	}
	for _, v := range []int64{0, 128, -129, 32767, -32768} {
		out = append(out, pv(zed.TypeInt16, zed.EncodeInt(v)))
	}
	for _, v := range []int64{0, 32768, -32769, 1<<31 - 1, -(1 << 31)} {
		out = append(out, pv(zed.TypeInt32, zed.EncodeInt(v)))
	}
	for _, v := range []int64{0, 1, -1, 9, 10, -10, 1 << 31, -(1 << 31) - 1, 1<<53 - 1, 1 << 53, 1<<53 + 1, -(1 << 53) - 1, math.MaxInt64 - 1, math.MaxInt64, math.MinInt64 + 1, math.MinInt64, 999999999999999999, 1000000000000000000} {
		out = append(out, i64(v))
	}
	for _, v := range []int64{0, 1, -1, 999, 1000, 1001, 1e6, 1e9, 59e9, 60e9, 61e9, 3599e9, 3600e9, 3601e9, 86400e9, 86400e9 - 1, 7 * 86400e9, 365 * 86400e9, 365*86400e9 + 1, -365 * 86400e9, 1500e6, 90e9, 36e11 + 5, math.MaxInt64, math.MinInt64, math.MinInt64 + 1, 123456789012345678, -1e9 - 1} {
		out = append(out, pv(zed.TypeDuration, zed.EncodeDuration(nano.Duration(v))))
	}
	for _, v := range []int64{0, 1, -1, 999999999, 1e9, -1e9, 1e9 + 1, 1700000000123456789, 1700000000000000000, 1700000000100000000, 1700000000120000000, 951782400e9, 68169600e9 /*leap day*/, math.MaxInt64, math.MaxInt64 - 1, math.MinInt64, math.MinInt64 + 1, -2208988800e9, 4102444800e9, 9223372036e9, 9223372036854775807 - 854775807} {
		out = append(out, pv(zed.TypeTime, zed.EncodeTime(nano.Ts(v))))
	}
	f16 := []float32{0, float32(math.Copysign(0, -1)), 1, -1, 0.5, 1.5, 2, 1024, 65504, -65504, 6.1035156e-05, 5.9604645e-08, 0.33325195, float32(math.Inf(1)), float32(math.Inf(-1)), float32(math.NaN()), 100, 0.1}
	for _, v := range f16 {
		out = append(out, pv(zed.TypeFloat16, zed.EncodeFloat16(v)))
	}
	f32 := []float32{0, float32(math.Copysign(0, -1)), 1, -1, 0.5, 1.5, 0.1, 1e10, 16777216, 16777217, 3.4028234663852886e38, -3.4028234663852886e38, 1.401298464324817e-45, 1.1754943508222875e-38, float32(math.Inf(1)), float32(math.Inf(-1)), float32(math.NaN()), 1e20, 9.223372e18, 1e-7, 123456.79}
	for _, v := range f32 {
		out = append(out, pv(zed.TypeFloat32, zed.EncodeFloat32(v)))
	}
	f64s := []float64{0, math.Copysign(0, -1), 1, -1, 2, 10, 100, 0.5, 1.5, 0.1, -0.1, 1e3, 1e15, 1e20, 1e21, 1e22, 1e100, -1e100, 1e-5, 1e-7, 1e-100, 1 << 53, 1<<53 + 2, 9223372036854775807, 9223372036854775808, 9223372036854774784, -9223372036854775808, -9223372036854777856, 1.8446744073709552e19, 3.141592653589793, 2.718281828459045, 0.30000000000000004, 123456789.125, math.MaxFloat64, -math.MaxFloat64, math.SmallestNonzeroFloat64, -math.SmallestNonzeroFloat64, 2.2250738585072014e-308, math.Inf(1), math.Inf(-1), math.NaN(), 4.9e-324, 1e23, 5e-324, 1.0000000000000002}
	for _, v := range f64s {
		out = append(out, f64(v))
	}
	out = append(out, boolv(true), boolv(false))
	for _, b := range [][]byte{{}, {0}, {0xff}, {1, 2, 3}, []byte("hello"), {0xde, 0xad, 0xbe, 0xef, 0, 0x10, 0x0f, 0xa0, 0x0a}} {
		out = append(out, bytesv(b))
	}
	for _, s := range []string{"", " ", "a", "hello world", "\"", "\\", "\\\\", "\\\"", "/", "\b\f\n\r\t", "\x00", "\x01\x02\x1e\x1f", "\x7f", "é", "日本語", "😀", "a😀b", "  ", "\ufeff", "\ufffd", "\U0010ffff", "\u0080", "߿ࠀ￿\U00010000", "null", "true", "1", "1.5", "0x", "{a:1}", "[1]", "<int64>", "(int64)", "error(1)", "10.0.0.1", "::1", "1s", "2024-01-01T00:00:00Z", "`", "=>`x`", "a\\u0041", "\\u0041", "\\n", "'", "tab\there", "x\r\ny", "é\"é", "é\\é", "\\😀", "é\n", "é\x01", "a,b", "//c", "/*c*/", "é" /*not NFC*/, "Å" /*not NFC*/, "%", "a b (int64)"} {
		out = append(out, str(s))
	}
	for _, s := range []string{"0.0.0.0", "1.2.3.4", "10.0.0.1", "255.255.255.255", "127.0.0.1", "::", "::1", "1::", "2001:db8::1", "2001:db8:0:0:1:0:0:1", "fe80::1", "::ffff:1.2.3.4", "::ffff:0:0", "::1.2.3.4", "ffff:ffff:ffff:ffff:ffff:ffff:ffff:ffff", "1:2:3:4:5:6:7:8", "a::", "abcd::ef", "64:ff9b::1.2.3.4", "1:0:0:2::3"} {
		out = append(out, ipv(s))
	}
	for _, s := range []string{"0.0.0.0/0", "10.0.0.0/8", "192.168.1.0/24", "1.2.3.4/32", "128.0.0.0/1", "::/0", "::/128", "::1/128", "2001:db8::/32", "fe80::/10", "::ffff:1.2.3.0/120", "ffff::/16", "a::/16", "1:2:3:4::/64"} {
		out = append(out, netv(s))
	}
	return out
}

// type values of every kind
func typeBoundaries(zctx *zed.Context) []zed.Type {
	var out []zed.Type
	out = append(out, allPrimTypes...)
	rec := func(names []string, ts ...zed.Type) zed.Type {
		var fs []zed.Field
		for i, n := range names {
			fs = append(fs, zed.NewField(n, ts[i]))
		}
		t, err := zctx.LookupTypeRecord(fs)
		if err != nil {
			panic(err)
		}
		return t
	}
	named := func(n string, t zed.Type) zed.Type {
		nt, err := zctx.LookupTypeNamed(n, t)
		if err != nil {
			panic(err)
		}
		return nt
	}
	empty := rec(nil)
	r1 := rec([]string{"a"}, zed.TypeInt64)
	r2 := rec([]string{"a", "b c", ""}, zed.TypeUint8, zed.TypeString, zed.TypeNull)
	un := zctx.LookupTypeUnion([]zed.Type{zed.TypeInt64, zed.TypeString})
	un3 := zctx.LookupTypeUnion([]zed.Type{zed.TypeUint8, r1, zctx.LookupTypeArray(zed.TypeString)})
	en := zctx.LookupTypeEnum([]string{"a", "b c", "null", ""})
	foo := named("foo", r1)
	out = append(out, empty, r1, r2, un, un3, en, foo,
		zctx.LookupTypeArray(zed.TypeInt64), zctx.LookupTypeArray(r2), zctx.LookupTypeArray(un), zctx.LookupTypeArray(zctx.LookupTypeArray(zed.TypeNull)),
		zctx.LookupTypeSet(zed.TypeString), zctx.LookupTypeSet(un3), zctx.LookupTypeSet(r1),
		zctx.LookupTypeMap(zed.TypeString, zed.TypeInt64), zctx.LookupTypeMap(r1, un), zctx.LookupTypeMap(zed.TypeIP, zctx.LookupTypeMap(zed.TypeString, r2)),
		zctx.LookupTypeError(zed.TypeString), zctx.LookupTypeError(r1), zctx.LookupTypeError(foo), zctx.LookupTypeError(zctx.LookupTypeError(un)),
		named("bar", zed.TypeInt64), named("port", zed.TypeUint16), named("my type", zed.TypeString), named("é", un), named("outer", rec([]string{"x", "y"}, foo, foo)),
		named("a.b", foo), rec([]string{"p", "q"}, foo, named("foo2", foo)), zctx.LookupTypeArray(foo), zctx.LookupTypeUnion([]zed.Type{foo, named("bar", zed.TypeInt64)}),
		named("en", en), zctx.LookupTypeError(en), rec([]string{"t"}, zed.TypeType),
		zctx.LookupTypeUnion([]zed.Type{zed.TypeNull, zed.TypeInt64}),
		named("x\"y", zed.TypeBool), named("a=b", zed.TypeBool),
	)
	return out
}

func fieldNameValues(zctx *zed.Context) []tv {
	var out []tv
	for _, n := range nastyFieldNames {
		out = append(out, recv(zctx, []string{n}, i64(1)))
		out = append(out, recv(zctx, []string{n, n + "x"}, u8(1), str(n)))
		// same name in an enum symbol, a type value and a record type decorator
		out = append(out, enumv(zctx, []string{"zz", n}, 1))
		out = append(out, enumv(zctx, []string{n, "zz"}, 0))
		rt := recv(zctx, []string{n}, u8(0)).t
		out = append(out, typev(rt))
		out = append(out, arrv(zctx, rt))
		out = append(out, errv(zctx, recv(zctx, []string{n}, nullOf(zed.TypeUint8))))
	}
	return out
}

func typeNameValues(zctx *zed.Context) []tv {
	var out []tv
	for _, n := range nastyTypeNames {
		out = append(out, namedv(zctx, n, i64(7)))                           // 7 (=n)   hmm: int64 is implied
		out = append(out, namedv(zctx, n, u8(7)))                            // 7 (n=uint8)
		out = append(out, namedv(zctx, n, recv(zctx, []string{"a"}, u8(1)))) // {a:1(uint8)}(=n)
		nt := namedv(zctx, n, u8(7))
		out = append(out, arrv(zctx, nt.t, nt, nt))                                           // [7(n=uint8),7(n)]
		out = append(out, arrv(zctx, nt.t))                                                   // [] ([n=uint8])
		out = append(out, typev(nt.t))                                                        // <n=uint8>
		out = append(out, recv(zctx, []string{"x", "y"}, nt, nt))                             // def then ref
		out = append(out, errv(zctx, nt))                                                     // error(7 (n=uint8))
		out = append(out, nullOf(nt.t))                                                       // null (n=uint8)
		out = append(out, typev(zctx.LookupTypeError(nt.t)))                                  // <error(n=uint8)>
		out = append(out, nullOf(zctx.LookupTypeError(nt.t)))                                 // null (error(n=uint8))
		out = append(out, unionv(zctx.LookupTypeUnion([]zed.Type{nt.t, zed.TypeString}), nt)) // 7(n=uint8)((n,string))
		out = append(out, mapv(zctx, nt.t, nt.t, nt, nt))
		out = append(out, enumv(zctx, []string{n}, 0))
		out = append(out, namedv(zctx, n, enumv(zctx, []string{"a", "b"}, 1)))
	}
	return out
}

// structural boundary values: empty containers, null of every type, unions
// with 1..k members seen, nested named types, redefinitions inside one value.
func structuralValues(zctx *zed.Context) []tv {
	var out []tv
	add := func(v ...tv) { out = append(out, v...) }
	prims := primBoundaries()
	// one representative (first) value per primitive type, used below
	rep := map[zed.Type]tv{}
	for _, p := range prims {
		if _, ok := rep[p.t]; !ok {
			rep[p.t] = p
		}
	}
	rep[zed.TypeType] = typev(zed.TypeInt64)
	rep[zed.TypeNull] = nullOf(zed.TypeNull)
	// null of every type
	for _, t := range typeBoundaries(zctx) {
		add(nullOf(t))
		add(typev(t))
		add(arrv(zctx, t), setv(zctx, t), mapv(zctx, t, t), mapv(zctx, zed.TypeString, t))
		add(arrv(zctx, t, nullOf(t)), recv(zctx, []string{"f"}, nullOf(t)), errv(zctx, nullOf(t)), nullOf(zctx.LookupTypeError(t)))
		add(recv(zctx, []string{"a", "b"}, nullOf(t), nullOf(zctx.LookupTypeArray(t))))
		if _, isUnion := zed.TypeUnder(t).(*zed.TypeUnion); !isUnion && t != zed.TypeBool {
			u := zctx.LookupTypeUnion([]zed.Type{t, zed.TypeBool})
			add(nullOf(u), arrv(zctx, u, nullOf(u)))
		}
	}
	// every primitive in every position
	for _, t := range allPrimTypes {
		v := rep[t]
		add(recv(zctx, []string{"a"}, v), arrv(zctx, t, v), arrv(zctx, t, v, nullOf(t), v), setv(zctx, t, v), errv(zctx, v),
			mapv(zctx, t, t, v, v), mapv(zctx, zed.TypeString, t, str("k"), v), mapv(zctx, t, zed.TypeString, v, str("v")),
			namedv(zctx, "n", v), recv(zctx, []string{"a", "b"}, namedv(zctx, "n", v), namedv(zctx, "n", v)))
		if t != zed.TypeNull {
			for _, other := range []zed.Type{zed.TypeString, zed.TypeUint16, zed.TypeFloat32, zed.TypeInt64} {
				if other == t {
					continue
				}
				u := zctx.LookupTypeUnion([]zed.Type{t, other})
				add(unionv(u, v), arrv(zctx, u, v), arrv(zctx, u, v, rep[other]), arrv(zctx, u, rep[other], v, nullOf(u)), setv(zctx, u, v), mapv(zctx, u, u, v, rep[other]),
					mapv(zctx, u, zed.TypeInt64, v, i64(1), rep[other], i64(2)), recv(zctx, []string{"u"}, unionv(u, v)), errv(zctx, unionv(u, v)),
					namedv(zctx, "nu", unionv(u, v)), arrv(zctx, namedv(zctx, "nu", unionv(u, v)).t, v, rep[other]))
			}
		}
	}
	add(prims...)
	// primitives as array elements: all boundaries of a type in one array (one decorator)
	byType := map[zed.Type][]tv{}
	for _, p := range prims {
		byType[p.t] = append(byType[p.t], p)
	}
	for _, t := range allPrimTypes {
		if vs := byType[t]; len(vs) > 0 {
			add(arrv(zctx, t, vs...), setv(zctx, t, vs...))
			var kvs []tv
			for _, v := range vs {
				kvs = append(kvs, v, v)
			}
			add(mapv(zctx, t, t, kvs...))
		}
	}
	// IPv6 map keys (space before ':'), IPv4 keys, net keys, time keys, duration keys
	add(mapv(zctx, zed.TypeIP, zed.TypeIP, ipv("::1"), ipv("::2"), ipv("1.2.3.4"), ipv("::ffff:1.2.3.4")))
	add(mapv(zctx, zed.TypeNet, zed.TypeNet, netv("::/0"), netv("10.0.0.0/8")))
	add(mapv(zctx, zed.TypeTime, zed.TypeDuration, rep[zed.TypeTime], rep[zed.TypeDuration]))
	nip := namedv(zctx, "addr", ipv("2001:db8::1"))
	add(mapv(zctx, nip.t, zed.TypeInt64, nip, i64(1)))
	uip := zctx.LookupTypeUnion([]zed.Type{zed.TypeIP, zed.TypeString})
	add(mapv(zctx, uip, zed.TypeInt64, ipv("::1"), i64(1)), mapv(zctx, uip, zed.TypeInt64, ipv("::1"), i64(1), str("s"), i64(2)))
	// map entries whose key and value the lexer could read as one token (key:value)
	tm := pv(zed.TypeTime, zed.EncodeTime(nano.Ts(1700000000123456789)))
	for _, k := range []tv{i64(5), i64(-1), u8(7), u64(1 << 40), f64(1.5), f64(2), pv(zed.TypeFloat32, zed.EncodeFloat32(0.5)), ipv("1.2.3.4"), pv(zed.TypeDuration, zed.EncodeDuration(nano.Duration(86400e9))), pv(zed.TypeInt16, zed.EncodeInt(255))} {
		for _, v := range []tv{tm, ipv("::1"), ipv("::"), netv("::/0"), netv("1::/16"), ipv("1.2.3.4"), netv("10.0.0.0/8"), i64(3), str("x")} {
			add(mapv(zctx, k.t, v.t, k, v), mapv(zctx, k.t, v.t, k, v, k, nullOf(v.t)), recv(zctx, []string{"m"}, mapv(zctx, k.t, v.t, k, v)))
		}
	}
	// decorators inside a value whose enclosing decorator repeats the type
	{
		u3 := zctx.LookupTypeUnion([]zed.Type{zed.TypeTime, zed.TypeFloat32, zed.TypeBool})
		add(errv(zctx, recv(zctx, []string{"b"}, unionv(u3, boolv(true)))), errv(zctx, recv(zctx, []string{"b"}, nullOf(u3))),
			errv(zctx, arrv(zctx, u3, boolv(true), tm)))
		tn := namedv(zctx, "T", netv("::/0"))
		add(errv(zctx, arrv(zctx, tn.t, tn, namedv(zctx, "T", netv("192.168.1.0/24")))), errv(zctx, recv(zctx, []string{"a", "b"}, tn, tn)))
		pt := namedv(zctx, "port", tm)
		up := zctx.LookupTypeUnion([]zed.Type{zed.TypeUint64, pt.t, recv(zctx, nil).t})
		add(errv(zctx, unionv(up, pt)), errv(zctx, unionv(up, u64(1))), errv(zctx, unionv(up, recv(zctx, nil))))
		// empty maps / containers of union type under a named type
		um := zctx.LookupTypeMap(u3, zed.TypeBytes)
		add(namedv(zctx, "port", tv{um, mapv(zctx, u3, zed.TypeBytes).b}), tv{um, mapv(zctx, u3, zed.TypeBytes).b},
			recv(zctx, []string{"m"}, namedv(zctx, "port", tv{um, mapv(zctx, u3, zed.TypeBytes).b})),
			namedv(zctx, "pa", arrv(zctx, u3)), namedv(zctx, "ps", setv(zctx, u3)))
	}
	// unions with 1..k members seen, in arrays, sets, maps
	r1 := recv(zctx, []string{"a"}, i64(1))
	members := []tv{i64(1), str("s"), u8(2), f64(1.5), r1, arrv(zctx, zed.TypeString, str("x")), boolv(true), ipv("::1")}
	for k := 2; k <= len(members); k++ {
		var ts []zed.Type
		for _, m := range members[:k] {
			ts = append(ts, m.t)
		}
		u := zctx.LookupTypeUnion(ts)
		for seen := 0; seen <= k; seen++ {
			add(arrv(zctx, u, members[:seen]...), setv(zctx, u, members[:seen]...))
			var kvs []tv
			for _, m := range members[:seen] {
				kvs = append(kvs, m, m)
			}
			add(mapv(zctx, u, u, kvs...), mapv(zctx, zed.TypeString, u, interleave(members[:seen])...))
		}
		add(arrv(zctx, u, append([]tv{nullOf(u)}, members[:k]...)...))
		add(unionv(u, members[k-1]), unionv(u, members[0]))
		nu, _ := zctx.LookupTypeNamed("U", u)
		add(arrv(zctx, nu, members[:k]...), unionv(nu, members[0]), arrv(zctx, nu), nullOf(nu))
		// union inside union is not allowed by LookupTypeUnion? it is allowed structurally: union member that is a named union
		add(recv(zctx, []string{"x", "y"}, unionv(u, members[0]), unionv(u, members[k-1])))
	}
	// union members of similar spelling: int8/int16/int64/uint64/float32/float64 all spelled "1"
	nums := []tv{pv(zed.TypeInt8, zed.EncodeInt(1)), pv(zed.TypeInt16, zed.EncodeInt(1)), i64(1), u64(1), pv(zed.TypeFloat32, zed.EncodeFloat32(1)), f64(1), pv(zed.TypeDuration, zed.EncodeDuration(1)), pv(zed.TypeTime, zed.EncodeTime(1))}
	var nts []zed.Type
	for _, n := range nums {
		nts = append(nts, n.t)
	}
	nu := zctx.LookupTypeUnion(nts)
	add(arrv(zctx, nu, nums...))
	for _, n := range nums {
		add(unionv(nu, n), arrv(zctx, nu, n))
	}
	// nested named types
	foo := namedv(zctx, "foo", recv(zctx, []string{"a"}, u8(1)))
	bar := namedv(zctx, "bar", recv(zctx, []string{"f", "g"}, foo, foo))
	baz := namedv(zctx, "baz", arrv(zctx, bar.t, bar, bar))
	add(foo, bar, baz, recv(zctx, []string{"p", "q", "r"}, baz, bar, foo), namedv(zctx, "foo2", foo), namedv(zctx, "a", namedv(zctx, "b", namedv(zctx, "c", u8(1)))))
	// a named type of a named type whose definition mentions further named types,
	// a name nested inside a type of the same name
	add(namedv(zctx, "outer2", bar), namedv(zctx, "o3", namedv(zctx, "o2", recv(zctx, []string{"k"}, namedv(zctx, "leaf", u8(1))))),
		namedv(zctx, "nest", recv(zctx, []string{"k"}, namedv(zctx, "nest", u8(1)))), nullOf(namedv(zctx, "nest", recv(zctx, []string{"k"}, namedv(zctx, "nest", u8(1)))).t),
		recv(zctx, []string{"p", "q"}, namedv(zctx, "nest", recv(zctx, []string{"k"}, namedv(zctx, "nest", u8(1)))), namedv(zctx, "nest", u8(2))))
	add(namedv(zctx, "pt", i64(80)), namedv(zctx, "pt", u64(80)), arrv(zctx, namedv(zctx, "pt", u64(80)).t, namedv(zctx, "pt", u64(80)), namedv(zctx, "pt", u64(81))))
	add(namedv(zctx, "ne", enumv(zctx, []string{"x", "y"}, 1)), namedv(zctx, "nerr", errv(zctx, str("boom"))), namedv(zctx, "nerr2", errv(zctx, u8(1))))
	add(namedv(zctx, "nmap", mapv(zctx, zed.TypeString, zed.TypeUint8, str("k"), u8(1))), namedv(zctx, "nset", setv(zctx, zed.TypeUint8, u8(1), u8(2))), namedv(zctx, "narr0", arrv(zctx, zed.TypeUint8)))
	add(namedv(zctx, "ntype", typev(foo.t)), namedv(zctx, "nnull", nullOf(zed.TypeNull)), nullOf(bar.t), nullOf(baz.t))
	// redefinition of a name inside one value: foo bound to two types
	fooA := namedv(zctx, "foo", recv(zctx, []string{"a"}, u8(1)))
	fooB := namedv(zctx, "foo", recv(zctx, []string{"b"}, u8(2)))
	fooC := namedv(zctx, "foo", u8(3))
	fooD := namedv(zctx, "foo", str("d"))
	add(recv(zctx, []string{"x", "y"}, fooA, fooB), recv(zctx, []string{"x", "y", "z"}, fooA, fooB, fooA), recv(zctx, []string{"x", "y"}, fooC, fooD), recv(zctx, []string{"x", "y", "z"}, fooD, fooC, fooD))
	add(recv(zctx, []string{"x", "y"}, fooB, arrv(zctx, fooA.t, fooA)), recv(zctx, []string{"x", "y"}, arrv(zctx, fooA.t), fooB), recv(zctx, []string{"x", "y"}, typev(fooA.t), fooB), recv(zctx, []string{"x", "y"}, fooB, typev(fooA.t)))
	add(namedv(zctx, "foo", recv(zctx, []string{"in"}, fooA)), recv(zctx, []string{"x", "y"}, namedv(zctx, "foo", recv(zctx, []string{"in"}, fooA)), fooA))
	// errors
	add(errv(zctx, str("x")), errv(zctx, r1), errv(zctx, u8(1)), errv(zctx, errv(zctx, str("x"))), errv(zctx, foo), arrv(zctx, errv(zctx, str("x")).t, errv(zctx, str("x")), errv(zctx, str("y"))),
		errv(zctx, recv(zctx, []string{"message", "on"}, str("m"), u8(1))), errv(zctx, nullOf(zed.TypeNull)), errv(zctx, arrv(zctx, zed.TypeUint8, u8(1))), errv(zctx, unionv(zctx.LookupTypeUnion([]zed.Type{zed.TypeInt64, zed.TypeString}), str("x"))))
	// enums
	for _, syms := range [][]string{{"a"}, {"a", "b", "c"}, {"x y", "z"}, {"null", "true", "error"}, {"é", "1", ""}} {
		for i := range syms {
			add(enumv(zctx, syms, i))
		}
		add(arrv(zctx, enumv(zctx, syms, 0).t, enumv(zctx, syms, 0), enumv(zctx, syms, len(syms)-1)), recv(zctx, []string{"e"}, enumv(zctx, syms, 0)), nullOf(enumv(zctx, syms, 0).t))
	}
	// maps with complex keys, sets of records, deep nesting
	add(mapv(zctx, r1.t, r1.t, r1, r1), mapv(zctx, arrv(zctx, zed.TypeInt64).t, zed.TypeString, arrv(zctx, zed.TypeInt64, i64(1), i64(2)), str("v")),
		mapv(zctx, foo.t, bar.t, foo, bar), setv(zctx, r1.t, r1, recv(zctx, []string{"a"}, i64(2))), setv(zctx, foo.t, foo),
		mapv(zctx, zed.TypeString, zed.TypeUint8, str("a"), u8(1), str("b"), nullOf(zed.TypeUint8)),
		mapv(zctx, mapv(zctx, zed.TypeString, zed.TypeInt64).t, setv(zctx, zed.TypeString).t, mapv(zctx, zed.TypeString, zed.TypeInt64, str("a"), i64(1)), setv(zctx, zed.TypeString, str("x"))))
	deep := i64(1)
	deepU := u8(1)
	for i := 0; i < 12; i++ {
		switch i % 4 {
		case 0:
			deep, deepU = arrv(zctx, deep.t, deep), arrv(zctx, deepU.t, deepU)
		case 1:
			deep, deepU = recv(zctx, []string{"d"}, deep), recv(zctx, []string{"d"}, deepU)
		case 2:
			deep, deepU = setv(zctx, deep.t, deep), errv(zctx, deepU)
		case 3:
			deep, deepU = mapv(zctx, zed.TypeString, deep.t, str("k"), deep), namedv(zctx, fmt.Sprintf("L%d", i), deepU)
		}
		add(deep, deepU)
	}
	// wide record
	var names []string
	var vals []tv
	for i := 0; i < 40; i++ {
		names = append(names, fmt.Sprintf("f%d", i))
		vals = append(vals, prims[(i*7)%len(prims)])
	}
	add(recv(zctx, names, vals...))
	// empty record, empty things nested
	add(recv(zctx, nil), arrv(zctx, recv(zctx, nil).t, recv(zctx, nil)), recv(zctx, []string{"e"}, recv(zctx, nil)), arrv(zctx, zed.TypeNull), arrv(zctx, zed.TypeNull, nullOf(zed.TypeNull)),
		arrv(zctx, arrv(zctx, zed.TypeNull).t, arrv(zctx, zed.TypeNull)), setv(zctx, zed.TypeNull), mapv(zctx, zed.TypeNull, zed.TypeNull), arrv(zctx, arrv(zctx, zed.TypeUint8).t, arrv(zctx, zed.TypeUint8)),
		recv(zctx, []string{"a", "b"}, arrv(zctx, zed.TypeInt64), arrv(zctx, zed.TypeUint8)), arrv(zctx, arrv(zctx, zed.TypeInt64).t, arrv(zctx, zed.TypeInt64), arrv(zctx, zed.TypeInt64, i64(1))))
	return out
}

func interleave(ms []tv) []tv {
	var out []tv
	for i, m := range ms {
		out = append(out, str(fmt.Sprintf("k%d", i)), m)
	}
	return out
}

// randomValues: the shared seeded generator, several option mixes.
func randomValues(r *Rng, zctx *zed.Context, n int) []zed.Value {
	var out []zed.Value
	mixes := []GenOpts{
		{Depth: 1, Floats16: true},
		{Depth: 2, Floats16: true},
		{Depth: 3, Floats16: true},
		{Depth: 4, Floats16: true},
		{Depth: 3, Floats16: true, FewNames: true},
		{Depth: 2, NoNulls: true, Floats16: true},
		{Depth: 3, NoMaps: true, NoTypeVal: true, NoErrors: true, NoEnums: true, FewNames: true},
		{Depth: 3, NoUnions: true, NoNamed: true},
	}
	for len(out) < n {
		o := mixes[r.Intn(len(mixes))]
		k := 1 + r.Intn(4)
		out = append(out, GenValues(r, zctx, k, 1+r.Intn(2), o)...)
	}
	return out[:n]
}

// designedStreams: sequences whose values are fine one by one; the stream
// state (typedefs that persist) is what is exercised.
func designedStreams(zctx *zed.Context) [][]zed.Value {
	fooA := namedv(zctx, "foo", recv(zctx, []string{"a"}, u8(1)))
	fooB := namedv(zctx, "foo", recv(zctx, []string{"b"}, u8(2)))
	fooC := namedv(zctx, "foo", u8(3))
	fooD := namedv(zctx, "foo", str("d"))
	fooE := namedv(zctx, "foo", recv(zctx, []string{"a"}, i64(1)))
	fooF := namedv(zctx, "foo", arrv(zctx, zed.TypeUint8, u8(1)))
	bar := namedv(zctx, "bar", recv(zctx, []string{"f"}, fooA))
	barB := namedv(zctx, "bar", recv(zctx, []string{"f"}, fooB))
	T := namedv(zctx, "T", recv(zctx, []string{"x", "y"}, fooA, u8(1)))
	u := zctx.LookupTypeUnion([]zed.Type{fooA.t, zed.TypeString})
	uB := zctx.LookupTypeUnion([]zed.Type{fooB.t, zed.TypeString})
	port := namedv(zctx, "port", pv(zed.TypeUint16, zed.EncodeUint(80)))
	portB := namedv(zctx, "port", pv(zed.TypeUint32, zed.EncodeUint(80)))
	uk := zctx.LookupTypeUnion([]zed.Type{zed.TypeFloat16, zed.TypeString})
	portMap := namedv(zctx, "port", mapv(zctx, uk, zed.TypeIP, pv(zed.TypeFloat16, zed.EncodeFloat16(0)), ipv("255.255.255.255"), str("k"), ipv("::1")))
	portMap2 := namedv(zctx, "port", mapv(zctx, uk, zed.TypeIP, pv(zed.TypeFloat16, zed.EncodeFloat16(2)), ipv("10.0.0.1"), str("z"), ipv("10.0.0.2")))
	nestIn := namedv(zctx, "nest", u8(1))
	nestOut := namedv(zctx, "nest", recv(zctx, []string{"k"}, nestIn))
	mk := func(vs ...tv) []zed.Value {
		var out []zed.Value
		for _, v := range vs {
			out = append(out, v.val())
		}
		return out
	}
	return [][]zed.Value{
		mk(fooA, fooA, fooA),
		// union elements inside an already defined named type
		mk(portMap, portMap, portMap2),
		mk(namedv(zctx, "ua", arrv(zctx, uk, pv(zed.TypeFloat16, zed.EncodeFloat16(0.5)), str("a"))), namedv(zctx, "ua", arrv(zctx, uk, pv(zed.TypeFloat16, zed.EncodeFloat16(1)), str("s"))),
			namedv(zctx, "us", setv(zctx, uk, pv(zed.TypeFloat16, zed.EncodeFloat16(0.5)), str("a"))), namedv(zctx, "us", setv(zctx, uk, pv(zed.TypeFloat16, zed.EncodeFloat16(1)), str("s")))),
		// typedefs written inside an error type decorator
		mk(namedv(zctx, "foo", recv(zctx, nil)), errv(zctx, unionv(zctx.LookupTypeUnion([]zed.Type{namedv(zctx, "foo", pv(zed.TypeUint16, zed.EncodeUint(1))).t, zed.TypeDuration}), pv(zed.TypeDuration, zed.EncodeDuration(1e9)))), namedv(zctx, "foo", recv(zctx, nil))),
		mk(fooA, errv(zctx, recv(zctx, []string{"e"}, fooB)), fooA, fooB),
		mk(fooA, nullOf(zctx.LookupTypeError(fooB.t)), fooA),
		// a name nested in a type of the same name: formatType binds the outer name first, the reader last
		mk(nullOf(nestOut.t), nestIn),
		mk(nullOf(nestOut.t), nestOut, nestIn),
		mk(fooA, fooB),
		mk(fooA, fooB, fooA),
		mk(fooC, fooD, fooC),
		mk(fooD, fooC),
		mk(fooA, fooE),
		mk(fooE, fooA),
		mk(fooA, fooF, fooA),
		mk(fooF, fooA),
		mk(bar, fooA, bar),
		mk(bar, fooB, bar),
		mk(bar, barB),
		mk(fooA, bar, fooB, barB),
		mk(T, fooA, T, fooB, T),
		mk(unionv(u, fooA), unionv(u, str("s")), fooA),
		mk(unionv(u, fooA), unionv(uB, fooB), unionv(u, fooA)),
		mk(arrv(zctx, fooA.t, fooA), arrv(zctx, fooA.t), arrv(zctx, fooB.t, fooB), arrv(zctx, fooA.t)),
		mk(nullOf(fooA.t), fooA, nullOf(fooA.t), nullOf(fooB.t), fooB),
		mk(typev(fooA.t), fooA, typev(fooB.t), fooA),
		mk(fooA, typev(fooA.t), typev(fooB.t), fooB),
		mk(port, portB, port, recv(zctx, []string{"p", "q"}, port, portB)),
		mk(errv(zctx, fooA), errv(zctx, fooB), errv(zctx, fooA)),
		mk(mapv(zctx, fooA.t, fooA.t, fooA, fooA), mapv(zctx, fooB.t, fooA.t, fooB, fooA)),
		mk(recv(zctx, []string{"a"}, u8(1)), recv(zctx, []string{"a"}, i64(1)), fooA, recv(zctx, []string{"a"}, u8(1))),
	}
}
