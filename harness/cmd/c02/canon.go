package main

import (
	"encoding/hex"
	"fmt"
	"math"
	"sort"
	"strings"

	zed "github.com/brimdata/super"
	"github.com/brimdata/super/zcode"
)

// Canonical, context-independent observables of a value.
//
// strict (set=false): the type spelled structurally (named types always with
// their full definition, union members in the order of the type) and the body
// decoded along the type (union values as tag:body, sets/maps in stored
// order).  Two values in different contexts are identical iff these agree.
//
// set=true: union types are compared as *sets* of member types, a union value
// as (member type, body), and set/map bodies as multisets.  The order of the
// members of a union is assigned by the context from its local type IDs
// (zed.CompareTypes), so two contexts may legitimately order the members of a
// union of two complex types differently; the oracle accepts that difference
// only (see sameValue).

type canon struct {
	zctx *zed.Context
	set  bool
	// reorderable is set when a union with >= 2 members whose order depends
	// on context-local IDs was met.
	reorderable bool
}

func (c *canon) typ(t zed.Type) string {
	var sb strings.Builder
	c.typeTo(&sb, t)
	return sb.String()
}

func (c *canon) typeTo(sb *strings.Builder, t zed.Type) {
	switch t := t.(type) {
	case *zed.TypeNamed:
		fmt.Fprintf(sb, "%q=", t.Name)
		c.typeTo(sb, t.Type)
	case *zed.TypeRecord:
		sb.WriteString("{")
		for i, f := range t.Fields {
			if i > 0 {
				sb.WriteString(",")
			}
			fmt.Fprintf(sb, "%q:", f.Name)
			c.typeTo(sb, f.Type)
		}
		sb.WriteString("}")
	case *zed.TypeArray:
		sb.WriteString("[")
		c.typeTo(sb, t.Type)
		sb.WriteString("]")
	case *zed.TypeSet:
		sb.WriteString("|[")
		c.typeTo(sb, t.Type)
		sb.WriteString("]|")
	case *zed.TypeMap:
		sb.WriteString("|{")
		c.typeTo(sb, t.KeyType)
		sb.WriteString(":")
		c.typeTo(sb, t.ValType)
		sb.WriteString("}|")
	case *zed.TypeUnion:
		ncomplex := 0
		var ms []string
		for _, m := range t.Types {
			if m.ID() >= zed.IDTypeComplex {
				ncomplex++
			}
			ms = append(ms, c.typ(m))
		}
		if ncomplex >= 2 {
			c.reorderable = true
		}
		if c.set {
			sort.Strings(ms)
		}
		sb.WriteString("(" + strings.Join(ms, ",") + ")")
	case *zed.TypeEnum:
		sb.WriteString("enum(")
		for i, s := range t.Symbols {
			if i > 0 {
				sb.WriteString(",")
			}
			fmt.Fprintf(sb, "%q", s)
		}
		sb.WriteString(")")
	case *zed.TypeError:
		sb.WriteString("error(")
		c.typeTo(sb, t.Type)
		sb.WriteString(")")
	default:
		sb.WriteString(zed.PrimitiveName(t))
	}
}

func (c *canon) body(t zed.Type, b zcode.Bytes) string {
	if b == nil {
		return "null"
	}
	switch t := t.(type) {
	case *zed.TypeNamed:
		return c.body(t.Type, b)
	case *zed.TypeError:
		return "error(" + c.body(t.Type, b) + ")"
	case *zed.TypeRecord:
		var out []string
		it := b.Iter()
		for _, f := range t.Fields {
			if it.Done() {
				out = append(out, "<missing>")
				continue
			}
			out = append(out, c.body(f.Type, it.Next()))
		}
		if !it.Done() {
			out = append(out, "<extra>")
		}
		return "{" + strings.Join(out, ",") + "}"
	case *zed.TypeArray:
		var out []string
		for it := b.Iter(); !it.Done(); {
			out = append(out, c.body(t.Type, it.Next()))
		}
		return "[" + strings.Join(out, ",") + "]"
	case *zed.TypeSet:
		var out []string
		for it := b.Iter(); !it.Done(); {
			out = append(out, c.body(t.Type, it.Next()))
		}
		if c.set {
			sort.Strings(out)
		}
		return "|[" + strings.Join(out, ",") + "]|"
	case *zed.TypeMap:
		var out []string
		for it := b.Iter(); !it.Done(); {
			k := c.body(t.KeyType, it.Next())
			if it.Done() {
				out = append(out, k+":<missing>")
				break
			}
			out = append(out, k+":"+c.body(t.ValType, it.Next()))
		}
		if c.set {
			sort.Strings(out)
		}
		return "|{" + strings.Join(out, ",") + "}|"
	case *zed.TypeUnion:
		it := b.Iter()
		tag := int(zed.DecodeInt(it.Next()))
		if tag < 0 || tag >= len(t.Types) || it.Done() {
			return fmt.Sprintf("<badunion tag=%d>", tag)
		}
		inner := it.Next()
		if c.set {
			return "(" + c.typ(t.Types[tag]) + ")" + c.body(t.Types[tag], inner)
		}
		return fmt.Sprintf("%d:", tag) + c.body(t.Types[tag], inner)
	case *zed.TypeEnum:
		return "%" + hex.EncodeToString(b)
	}
	switch t.ID() {
	case zed.IDType:
		tt, err := c.zctx.LookupByValue(b)
		if err != nil {
			return "<badtypevalue " + hex.EncodeToString(b) + ">"
		}
		return "<" + c.typ(tt) + ">"
	case zed.IDFloat64:
		if len(b) == 8 && math.IsNaN(zed.DecodeFloat64(b)) {
			return "NaN"
		}
	case zed.IDFloat32:
		if len(b) == 4 && math.IsNaN(float64(zed.DecodeFloat32(b))) {
			return "NaN"
		}
	case zed.IDFloat16:
		if len(b) == 2 && math.IsNaN(float64(zed.DecodeFloat16(b))) {
			return "NaN"
		}
	}
	return hex.EncodeToString(b)
}

// Obs is the observable of a value in its own context.
type Obs struct {
	Type, Body       string // strict
	SetType, SetBody string // union-as-set
	Reorderable      bool
}

func observe(zctx *zed.Context, v zed.Value) Obs {
	s := &canon{zctx: zctx}
	u := &canon{zctx: zctx, set: true}
	var body zcode.Bytes
	if !v.IsNull() {
		body = v.Bytes()
	}
	o := Obs{Type: s.typ(v.Type()), Body: s.body(v.Type(), body)}
	o.SetType, o.SetBody = u.typ(v.Type()), u.body(v.Type(), body)
	o.Reorderable = s.reorderable
	return o
}

func (o Obs) String() string { return o.Type + " | " + o.Body }

// sameValue: identical type and value.  A difference that is only the order of
// union members (and what follows from it: tags, order of set elements) is
// accepted when, and only when, the value contains a union of >= 2 complex
// member types, whose order is context-local.
func sameValue(want, got Obs) (ok bool, reordered bool) {
	if want.Type == got.Type && want.Body == got.Body {
		return true, false
	}
	if want.Reorderable && want.SetType == got.SetType && want.SetBody == got.SetBody {
		return true, true
	}
	return false, false
}
