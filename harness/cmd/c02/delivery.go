package main

import (
	"fmt"
	"hash/fnv"
	"io"
	"strings"
	"unicode/utf8"

	zed "github.com/brimdata/super"
	"github.com/brimdata/super/zcode"
	"github.com/brimdata/super/zio/jsonio"
	"github.com/brimdata/super/zio/zsonio"
	"github.com/brimdata/super/zson"
	. "zvh/hx"
)

// Delivery independence.  What a text denotes must not depend on how the
// io.Reader hands it over: every text this harness parses from one in-memory
// read is parsed again through readers that deliver it in adversarial pieces
// (one byte per Read, small fixed and pseudo-random chunks, a single cut at a
// chosen offset, cuts inside every multi-byte character), and must give the
// same values or the same error.  The comparison is against the parse of the
// same text from a single read, so it is independent of the round-trip oracle
// and of its known findings.

type chunkReader struct {
	data []byte
	pos  int
	next func(pos int) int // size of the next chunk (>= 1)
}

func (c *chunkReader) Read(p []byte) (int, error) {
	if c.pos >= len(c.data) {
		return 0, io.EOF
	}
	n := c.next(c.pos)
	if n < 1 {
		n = 1
	}
	if n > len(p) {
		n = len(p)
	}
	if n > len(c.data)-c.pos {
		n = len(c.data) - c.pos
	}
	copy(p, c.data[c.pos:c.pos+n])
	c.pos += n
	return n, nil
}

type strategy struct {
	name string
	mk   func(text string) io.Reader
}

func fixedChunks(k int) func(string) io.Reader {
	return func(text string) io.Reader {
		return &chunkReader{data: []byte(text), next: func(int) int { return k }}
	}
}

func hashOf(s string) uint64 {
	h := fnv.New64a()
	h.Write([]byte(s))
	return h.Sum64()
}

// pseudo-random chunk sizes 1..5, a deterministic function of the text
func randomChunks(text string) io.Reader {
	st := hashOf(text) | 1
	return &chunkReader{data: []byte(text), next: func(int) int {
		st = st*6364136223846793005 + 1442695040888963407
		return 1 + int((st>>33)%5)
	}}
}

// one cut: everything before offset k in one read, the rest in another
func cutAt(k int) func(string) io.Reader {
	return func(text string) io.Reader {
		return &chunkReader{data: []byte(text), next: func(pos int) int {
			if pos < k {
				return k - pos
			}
			return len(text)
		}}
	}
}

// cuts in the middle of every multi-byte character (and nowhere else)
func cutInsideRunes(text string) io.Reader {
	cuts := map[int]bool{}
	for i := 0; i < len(text); {
		_, n := utf8.DecodeRuneInString(text[i:])
		for j := 1; j < n; j++ {
			cuts[i+j] = true
		}
		i += n
	}
	return &chunkReader{data: []byte(text), next: func(pos int) int {
		n := 1
		for pos+n < len(text) && !cuts[pos+n] {
			n++
		}
		return n
	}}
}

func hasMultiByte(s string) bool {
	for i := 0; i < len(s); i++ {
		if s[i] >= utf8.RuneSelf {
			return true
		}
	}
	return false
}

// strategiesFor: one byte per Read always; cuts inside the multi-byte
// characters when there are any; one more strategy picked by the text.
func strategiesFor(text string) []strategy {
	out := []strategy{{"onebyte", fixedChunks(1)}}
	if hasMultiByte(text) {
		out = append(out, strategy{"inside-runes", cutInsideRunes})
	}
	h := hashOf(text)
	switch h % 6 {
	case 0:
		out = append(out, strategy{"chunks2", fixedChunks(2)})
	case 1:
		out = append(out, strategy{"chunks3", fixedChunks(3)})
	case 2:
		out = append(out, strategy{"chunks7", fixedChunks(7)})
	case 3:
		out = append(out, strategy{"random", randomChunks})
	case 4:
		if len(text) > 1 {
			out = append(out, strategy{"cut", cutAt(1 + int((h>>8)%uint64(len(text)-1)))})
		}
	case 5:
		out = append(out, strategy{"chunks64", fixedChunks(64)})
	}
	return out
}

var deliveryRes *Result // set by c02(); nil disables the checks

func sameParse(zc1 *zed.Context, v1 []zed.Value, e1 error, zc2 *zed.Context, v2 []zed.Value, e2 error) (bool, string) {
	if (e1 == nil) != (e2 == nil) || (e1 != nil && e1.Error() != e2.Error()) {
		return false, fmt.Sprintf("error %v vs %v", e1, e2)
	}
	if len(v1) != len(v2) {
		return false, fmt.Sprintf("%d values vs %d values", len(v1), len(v2))
	}
	for i := range v1 {
		a, b := observe(zc1, v1[i]), observe(zc2, v2[i])
		if a.Type != b.Type || a.Body != b.Body {
			return false, fmt.Sprintf("value #%d: %s vs %s", i, a, b)
		}
	}
	return true, ""
}

func reportDelivery(site, strat, text, diff string) {
	res := deliveryRes
	outcome := "differs"
	if strings.HasPrefix(diff, "error") {
		outcome = "error-differs"
	}
	cls := "ascii"
	if hasMultiByte(text) {
		cls = "multibyte"
	}
	res.Fail(Failure{
		Kind: "oracle", Sig: fmt.Sprintf("delivery/%s/%s/%s/%s", site, strat, cls, outcome),
		Detail:   fmt.Sprintf("the same text read from one in-memory read and through a reader delivering it as %q gives different results (%s): %q", strat, diff, clip(text, 300)),
		Replay:   map[string]any{"text": clip(text, 70000), "text_len": len(text), "reader": strat, "entry": site},
		Expected: "identical values / identical error however the io.Reader chunks the text", Observed: diff,
	})
}

func readZSONFrom(r io.Reader) (vals []zed.Value, zctx *zed.Context, err error) {
	zctx = zed.NewContext()
	err = guarded(func() error {
		zr := zsonio.NewReader(zctx, r)
		for {
			v, e := zr.Read()
			if e != nil {
				return e
			}
			if v == nil {
				return nil
			}
			vals = append(vals, v.Copy())
		}
	})
	return
}

func readJSONFrom(r io.Reader) (vals []zed.Value, zctx *zed.Context, err error) {
	zctx = zed.NewContext()
	err = guarded(func() error {
		jr := jsonio.NewReader(zctx, r)
		for {
			v, e := jr.Read()
			if e != nil {
				return e
			}
			if v == nil {
				return nil
			}
			vals = append(vals, v.Copy())
		}
	})
	return
}

// parseValueFrom is zson.ParseValue on an io.Reader.
func parseValueFrom(r io.Reader) (v zed.Value, zctx *zed.Context, err error) {
	zctx = zed.NewContext()
	err = guarded(func() error {
		ast, e := zson.NewParser(r).ParseValue()
		if e != nil {
			return e
		}
		if ast == nil {
			return fmt.Errorf("no value")
		}
		val, e := zson.NewAnalyzer().ConvertValue(zctx, ast)
		if e != nil {
			return e
		}
		v, e = zson.Build(zcode.NewBuilder(), val)
		return e
	})
	return
}

func deliveryZSON(text string, zc *zed.Context, vals []zed.Value, err error) {
	if deliveryRes == nil {
		return
	}
	for _, s := range strategiesFor(text) {
		deliveryRes.Evaluations++
		deliveryRes.Count("delivery:zsonio:" + s.name)
		v2, zc2, e2 := readZSONFrom(s.mk(text))
		if ok, diff := sameParse(zc, vals, err, zc2, v2, e2); !ok {
			reportDelivery("zsonio.Reader", s.name, text, diff)
		}
	}
}

func deliveryJSON(text string, zc *zed.Context, vals []zed.Value, err error) {
	if deliveryRes == nil {
		return
	}
	for _, s := range strategiesFor(text) {
		deliveryRes.Evaluations++
		deliveryRes.Count("delivery:jsonio:" + s.name)
		v2, zc2, e2 := readJSONFrom(s.mk(text))
		if ok, diff := sameParse(zc, vals, err, zc2, v2, e2); !ok {
			reportDelivery("jsonio.Reader", s.name, text, diff)
		}
	}
}

func deliveryParseValue(text string, zc *zed.Context, v zed.Value, err error) {
	if deliveryRes == nil {
		return
	}
	var base []zed.Value
	if err == nil {
		base = []zed.Value{v}
	}
	for _, s := range strategiesFor(text) {
		deliveryRes.Evaluations++
		deliveryRes.Count("delivery:parser:" + s.name)
		v2, zc2, e2 := parseValueFrom(s.mk(text))
		var got []zed.Value
		if e2 == nil {
			got = []zed.Value{v2}
		}
		// zson.ParseValue and this replica report the same errors except for an empty text
		if ok, diff := sameParse(zc, base, err, zc2, got, e2); !ok {
			reportDelivery("zson.Parser", s.name, text, diff)
		}
	}
}
