package main

import (
	"math"
	"sort"
	"strings"

	zed "github.com/brimdata/super"
	"github.com/brimdata/super/zcode"
	"github.com/brimdata/super/zson"
	"golang.org/x/text/unicode/norm"
)

// Input classes used in failure signatures.  Each names a narrow syntactic
// property of the (minimised) failing value; the oracle itself is not
// weakened by them: they only label the failure.

type trigSet map[string]bool

func (s trigSet) String() string {
	var ks []string
	for k := range s {
		ks = append(ks, k)
	}
	sort.Strings(ks)
	return strings.Join(ks, ",")
}

func typeTriggers(t zed.Type, s trigSet, names map[string]zed.Type) {
	switch t := t.(type) {
	case *zed.TypeNamed:
		if containsUnionContainer(t.Type) {
			s["named-type-with-union-container"] = true
		}
		if !zson.IsTypeName(t.Name) || t.Name == "" {
			s["typename-needs-quotes"] = true
		} else if strings.HasPrefix(t.Name, ".") {
			s["typename-leading-dot"] = true
		}
		if _, ok := t.Type.(*zed.TypeNamed); ok {
			s["named-of-named"] = true
			if containsNamed(zed.TypeUnder(t.Type)) {
				// the value is followed by the full type (outer=inner=...), which
				// names types that are first defined inside the value
				s["named-of-named-with-inner-named"] = true
			}
		}
		if prev, ok := names[t.Name]; ok && prev != zed.Type(t) {
			s["name-redefined"] = true
		}
		names[t.Name] = t
		typeTriggers(t.Type, s, names)
	case *zed.TypeRecord:
		for _, f := range t.Fields {
			typeTriggers(f.Type, s, names)
		}
	case *zed.TypeArray:
		if elemIsUnion(t) && containsNamedBelowTop(t.Type) {
			s["union-container-with-nested-named"] = true
		}
		if elemIsUnion(t) && unionBelowTop(t.Type) {
			s["union-inside-decorated-union-container"] = true
		}
		typeTriggers(t.Type, s, names)
	case *zed.TypeSet:
		if elemIsUnion(t) && containsNamedBelowTop(t.Type) {
			s["union-container-with-nested-named"] = true
		}
		if elemIsUnion(t) && unionBelowTop(t.Type) {
			s["union-inside-decorated-union-container"] = true
		}
		typeTriggers(t.Type, s, names)
	case *zed.TypeMap:
		if elemIsUnion(t) && (namedForDecorator(t.KeyType) || namedForDecorator(t.ValType)) {
			s["union-container-with-nested-named"] = true
		}
		if elemIsUnion(t) && (unionBelowTop(t.KeyType) || unionBelowTop(t.ValType) || (isUnionUnder(t.KeyType) != isUnionUnder(t.ValType) && (containsUnion(t.KeyType) && containsUnion(t.ValType)))) {
			s["union-inside-decorated-union-container"] = true
		}
		if mergesWithColon(t.KeyType) && mergesAfterColon(t.ValType) {
			s["map-key-colon-value-token-merge"] = true
		}
		typeTriggers(t.KeyType, s, names)
		typeTriggers(t.ValType, s, names)
	case *zed.TypeUnion:
		for _, m := range t.Types {
			if m == zed.TypeNull {
				s["union-with-null-member"] = true
			}
			if _, isNamed := m.(*zed.TypeNamed); !isNamed && containsNamed(m) {
				s["union-member-contains-named"] = true
			}
			typeTriggers(m, s, names)
		}
	case *zed.TypeError:
		if containsUnion(t.Type) {
			s["union-inside-decorated-error"] = true
		}
		if containsNamed(t.Type) {
			s["named-inside-decorated-error"] = true
		}
		typeTriggers(t.Type, s, names)
	}
}

func bodyTriggers(zctx *zed.Context, t zed.Type, b zcode.Bytes, s trigSet, underNamed bool, names map[string]zed.Type) {
	if b == nil {
		return
	}
	switch t := t.(type) {
	case *zed.TypeNamed:
		switch t.Type.(type) {
		case *zed.TypeArray, *zed.TypeSet, *zed.TypeMap:
			if n, err := zed.NewValue(t.Type, b).ContainerLength(); err == nil && n == 0 {
				s["empty-container-under-named"] = true
			}
		}
		if elemIsUnion(t.Type) {
			if n, err := zed.NewValue(t.Type, b).ContainerLength(); err == nil && n > 0 {
				s["named-container-of-union"] = true
			}
		}
		bodyTriggers(zctx, t.Type, b, s, true, names)
	case *zed.TypeError:
		switch it := t.Type.(type) {
		case *zed.TypeArray, *zed.TypeSet, *zed.TypeMap:
			if n, err := zed.NewValue(it, b).ContainerLength(); err == nil && n == 0 && zson.Implied(it) {
				s["empty-container-under-implied-error"] = true
			}
		}
		bodyTriggers(zctx, t.Type, b, s, false, names)
	case *zed.TypeRecord:
		it := b.Iter()
		for _, f := range t.Fields {
			if it.Done() {
				break
			}
			bodyTriggers(zctx, f.Type, it.Next(), s, false, names)
		}
	case *zed.TypeArray:
		for it := b.Iter(); !it.Done(); {
			bodyTriggers(zctx, t.Type, it.Next(), s, false, names)
		}
	case *zed.TypeSet:
		for it := b.Iter(); !it.Done(); {
			bodyTriggers(zctx, t.Type, it.Next(), s, false, names)
		}
	case *zed.TypeMap:
		for it := b.Iter(); !it.Done(); {
			bodyTriggers(zctx, t.KeyType, it.Next(), s, false, names)
			if !it.Done() {
				bodyTriggers(zctx, t.ValType, it.Next(), s, false, names)
			}
		}
	case *zed.TypeUnion:
		mt, mb := t.Untag(b)
		bodyTriggers(zctx, mt, mb, s, false, names)
	case *zed.TypeEnum:
		if underNamed {
			s["enum-value-of-named-enum"] = true
		}
		if i := int(zed.DecodeUint(b)); i < len(t.Symbols) && !zson.IsIdentifier(t.Symbols[i]) {
			s["enum-symbol-not-identifier"] = true
		}
	default:
		switch t.ID() {
		case zed.IDFloat64:
			if f := zed.DecodeFloat64(b); f == 0 && math.Signbit(f) {
				s["float-negative-zero"] = true
			}
		case zed.IDFloat32:
			if f := float64(zed.DecodeFloat32(b)); f == 0 && math.Signbit(f) {
				s["float-negative-zero"] = true
			}
		case zed.IDFloat16:
			if f := float64(zed.DecodeFloat16(b)); f == 0 && math.Signbit(f) {
				s["float-negative-zero"] = true
			}
		case zed.IDString:
			if !norm.NFC.IsNormal(b) {
				s["string-not-nfc"] = true
			}
		case zed.IDIP:
			if a := zed.DecodeIP(b).String(); strings.Contains(a, ":") && strings.Contains(a, ".") {
				s["ipv4-mapped-ipv6"] = true
			}
		case zed.IDNet:
			if a := zed.DecodeNet(b).String(); strings.Contains(a, ":") && strings.Contains(a, ".") {
				s["ipv4-mapped-ipv6"] = true
			}
		case zed.IDType:
			if tt, err := zctx.LookupByValue(b); err == nil {
				typeTriggers(tt, s, names)
			}
		}
	}
}

func stripWrappers(t zed.Type) zed.Type {
	for {
		switch tt := t.(type) {
		case *zed.TypeNamed:
			t = tt.Type
		case *zed.TypeError:
			t = tt.Type
		default:
			return t
		}
	}
}

// triggersOf classifies a value standing at the top level of a text.
func triggersOf(zctx *zed.Context, v zed.Value) trigSet {
	s := trigSet{}
	names := map[string]zed.Type{}
	typeTriggers(v.Type(), s, names)
	if !v.IsNull() {
		bodyTriggers(zctx, v.Type(), v.Bytes(), s, false, names)
		switch stripWrappers(v.Type()).(type) {
		case *zed.TypeArray, *zed.TypeSet, *zed.TypeMap:
			if n, err := zed.NewValue(stripWrappers(v.Type()), v.Bytes()).ContainerLength(); err == nil && n == 0 {
				s["toplevel-empty-container"] = true
			}
		}
	}
	return s
}

func isUnionUnder(t zed.Type) bool {
	_, ok := zed.TypeUnder(t).(*zed.TypeUnion)
	return ok
}

// elemIsUnion: t is an array/set/map one of whose element types is a union.
func elemIsUnion(t zed.Type) bool {
	switch t := t.(type) {
	case *zed.TypeArray:
		return isUnionUnder(t.Type)
	case *zed.TypeSet:
		return isUnionUnder(t.Type)
	case *zed.TypeMap:
		return isUnionUnder(t.KeyType) || isUnionUnder(t.ValType)
	}
	return false
}

func containsNamed(t zed.Type) bool {
	set := map[string]bool{}
	typeFeatures(t, set)
	return set["named"]
}

// containsNamedBelowTop: a named type occurs in t other than t itself; for a
// union (the element type of a decorated container) any named member counts.
func containsNamedBelowTop(t zed.Type) bool {
	if n, ok := t.(*zed.TypeNamed); ok {
		t = n.Type
	}
	return containsNamed(t)
}

func containsUnion(t zed.Type) bool {
	set := map[string]bool{}
	typeFeatures(t, set)
	return set["union"]
}

// unionBelowTop: t (a union, possibly named, or anything) has a union strictly inside.
func unionBelowTop(t zed.Type) bool {
	if u, ok := zed.TypeUnder(t).(*zed.TypeUnion); ok {
		for _, m := range u.Types {
			if containsUnion(m) {
				return true
			}
		}
		return false
	}
	return containsUnion(t)
}

// In compact form a map entry is key:value with no space (except after an
// IPv6 key).  The lexer takes the longest match of its primitive regexp over
// the text up to the next comma or space, so a key made of digits, dots,
// colons, dashes... followed by ':' and a time or IP value is one token.
func mergesWithColon(t zed.Type) bool {
	switch zed.TypeUnder(t).ID() {
	case zed.IDUint8, zed.IDUint16, zed.IDUint32, zed.IDUint64, zed.IDInt8, zed.IDInt16, zed.IDInt32, zed.IDInt64,
		zed.IDFloat16, zed.IDFloat32, zed.IDFloat64, zed.IDIP, zed.IDNet:
		return true
	}
	if u, ok := zed.TypeUnder(t).(*zed.TypeUnion); ok {
		for _, m := range u.Types {
			if mergesWithColon(m) {
				return true
			}
		}
	}
	return false
}

func mergesAfterColon(t zed.Type) bool {
	switch zed.TypeUnder(t).ID() {
	case zed.IDTime, zed.IDIP, zed.IDNet:
		return true
	}
	if u, ok := zed.TypeUnder(t).(*zed.TypeUnion); ok {
		for _, m := range u.Types {
			if mergesAfterColon(m) {
				return true
			}
		}
	}
	return false
}

// namedForDecorator: a side of a map type whose spelling in the map's
// decorator refers to a named type defined inside the entries.
func namedForDecorator(t zed.Type) bool {
	if isUnionUnder(t) {
		return containsNamedBelowTop(t)
	}
	return containsNamed(t)
}

func containsUnionContainer(t zed.Type) bool {
	if elemIsUnion(t) {
		return true
	}
	switch t := t.(type) {
	case *zed.TypeNamed:
		return containsUnionContainer(t.Type)
	case *zed.TypeRecord:
		for _, f := range t.Fields {
			if containsUnionContainer(f.Type) {
				return true
			}
		}
	case *zed.TypeArray:
		return containsUnionContainer(t.Type)
	case *zed.TypeSet:
		return containsUnionContainer(t.Type)
	case *zed.TypeMap:
		return containsUnionContainer(t.KeyType) || containsUnionContainer(t.ValType)
	case *zed.TypeUnion:
		for _, m := range t.Types {
			if containsUnionContainer(m) {
				return true
			}
		}
	case *zed.TypeError:
		return containsUnionContainer(t.Type)
	}
	return false
}
