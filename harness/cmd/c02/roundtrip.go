package main

import (
	"bytes"
	"fmt"
	"io"
	"regexp"
	"sort"
	"strings"
	"time"

	zed "github.com/brimdata/super"
	"github.com/brimdata/super/zcode"
	"github.com/brimdata/super/zio/zsonio"
	"github.com/brimdata/super/zson"
	. "zvh/hx"
)

// guarded runs f under recover() and a watchdog.
func guarded(f func() error) error {
	done := make(chan error, 1)
	go func() { done <- Safely(f) }()
	select {
	case err := <-done:
		return err
	case <-time.After(30 * time.Second):
	}
	// Slow, or starved by machine load: keep waiting for the same call for a
	// long time before calling it a hang.
	slowCalls++
	select {
	case err := <-done:
		return err
	case <-time.After(10 * time.Minute):
		return fmt.Errorf("HANG: no result after 10m30s")
	}
}

// slowCalls counts guarded calls that needed more than 30 s (reported in the result notes).
var slowCalls int

func parseFresh(text string) (v zed.Value, zctx *zed.Context, err error) {
	zctx = zed.NewContext()
	err = guarded(func() error {
		var e error
		v, e = zson.ParseValue(zctx, text)
		return e
	})
	// the same text through the parser on readers that chunk it (delivery.go)
	if text != "" {
		deliveryParseValue(text, zctx, v, err)
	}
	return
}

func readAllFresh(text string) (vals []zed.Value, zctx *zed.Context, err error) {
	vals, zctx, err = readZSONFrom(strings.NewReader(text))
	deliveryZSON(text, zctx, vals, err)
	return
}

type nopCloser struct{ io.Writer }

func (nopCloser) Close() error { return nil }

// ---- classification of types for failure signatures

func typeFeatures(t zed.Type, set map[string]bool) {
	switch t := t.(type) {
	case *zed.TypeNamed:
		set["named"] = true
		typeFeatures(t.Type, set)
	case *zed.TypeRecord:
		set["record"] = true
		for _, f := range t.Fields {
			typeFeatures(f.Type, set)
		}
	case *zed.TypeArray:
		set["array"] = true
		typeFeatures(t.Type, set)
	case *zed.TypeSet:
		set["set"] = true
		typeFeatures(t.Type, set)
	case *zed.TypeMap:
		set["map"] = true
		typeFeatures(t.KeyType, set)
		typeFeatures(t.ValType, set)
	case *zed.TypeUnion:
		set["union"] = true
		for _, m := range t.Types {
			typeFeatures(m, set)
		}
	case *zed.TypeEnum:
		set["enum"] = true
	case *zed.TypeError:
		set["error"] = true
		typeFeatures(t.Type, set)
	default:
		set[zed.PrimitiveName(t)] = true
	}
}

func featureSig(t zed.Type) string {
	set := map[string]bool{}
	typeFeatures(t, set)
	var ks []string
	for k := range set {
		ks = append(ks, k)
	}
	sort.Strings(ks)
	return strings.Join(ks, "+")
}

// children enumerates the direct components of a value (for shrinking).
func children(v zed.Value) []zed.Value {
	if v.IsNull() {
		return nil
	}
	var out []zed.Value
	b := v.Bytes()
	switch t := v.Type().(type) {
	case *zed.TypeNamed:
		out = append(out, zed.NewValue(t.Type, b))
	case *zed.TypeError:
		out = append(out, zed.NewValue(t.Type, b))
	case *zed.TypeRecord:
		it := b.Iter()
		for _, f := range t.Fields {
			if it.Done() {
				break
			}
			out = append(out, zed.NewValue(f.Type, it.Next()))
		}
	case *zed.TypeArray:
		for it := b.Iter(); !it.Done(); {
			out = append(out, zed.NewValue(t.Type, it.Next()))
		}
	case *zed.TypeSet:
		for it := b.Iter(); !it.Done(); {
			out = append(out, zed.NewValue(t.Type, it.Next()))
		}
	case *zed.TypeMap:
		for it := b.Iter(); !it.Done(); {
			out = append(out, zed.NewValue(t.KeyType, it.Next()))
			if !it.Done() {
				out = append(out, zed.NewValue(t.ValType, it.Next()))
			}
		}
	case *zed.TypeUnion:
		mt, mb := t.Untag(b)
		out = append(out, zed.NewValue(mt, mb))
	}
	return out
}

// ---- single value round trip

type rtOutcome struct {
	ok        bool
	reordered bool
	class     string // parse-error | type-differs | body-differs | panic | hang
	text      string
	got       string
	err       string
}

func normErr(err error) string {
	s := err.Error()
	// drop quoted payloads and numbers so that the class is stable
	s = regexp.MustCompile(`"(\\.|[^"\\])*"`).ReplaceAllString(s, `"…"`)
	s = regexp.MustCompile(`[0-9]+`).ReplaceAllString(s, "N")
	if len(s) > 60 {
		s = s[:60]
	}
	return s
}

func compareParsed(want Obs, zctx2 *zed.Context, got zed.Value, err error) rtOutcome {
	if err != nil {
		cl := "parse-error:" + normErr(err)
		if strings.HasPrefix(err.Error(), "PANIC") {
			cl = "panic"
		} else if strings.HasPrefix(err.Error(), "HANG") {
			cl = "hang"
		}
		return rtOutcome{class: cl, err: err.Error()}
	}
	g := observe(zctx2, got)
	ok, re := sameValue(want, g)
	if ok {
		return rtOutcome{ok: true, reordered: re}
	}
	cl := "body-differs"
	if want.Type != g.Type {
		cl = "type-differs"
	}
	return rtOutcome{class: cl, got: g.String()}
}

// roundTrip1: format v with a fresh formatter (pretty), parse in a fresh context.
func roundTrip1(zctx *zed.Context, v zed.Value, pretty int) rtOutcome {
	var text string
	if err := guarded(func() error {
		if pretty < 0 {
			text = zson.FormatValue(v)
		} else {
			text = zson.NewFormatter(pretty, true, nil).Format(v)
		}
		return nil
	}); err != nil {
		return rtOutcome{class: "format-" + normErr(err), err: err.Error()}
	}
	got, zctx2, err := parseFresh(text)
	out := compareParsed(observe(zctx, v), zctx2, got, err)
	out.text = text
	if out.ok && pretty <= 0 {
		// the same text through the stream reader: exactly one value, the same one
		// (ParseValue alone would not notice unconsumed text)
		vals, zctx3, err := readAllFresh(text)
		switch {
		case err != nil:
			out = rtOutcome{class: "reader-error:" + normErr(err), err: err.Error(), text: text}
		case len(vals) != 1:
			out = rtOutcome{class: "reader-count", got: fmt.Sprintf("%d values read", len(vals)), text: text}
		default:
			out = compareParsed(observe(zctx, v), zctx3, vals[0], nil)
			out.text = text
			if !out.ok {
				out.class = "reader-" + out.class
			}
		}
	}
	return out
}

// shrink returns a smallest component of v that still fails with the same
// class, both standing alone and as the field of a one-field record (so that
// defects that only exist for a value at the top of a text are not blamed for
// the failure of an enclosing value).
func shrink(zctx *zed.Context, v zed.Value, pretty int, class string) zed.Value {
	for depth := 0; depth < 30; depth++ {
		found := false
		for _, c := range children(v) {
			if o := roundTrip1(zctx, c, pretty); !o.ok {
				w := recv(zctx, []string{"w"}, tv{c.Type(), c.Bytes()}).val()
				if c.IsNull() {
					w = recv(zctx, []string{"w"}, nullOf(c.Type())).val()
				}
				if ow := roundTrip1(zctx, w, pretty); ow.ok {
					continue
				}
				v, found = c, true
				break
			}
		}
		if !found {
			break
		}
	}
	return v
}

// singleSig: call site + the narrow input classes of the (minimised) value if
// it has any, else the outcome class and its type features.
func singleSig(site, class string, zctx *zed.Context, v zed.Value) string {
	if t := triggersOf(zctx, v); len(t) > 0 {
		return site + "/" + t.String()
	}
	return site + "/plain/" + class + "/" + featureSig(v.Type())
}

func valueReplay(zctx *zed.Context, v zed.Value) map[string]any {
	o := observe(zctx, v)
	var hexBody any
	if !v.IsNull() {
		hexBody = fmt.Sprintf("%x", []byte(v.Bytes()))
	}
	return map[string]any{"type": zson.FormatType(v.Type()), "zng_body_hex": hexBody, "decoded": o.Body}
}

func checkSingle(res *Result, zctx *zed.Context, v zed.Value, src string) bool {
	allOK := true
	for _, pretty := range []int{-1, 0, 2, 4} {
		res.Evaluations++
		o := roundTrip1(zctx, v, pretty)
		if o.ok {
			if o.reordered {
				res.Count("rt_union_members_reordered_by_context")
			}
			continue
		}
		allOK = false
		m := shrink(zctx, v, pretty, o.class)
		mo := roundTrip1(zctx, m, pretty)
		site := "single"
		if pretty > 0 {
			// pretty failures that also fail compact are the same defect
			if c := roundTrip1(zctx, m, 0); !c.ok && c.class == mo.class {
				continue
			}
			site = "single-pretty"
		} else if pretty == 0 {
			continue // same text as FormatValue
		}
		res.Fail(Failure{
			Kind: "oracle", Sig: singleSig(site, mo.class, zctx, m),
			Detail:   fmt.Sprintf("value of type %s formats (pretty=%d) as %q which parses back as: %s %s", zson.FormatType(m.Type()), pretty, mo.text, mo.got, mo.err),
			Replay:   map[string]any{"value": valueReplay(zctx, m), "pretty": pretty, "text": mo.text, "found_in": src, "enclosing_type": zson.FormatType(v.Type())},
			Expected: observe(zctx, m).String(), Observed: mo.got + mo.err,
		})
	}
	return allOK
}

func checkSingleQuiet(zctx *zed.Context, v zed.Value) bool {
	for _, pretty := range []int{-1, 2} {
		if o := roundTrip1(zctx, v, pretty); !o.ok {
			return false
		}
	}
	return true
}

// ---- streams

type streamCfg struct {
	pretty  int
	persist string // "" = none
	mode    string // writer | format (Formatter.Format: typedefs accumulate) | record (Formatter.FormatRecord)
}

func (c streamCfg) String() string {
	return fmt.Sprintf("%s,pretty=%d,persist=%q", c.mode, c.pretty, c.persist)
}

func formatStream(vals []zed.Value, c streamCfg) (text string, parts []string, err error) {
	err = guarded(func() error {
		var re *regexp.Regexp
		if c.persist != "" {
			re = regexp.MustCompile(c.persist)
		}
		switch c.mode {
		case "writer":
			var buf bytes.Buffer
			w := zsonio.NewWriter(nopCloser{&buf}, zsonio.WriterOpts{ColorDisabled: true, Pretty: c.pretty, Persist: re})
			for _, v := range vals {
				n := buf.Len()
				if e := w.Write(v); e != nil {
					return e
				}
				parts = append(parts, buf.String()[n:])
			}
			text = buf.String()
		case "persist-call":
			f := zson.NewFormatter(c.pretty, true, nil)
			f.Persist(re)
			for _, v := range vals {
				parts = append(parts, f.FormatRecord(v)+"\n")
			}
			text = strings.Join(parts, "")
		case "format":
			f := zson.NewFormatter(c.pretty, true, re)
			for _, v := range vals {
				parts = append(parts, f.Format(v)+"\n")
			}
			text = strings.Join(parts, "")
		case "record":
			f := zson.NewFormatter(c.pretty, true, re)
			for _, v := range vals {
				parts = append(parts, f.FormatRecord(v)+"\n")
			}
			text = strings.Join(parts, "")
		}
		return nil
	})
	return
}

// checkStream writes vals as one stream and reads it back.  singleOK[i] tells
// whether value i round-trips on its own (then a failure here is a defect of
// the stream-scoped state, otherwise it was already reported).
func checkStream(res *Result, zctx *zed.Context, vals []zed.Value, singleOK []bool, c streamCfg) {
	res.Evaluations++
	res.Count("stream:" + c.mode)
	text, parts, err := formatStream(vals, c)
	replay := func() map[string]any {
		var vs []any
		for _, v := range vals {
			vs = append(vs, valueReplay(zctx, v))
		}
		return map[string]any{"cfg": c.String(), "values": vs, "text": text}
	}
	if err != nil {
		res.Fail(Failure{Kind: "oracle", Sig: "stream-format/" + c.mode + "/" + normErr(err), Detail: "formatting a stream failed: " + err.Error(), Replay: replay(), Expected: "text", Observed: err.Error()})
		return
	}
	got, zctx2, err := readAllFresh(text)
	allSingle := true
	for _, ok := range singleOK {
		allSingle = allSingle && ok
	}
	streamClass := "plain"
	{
		names := map[string]zed.Type{}
		ts := trigSet{}
		within := false
		for _, v := range vals {
			typeTriggers(v.Type(), ts, names)
			if !v.IsNull() {
				bodyTriggers(zctx, v.Type(), v.Bytes(), ts, false, names)
			}
			// one value whose own type binds a name to two different types
			if triggersOf(zctx, v)["name-redefined"] {
				within = true
			}
		}
		var cl []string
		if within {
			cl = append(cl, "name-bound-twice-within-a-type")
		}
		if ts["name-redefined"] {
			cl = append(cl, "name-redefined-across-values")
		}
		if ts["named-type-with-union-container"] {
			cl = append(cl, "named-type-with-union-container")
		}
		if len(cl) > 0 {
			streamClass = strings.Join(cl, ",")
		}
	}
	persistClass := "nopersist"
	if c.persist != "" {
		persistClass = "persist"
	}
	if err != nil || len(got) != len(vals) {
		if !allSingle {
			res.Count("stream_failure_explained_by_single_value_failure")
			return
		}
		msg := fmt.Sprintf("%d values read for %d written", len(got), len(vals))
		cl := "count"
		if err != nil {
			msg = err.Error()
			cl = normErr(err)
		}
		// find the first value at which the stream breaks
		res.Fail(Failure{Kind: "oracle", Sig: fmt.Sprintf("stream/%s/%s/%s/read-error:%s", c.mode, persistClass, streamClass, cl),
			Detail: fmt.Sprintf("stream (%s) of %d values, each of which round-trips alone, cannot be read back: %s; text=%q", c, len(vals), msg, clip(text, 400)),
			Replay: replay(), Expected: "all values read back", Observed: msg})
		return
	}
	for i, v := range vals {
		want := observe(zctx, v)
		ok, re := sameValue(want, observe(zctx2, got[i]))
		if re {
			res.Count("rt_union_members_reordered_by_context")
		}
		if ok {
			continue
		}
		if !singleOK[i] {
			res.Count("stream_failure_explained_by_single_value_failure")
			continue
		}
		g := observe(zctx2, got[i])
		cl := "body-differs"
		if want.Type != g.Type {
			cl = "type-differs"
		}
		res.Fail(Failure{Kind: "oracle", Sig: fmt.Sprintf("stream/%s/%s/%s/%s", c.mode, persistClass, streamClass, cl),
			Detail: fmt.Sprintf("stream (%s): value #%d %s round-trips alone but in the stream it is written as %q and read back as %s", c, i, want, parts[i], g),
			Replay: replay(), Expected: want.String(), Observed: g.String()})
	}
	// per-value typedef scope: without persist every value written by the
	// writer (FormatRecord) must be self-contained.
	if c.persist == "" && (c.mode == "writer" || c.mode == "record") {
		for i, p := range parts {
			if !singleOK[i] {
				continue
			}
			res.Evaluations++
			g, zc, err := parseFresh(p)
			o := compareParsed(observe(zctx, vals[i]), zc, g, err)
			if !o.ok {
				res.Fail(Failure{Kind: "oracle", Sig: fmt.Sprintf("stream-selfcontained/%s/%s/%s", c.mode, o.class, featureSig(vals[i].Type())),
					Detail: fmt.Sprintf("value #%d of a stream written without persist is not self-contained: %q -> %s %s", i, p, o.got, o.err),
					Replay: replay(), Expected: observe(zctx, vals[i]).String(), Observed: o.got + o.err})
			}
		}
	}
}

func clip(s string, n int) string {
	if len(s) > n {
		return s[:n] + "…"
	}
	return s
}

var _ = zcode.Bytes{}
