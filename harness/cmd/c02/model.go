package main

import (
	"fmt"
	"io"
	"regexp"
	"strings"

	zed "github.com/brimdata/super"
	astzed "github.com/brimdata/super/compiler/ast/zed"
	"github.com/brimdata/super/zcode"
	"github.com/brimdata/super/zson"
	. "zvh/hx"
)

// ---- Coq literals

func coqStr(s string) string {
	plain := len(s) > 3
	for _, r := range s {
		if r < 32 || r > 126 || r == '"' {
			plain = false
		}
	}
	if plain {
		return `(s2l "` + s + `")`
	}
	rs := []rune(s)
	if len(rs) == 0 {
		return "[]"
	}
	parts := make([]string, len(rs))
	for i, r := range rs {
		parts[i] = fmt.Sprint(int(r))
	}
	return "[" + strings.Join(parts, ";") + "]"
}

func coqName(s string) string {
	for _, r := range s {
		if r < 32 || r > 126 || r == '"' {
			return coqStr(s)
		}
	}
	return `(s2l "` + s + `")`
}

// tokenClass: the primitive type the real parser assigns to a token.
func tokenClass(tok string) (int, error) {
	var id int
	err := guarded(func() error {
		ast, err := zson.NewParser(strings.NewReader(tok)).ParseValue()
		if err != nil {
			return err
		}
		iv, ok := ast.(*astzed.ImpliedValue)
		if !ok {
			return fmt.Errorf("token %q is not an implied value", tok)
		}
		p, ok := iv.Of.(*astzed.Primitive)
		if !ok {
			return fmt.Errorf("token %q is not a primitive", tok)
		}
		t := zed.LookupPrimitive(p.Type)
		if t == nil {
			return fmt.Errorf("token %q: unknown type %q", tok, p.Type)
		}
		id = t.ID()
		return nil
	})
	return id, err
}

func coqType(t zed.Type) string {
	switch t := t.(type) {
	case *zed.TypeNamed:
		return fmt.Sprintf("(TNamed %s %s)", coqName(t.Name), coqType(t.Type))
	case *zed.TypeRecord:
		var fs []string
		for _, f := range t.Fields {
			fs = append(fs, fmt.Sprintf("(%s, %s)", coqName(f.Name), coqType(f.Type)))
		}
		return "(TRec [" + strings.Join(fs, "; ") + "])"
	case *zed.TypeArray:
		return "(TArr " + coqType(t.Type) + ")"
	}
	return fmt.Sprintf("(TPrim %d)", t.ID())
}

func coqVal(t zed.Type, b zcode.Bytes) (string, error) {
	if b == nil {
		return "VNull", nil
	}
	switch t := t.(type) {
	case *zed.TypeNamed:
		return coqVal(t.Type, b)
	case *zed.TypeRecord:
		var vs []string
		it := b.Iter()
		for _, f := range t.Fields {
			s, err := coqVal(f.Type, it.Next())
			if err != nil {
				return "", err
			}
			vs = append(vs, s)
		}
		return "(VRec [" + strings.Join(vs, "; ") + "])", nil
	case *zed.TypeArray:
		var vs []string
		for it := b.Iter(); !it.Done(); {
			s, err := coqVal(t.Type, it.Next())
			if err != nil {
				return "", err
			}
			vs = append(vs, s)
		}
		return "(VArr [" + strings.Join(vs, "; ") + "])", nil
	}
	if t.ID() >= zed.IDTypeComplex {
		return "", fmt.Errorf("type outside the modelled fragment: %s", zson.FormatType(t))
	}
	tok := zson.FormatPrimitive(t, b)
	cls, err := tokenClass(tok)
	if err != nil {
		return "", err
	}
	return fmt.Sprintf("(VPrim %d %s)", cls, coqStr(tok)), nil
}

// ---- generator of the modelled fragment

var mNames = []string{"foo", "bar", "T"}
var mFields = []string{"a", "b", "c", "a b", "x1", "_y"}

func mPrim(r *Rng) tv {
	switch r.Intn(16) {
	case 0:
		return u8(uint8(Pick(r, []int{0, 1, 7, 255})))
	case 1:
		return pv(zed.TypeUint16, zed.EncodeUint(uint64(Pick(r, []int{0, 80, 65535}))))
	case 2:
		return pv(zed.TypeInt8, zed.EncodeInt(int64(Pick(r, []int{0, -1, 127, -128}))))
	case 3:
		return u64(Pick(r, []uint64{0, 1, 1 << 63, 1<<64 - 1}))
	case 4:
		return pv(zed.TypeFloat32, zed.EncodeFloat32(Pick(r, []float32{0, 1, 1.5, -2.25})))
	case 5:
		return f64(Pick(r, []float64{0, 1, 1.5, -1, 1e100, 0.1}))
	case 6:
		return str(Pick(r, []string{"", "a", "x y", "q\"q", "é", "null"}))
	case 7:
		return boolv(r.Bool())
	case 8:
		return ipv(Pick(r, []string{"10.0.0.1", "::1", "2001:db8::1"}))
	case 9:
		return pv(zed.TypeTime, zed.EncodeInt(Pick(r, []int64{0, 1700000000123456789})))
	case 10:
		return pv(zed.TypeDuration, zed.EncodeInt(Pick(r, []int64{0, 1500000000, -60000000000})))
	case 11:
		return bytesv(Pick(r, [][]byte{{}, {1, 2}}))
	case 12:
		return nullOf(zed.TypeNull)
	case 13:
		return netv(Pick(r, []string{"10.0.0.0/8", "2001:db8::/32"}))
	case 14:
		return pv(zed.TypeInt32, zed.EncodeInt(int64(Pick(r, []int{0, -5, 1 << 30}))))
	}
	return i64(Pick(r, []int64{0, 1, -1, 42, 1 << 62}))
}

func mValue(r *Rng, zctx *zed.Context, depth int) tv {
	if depth <= 0 || r.Chance(1, 3) {
		v := mPrim(r)
		if r.Chance(1, 8) {
			return nullOf(v.t)
		}
		return v
	}
	var v tv
	switch r.Intn(7) {
	case 0, 1:
		n := r.Intn(4)
		var names []string
		var vals []tv
		seen := map[string]bool{}
		for i := 0; i < n; i++ {
			nm := Pick(r, mFields)
			if seen[nm] {
				continue
			}
			seen[nm] = true
			names = append(names, nm)
			vals = append(vals, mValue(r, zctx, depth-1))
		}
		v = recv(zctx, names, vals...)
	case 2, 3:
		// arrays are homogeneous: pick an element, then vary it by re-rolling values of the same type
		e := mValue(r, zctx, depth-1)
		n := r.Intn(4)
		var vals []tv
		for i := 0; i < n; i++ {
			switch {
			case r.Chance(1, 5):
				vals = append(vals, nullOf(e.t))
			default:
				vals = append(vals, e)
			}
		}
		v = arrv(zctx, e.t, vals...)
	default:
		v = namedv(zctx, Pick(r, mNames), mValue(r, zctx, depth-1))
	}
	if r.Chance(1, 10) {
		return nullOf(v.t)
	}
	return v
}

func c02Model(o Opts, rng *Rng, res *Result, zctx *zed.Context, sb *strings.Builder) error {
	n := 350
	if o.Tier == "thorough" {
		n = 4000
	}
	type pcfg struct {
		coq string
		re  string
	}
	pcfgs := []pcfg{{"PNone", ""}, {"PAll", ".*"}, {"(PList [s2l \"foo\"])", "^foo$"}}
	var cases []string
	var pool []tv
	for i := 0; i < n; i++ {
		k := 1 + rng.Intn(4)
		var vals []tv
		for j := 0; j < k; j++ {
			if len(pool) > 0 && rng.Chance(1, 3) {
				vals = append(vals, Pick(rng, pool))
				continue
			}
			v := mValue(rng, zctx, 1+rng.Intn(3))
			vals = append(vals, v)
			if len(pool) < 200 {
				pool = append(pool, v)
			} else {
				pool[rng.Intn(len(pool))] = v
			}
		}
		pc := Pick(rng, pcfgs)
		reset := rng.Bool()
		var re *regexp.Regexp
		if pc.re != "" {
			re = regexp.MustCompile(pc.re)
		}
		var texts []string
		var inputs []string
		err := guarded(func() error {
			f := zson.NewFormatter(0, true, re)
			for _, v := range vals {
				cv, err := coqVal(v.t, v.b)
				if err != nil {
					return err
				}
				inputs = append(inputs, fmt.Sprintf("(%s, %s)", coqType(v.t), cv))
				if reset {
					texts = append(texts, f.FormatRecord(v.val()))
				} else {
					texts = append(texts, f.Format(v.val()))
				}
			}
			return nil
		})
		if err != nil {
			return fmt.Errorf("model case generation: %w", err)
		}
		got, _, rerr := readAllFresh(strings.Join(texts, "\n") + "\n")
		var results []string
		for j := range vals {
			if j < len(got) {
				var body zcode.Bytes
				if !got[j].IsNull() {
					body = got[j].Bytes()
				}
				cv, err := coqVal(got[j].Type(), body)
				if err != nil {
					// the reader produced a type outside the fragment (a union inferred from
					// mistyped elements): not comparable, drop the case
					results = nil
					break
				}
				results = append(results, fmt.Sprintf("Some (%s, %s)", coqType(got[j].Type()), cv))
			} else {
				results = append(results, "None")
			}
		}
		if results == nil {
			res.Count("model:dropped_outside_fragment")
			continue
		}
		if rerr == nil && len(got) != len(vals) {
			res.Count("model:dropped_count")
			continue
		}
		var tl []string
		for _, t := range texts {
			tl = append(tl, coqStr(t))
		}
		cases = append(cases, fmt.Sprintf("(%s, %v, [%s], [%s], [%s])", pc.coq, reset, strings.Join(inputs, "; "), strings.Join(tl, "; "), strings.Join(results, "; ")))
		res.Count("model:zson_streams")
		if rerr != nil {
			res.Count("model:zson_streams_with_read_error")
		}
	}

	// ---- escaping
	var quoteCases, scanCases, nameCases []string
	addQuote := func(s string) {
		q := zson.QuotedString([]byte(s))
		quoteCases = append(quoteCases, fmt.Sprintf("(%s, %s)", coqStr(s), coqStr(q)))
		res.Distinctly("esc:" + s)
	}
	for c := 0; c < 128; c++ {
		addQuote(string(rune(c)))
		addQuote("a" + string(rune(c)) + "é")
	}
	alphabet := []rune{'a', 'z', ' ', '"', '\\', '/', '\n', '\t', '\r', '\b', '\f', 0, 1, 0x1f, 0x7f, 0x80, 0xe9, 0x7ff, 0x800, 0x2028, 0xfffd, 0xffff, 0x10000, 0x1f600, 0x10ffff, 'u', '0', '\''}
	nq := 150
	if o.Tier == "thorough" {
		nq = 1500
	}
	for i := 0; i < nq; i++ {
		var rs []rune
		for j := rng.Intn(8); j > 0; j-- {
			rs = append(rs, Pick(rng, alphabet))
		}
		addQuote(string(rs))
	}
	pieces := []string{"a", "Z", " ", "é", "日", "😀", `\"`, `\\`, `\/`, `\b`, `\f`, `\n`, `\r`, `\t`, `\'`, `\x`, `\0`, `A`, `é`, `é`, `\u0000`, `\u001f`, `😀`, `😀`,
		`\ud800`, `\udc00`, `\ud83dxxxxxx`, `\ude00\ud83d`, `\ud800A`, `\u12`, `\u`, `\uzzzz`, `\u 041`, "\t", "\x01", "\n", "\r", "\x7f", "'", "/", "u", "0041", `\ud83dA`, `􏿿`, `퟿`, ``, `￿`, `\U0041`}
	addScan := func(body, trail string) {
		text := `"` + body + trail
		var dec string
		err := guarded(func() error {
			// The model knows nothing of how the text arrives: the literal is handed
			// to the real parser whole or in adversarial chunks, in rotation.
			var rd io.Reader = strings.NewReader(text)
			switch len(scanCases) % 4 {
			case 1:
				rd = fixedChunks(1)(text)
			case 2:
				rd = cutInsideRunes(text)
			case 3:
				rd = randomChunks(text)
			}
			ast, err := zson.NewParser(rd).ParseValue()
			if err != nil {
				return err
			}
			iv, ok := ast.(*astzed.ImpliedValue)
			if !ok {
				return fmt.Errorf("not implied")
			}
			p, ok := iv.Of.(*astzed.Primitive)
			if !ok || p.Type != "string" {
				return fmt.Errorf("not a string")
			}
			dec = p.Text
			return nil
		})
		if err != nil {
			scanCases = append(scanCases, fmt.Sprintf("(%s, None)", coqStr(text)))
			res.Count("model:scan_rejected")
		} else {
			scanCases = append(scanCases, fmt.Sprintf("(%s, Some %s)", coqStr(text), coqStr(dec)))
			res.Count("model:scan_accepted")
		}
	}
	for _, p := range pieces {
		addScan(p, `"`)
		addScan("a"+p, `"`)
		addScan("é"+p, `"`)
		addScan(p+"a", `"`)
		addScan(`A`+p, `"`)
		addScan(p, "")
	}
	ns := 200
	if o.Tier == "thorough" {
		ns = 3000
	}
	for i := 0; i < ns; i++ {
		var b strings.Builder
		for j := rng.Intn(6); j > 0; j-- {
			b.WriteString(Pick(rng, pieces))
		}
		addScan(b.String(), Pick(rng, []string{`"`, `"`, `" `, ``}))
	}
	for _, nm := range append(append([]string{}, nastyFieldNames...), nastyTypeNames...) {
		ascii := true
		for _, r := range nm {
			if r >= 128 {
				ascii = false
			}
		}
		if ascii {
			nameCases = append(nameCases, fmt.Sprintf("(%s, %s)", coqStr(nm), coqStr(zson.QuotedName(nm))))
		}
	}
	res.ModelCases = len(cases) + len(quoteCases) + len(scanCases) + len(nameCases)
	WriteCoqList(sb, "zson_cases", "zcase", cases)
	WriteCoqList(sb, "quote_cases", "(str * str)", quoteCases)
	WriteCoqList(sb, "scan_cases", "(str * option str)", scanCases)
	WriteCoqList(sb, "name_cases", "(str * str)", nameCases)
	sb.WriteString("Definition M := Eval vm_compute in (zson_mismatches zson_cases, quote_mismatches quote_cases, scan_mismatches scan_cases, name_mismatches name_cases).\nPrint M.\n")
	return nil
}
