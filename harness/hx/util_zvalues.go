package hx

import (
	"encoding/hex"
	"fmt"
	"math"
	"net/netip"

	zed "github.com/brimdata/super"
	"github.com/brimdata/super/pkg/nano"
	"github.com/brimdata/super/zcode"
	"github.com/brimdata/super/zson"
)

// Seeded generator of zed types and values over the whole type system, built
// directly with zed.Context lookups and zcode.Builder (no ZSON parsing
// involved, so it is independent of the text format under test).

type GenOpts struct {
	Depth     int  // maximum nesting depth of complex types
	NoMaps    bool // exclude maps
	NoUnions  bool // exclude unions
	NoNamed   bool // exclude named types
	NoErrors  bool // exclude error types
	NoEnums   bool
	NoTypeVal bool // exclude values of type "type"
	NoNulls   bool // never generate null values
	Floats16  bool // include float16/float32
	FewNames  bool // draw field/type names from a tiny alphabet (collisions, redefinitions)
}

var fieldNames = []string{"a", "b", "c", "k", "x", "y", "ts", "id", "a b", "", "foo.bar", "ünï", "type", "null", "0", "\"q\"", "A"}
var fewFieldNames = []string{"a", "b", "c"}
var typeNames = []string{"foo", "bar", "port", "T", "my type", "ütype"}

var primTypes = []zed.Type{
	zed.TypeUint8, zed.TypeUint16, zed.TypeUint32, zed.TypeUint64,
	zed.TypeInt8, zed.TypeInt16, zed.TypeInt32, zed.TypeInt64,
	zed.TypeDuration, zed.TypeTime, zed.TypeFloat64, zed.TypeBool,
	zed.TypeBytes, zed.TypeString, zed.TypeIP, zed.TypeNet, zed.TypeType, zed.TypeNull,
}

func GenPrimType(r *Rng, o GenOpts) zed.Type {
	for {
		// bias towards the common ones
		if r.Chance(1, 2) {
			return Pick(r, []zed.Type{zed.TypeInt64, zed.TypeString, zed.TypeFloat64, zed.TypeBool, zed.TypeUint64, zed.TypeTime, zed.TypeIP})
		}
		if o.Floats16 && r.Chance(1, 10) {
			return Pick(r, []zed.Type{zed.TypeFloat16, zed.TypeFloat32})
		}
		t := Pick(r, primTypes)
		if t == zed.TypeType && o.NoTypeVal {
			continue
		}
		return t
	}
}

func genName(r *Rng, o GenOpts) string {
	if o.FewNames {
		return Pick(r, fewFieldNames)
	}
	return Pick(r, fieldNames)
}

// GenType returns a random type of nesting depth <= o.Depth interned in zctx.
func GenType(r *Rng, zctx *zed.Context, o GenOpts) zed.Type {
	if o.Depth <= 0 || r.Chance(2, 5) {
		return GenPrimType(r, o)
	}
	sub := o
	sub.Depth--
	for {
		switch r.Intn(9) {
		case 0, 1, 2: // record
			n := r.Intn(4)
			if r.Chance(1, 10) {
				n = 0
			}
			var fields []zed.Field
			seen := map[string]bool{}
			for i := 0; i < n; i++ {
				name := genName(r, o)
				if seen[name] {
					continue
				}
				seen[name] = true
				fields = append(fields, zed.NewField(name, GenType(r, zctx, sub)))
			}
			t, err := zctx.LookupTypeRecord(fields)
			if err != nil {
				continue
			}
			return t
		case 3:
			return zctx.LookupTypeArray(GenType(r, zctx, sub))
		case 4:
			return zctx.LookupTypeSet(GenType(r, zctx, sub))
		case 5:
			if o.NoMaps {
				continue
			}
			return zctx.LookupTypeMap(GenType(r, zctx, sub), GenType(r, zctx, sub))
		case 6:
			if o.NoUnions {
				continue
			}
			n := 2 + r.Intn(3)
			var ts []zed.Type
			seen := map[zed.Type]bool{}
			for i := 0; i < n; i++ {
				t := GenType(r, zctx, sub)
				if seen[t] || zed.TypeUnder(t).Kind() == zed.UnionKind {
					continue
				}
				seen[t] = true
				ts = append(ts, t)
			}
			if len(ts) < 2 {
				continue
			}
			return zctx.LookupTypeUnion(ts)
		case 7:
			switch r.Intn(3) {
			case 0:
				if o.NoEnums {
					continue
				}
				syms := []string{"a", "b", "c", "d e"}[:1+r.Intn(4)]
				return zctx.LookupTypeEnum(syms)
			case 1:
				if o.NoErrors {
					continue
				}
				return zctx.LookupTypeError(GenType(r, zctx, sub))
			}
			fallthrough
		default:
			if o.NoNamed {
				continue
			}
			inner := GenType(r, zctx, sub)
			name := Pick(r, typeNames)
			t, err := zctx.LookupTypeNamed(name, inner)
			if err != nil {
				continue
			}
			return t
		}
	}
}

var boundaryInts = []int64{0, 1, -1, 2, 127, 128, -128, 255, 256, 32767, -32768, 65535, 1 << 31, -(1 << 31), 1<<53 - 1, 1 << 53, 1<<53 + 1, math.MaxInt64, math.MinInt64, 42, 1000}
var boundaryUints = []uint64{0, 1, 2, 255, 256, 65535, 65536, 1 << 32, 1<<53 + 1, 1 << 63, 1<<63 + 1, math.MaxUint64, 7}
var boundaryFloats = []float64{0, math.Copysign(0, -1), 1, -1, 0.5, 1.5, 1e100, -1e-100, math.Inf(1), math.Inf(-1), math.NaN(), math.MaxFloat64, math.SmallestNonzeroFloat64, 9007199254740992, 3.141592653589793}
var genStrings = []string{"", "a", "b", "foo", "bar", "hello world", "ünïcödé", "with\"quote", "back\\slash", "new\nline", "tab\t", "\x00nul", "null", "true", "1", "a,b", "{x}", "日本語", "'single'", " "}

func genPrimBytes(r *Rng, zctx *zed.Context, t zed.Type, o GenOpts) zcode.Bytes {
	switch t.ID() {
	case zed.IDUint8:
		return zed.EncodeUint(uint64(uint8(Pick(r, boundaryUints))))
	case zed.IDUint16:
		return zed.EncodeUint(uint64(uint16(Pick(r, boundaryUints))))
	case zed.IDUint32:
		return zed.EncodeUint(uint64(uint32(Pick(r, boundaryUints))))
	case zed.IDUint64:
		if r.Chance(1, 3) {
			return zed.EncodeUint(uint64(r.Intn(10)))
		}
		return zed.EncodeUint(Pick(r, boundaryUints))
	case zed.IDInt8:
		return zed.EncodeInt(int64(int8(Pick(r, boundaryInts))))
	case zed.IDInt16:
		return zed.EncodeInt(int64(int16(Pick(r, boundaryInts))))
	case zed.IDInt32:
		return zed.EncodeInt(int64(int32(Pick(r, boundaryInts))))
	case zed.IDInt64:
		if r.Chance(1, 2) {
			return zed.EncodeInt(int64(r.Intn(10)))
		}
		return zed.EncodeInt(Pick(r, boundaryInts))
	case zed.IDDuration:
		return zed.EncodeDuration(nano.Duration(Pick(r, boundaryInts)))
	case zed.IDTime:
		return zed.EncodeTime(nano.Ts(Pick(r, []int64{0, 1, -1, 1e9, 1700000000123456789, math.MaxInt64, math.MinInt64, -6213559680000000000, 253402300799999999})))
	case zed.IDFloat16:
		return zed.EncodeFloat16(float32(Pick(r, []float64{0, 1, -1, 0.5, 2, 65504, math.Inf(1), math.NaN()})))
	case zed.IDFloat32:
		return zed.EncodeFloat32(float32(Pick(r, []float64{0, 1, -1, 0.5, 1.5, 3.4028234663852886e38, math.Inf(-1), math.NaN(), math.Copysign(0, -1)})))
	case zed.IDFloat64:
		if r.Chance(1, 3) {
			return zed.EncodeFloat64(float64(r.Intn(8)) / 4)
		}
		return zed.EncodeFloat64(Pick(r, boundaryFloats))
	case zed.IDBool:
		return zed.EncodeBool(r.Bool())
	case zed.IDBytes:
		return zed.EncodeBytes([]byte(Pick(r, []string{"", "\x00", "ab", "\xff\xfe", "hello", "\x01\x02\x03\x04\x05\x06\x07\x08\x09"})))
	case zed.IDString:
		return zed.EncodeString(Pick(r, genStrings))
	case zed.IDIP:
		return zed.EncodeIP(netip.MustParseAddr(Pick(r, []string{"0.0.0.0", "10.0.0.1", "255.255.255.255", "::", "::1", "2001:db8::1", "::ffff:1.2.3.4", "fe80::1"})))
	case zed.IDNet:
		return zed.EncodeNet(netip.MustParsePrefix(Pick(r, []string{"10.0.0.0/8", "0.0.0.0/0", "192.168.1.0/24", "2001:db8::/32", "::/0", "1.2.3.4/32"})))
	case zed.IDType:
		sub := o
		sub.Depth = 2
		return zed.EncodeTypeValue(GenType(r, zctx, sub))
	case zed.IDNull:
		return nil
	}
	panic(fmt.Sprintf("genPrimBytes: unsupported type %s", zson.FormatType(t)))
}

// genBody appends one value of type t to b.
func genBody(r *Rng, zctx *zed.Context, b *zcode.Builder, t zed.Type, o GenOpts) {
	if !o.NoNulls && r.Chance(1, 8) {
		b.Append(nil)
		return
	}
	genBodyNonNull(r, zctx, b, t, o)
}

func genBodyNonNull(r *Rng, zctx *zed.Context, b *zcode.Builder, t zed.Type, o GenOpts) {
	switch t := t.(type) {
	case *zed.TypeNamed:
		genBodyNonNull(r, zctx, b, t.Type, o)
	case *zed.TypeRecord:
		b.BeginContainer()
		for _, f := range t.Fields {
			genBody(r, zctx, b, f.Type, o)
		}
		b.EndContainer()
	case *zed.TypeArray:
		b.BeginContainer()
		n := r.Intn(4)
		for i := 0; i < n; i++ {
			genBody(r, zctx, b, t.Type, o)
		}
		b.EndContainer()
	case *zed.TypeSet:
		b.BeginContainer()
		n := r.Intn(4)
		for i := 0; i < n; i++ {
			genBody(r, zctx, b, t.Type, o)
		}
		b.TransformContainer(zed.NormalizeSet)
		b.EndContainer()
	case *zed.TypeMap:
		b.BeginContainer()
		n := r.Intn(3)
		for i := 0; i < n; i++ {
			genBody(r, zctx, b, t.KeyType, o)
			genBody(r, zctx, b, t.ValType, o)
		}
		b.TransformContainer(zed.NormalizeMap)
		b.EndContainer()
	case *zed.TypeUnion:
		tag := r.Intn(len(t.Types))
		b.BeginContainer()
		b.Append(zed.EncodeInt(int64(tag)))
		genBody(r, zctx, b, t.Types[tag], o)
		b.EndContainer()
	case *zed.TypeEnum:
		b.Append(zed.EncodeUint(uint64(r.Intn(len(t.Symbols)))))
	case *zed.TypeError:
		genBody(r, zctx, b, t.Type, o)
	default:
		if t.ID() == zed.IDNull {
			b.Append(nil)
			return
		}
		b.Append(genPrimBytes(r, zctx, t, o))
	}
}

// GenValue returns a random value of type t (possibly null).
func GenValue(r *Rng, zctx *zed.Context, t zed.Type, o GenOpts) zed.Value {
	b := zcode.NewBuilder()
	genBody(r, zctx, b, t, o)
	it := b.Bytes().Iter()
	body := it.Next()
	if body == nil {
		return zed.NewValue(t, nil)
	}
	// copy so the value owns its bytes
	return zed.NewValue(t, append(zcode.Bytes{}, body...))
}

// GenValues returns n values drawn from ntypes random types (interleaved).
func GenValues(r *Rng, zctx *zed.Context, n, ntypes int, o GenOpts) []zed.Value {
	if ntypes < 1 {
		ntypes = 1
	}
	var types []zed.Type
	for i := 0; i < ntypes; i++ {
		types = append(types, GenType(r, zctx, o))
	}
	var out []zed.Value
	for i := 0; i < n; i++ {
		out = append(out, GenValue(r, zctx, Pick(r, types), o))
	}
	return out
}

// GenRecordValues returns n record values (top-level type is always a record).
func GenRecordValues(r *Rng, zctx *zed.Context, n, ntypes int, o GenOpts) []zed.Value {
	var types []zed.Type
	for len(types) < ntypes {
		t := GenType(r, zctx, o)
		if _, ok := t.(*zed.TypeRecord); ok {
			types = append(types, t)
		}
	}
	var out []zed.Value
	for i := 0; i < n; i++ {
		o2 := o
		v := GenValue(r, zctx, Pick(r, types), o2)
		if v.IsNull() {
			i--
			continue
		}
		out = append(out, v)
	}
	return out
}

// CanonValue is the canonical observable of a value: its type as text plus
// the raw body bytes (nil body printed as "null").
func CanonValue(v zed.Value) string {
	if v.IsNull() {
		return zson.FormatType(v.Type()) + "|null"
	}
	return zson.FormatType(v.Type()) + "|" + hex.EncodeToString(v.Bytes())
}

func CanonValues(vals []zed.Value) []string {
	out := make([]string, len(vals))
	for i, v := range vals {
		out[i] = CanonValue(v)
	}
	return out
}
