package hx

import (
	"context"
	"errors"
	"fmt"
	"strings"

	zed "github.com/brimdata/super"
	"github.com/brimdata/super/api"
	"github.com/brimdata/super/compiler"
	"github.com/brimdata/super/compiler/data"
	"github.com/brimdata/super/lake"
	lakeapi "github.com/brimdata/super/lake/api"
	"github.com/brimdata/super/lakeparse"
	"github.com/brimdata/super/order"
	"github.com/brimdata/super/pkg/field"
	"github.com/brimdata/super/pkg/storage"
	"github.com/brimdata/super/runtime"
	"github.com/brimdata/super/zbuf"
	"github.com/brimdata/super/zio"
	"github.com/brimdata/super/zio/zsonio"
	"github.com/brimdata/super/zson"
	"github.com/segmentio/ksuid"
	"go.uber.org/zap"
)

// LakeEnv is one lake on one (in-memory) storage engine.
type LakeEnv struct {
	Eng  *MemEngine
	Root *lake.Root
	API  lakeapi.Interface
	URI  *storage.URI
}

func LakeURI() *storage.URI {
	u, err := storage.ParseURI("file:///lake")
	if err != nil {
		panic(err)
	}
	return u
}

func NewLakeEnv() (*LakeEnv, error) {
	eng := NewMemEngine()
	root, err := lake.Create(context.Background(), eng, zap.NewNop(), LakeURI())
	if err != nil {
		return nil, err
	}
	return &LakeEnv{Eng: eng, Root: root, API: lakeapi.FromRoot(root), URI: LakeURI()}, nil
}

// OpenLakeEnv opens a fresh handle (cold caches) on an existing engine.
func OpenLakeEnv(eng *MemEngine) (*LakeEnv, error) {
	root, err := lake.Open(context.Background(), eng, zap.NewNop(), LakeURI())
	if err != nil {
		return nil, err
	}
	return &LakeEnv{Eng: eng, Root: root, API: lakeapi.FromRoot(root), URI: LakeURI()}, nil
}

func SortKeys(keyPath string, desc bool) order.SortKeys {
	o := order.Asc
	if desc {
		o = order.Desc
	}
	if keyPath == "this" {
		// the value itself is the key (empty path); "-orderby this" on the
		// command line would instead name a field called "this"
		return order.SortKeys{order.NewSortKey(o, field.Path{})}
	}
	return order.SortKeys{order.NewSortKey(o, field.Dotted(keyPath))}
}

func (l *LakeEnv) CreatePool(name, keyPath string, desc bool, seekStride int, thresh int64) (ksuid.KSUID, error) {
	return l.API.CreatePool(context.Background(), name, SortKeys(keyPath, desc), seekStride, thresh)
}

func (l *LakeEnv) LoadZSON(pool ksuid.KSUID, branch, zsonText string) (ksuid.KSUID, error) {
	zctx := zed.NewContext()
	r := zsonio.NewReader(zctx, strings.NewReader(zsonText))
	return l.API.Load(context.Background(), zctx, pool, branch, r, api.CommitMessage{Author: "zvh", Body: "load"})
}

func (l *LakeEnv) LoadValues(pool ksuid.KSUID, branch string, zctx *zed.Context, vals []zed.Value) (ksuid.KSUID, error) {
	return l.API.Load(context.Background(), zctx, pool, branch, zbuf.NewArray(vals), api.CommitMessage{Author: "zvh", Body: "load"})
}

// drain pulls everything from a puller and formats each value as ZSON.
func Drain(p zbuf.Puller) ([]string, error) {
	var out []string
	for {
		b, err := p.Pull(false)
		if err != nil {
			return out, err
		}
		if b == nil {
			return out, nil
		}
		for _, v := range b.Values() {
			out = append(out, zson.FormatValue(v))
		}
		b.Unref()
	}
}

func Safely(f func() error) (err error) {
	defer func() {
		if r := recover(); r != nil {
			err = fmt.Errorf("PANIC: %v", r)
		}
	}()
	return f()
}

// Query runs src on the lake with the given parallelism (0 = default).
func (l *LakeEnv) Query(src string, par int) (out []string, err error) {
	err = Safely(func() error {
		seq, sset, err := compiler.Parse(src)
		if err != nil {
			return err
		}
		_ = sset
		rctx := runtime.NewContext(context.Background(), zed.NewContext())
		defer rctx.Cancel()
		q, err := compiler.NewLakeCompiler(l.Root).NewLakeQuery(rctx, seq, par, nil)
		if err != nil {
			return err
		}
		defer q.Pull(true)
		out, err = Drain(q)
		return err
	})
	return out, err
}

func (l *LakeEnv) QueryAt(src string, par int, head *lakeparse.Commitish) (out []string, err error) {
	err = Safely(func() error {
		seq, _, err := compiler.Parse(src)
		if err != nil {
			return err
		}
		rctx := runtime.NewContext(context.Background(), zed.NewContext())
		defer rctx.Cancel()
		q, err := compiler.NewLakeCompiler(l.Root).NewLakeQuery(rctx, seq, par, head)
		if err != nil {
			return err
		}
		defer q.Pull(true)
		out, err = Drain(q)
		return err
	})
	return out, err
}

// RunQuery runs src over the given ZSON input text with the plain (non-lake)
// compiler.
func RunQuery(src string, input string) (out []string, err error) {
	err = Safely(func() error {
		seq, sset, err := compiler.Parse(src)
		if err != nil {
			return err
		}
		zctx := zed.NewContext()
		r := zsonio.NewReader(zctx, strings.NewReader(input))
		q, err := runtime.CompileQuery(context.Background(), zctx, compiler.NewCompiler(), seq, sset, []zio.Reader{r})
		if err != nil {
			return err
		}
		defer q.Pull(true)
		out, err = Drain(q)
		return err
	})
	return out, err
}

// RunQueryValues is RunQuery over in-memory values.
func RunQueryValues(src string, zctx *zed.Context, vals []zed.Value) (out []string, err error) {
	err = Safely(func() error {
		seq, sset, err := compiler.Parse(src)
		if err != nil {
			return err
		}
		q, err := runtime.CompileQuery(context.Background(), zctx, compiler.NewCompiler(), seq, sset, []zio.Reader{zbuf.NewArray(vals)})
		if err != nil {
			return err
		}
		defer q.Pull(true)
		out, err = Drain(q)
		return err
	})
	return out, err
}

// LakeJob builds a compiler.Job for src against the lake (analysed, not yet optimised).
func (l *LakeEnv) LakeJob(src string) (*compiler.Job, *runtime.Context, error) {
	seq, _, err := compiler.Parse(src)
	if err != nil {
		return nil, nil, err
	}
	rctx := runtime.NewContext(context.Background(), zed.NewContext())
	job, err := compiler.NewJob(rctx, seq, data.NewSource(storage.NewRemoteEngine(), l.Root), nil)
	if err != nil {
		rctx.Cancel()
		return nil, nil, err
	}
	return job, rctx, nil
}

var errNoPuller = errors.New("no puller")

func Msg() api.CommitMessage { return api.CommitMessage{Author: "zvh", Body: "op"} }
