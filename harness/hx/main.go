package hx

import (
	"encoding/json"
	"flag"
	"fmt"
	"os"
	"strconv"
)

// Every property subcommand: zvh <cNN> -seed S -tier quick|thorough -out DIR
// writes DIR/cases.v (for the Coq correspondence), DIR/result.json (oracle
// failures, statistics, samples) and exits 0 unless the harness itself broke.

type Opts struct {
	Seed   uint64
	Tier   string
	Out    string
	Replay string
}

type Failure struct {
	Kind     string `json:"kind"`     // oracle | correspondence | panic
	Sig      string `json:"sig"`      // short signature used to match known findings
	Detail   string `json:"detail"`   // human readable
	Replay   any    `json:"replay"`   // concrete input / history
	Expected string `json:"expected"` // what the property demands
	Observed string `json:"observed"`
}

type Result struct {
	Property     string         `json:"property"`
	Evaluations  int            `json:"evaluations"`
	Distinct     int            `json:"distinct_nontrivial"`
	Rule         string         `json:"rule"`
	Samples      []any          `json:"samples"`
	Dist         map[string]int `json:"input_distribution"`
	Failures     []Failure      `json:"failures"`
	ModelCases   int            `json:"model_cases"`
	Exhaustive   bool           `json:"exhaustive"`
	Notes        []string       `json:"notes,omitempty"`
	distinctKeys map[string]struct{}
}

func NewResult(prop string) *Result {
	return &Result{Property: prop, Dist: map[string]int{}, distinctKeys: map[string]struct{}{}}
}

func (r *Result) Count(k string)         { r.Dist[k]++ }
func (r *Result) CountN(k string, n int) { r.Dist[k] += n }
func (r *Result) Distinctly(key string) {
	if _, ok := r.distinctKeys[key]; !ok {
		r.distinctKeys[key] = struct{}{}
		r.Distinct++
	}
}
func (r *Result) Sample(s any) {
	if len(r.Samples) < 6 {
		r.Samples = append(r.Samples, s)
	}
}
func (r *Result) Fail(f Failure) {
	// keep at most 3 concrete failures per signature, count all of them
	if r.Dist["fail:"+f.Sig] < 3 {
		r.Failures = append(r.Failures, f)
	}
	r.Count("fail:" + f.Sig)
	r.Count("failures")
}

func (r *Result) Write(dir string) {
	b, err := json.MarshalIndent(r, "", " ")
	if err != nil {
		panic(err)
	}
	if err := os.WriteFile(dir+"/result.json", b, 0644); err != nil {
		panic(err)
	}
}

// Main is the entry point of every per-property binary: zvh-cNN [-seed N] [-tier T] [-out DIR] [-replay FILE]
func Main(name string, f func(o Opts) error) {
	cmd := name
	fs := flag.NewFlagSet(cmd, flag.ExitOnError)
	seed := fs.String("seed", "1", "seed")
	tier := fs.String("tier", "quick", "tier")
	out := fs.String("out", ".", "output dir")
	replay := fs.String("replay", "", "replay file")
	fs.Parse(os.Args[1:])
	s, _ := strconv.ParseUint(*seed, 10, 64)
	os.MkdirAll(*out, 0755)
	if err := f(Opts{Seed: s, Tier: *tier, Out: *out, Replay: *replay}); err != nil {
		fmt.Fprintln(os.Stderr, "zvh-"+name+":", err)
		os.Exit(3)
	}
}
