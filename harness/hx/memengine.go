package hx

import (
	"bytes"
	"context"
	"fmt"
	"io"
	"io/fs"
	"sort"
	"strings"
	"sync"

	"github.com/brimdata/super/pkg/storage"
)

// MemEngine is an in-memory storage.Engine with hooks: every operation is
// reported to Hook (which may block, i.e. schedule, or return an error, i.e.
// inject a fault / crash).  FileMode makes Put non-atomic like the file
// engine (create-truncate, then one visible update per Write call).
type memCore struct {
	mu    sync.Mutex
	files map[string][]byte
}

type MemEngine struct {
	*memCore
	Hook func(op StorageOp) error
	// Done, when set, is called after get / putx / close-of-put completed, with
	// the bytes read or written and the outcome.
	Done     func(op StorageOp, data []byte, err error)
	FileMode bool
	Trace    []StorageOp
	TraceOn  bool
}

type StorageOp struct {
	Kind string // get put putx write close delete delprefix exists size list
	Path string
	N    int
}

func NewMemEngine() *MemEngine {
	return &MemEngine{memCore: &memCore{files: map[string][]byte{}}}
}

// View returns an engine over the same files with its own hook and trace
// (one view per client lets a scheduler tell the clients apart).
func (m *MemEngine) View(hook func(op StorageOp) error) *MemEngine {
	return &MemEngine{memCore: m.memCore, Hook: hook, FileMode: m.FileMode}
}

func (m *MemEngine) done(kind, path string, data []byte, err error) {
	if m.Done != nil {
		m.Done(StorageOp{kind, path, len(data)}, data, err)
	}
}

func (m *MemEngine) Clone() *MemEngine {
	m.mu.Lock()
	defer m.mu.Unlock()
	c := NewMemEngine()
	c.FileMode = m.FileMode
	for k, v := range m.files {
		c.files[k] = bytes.Clone(v)
	}
	return c
}

func (m *MemEngine) Snapshot() map[string][]byte {
	m.mu.Lock()
	defer m.mu.Unlock()
	out := map[string][]byte{}
	for k, v := range m.files {
		out[k] = bytes.Clone(v)
	}
	return out
}

func (m *MemEngine) Paths() []string {
	m.mu.Lock()
	defer m.mu.Unlock()
	var out []string
	for k := range m.files {
		out = append(out, k)
	}
	sort.Strings(out)
	return out
}

func (m *MemEngine) SetFile(path string, b []byte) {
	m.mu.Lock()
	defer m.mu.Unlock()
	m.files[path] = bytes.Clone(b)
}

func (m *MemEngine) RemoveFile(path string) {
	m.mu.Lock()
	defer m.mu.Unlock()
	delete(m.files, path)
}

func (m *MemEngine) hook(kind, path string, n int) error {
	op := StorageOp{kind, path, n}
	if m.TraceOn {
		m.mu.Lock()
		m.Trace = append(m.Trace, op)
		m.mu.Unlock()
	}
	if m.Hook != nil {
		return m.Hook(op)
	}
	return nil
}

func skey(u *storage.URI) string { return u.Path }

func notExist(u *storage.URI) error { return fmt.Errorf("%s: %w", u, fs.ErrNotExist) }

type memReader struct {
	*bytes.Reader
	n int64
}

func (r *memReader) Close() error         { return nil }
func (r *memReader) Size() (int64, error) { return r.n, nil }

func (m *MemEngine) Get(ctx context.Context, u *storage.URI) (storage.Reader, error) {
	if err := m.hook("get", skey(u), 0); err != nil {
		return nil, err
	}
	m.mu.Lock()
	defer m.mu.Unlock()
	b, ok := m.files[skey(u)]
	if !ok {
		m.done("get", skey(u), nil, fs.ErrNotExist)
		return nil, notExist(u)
	}
	b = bytes.Clone(b)
	m.done("get", skey(u), b, nil)
	return &memReader{bytes.NewReader(b), int64(len(b))}, nil
}

type memWriter struct {
	m      *MemEngine
	path   string
	buf    []byte
	closed bool
}

func (w *memWriter) Write(b []byte) (int, error) {
	if err := w.m.hook("write", w.path, len(b)); err != nil {
		return 0, err
	}
	w.buf = append(w.buf, b...)
	if w.m.FileMode {
		w.m.mu.Lock()
		w.m.files[w.path] = bytes.Clone(w.buf)
		w.m.mu.Unlock()
	}
	return len(b), nil
}

func (w *memWriter) Close() error {
	if w.closed {
		return nil
	}
	w.closed = true
	if err := w.m.hook("close", w.path, len(w.buf)); err != nil {
		return err
	}
	w.m.mu.Lock()
	w.m.files[w.path] = bytes.Clone(w.buf)
	w.m.mu.Unlock()
	w.m.done("close", w.path, w.buf, nil)
	return nil
}

func (m *MemEngine) Put(ctx context.Context, u *storage.URI) (io.WriteCloser, error) {
	if err := m.hook("put", skey(u), 0); err != nil {
		return nil, err
	}
	if m.FileMode {
		m.mu.Lock()
		m.files[skey(u)] = nil
		m.mu.Unlock()
	}
	return &memWriter{m: m, path: skey(u)}, nil
}

func (m *MemEngine) PutIfNotExists(ctx context.Context, u *storage.URI, b []byte) error {
	if err := m.hook("putx", skey(u), len(b)); err != nil {
		return err
	}
	m.mu.Lock()
	if _, ok := m.files[skey(u)]; ok {
		m.mu.Unlock()
		m.done("putx", skey(u), b, fs.ErrExist)
		return &fs.PathError{Op: "open", Path: skey(u), Err: fs.ErrExist}
	}
	if m.FileMode {
		m.files[skey(u)] = nil
		m.mu.Unlock()
		if err := m.hook("write", skey(u), len(b)); err != nil {
			return err
		}
		m.mu.Lock()
	}
	m.files[skey(u)] = bytes.Clone(b)
	m.mu.Unlock()
	m.done("putx", skey(u), b, nil)
	return nil
}

func (m *MemEngine) Delete(ctx context.Context, u *storage.URI) error {
	if err := m.hook("delete", skey(u), 0); err != nil {
		return err
	}
	m.mu.Lock()
	defer m.mu.Unlock()
	if _, ok := m.files[skey(u)]; !ok {
		return notExist(u)
	}
	delete(m.files, skey(u))
	return nil
}

func (m *MemEngine) DeleteByPrefix(ctx context.Context, u *storage.URI) error {
	if err := m.hook("delprefix", skey(u), 0); err != nil {
		return err
	}
	m.mu.Lock()
	defer m.mu.Unlock()
	p := skey(u)
	for k := range m.files {
		if k == p || strings.HasPrefix(k, strings.TrimSuffix(p, "/")+"/") {
			delete(m.files, k)
		}
	}
	return nil
}

func (m *MemEngine) Exists(ctx context.Context, u *storage.URI) (bool, error) {
	if err := m.hook("exists", skey(u), 0); err != nil {
		return false, err
	}
	m.mu.Lock()
	defer m.mu.Unlock()
	if _, ok := m.files[skey(u)]; ok {
		m.done("exists", skey(u), nil, nil)
		return true, nil
	}
	// directories exist when something lives under them
	pre := strings.TrimSuffix(skey(u), "/") + "/"
	for k := range m.files {
		if strings.HasPrefix(k, pre) {
			return true, nil
		}
	}
	m.done("exists", skey(u), nil, fs.ErrNotExist)
	return false, nil
}

func (m *MemEngine) Size(ctx context.Context, u *storage.URI) (int64, error) {
	if err := m.hook("size", skey(u), 0); err != nil {
		return 0, err
	}
	m.mu.Lock()
	defer m.mu.Unlock()
	b, ok := m.files[skey(u)]
	if !ok {
		return 0, notExist(u)
	}
	return int64(len(b)), nil
}

func (m *MemEngine) List(ctx context.Context, u *storage.URI) ([]storage.Info, error) {
	if err := m.hook("list", skey(u), 0); err != nil {
		return nil, err
	}
	m.mu.Lock()
	defer m.mu.Unlock()
	pre := strings.TrimSuffix(skey(u), "/") + "/"
	seen := map[string]int64{}
	found := false
	for k, v := range m.files {
		if !strings.HasPrefix(k, pre) {
			continue
		}
		found = true
		rest := k[len(pre):]
		if i := strings.IndexByte(rest, '/'); i >= 0 {
			seen[rest[:i]] = 0
		} else {
			seen[rest] = int64(len(v))
		}
	}
	if !found {
		return nil, notExist(u)
	}
	var names []string
	for n := range seen {
		names = append(names, n)
	}
	sort.Strings(names)
	out := make([]storage.Info, len(names))
	for i, n := range names {
		out[i] = storage.Info{Name: n, Size: seen[n]}
	}
	return out, nil
}
