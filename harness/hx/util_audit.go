package hx

import (
	"context"
	"fmt"
)

// AuditReadable opens a fresh handle (cold caches) on eng and checks that
// everything the lake lists is readable: every listed pool opens, every branch
// it lists opens and can be scanned, and the lake-wide meta queries work.
// It returns one line per problem.
func AuditReadable(eng *MemEngine) (problems []string) {
	ctx := context.Background()
	err := Safely(func() error {
		env, err := OpenLakeEnv(eng)
		if err != nil {
			problems = append(problems, "lake cannot be opened: "+err.Error())
			return nil
		}
		pools, err := env.Root.ListPools(ctx)
		if err != nil {
			problems = append(problems, "pools cannot be listed: "+err.Error())
			return nil
		}
		for _, pc := range pools {
			pool, err := env.Root.OpenPool(ctx, pc.ID)
			if err != nil {
				problems = append(problems, fmt.Sprintf("pool %q is listed but cannot be opened: %v", pc.Name, err))
				continue
			}
			bs, err := pool.ListBranches(ctx)
			if err != nil {
				problems = append(problems, fmt.Sprintf("branches of listed pool %q cannot be listed: %v", pc.Name, err))
				continue
			}
			hasMain := false
			for _, bc := range bs {
				if bc.Name == "main" {
					hasMain = true
				}
				if _, err := pool.OpenBranchByName(ctx, bc.Name); err != nil {
					problems = append(problems, fmt.Sprintf("branch %s@%s is listed but cannot be opened: %v", pc.Name, bc.Name, err))
					continue
				}
				if _, err := env.Query(fmt.Sprintf("from %s@%s | count()", pc.ID, bc.Name), 1); err != nil {
					problems = append(problems, fmt.Sprintf("branch %s@%s is listed but cannot be read: %v", pc.Name, bc.Name, err))
				}
			}
			if !hasMain {
				problems = append(problems, fmt.Sprintf("listed pool %q has no main branch", pc.Name))
			}
		}
		for _, q := range []string{"from :pools | count()", "from :branches | count()"} {
			if _, err := env.Query(q, 1); err != nil {
				problems = append(problems, fmt.Sprintf("%q fails: %v", q, err))
			}
		}
		return nil
	})
	if err != nil {
		problems = append(problems, "audit panicked: "+err.Error())
	}
	return problems
}
