package hx

import (
	"fmt"
	"sort"
	"strings"

	"github.com/brimdata/super/zson"
	"github.com/segmentio/ksuid"
)

// Recording of merges and reverts in the vocabulary of coq/Model/MergeCases.v.

type MergeRec struct {
	ObjIdx      map[ksuid.KSUID]int
	Acts        map[ksuid.KSUID][]string // commit id -> Coq actions (data objects only)
	MergeCases  []string
	RevertCases []string
	Parent      map[ksuid.KSUID]ksuid.KSUID
	CommitIdx   map[ksuid.KSUID]int
}

func NewMergeRec() *MergeRec {
	return &MergeRec{ObjIdx: map[ksuid.KSUID]int{}, Acts: map[ksuid.KSUID][]string{},
		Parent: map[ksuid.KSUID]ksuid.KSUID{}, CommitIdx: map[ksuid.KSUID]int{}}
}

func (m *MergeRec) idx(id ksuid.KSUID) int {
	if i, ok := m.ObjIdx[id]; ok {
		return i
	}
	i := len(m.ObjIdx) + 1
	m.ObjIdx[id] = i
	return i
}

// Cidx numbers commits from 1 (0 is the nil commit).
func (m *MergeRec) Cidx(id ksuid.KSUID) int {
	if id == ksuid.Nil {
		return 0
	}
	if i, ok := m.CommitIdx[id]; ok {
		return i
	}
	i := len(m.CommitIdx) + 1
	m.CommitIdx[id] = i
	return i
}

func (m *MergeRec) set(s map[ksuid.KSUID]bool) string {
	var xs []int
	for id, ok := range s {
		if ok {
			xs = append(xs, m.idx(id))
		}
	}
	sort.Ints(xs)
	var ss []string
	for _, x := range xs {
		ss = append(ss, fmt.Sprint(x))
	}
	return "[" + strings.Join(ss, ";") + "]"
}

// commitActs reads the action log of one commit (Add/Delete of data objects, in order).
// CommitActs is the exported form of commitActs.
func (lr *LakeRun) CommitActs(commit ksuid.KSUID) ([]string, error) { return lr.commitActs(commit) }

func (lr *LakeRun) commitActs(commit ksuid.KSUID) ([]string, error) {
	m := lr.Merge
	if a, ok := m.Acts[commit]; ok {
		return a, nil
	}
	vals, err := lr.queryVals(fmt.Sprintf("from %s@%s:rawlog", lr.PoolName, commit))
	if err != nil {
		return nil, err
	}
	fresh := map[ksuid.KSUID][]string{}
	for _, v := range vals {
		tn := zson.FormatType(v.Type())
		if strings.HasPrefix(tn, "commits.Commit=") {
			idv, pv := v.Deref("id"), v.Deref("parent")
			if idv != nil && pv != nil {
				id, err1 := ksuid.FromBytes(idv.Bytes())
				par, err2 := ksuid.FromBytes(pv.Bytes())
				if err1 == nil && err2 == nil {
					m.Parent[id] = par
				}
			}
			continue
		}
		isAdd := strings.HasPrefix(tn, "commits.Add=")
		isDel := strings.HasPrefix(tn, "commits.Delete=")
		if !isAdd && !isDel {
			continue
		}
		cv := v.Deref("commit")
		if cv == nil {
			continue
		}
		cid, err := ksuid.FromBytes(cv.Bytes())
		if err != nil {
			return nil, err
		}
		if _, done := m.Acts[cid]; done {
			continue
		}
		if isAdd {
			ov := v.Deref("object")
			if ov == nil {
				continue
			}
			idv := ov.Deref("id")
			if idv == nil {
				continue
			}
			id, err := ksuid.FromBytes(idv.Bytes())
			if err != nil {
				return nil, err
			}
			fresh[cid] = append(fresh[cid], fmt.Sprintf("AAdd %d", m.idx(id)))
		} else {
			idv := v.Deref("id")
			if idv == nil {
				continue
			}
			id, err := ksuid.FromBytes(idv.Bytes())
			if err != nil {
				return nil, err
			}
			fresh[cid] = append(fresh[cid], fmt.Sprintf("ADel %d", m.idx(id)))
		}
	}
	for cid, a := range fresh {
		m.Acts[cid] = a
	}
	if _, ok := m.Acts[commit]; !ok {
		m.Acts[commit] = nil // a commit without data-object actions (e.g. vectors only)
	}
	return m.Acts[commit], nil
}

// actsSince returns the concatenated actions of the branch's commits after base.
func (lr *LakeRun) actsSince(b *SpecBranch, base *SpecCommit) (string, bool) {
	start := 0
	for i, c := range b.Commits {
		if c.ID == base.ID {
			start = i + 1
		}
	}
	var all []string
	for _, c := range b.Commits[start:] {
		a, err := lr.commitActs(c.ID)
		if err != nil {
			return "", false
		}
		all = append(all, a...)
	}
	return "[" + strings.Join(all, "; ") + "]", true
}
