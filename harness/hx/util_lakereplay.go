package hx

import (
	"encoding/json"
	"fmt"
	"os"
)

// LoadLakeReplay reads a replay file written by bin/check (or a single failing
// input) and returns the pool configuration and full operation list of its
// first failing input that carries one.
func LoadLakeReplay(path string) (PoolCfg, []HOp, error) {
	b, err := os.ReadFile(path)
	if err != nil {
		return PoolCfg{}, nil, err
	}
	var top struct {
		FailingInputs []struct {
			Replay json.RawMessage `json:"replay"`
		} `json:"failing_inputs"`
		Replay json.RawMessage `json:"replay"`
	}
	if err := json.Unmarshal(b, &top); err != nil {
		return PoolCfg{}, nil, err
	}
	cands := []json.RawMessage{top.Replay}
	for _, f := range top.FailingInputs {
		cands = append(cands, f.Replay)
	}
	for _, c := range cands {
		var r struct {
			Cfg *PoolCfg `json:"cfg"`
			Ops []HOp    `json:"ops"`
		}
		if len(c) == 0 || json.Unmarshal(c, &r) != nil || r.Cfg == nil || len(r.Ops) == 0 {
			continue
		}
		return *r.Cfg, r.Ops, nil
	}
	return PoolCfg{}, nil, fmt.Errorf("%s: no failing input with cfg+ops", path)
}
