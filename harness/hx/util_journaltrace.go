package hx

import (
	"fmt"
	"strings"
	"sync"
)

// JournalTrace records, in global order, the storage events clients issue on
// one journal directory, in the vocabulary of coq/Model/JournalCases.v:
// kind 0 = read of HEAD returning n, 1 = PutIfNotExists(entry n) with outcome,
// 2 = HEAD := n, 3 = probe Exists(entry n) with answer.
type JournalTrace struct {
	mu   sync.Mutex
	Dir  string
	Evs  []string
	Len0 int
}

func NewJournalTrace(eng *MemEngine, dir string) *JournalTrace {
	t := &JournalTrace{Dir: dir}
	// the log length at the start: count consecutive entries
	files := eng.Snapshot()
	for n := 1; ; n++ {
		if _, ok := files[fmt.Sprintf("%s/%d.zng", dir, n)]; !ok {
			break
		}
		t.Len0 = n
	}
	return t
}

func (t *JournalTrace) Head0(eng *MemEngine) int {
	h := 0
	fmt.Sscan(string(eng.Snapshot()[t.Dir+"/HEAD"]), &h)
	return h
}

// Recorder returns the Done callback for one client's engine view.
func (t *JournalTrace) Recorder(client int) func(op StorageOp, data []byte, err error) {
	return func(op StorageOp, data []byte, err error) {
		if !strings.HasPrefix(op.Path, t.Dir+"/") {
			return
		}
		name := op.Path[len(t.Dir)+1:]
		t.mu.Lock()
		defer t.mu.Unlock()
		add := func(kind, n int, ok bool) {
			t.Evs = append(t.Evs, fmt.Sprintf("(%d, %d%%N, %d, %v)", client, kind, n, ok))
		}
		var n int
		switch {
		case name == "HEAD" && op.Kind == "get" && err == nil:
			if _, e := fmt.Sscan(string(data), &n); e == nil {
				add(0, n, true)
			}
		case name == "HEAD" && op.Kind == "close":
			if _, e := fmt.Sscan(string(data), &n); e == nil {
				add(2, n, true)
			}
		case strings.HasSuffix(name, ".zng") && name != "snap.zng" && op.Kind == "exists":
			if _, e := fmt.Sscanf(name, "%d.zng", &n); e == nil {
				add(3, n, err == nil)
			}
		case strings.HasSuffix(name, ".zng") && name != "snap.zng" && op.Kind == "putx":
			if _, e := fmt.Sscanf(name, "%d.zng", &n); e == nil {
				add(1, n, err == nil)
			}
		}
	}
}

// Case renders (len0, head0, events) as a trace_case literal.
func (t *JournalTrace) Case(head0 int) string {
	t.mu.Lock()
	defer t.mu.Unlock()
	return fmt.Sprintf("(%d, %d, [%s])", t.Len0, head0, strings.Join(t.Evs, "; "))
}
