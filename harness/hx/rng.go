package hx

// splitmix64: every random choice of the harness derives from one state.
type Rng struct{ s uint64 }

// NewRng scrambles the seed so that neighbouring seeds give unrelated streams.
func NewRng(seed uint64) *Rng {
	z := seed + 0x9E3779B97F4A7C15
	z = (z ^ (z >> 30)) * 0xBF58476D1CE4E5B9
	z = (z ^ (z >> 27)) * 0x94D049BB133111EB
	z ^= z >> 31
	return &Rng{s: z ^ 0x1234567}
}

func (r *Rng) Next() uint64 {
	r.s += 0x9E3779B97F4A7C15
	z := r.s
	z = (z ^ (z >> 30)) * 0xBF58476D1CE4E5B9
	z = (z ^ (z >> 27)) * 0x94D049BB133111EB
	return z ^ (z >> 31)
}

func (r *Rng) Intn(n int) int {
	if n <= 0 {
		return 0
	}
	return int(r.Next() % uint64(n))
}

func (r *Rng) Bool() bool { return r.Next()&1 == 1 }

// Chance returns true with probability num/den.
func (r *Rng) Chance(num, den int) bool { return r.Intn(den) < num }

func Pick[T any](r *Rng, xs []T) T { return xs[r.Intn(len(xs))] }

func Shuffle[T any](r *Rng, xs []T) {
	for i := len(xs) - 1; i > 0; i-- {
		j := r.Intn(i + 1)
		xs[i], xs[j] = xs[j], xs[i]
	}
}
