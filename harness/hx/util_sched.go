package hx

import (
	"sync"
)

// Sched is a token-passing scheduler over storage operations: exactly one
// client runs at a time; at each storage operation of the running client the
// schedule (a seeded PRNG with a preemption budget) may hand the token to
// another client.  Interleavings are therefore controlled at storage-operation
// granularity and are a deterministic function of the seed (up to the order in
// which one client's own goroutines reach the storage layer).
type Sched struct {
	mu       sync.Mutex
	cond     *sync.Cond
	cur      int
	active   map[int]bool
	rng      *Rng
	Budget   int
	Num, Den int // preemption probability at each storage operation
	Trace    []int
	// Hot marks storage operations at which a preemption is especially
	// interesting (e.g. between reading a journal HEAD and writing the next
	// entry); there the switch probability is 2/3.
	Hot func(op StorageOp) bool
	// ForceAt > 0: systematic single-preemption exploration -- client 0 is
	// preempted exactly once, right before its ForceAt-th storage operation, and
	// the other clients run to completion before it resumes; no random switches.
	ForceAt int
	count0  int
	started bool
}

func NewSched(rng *Rng, nclients, budget int) *Sched {
	s := &Sched{cur: -1, active: map[int]bool{}, rng: rng, Budget: budget, Num: 1, Den: 3}
	s.cond = sync.NewCond(&s.mu)
	for i := 0; i < nclients; i++ {
		s.active[i] = true
	}
	return s
}

func (s *Sched) pickOther(not int) int {
	var cands []int
	for i := 0; i < len(s.active)+8; i++ {
		if s.active[i] && i != not {
			cands = append(cands, i)
		}
	}
	if len(cands) == 0 {
		return -1
	}
	return cands[s.rng.Intn(len(cands))]
}

// Start hands the token to the first client.
func (s *Sched) Start(first int) {
	s.mu.Lock()
	s.cur = first
	s.started = true
	s.cond.Broadcast()
	s.mu.Unlock()
}

// HookFor returns the storage hook of one client.
func (s *Sched) HookFor(client int) func(StorageOp) error {
	return func(op StorageOp) error {
		s.mu.Lock()
		defer s.mu.Unlock()
		for s.cur != client {
			s.cond.Wait()
		}
		s.Trace = append(s.Trace, client)
		if s.ForceAt > 0 {
			if client == 0 {
				s.count0++
				if s.count0 == s.ForceAt {
					if o := s.pickOther(client); o >= 0 {
						s.cur = o
						s.cond.Broadcast()
						for s.cur != client {
							s.cond.Wait()
						}
					}
				}
			}
			return nil
		}
		num, den := s.Num, s.Den
		if s.Hot != nil && s.Hot(op) {
			num, den = 2, 3
		}
		if s.Budget > 0 && s.rng.Chance(num, den) {
			if o := s.pickOther(client); o >= 0 {
				s.Budget--
				s.cur = o
				s.cond.Broadcast()
				for s.cur != client {
					s.cond.Wait()
				}
			}
		}
		return nil
	}
}

// Finish is called when a client has no more operations.
func (s *Sched) Finish(client int) {
	s.mu.Lock()
	defer s.mu.Unlock()
	s.active[client] = false
	if s.cur == client || s.cur == -1 {
		s.cur = s.pickOther(client)
		s.cond.Broadcast()
	}
}

// Yield hands the token on between two operations of a client (a preemption
// point that is not a storage operation).
func (s *Sched) Yield(client int) {
	s.mu.Lock()
	defer s.mu.Unlock()
	for s.cur != client {
		s.cond.Wait()
	}
	if o := s.pickOther(client); o >= 0 && s.rng.Chance(1, 2) {
		s.cur = o
		s.cond.Broadcast()
		for s.cur != client {
			s.cond.Wait()
		}
	}
}
