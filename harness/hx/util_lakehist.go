package hx

import (
	"bytes"
	"context"
	"fmt"
	"sort"
	"strings"

	zed "github.com/brimdata/super"
	"github.com/brimdata/super/api"
	"github.com/brimdata/super/compiler"
	lakeapi "github.com/brimdata/super/lake/api"
	"github.com/brimdata/super/lakeparse"
	"github.com/brimdata/super/runtime"
	"github.com/brimdata/super/zbuf"
	"github.com/brimdata/super/zio/zngio"
	"github.com/brimdata/super/zio/zsonio"
	"github.com/brimdata/super/zson"
	"github.com/segmentio/ksuid"
)

// ---------------------------------------------------------------------------
// Lake histories: a generator of operation sequences, an executor that drives
// any lakeapi.Interface (local or remote), and a specification (object-set /
// multiset level) that predicts what every branch and every commit must hold.
// Used by C12 C13 C14 C15 C17 C19.

// K is the modelled key domain (shared with coq/Model/Pruner.v).
type K struct {
	Kind string // int str null missing
	I    int64
	S    string
}

func (k K) Zson() string {
	switch k.Kind {
	case "int":
		return fmt.Sprint(k.I)
	case "str":
		return fmt.Sprintf("%q", k.S)
	case "null":
		return "null"
	}
	return ""
}

func (k K) Coq() string {
	switch k.Kind {
	case "int":
		return fmt.Sprintf("(KInt (%d))", k.I)
	case "str":
		return fmt.Sprintf("(KStr (hex \"%x\"))", k.S)
	case "null":
		return "KNull"
	}
	return "KMissing"
}

// CmpK is the lake order with nulls (and missing) largest: ints < strings < null.
func CmpK(a, b K) int {
	rank := func(k K) int {
		switch k.Kind {
		case "int":
			return 0
		case "str":
			return 1
		}
		return 2
	}
	ra, rb := rank(a), rank(b)
	if ra != rb {
		if ra < rb {
			return -1
		}
		return 1
	}
	switch ra {
	case 0:
		if a.I < b.I {
			return -1
		} else if a.I > b.I {
			return 1
		}
	case 1:
		return strings.Compare(a.S, b.S)
	}
	return 0
}

type PoolCfg struct {
	Key    string // "k", "a.k" or "this"
	Desc   bool
	Stride int
	Thresh int64
}

func (c PoolCfg) String() string {
	return fmt.Sprintf("key=%s desc=%v stride=%d thresh=%d", c.Key, c.Desc, c.Stride, c.Thresh)
}

// LVal is one generated value: canonical ZSON text and its pool key.
type LVal struct {
	Z   string
	Key K
}

// KeyWindow, when non-nil, makes GenKey draw integer keys from [Lo, Lo+W]:
// loads with narrow, sliding windows give objects whose key ranges overlap in
// chains (A overlaps B, B overlaps C, A does not overlap C).
type KeyWindow struct{ Lo, W int64 }

var CurWindow *KeyWindow

func GenKey(r *Rng) K {
	if CurWindow != nil && !r.Chance(1, 10) {
		return K{Kind: "int", I: CurWindow.Lo + int64(r.Intn(int(CurWindow.W)+1))}
	}
	switch r.Intn(12) {
	case 0:
		return K{Kind: "null"}
	case 1:
		return K{Kind: "missing"}
	case 2, 3:
		return K{Kind: "str", S: Pick(r, []string{"a", "b", "c", "", "ab", "zz"})}
	}
	return K{Kind: "int", I: int64(r.Intn(12)) - 2}
}

// GenLVal builds a value with a unique id for the given pool key layout.
func GenLVal(r *Rng, cfg PoolCfg, id int) LVal {
	k := GenKey(r)
	j := r.Intn(3)
	switch cfg.Key {
	case "this":
		// non-record values ordered by themselves; ids cannot be attached, so
		// uniqueness comes from a (value, id) pair inside a record only when k is missing.
		if k.Kind == "missing" {
			k = K{Kind: "int", I: int64(1000 + id)}
		}
		return LVal{Z: k.Zson(), Key: k}
	case "a.k":
		var f []string
		if k.Kind != "missing" {
			f = append(f, "a:{k:"+k.Zson()+"}")
		} else if r.Bool() {
			f = append(f, "a:{x:1}")
		}
		f = append(f, fmt.Sprintf("j:%d", j), fmt.Sprintf("id:%d", id))
		return LVal{Z: "{" + strings.Join(f, ",") + "}", Key: k}
	}
	var f []string
	if k.Kind != "missing" {
		f = append(f, "k:"+k.Zson())
	}
	f = append(f, fmt.Sprintf("j:%d", j), fmt.Sprintf("id:%d", id))
	return LVal{Z: "{" + strings.Join(f, ",") + "}", Key: k}
}

type HOp struct {
	Kind    string   `json:"kind"` // load delete deletewhere compact vecadd vecdel vacuum branch merge revert
	Branch  string   `json:"branch"`
	Vals    []string `json:"vals,omitempty"`
	Picks   []int    `json:"picks,omitempty"`
	Pred    string   `json:"pred,omitempty"`
	Vectors bool     `json:"vectors,omitempty"`
	Other   string   `json:"other,omitempty"`  // new branch name (branch) or child branch (merge)
	Commit  int      `json:"commit,omitempty"` // index into the branch's commit list (branch-from / revert)
	Dup     bool     `json:"dup,omitempty"`    // delete: repeat the first id in the request
}

func (o HOp) String() string {
	switch o.Kind {
	case "load":
		return fmt.Sprintf("load@%s(%d vals)", o.Branch, len(o.Vals))
	case "delete", "compact", "vecadd", "vecdel":
		return fmt.Sprintf("%s@%s%v", o.Kind, o.Branch, o.Picks)
	case "deletewhere":
		return fmt.Sprintf("deletewhere@%s(%s)", o.Branch, o.Pred)
	case "branch":
		return fmt.Sprintf("branch %s from %s#%d", o.Other, o.Branch, o.Commit)
	case "merge":
		return fmt.Sprintf("merge %s->%s", o.Other, o.Branch)
	case "revert":
		return fmt.Sprintf("revert@%s#%d", o.Branch, o.Commit)
	}
	return o.Kind + "@" + o.Branch
}

var delPreds = []string{"k > 3", "k <= 2", "k == 5", "k == null", "j == 1", "k >= \"b\"", "k < 0 or j == 2", "id % 2 == 0", "k > 100", "not (k > 4)", "2 <= k", "k != 3"}

type HistOpts struct {
	Len      int
	Branches bool // allow branch / merge / revert
	Vectors  bool // allow vector add/del and compaction with vectors
	Vacuum   bool
	Windows  bool // loads draw keys from narrow sliding windows (chains of overlapping objects)
}

// GenHistory draws a history; ids of values are unique across the history.
func GenHistory(r *Rng, cfg PoolCfg, o HistOpts) ([]HOp, map[string]LVal) {
	var ops []HOp
	vals := map[string]LVal{}
	nextID := 0
	branches := []string{"main"}
	ncommits := map[string]int{"main": 0}
	for len(ops) < o.Len {
		b := Pick(r, branches)
		c := r.Intn(100)
		switch {
		case c < 34 || len(ops) == 0:
			n := 1 + r.Intn(8)
			var zs []string
			if o.Windows {
				// a sliding window: overlaps the previous load's window partly
				CurWindow = &KeyWindow{Lo: int64(20*len(ops)%97) - int64(r.Intn(15)), W: int64(10 + r.Intn(25))}
				if r.Bool() {
					CurWindow.Lo = 100 - CurWindow.Lo
				}
			}
			for i := 0; i < n; i++ {
				v := GenLVal(r, cfg, nextID)
				nextID++
				zs = append(zs, v.Z)
			}
			CurWindow = nil
			ops = append(ops, HOp{Kind: "load", Branch: b, Vals: zs})
			ncommits[b]++
		case c < 46:
			n := 1 + r.Intn(2)
			var picks []int
			for i := 0; i < n; i++ {
				picks = append(picks, r.Intn(6))
			}
			// sometimes name the same object twice in one request
			ops = append(ops, HOp{Kind: "delete", Branch: b, Picks: picks, Dup: r.Chance(1, 6)})
			ncommits[b]++
		case c < 58 && cfg.Key != "this":
			p := Pick(r, delPreds)
			if cfg.Key == "a.k" {
				p = strings.ReplaceAll(p, "k ", "a.k ")
				p = strings.ReplaceAll(p, " k", " a.k")
				p = strings.ReplaceAll(p, "(k", "(a.k")
			}
			ops = append(ops, HOp{Kind: "deletewhere", Branch: b, Pred: p})
			ncommits[b]++
		case c < 68:
			n := 2 + r.Intn(4)
			var picks []int
			for i := 0; i < n; i++ {
				picks = append(picks, r.Intn(8))
			}
			ops = append(ops, HOp{Kind: "compact", Branch: b, Picks: picks, Vectors: o.Vectors && r.Bool()})
			ncommits[b]++
		case c < 74 && o.Vectors:
			ops = append(ops, HOp{Kind: Pick(r, []string{"vecadd", "vecadd", "vecdel"}), Branch: b, Picks: []int{r.Intn(6), r.Intn(6)}})
			ncommits[b]++
		case c < 78 && o.Vacuum:
			ops = append(ops, HOp{Kind: "vacuum", Branch: b})
		case c < 86 && o.Branches && len(branches) < 4:
			name := fmt.Sprintf("b%d", len(branches))
			ops = append(ops, HOp{Kind: "branch", Branch: b, Other: name, Commit: r.Intn(ncommits[b] + 1)})
			branches = append(branches, name)
			ncommits[name] = ncommits[b]
		case c < 94 && o.Branches && len(branches) > 1:
			child := Pick(r, branches)
			if child == b {
				continue
			}
			ops = append(ops, HOp{Kind: "merge", Branch: b, Other: child})
			ncommits[b]++
		case c < 100 && o.Branches && ncommits[b] > 0:
			ops = append(ops, HOp{Kind: "revert", Branch: b, Commit: r.Intn(ncommits[b])})
			ncommits[b]++
		}
	}
	_ = vals
	return ops, vals
}

// ---------------------------------------------------------------------------
// Executor + specification

type ObjInfo struct {
	ID       ksuid.KSUID
	Min, Max string
	Count    uint64
	Size     int64
}

type SpecCommit struct {
	ID   ksuid.KSUID
	Objs map[ksuid.KSUID]bool // object set at this commit
	Vecs map[ksuid.KSUID]bool
	// first observed query result at this commit (for immutability checks)
	Seen    []string
	HasSeen bool
}

type SpecBranch struct {
	Name    string
	Commits []*SpecCommit // in order of creation on this branch (inherited prefix included)
}

func (b *SpecBranch) Tip() *SpecCommit {
	if len(b.Commits) == 0 {
		return &SpecCommit{Objs: map[ksuid.KSUID]bool{}, Vecs: map[ksuid.KSUID]bool{}}
	}
	return b.Commits[len(b.Commits)-1]
}

type LakeRun struct {
	API      lakeapi.Interface
	Env      *LakeEnv // storage access for reading objects (shared storage even when API is remote)
	Cfg      PoolCfg
	PoolName string
	PoolID   ksuid.KSUID
	Branches map[string]*SpecBranch
	Contents map[ksuid.KSUID][]string // object id -> canonical values (read once; objects are immutable)
	Deleted  map[ksuid.KSUID]bool     // objects whose files were vacuumed
	KeyOf    map[string]K             // canonical value text -> key
	Res      *Result
	Tag      string // prefix for failure signatures, e.g. "C14"
	Log      []string
	Ops      []HOp // every operation applied so far, in full (the self-contained replay)
	Remote   bool
	// ReadObjBytes, when set, fetches the row file of a data object (used when the
	// lake lives on a real file system instead of the in-memory engine)
	ReadObjBytes func(id ksuid.KSUID) ([]byte, bool)
	Merge        *MergeRec // when non-nil, merges and reverts are recorded for coq/Model/MergeCases.v
	Coq          *CoqHist  // when non-nil, the history is also recorded for the Coq correspondence
}

func cloneSet(m map[ksuid.KSUID]bool) map[ksuid.KSUID]bool {
	o := map[ksuid.KSUID]bool{}
	for k, v := range m {
		if v {
			o[k] = true
		}
	}
	return o
}

func NewLakeRun(apiIf lakeapi.Interface, env *LakeEnv, cfg PoolCfg, res *Result, tag string) (*LakeRun, error) {
	lr := &LakeRun{API: apiIf, Env: env, Cfg: cfg, PoolName: "p", Res: res, Tag: tag,
		Branches: map[string]*SpecBranch{"main": {Name: "main"}},
		Contents: map[ksuid.KSUID][]string{}, Deleted: map[ksuid.KSUID]bool{}, KeyOf: map[string]K{}}
	id, err := apiIf.CreatePool(context.Background(), "p", SortKeys(cfg.Key, cfg.Desc), cfg.Stride, cfg.Thresh)
	if err != nil {
		return nil, err
	}
	lr.PoolID = id
	return lr, nil
}

// QueryZ runs a query through the API and returns the values as canonical ZSON.
func (lr *LakeRun) QueryZ(src string) (out []string, err error) {
	err = Safely(func() error {
		q, err := lr.API.Query(context.Background(), nil, src)
		if err != nil {
			return err
		}
		defer q.Pull(true)
		out, err = Drain(q)
		return err
	})
	return out, err
}

func (lr *LakeRun) queryVals(src string) (vals []zed.Value, err error) {
	err = Safely(func() error {
		q, err := lr.API.Query(context.Background(), nil, src)
		if err != nil {
			return err
		}
		defer q.Pull(true)
		for {
			b, err := q.Pull(false)
			if err != nil {
				return err
			}
			if b == nil {
				return nil
			}
			for _, v := range b.Values() {
				vals = append(vals, v.Copy())
			}
			b.Unref()
		}
	})
	return vals, err
}

func (lr *LakeRun) Objects(rev string) ([]ObjInfo, error) {
	vals, err := lr.queryVals(fmt.Sprintf("from %s@%s:objects", lr.PoolName, rev))
	if err != nil {
		return nil, err
	}
	var out []ObjInfo
	for _, v := range vals {
		idv := v.Deref("id")
		if idv == nil {
			return nil, fmt.Errorf("objects meta without id: %s", zson.FormatValue(v))
		}
		id, err := ksuid.FromBytes(idv.Bytes())
		if err != nil {
			return nil, err
		}
		oi := ObjInfo{ID: id}
		oi.Min, oi.Max = "null", "null" // Deref yields nil for a null field
		if m := v.Deref("min"); m != nil {
			oi.Min = zson.FormatValue(*m)
		}
		if m := v.Deref("max"); m != nil {
			oi.Max = zson.FormatValue(*m)
		}
		if c := v.Deref("count"); c != nil {
			oi.Count = c.Uint()
		}
		if c := v.Deref("size"); c != nil {
			oi.Size = c.Int()
		}
		out = append(out, oi)
	}
	return out, nil
}

func (lr *LakeRun) Vectors(rev string) (map[ksuid.KSUID]bool, error) {
	vals, err := lr.queryVals(fmt.Sprintf("from %s@%s:vectors", lr.PoolName, rev))
	if err != nil {
		return nil, err
	}
	out := map[ksuid.KSUID]bool{}
	for _, v := range vals {
		idv := v.Deref("id")
		if idv == nil {
			continue
		}
		id, err := ksuid.FromBytes(idv.Bytes())
		if err != nil {
			return nil, err
		}
		out[id] = true
	}
	return out, nil
}

// ReadObject reads the row file of a data object straight from storage.
func (lr *LakeRun) ReadObject(id ksuid.KSUID) ([]string, error) {
	if c, ok := lr.Contents[id]; ok {
		return c, nil
	}
	var b []byte
	var ok bool
	path := fmt.Sprintf("%s/data/%s.zng", lr.PoolID, id)
	if lr.ReadObjBytes != nil {
		b, ok = lr.ReadObjBytes(id)
	} else {
		path = fmt.Sprintf("%s/%s/data/%s.zng", lr.Env.URI.Path, lr.PoolID, id)
		b, ok = lr.Env.Eng.Snapshot()[path]
	}
	if !ok {
		return nil, fmt.Errorf("object file %s does not exist", path)
	}
	zr := zngio.NewReader(zed.NewContext(), bytes.NewReader(b))
	defer zr.Close()
	var out []string
	for {
		v, err := zr.Read()
		if err != nil {
			return nil, err
		}
		if v == nil {
			break
		}
		out = append(out, zson.FormatValue(*v))
	}
	lr.Contents[id] = out
	return out, nil
}

func (lr *LakeRun) fail(sig, detail string, replay any, expected, observed string) {
	lr.Res.Fail(Failure{Kind: "oracle", Sig: sig, Detail: detail, Replay: replay, Expected: expected, Observed: observed})
}

func (lr *LakeRun) replay(extra map[string]any) map[string]any {
	m := map[string]any{"pool": lr.Cfg.String(), "cfg": lr.Cfg, "ops": append([]HOp(nil), lr.Ops...), "history": lr.Log, "remote": lr.Remote}
	for k, v := range extra {
		m[k] = v
	}
	return m
}

// keyFromText recovers the pool key of a canonical value text (values are self-describing).
func (lr *LakeRun) keyOf(z string) (K, bool) {
	k, ok := lr.KeyOf[z]
	return k, ok
}

func msgOf(s string) api.CommitMessage { return api.CommitMessage{Author: "zvh", Body: s} }

// Apply executes one operation and updates the specification.  It returns
// (applied, err): applied=false means the op was a no-op for this state
// (e.g. nothing to pick); err is an API error (recorded in the log; whether
// it is legitimate is decided by the caller-visible oracles).
func (lr *LakeRun) Apply(op HOp) (err error) {
	lr.Ops = append(lr.Ops, op)
	if lr.Coq == nil || op.Branch != "main" {
		return lr.apply(op, nil)
	}
	var hop string
	err = lr.apply(op, &hop)
	if hop != "" {
		lr.Coq.Steps = append(lr.Coq.Steps, fmt.Sprintf("(%s, %s)", hop, lr.Coq.objList(lr.observedObjects("main"))))
		lr.coqMeta("main")
	}
	return err
}

func (lr *LakeRun) apply(op HOp, hop *string) (err error) {
	setHop := func(s string) {
		if hop != nil {
			*hop = s
		}
	}
	ctx := context.Background()
	b := lr.Branches[op.Branch]
	if b == nil {
		return fmt.Errorf("unknown branch %s", op.Branch)
	}
	tip := b.Tip()
	pickIDs := func() []ksuid.KSUID {
		objs, _ := lr.Objects(op.Branch)
		if len(objs) == 0 {
			return nil
		}
		// a lake-independent order: by contents (object ids and their order among
		// equal key ranges differ from lake to lake)
		keyOf := map[ksuid.KSUID]string{}
		for _, o := range objs {
			vals, _ := lr.ReadObject(o.ID)
			keyOf[o.ID] = strings.Join(vals, "|")
		}
		sort.SliceStable(objs, func(i, j int) bool { return keyOf[objs[i].ID] < keyOf[objs[j].ID] })
		var ids []ksuid.KSUID
		seen := map[ksuid.KSUID]bool{}
		for _, p := range op.Picks {
			id := objs[p%len(objs)].ID
			if !seen[id] {
				seen[id] = true
				ids = append(ids, id)
			}
		}
		return ids
	}
	var commit ksuid.KSUID
	want := &SpecCommit{Objs: cloneSet(tip.Objs), Vecs: cloneSet(tip.Vecs)}
	contentCheck := "" // "same" => multiset of values must be unchanged by the op
	var wantVals []string
	desc := op.String()
	switch op.Kind {
	case "load":
		if lr.Coq != nil {
			setHop("HLoad " + lr.Coq.idxList(lr.coqRegister(op.Vals)))
		}
		zctx := zed.NewContext()
		rd := zsonio.NewReader(zctx, strings.NewReader(strings.Join(op.Vals, "\n")))
		commit, err = lr.API.Load(ctx, zctx, lr.PoolID, op.Branch, rd, msgOf("load"))
		if err == nil {
			canon := CanonAll(op.Vals)
			for i, z := range canon {
				lr.KeyOf[z] = keyOfZ(lr.Cfg, op.Vals[i])
			}
			wantVals = append(lr.branchVals(tip), canon...)
			contentCheck = "vals"
		}
	case "delete":
		ids := pickIDs()
		if len(ids) == 0 {
			return nil
		}
		req := ids
		if op.Dup {
			req = append(append([]ksuid.KSUID{}, ids...), ids[0])
		}
		desc = fmt.Sprintf("delete@%s%v", op.Branch, req)
		if lr.Coq != nil {
			setHop("HDelete " + lr.Coq.objList(lr.contentsOf(req)))
		}
		commit, err = lr.API.Delete(ctx, lr.PoolID, op.Branch, req, msgOf("delete"))
		if err == nil {
			for _, id := range ids {
				delete(want.Objs, id)
				delete(want.Vecs, id)
			}
			contentCheck = "objs"
		}
	case "deletewhere":
		if lr.Coq != nil {
			cur := lr.branchVals(tip)
			del, qerr := RunQuery("where "+op.Pred, strings.Join(cur, "\n"))
			if qerr == nil {
				setHop("HDeleteWhere " + lr.Coq.idxList(del))
			}
		}
		commit, err = lr.API.DeleteWhere(ctx, lr.PoolID, op.Branch, op.Pred, msgOf("deletewhere"))
		if err == nil {
			cur := lr.branchVals(tip)
			del, qerr := RunQuery("where "+op.Pred, strings.Join(cur, "\n"))
			if qerr != nil {
				return qerr
			}
			wantVals = MultisetMinus(cur, del)
			contentCheck = "vals"
		}
	case "compact":
		ids := pickIDs()
		if len(ids) == 0 {
			return nil
		}
		desc = fmt.Sprintf("compact@%s%v vectors=%v", op.Branch, ids, op.Vectors)
		if lr.Coq != nil {
			setHop("HCompact " + lr.Coq.objList(lr.contentsOf(ids)))
		}
		commit, err = lr.API.Compact(ctx, lr.PoolID, op.Branch, ids, op.Vectors, msgOf("compact"))
		if err == nil {
			wantVals = lr.branchVals(tip)
			contentCheck = "vals"
		}
	case "vecadd", "vecdel":
		ids := pickIDs()
		if len(ids) == 0 {
			return nil
		}
		desc = fmt.Sprintf("%s@%s%v", op.Kind, op.Branch, ids)
		setHop("HNop")
		if op.Kind == "vecadd" {
			commit, err = lr.API.AddVectors(ctx, lr.PoolName, op.Branch, ids, msgOf("vecadd"))
		} else {
			commit, err = lr.API.DeleteVectors(ctx, lr.PoolName, op.Branch, ids, msgOf("vecdel"))
		}
		if err == nil {
			contentCheck = "objs"
		}
	case "vacuum":
		setHop("HNop")
		var gone []ksuid.KSUID
		gone, err = lr.API.Vacuum(ctx, lr.PoolName, op.Branch, false)
		if err == nil {
			for _, id := range gone {
				lr.Deleted[id] = true
				for bn, ob := range lr.Branches {
					if ob.Tip().Objs[id] {
						lr.fail(lr.Tag+":vacuum-removed-live-object", fmt.Sprintf("vacuum of %s removed object %s which the tip of branch %s still references", op.Branch, id, bn), lr.replay(nil), "only objects no branch tip references are vacuumed", id.String())
					}
				}
			}
		}
		lr.Log = append(lr.Log, fmt.Sprintf("%s -> vacuumed %d err=%v", desc, len(gone), err))
		return err
	case "branch":
		at := ksuid.Nil
		var inherit []*SpecCommit
		if n := op.Commit % (len(b.Commits) + 1); n > 0 {
			at = b.Commits[n-1].ID
			inherit = append(inherit, b.Commits[:n]...)
		}
		err = lr.API.CreateBranch(ctx, lr.PoolID, op.Other, at)
		if err == nil {
			lr.Branches[op.Other] = &SpecBranch{Name: op.Other, Commits: inherit}
		}
		lr.Log = append(lr.Log, fmt.Sprintf("%s at=%s err=%v", desc, at, err))
		return err
	case "merge":
		child := lr.Branches[op.Other]
		if child == nil {
			return nil
		}
		base := commonAncestorSpec(b, child)
		var mcase string
		if lr.Merge != nil {
			pa, ok1 := lr.actsSince(b, base)
			ca, ok2 := lr.actsSince(child, base)
			if ok1 && ok2 {
				mcase = fmt.Sprintf("(%v, %s, %s, %s", base.ID != ksuid.Nil, lr.Merge.set(base.Objs), pa, ca)
			}
		}
		commit, err = lr.API.MergeBranch(ctx, lr.PoolID, op.Other, op.Branch, msgOf("merge"))
		if mcase != "" {
			after := tip.Objs
			if objs, oerr := lr.Objects(op.Branch); oerr == nil {
				after = map[ksuid.KSUID]bool{}
				for _, o := range objs {
					after[o.ID] = true
				}
			}
			lr.Merge.MergeCases = append(lr.Merge.MergeCases, fmt.Sprintf("%s, %v, %s)", mcase, err == nil, lr.Merge.set(after)))
		}
		if err == nil {
			ct := child.Tip()
			for id := range ct.Objs {
				if !base.Objs[id] {
					want.Objs[id] = true // child added since base
					if ct.Vecs[id] {
						want.Vecs[id] = true
					}
				}
			}
			for id := range base.Objs {
				if !ct.Objs[id] {
					delete(want.Objs, id) // child deleted since base
					delete(want.Vecs, id)
				}
			}
			contentCheck = "objs"
		}
	case "revert":
		if len(b.Commits) == 0 {
			return nil
		}
		ci := op.Commit % len(b.Commits)
		target := b.Commits[ci]
		parent := &SpecCommit{Objs: map[ksuid.KSUID]bool{}, Vecs: map[ksuid.KSUID]bool{}}
		if ci > 0 {
			parent = b.Commits[ci-1]
		}
		desc = fmt.Sprintf("revert@%s %s", op.Branch, target.ID)
		var rcase string
		if lr.Merge != nil {
			if ta, aerr := lr.commitActs(target.ID); aerr == nil {
				rcase = fmt.Sprintf("(%s, [%s], %s", lr.Merge.set(parent.Objs), strings.Join(ta, "; "), lr.Merge.set(tip.Objs))
			}
		}
		commit, err = lr.API.Revert(ctx, lr.PoolID, op.Branch, target.ID, msgOf("revert"))
		if rcase != "" {
			after := tip.Objs
			if objs, oerr := lr.Objects(op.Branch); oerr == nil {
				after = map[ksuid.KSUID]bool{}
				for _, o := range objs {
					after[o.ID] = true
				}
			}
			lr.Merge.RevertCases = append(lr.Merge.RevertCases, fmt.Sprintf("%s, %v, %s)", rcase, err == nil, lr.Merge.set(after)))
		}
		if err == nil {
			for id := range target.Objs {
				if !parent.Objs[id] { // added by target
					delete(want.Objs, id)
					delete(want.Vecs, id)
				}
			}
			for id := range parent.Objs {
				if !target.Objs[id] { // deleted by target
					want.Objs[id] = true
				}
			}
			contentCheck = "objs"
		}
	default:
		return fmt.Errorf("unknown op %s", op.Kind)
	}
	lr.Log = append(lr.Log, fmt.Sprintf("%s -> commit=%s err=%v", desc, commit, err))
	if err != nil {
		return err
	}
	// observe the new tip
	objs, oerr := lr.Objects(op.Branch)
	if oerr != nil {
		lr.fail(lr.Tag+":branch-unreadable-after-"+op.Kind, fmt.Sprintf("after %s the object list of branch %s cannot be read: %v", desc, op.Branch, oerr), lr.replay(nil), "branch readable", oerr.Error())
		return oerr
	}
	got := &SpecCommit{ID: commit, Objs: map[ksuid.KSUID]bool{}, Vecs: map[ksuid.KSUID]bool{}}
	for _, o := range objs {
		got.Objs[o.ID] = true
	}
	if vecs, verr := lr.Vectors(op.Branch); verr == nil {
		got.Vecs = vecs
	}
	switch contentCheck {
	case "objs":
		if !sameSet(got.Objs, want.Objs) {
			lr.fail(lr.Tag+":"+op.Kind+"-object-set", fmt.Sprintf("after %s branch %s holds objects %s, specification says %s", desc, op.Branch, setStr(got.Objs), setStr(want.Objs)), lr.replay(nil), setStr(want.Objs), setStr(got.Objs))
		}
	case "vals":
		gv := lr.branchVals(got)
		if strings.Join(SortedCopy(gv), "\n") != strings.Join(SortedCopy(wantVals), "\n") {
			lr.fail(lr.Tag+":"+op.Kind+"-contents", fmt.Sprintf("after %s the objects of branch %s hold %d values, specification says %d", desc, op.Branch, len(gv), len(wantVals)), lr.replay(map[string]any{"got": SortedCopy(gv), "want": SortedCopy(wantVals)}), fmt.Sprint(len(wantVals)), fmt.Sprint(len(gv)))
		}
	}
	// the spec follows the system's object ids (they are system-chosen) but keeps its own verdict above
	b.Commits = append(b.Commits, got)
	return nil
}

func keyOfZ(cfg PoolCfg, z string) K {
	// values were generated by GenLVal: recover the key syntactically
	find := func(s, field string) (string, bool) {
		i := strings.Index(s, field+":")
		if i < 0 {
			return "", false
		}
		rest := s[i+len(field)+1:]
		if strings.HasPrefix(rest, "\"") {
			j := strings.Index(rest[1:], "\"")
			return rest[:j+2], true
		}
		j := strings.IndexAny(rest, ",}")
		return rest[:j], true
	}
	parse := func(t string) K {
		switch {
		case t == "null":
			return K{Kind: "null"}
		case strings.HasPrefix(t, "\""):
			return K{Kind: "str", S: t[1 : len(t)-1]}
		}
		var i int64
		fmt.Sscan(t, &i)
		return K{Kind: "int", I: i}
	}
	switch cfg.Key {
	case "this":
		return parse(z)
	case "a.k":
		if !strings.Contains(z, "a:{k:") {
			return K{Kind: "missing"}
		}
		t, _ := find(z, "a:{k")
		return parse(t)
	}
	if !strings.HasPrefix(z, "{k:") {
		return K{Kind: "missing"}
	}
	t, _ := find(z, "{k")
	return parse(t)
}

func (lr *LakeRun) branchVals(c *SpecCommit) []string {
	var out []string
	var ids []string
	for id := range c.Objs {
		ids = append(ids, id.String())
	}
	sort.Strings(ids)
	for _, s := range ids {
		id, _ := ksuid.Parse(s)
		vals, err := lr.ReadObject(id)
		if err != nil {
			lr.fail(lr.Tag+":object-file-missing", fmt.Sprintf("object %s referenced by a commit cannot be read: %v", id, err), lr.replay(nil), "referenced objects exist", err.Error())
			continue
		}
		out = append(out, vals...)
	}
	return out
}

func sameSet(a, b map[ksuid.KSUID]bool) bool {
	if len(a) != len(b) {
		return false
	}
	for k := range a {
		if !b[k] {
			return false
		}
	}
	return true
}

func setStr(a map[ksuid.KSUID]bool) string {
	var s []string
	for k := range a {
		s = append(s, k.String()[:8])
	}
	sort.Strings(s)
	return "{" + strings.Join(s, ",") + "}"
}

func commonAncestorSpec(a, b *SpecBranch) *SpecCommit {
	in := map[ksuid.KSUID]bool{}
	for _, c := range a.Commits {
		in[c.ID] = true
	}
	for i := len(b.Commits) - 1; i >= 0; i-- {
		if in[b.Commits[i].ID] {
			return b.Commits[i]
		}
	}
	return &SpecCommit{Objs: map[ksuid.KSUID]bool{}, Vecs: map[ksuid.KSUID]bool{}}
}

// CheckBranch: the branch is readable, a scan returns exactly the values of
// the objects the specification expects, in pool-key order, and the metadata
// of every object is accurate.
func (lr *LakeRun) CheckBranch(name string) {
	b := lr.Branches[name]
	tip := b.Tip()
	for id := range tip.Objs {
		if lr.Deleted[id] {
			// the branch was pointed (branch-from-old-commit, revert) at data that had
			// been explicitly vacuumed, or the vacuum was already reported above
			return
		}
	}
	want := lr.branchVals(tip)
	got, err := lr.QueryZ(fmt.Sprintf("from %s@%s", lr.PoolName, name))
	if err != nil {
		lr.fail(lr.Tag+":branch-unreadable", fmt.Sprintf("branch %s cannot be read: %v", name, err), lr.replay(nil), "readable", err.Error())
		return
	}
	if strings.Join(SortedCopy(got), "\n") != strings.Join(SortedCopy(want), "\n") {
		lr.fail(lr.Tag+":scan-contents", fmt.Sprintf("scan of %s returns %d values, specification says %d", name, len(got), len(want)), lr.replay(map[string]any{"got": got, "want": SortedCopy(want)}), fmt.Sprint(len(want)), fmt.Sprint(len(got)))
	}
	lr.checkOrder(name, got, "scan-order")
	if lr.Env != nil && lr.Env.Root != nil && !lr.Remote {
		// the same scan with a single scan path (no merge of parallel legs to hide a
		// mis-partitioned or mis-sorted object)
		if got1, err := lr.Env.Query(fmt.Sprintf("from %s@%s", lr.PoolName, name), 1); err == nil {
			lr.checkOrder(name, got1, "scan-order-par1")
			if strings.Join(SortedCopy(got1), "\n") != strings.Join(SortedCopy(want), "\n") {
				lr.fail(lr.Tag+":scan-contents-par1", fmt.Sprintf("single-path scan of %s returns %d values, specification says %d", name, len(got1), len(want)), lr.replay(map[string]any{"got": got1, "want": SortedCopy(want)}), fmt.Sprint(len(want)), fmt.Sprint(len(got1)))
			}
		}
	}
	// metadata accuracy
	objs, err := lr.Objects(name)
	if err != nil {
		return
	}
	var prevFrom *K
	var prevObj ObjInfo
	for _, o := range objs {
		vals, err := lr.ReadObject(o.ID)
		if err != nil {
			continue
		}
		// the object list itself is in pool order of the objects' first keys (the
		// Slicer's sweep over overlapping objects relies on it)
		if len(vals) > 0 {
			if k, ok := lr.keyOf(vals[0]); ok {
				if k.Kind == "missing" {
					k = K{Kind: "null"}
				}
				if prevFrom != nil {
					c := CmpK(*prevFrom, k)
					if (!lr.Cfg.Desc && c > 0) || (lr.Cfg.Desc && c < 0) {
						lr.fail(lr.Tag+":object-list-order", fmt.Sprintf("the object list of %s (%s) is not in pool order of first keys: object %s [%s,%s] is listed before object %s [%s,%s]", name, lr.Cfg, prevObj.ID, prevObj.Min, prevObj.Max, o.ID, o.Min, o.Max), lr.replay(nil), "objects ordered by first key", prevFrom.Zson()+" before "+k.Zson())
					}
				}
				kk := k
				prevFrom, prevObj = &kk, o
			}
		}
		// every object holds its values in pool order
		lr.checkOrder(name+" object "+o.ID.String()[:8], vals, "object-internal-order")
		if uint64(len(vals)) != o.Count {
			lr.fail(lr.Tag+":object-count", fmt.Sprintf("object %s metadata count=%d but it holds %d values", o.ID, o.Count, len(vals)), lr.replay(nil), fmt.Sprint(len(vals)), fmt.Sprint(o.Count))
		}
		var mn, mx *K
		for _, z := range vals {
			k, ok := lr.keyOf(z)
			if !ok {
				mn = nil
				break
			}
			if k.Kind == "missing" {
				k = K{Kind: "null"}
			}
			kk := k
			if mn == nil || CmpK(kk, *mn) < 0 {
				mn = &kk
			}
			if mx == nil || CmpK(kk, *mx) > 0 {
				mx = &kk
			}
		}
		if mn != nil && (o.Min != mn.Zson() || o.Max != mx.Zson()) {
			lr.fail(lr.Tag+":object-range", fmt.Sprintf("object %s metadata range [%s,%s] but its values span [%s,%s]", o.ID, o.Min, o.Max, mn.Zson(), mx.Zson()), lr.replay(map[string]any{"values": vals}), mn.Zson()+".."+mx.Zson(), o.Min+".."+o.Max)
		}
	}
}

// CanonTies sorts every maximal run of consecutive values with equal pool keys:
// the pool order says nothing about values whose keys are equal (they come from
// different objects and the merge may take them in either order), so two scans
// are "the same result" when they agree up to the order inside such runs.
func (lr *LakeRun) CanonTies(vals []string) []string {
	out := append([]string(nil), vals...)
	i := 0
	for i < len(out) {
		ki, ok := lr.keyOf(out[i])
		j := i + 1
		for ok && j < len(out) {
			kj, okj := lr.keyOf(out[j])
			if !okj || CmpK(ki, kj) != 0 {
				break
			}
			j++
		}
		sort.Strings(out[i:j])
		i = j
	}
	return out
}

func (lr *LakeRun) checkOrder(what string, got []string, sig string) {
	for i := 1; i < len(got); i++ {
		ka, oka := lr.keyOf(got[i-1])
		kb, okb := lr.keyOf(got[i])
		if !oka || !okb {
			continue
		}
		c := CmpK(ka, kb)
		if (!lr.Cfg.Desc && c > 0) || (lr.Cfg.Desc && c < 0) {
			lr.fail(lr.Tag+":"+sig, fmt.Sprintf("%s (%s) is out of pool-key order at position %d: %s then %s", what, lr.Cfg, i, got[i-1], got[i]), lr.replay(map[string]any{"got": got}), "pool-key order", got[i-1]+" before "+got[i])
			return
		}
	}
}

// CheckCommits re-queries every commit created so far: the data at a commit never changes.
func (lr *LakeRun) CheckCommits() {
	seen := map[ksuid.KSUID]bool{}
	for _, b := range lr.Branches {
		for _, c := range b.Commits {
			if seen[c.ID] || c.ID == ksuid.Nil {
				continue
			}
			seen[c.ID] = true
			skip := false
			for id := range c.Objs {
				if lr.Deleted[id] {
					skip = true // explicitly vacuumed
				}
			}
			if skip {
				continue
			}
			got, err := lr.QueryZ(fmt.Sprintf("from %s@%s", lr.PoolName, c.ID))
			lr.Res.Count("commit_requeries")
			if err != nil {
				lr.fail(lr.Tag+":commit-unreadable", fmt.Sprintf("commit %s can no longer be queried: %v", c.ID, err), lr.replay(nil), "commit readable", err.Error())
				continue
			}
			if !c.HasSeen {
				c.Seen, c.HasSeen = got, true
				want := lr.branchVals(c)
				if strings.Join(SortedCopy(got), "\n") != strings.Join(SortedCopy(want), "\n") {
					lr.fail(lr.Tag+":commit-contents", fmt.Sprintf("query at commit %s returns %d values, its objects hold %d", c.ID, len(got), len(want)), lr.replay(map[string]any{"got": got, "want": want}), fmt.Sprint(len(want)), fmt.Sprint(len(got)))
				}
				continue
			}
			if strings.Join(lr.CanonTies(got), "\n") != strings.Join(lr.CanonTies(c.Seen), "\n") {
				lr.fail(lr.Tag+":commit-changed", fmt.Sprintf("the data visible at commit %s changed after later operations (%d values before, %d now)", c.ID, len(c.Seen), len(got)), lr.replay(map[string]any{"before": c.Seen, "now": got}), strings.Join(c.Seen, " "), strings.Join(got, " "))
			}
		}
	}
}

// QueryAt runs a query pinned to a commitish through the local compiler.
func (l *LakeEnv) QueryCommit(src string, commit ksuid.KSUID) ([]string, error) {
	return l.QueryAt(src, 1, &lakeparse.Commitish{Pool: "p", Branch: commit.String()})
}

var _ = compiler.Parse
var _ = runtime.NewContext
var _ zbuf.Puller
