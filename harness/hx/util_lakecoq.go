package hx

import (
	"fmt"
	"strings"

	zed "github.com/brimdata/super"
	"github.com/brimdata/super/zson"
	"github.com/segmentio/ksuid"
)

// CoqHist records a lake history in the vocabulary of coq/Model/LakeDataCases.v:
// a table of values (key, body bytes) and, per step, the operation and the
// objects observed on the branch afterwards (as lists of table indices).
type CoqHist struct {
	Tbl    []string
	Index  map[string]int
	Steps  []string
	Metas  []string
	Broken bool // a value could not be indexed (e.g. duplicate values in a this-keyed pool)
}

func NewCoqHist() *CoqHist { return &CoqHist{Index: map[string]int{}} }

func (c *CoqHist) addVal(canon string, k K, body []byte) {
	if _, ok := c.Index[canon]; ok {
		c.Broken = true // duplicate value: indices would be ambiguous
		return
	}
	c.Index[canon] = len(c.Tbl)
	c.Tbl = append(c.Tbl, fmt.Sprintf("V %s (hex \"%x\")", k.Coq(), body))
}

func (c *CoqHist) idxList(vals []string) string {
	var s []string
	for _, v := range vals {
		i, ok := c.Index[v]
		if !ok {
			c.Broken = true
			i = 0
		}
		s = append(s, fmt.Sprint(i))
	}
	return "[" + strings.Join(s, ";") + "]%N"
}

func (c *CoqHist) objList(objs [][]string) string {
	var s []string
	for _, o := range objs {
		s = append(s, c.idxList(o))
	}
	return "[" + strings.Join(s, ";") + "]"
}

// RegisterLoad parses the loaded values to learn their body bytes.
func (lr *LakeRun) coqRegister(raw []string) []string {
	zctx := zed.NewContext()
	var canon []string
	for _, z := range raw {
		v, err := zson.ParseValue(zctx, z)
		if err != nil {
			lr.Coq.Broken = true
			continue
		}
		cz := zson.FormatValue(v)
		canon = append(canon, cz)
		lr.Coq.addVal(cz, keyOfZ(lr.Cfg, z), v.Bytes())
	}
	return canon
}

func (lr *LakeRun) observedObjects(branch string) [][]string {
	objs, err := lr.Objects(branch)
	if err != nil {
		lr.Coq.Broken = true
		return nil
	}
	var out [][]string
	for _, o := range objs {
		vals, err := lr.ReadObject(o.ID)
		if err != nil {
			lr.Coq.Broken = true
			continue
		}
		out = append(out, vals)
	}
	return out
}

func (lr *LakeRun) contentsOf(ids []ksuid.KSUID) [][]string {
	var out [][]string
	for _, id := range ids {
		vals, err := lr.ReadObject(id)
		if err != nil {
			lr.Coq.Broken = true
			continue
		}
		out = append(out, vals)
	}
	return out
}

// CoqCase renders the recorded history as one hist_case literal.
func (lr *LakeRun) CoqCase() (string, bool) {
	c := lr.Coq
	if c == nil || c.Broken || len(c.Steps) == 0 {
		return "", false
	}
	desc := "false"
	if lr.Cfg.Desc {
		desc = "true"
	}
	thresh := lr.Cfg.Thresh
	if thresh == 0 {
		thresh = 500 * 1024 * 1024
	}
	return fmt.Sprintf("(%s, (%d)%%Z,\n   [%s],\n   [%s])", desc, thresh, strings.Join(c.Tbl, "; "), strings.Join(c.Steps, ";\n    ")), true
}

// coqMeta records (values, min, max, count) of every object of a branch.
func (lr *LakeRun) coqMeta(branch string) {
	c := lr.Coq
	objs, err := lr.Objects(branch)
	if err != nil {
		return
	}
	desc := "false"
	if lr.Cfg.Desc {
		desc = "true"
	}
	for _, o := range objs {
		vals, err := lr.ReadObject(o.ID)
		if err != nil || len(c.Metas) > 400 {
			continue
		}
		var vs []string
		ok := true
		for _, z := range vals {
			i, found := c.Index[z]
			if !found {
				ok = false
				break
			}
			vs = append(vs, c.Tbl[i])
		}
		mn, ok1 := parseKeyText(o.Min)
		mx, ok2 := parseKeyText(o.Max)
		if !ok || !ok1 || !ok2 {
			continue
		}
		c.Metas = append(c.Metas, fmt.Sprintf("(%s, [%s], %s, %s, %d%%N)", desc, strings.Join(vs, "; "), mn.Coq(), mx.Coq(), o.Count))
	}
}

func parseKeyText(t string) (K, bool) {
	switch {
	case t == "null":
		return K{Kind: "null"}, true
	case strings.HasPrefix(t, "\""):
		var s string
		if _, err := fmt.Sscanf(t, "%q", &s); err != nil {
			return K{}, false
		}
		return K{Kind: "str", S: s}, true
	}
	var i int64
	if _, err := fmt.Sscan(t, &i); err != nil {
		return K{}, false
	}
	return K{Kind: "int", I: i}, true
}
