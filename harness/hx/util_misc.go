package hx

import (
	"context"
	"fmt"
	"sort"
	"strings"

	zed "github.com/brimdata/super"
	"github.com/brimdata/super/compiler/ast/dag"
	"github.com/brimdata/super/compiler/data"
	"github.com/brimdata/super/compiler/kernel"
	"github.com/brimdata/super/runtime"
	"github.com/brimdata/super/zio/zsonio"
)

// evalDag evaluates a DAG expression on each input record with the real kernel.
func EvalDag(e dag.Expr, input string) (out []string, err error) {
	err = Safely(func() error {
		zctx := zed.NewContext()
		rctx := runtime.NewContext(context.Background(), zctx)
		defer rctx.Cancel()
		seq := dag.Seq{
			&dag.DefaultScan{Kind: "DefaultScan"},
			&dag.Yield{Kind: "Yield", Exprs: []dag.Expr{e}},
			&dag.Output{Kind: "Output", Name: "main"},
		}
		b := kernel.NewBuilder(rctx, data.NewSource(nil, nil))
		outs, err := b.Build(seq, zsonio.NewReader(zctx, strings.NewReader(input)))
		if err != nil {
			return err
		}
		for _, p := range outs {
			out, err = Drain(p)
			return err
		}
		return nil
	})
	return out, err
}

func WriteCoqList(sb *strings.Builder, name, ty string, items []string) {
	// chunked to keep each definition small for the parser
	const chunk = 2000
	var parts []string
	for i := 0; i < len(items); i += chunk {
		j := i + chunk
		if j > len(items) {
			j = len(items)
		}
		pn := fmt.Sprintf("%s_%d", name, i/chunk)
		fmt.Fprintf(sb, "Definition %s : list %s := [\n  %s].\n", pn, ty, strings.Join(items[i:j], ";\n  "))
		parts = append(parts, pn)
	}
	if len(parts) == 0 {
		fmt.Fprintf(sb, "Definition %s : list %s := [].\n", name, ty)
		return
	}
	fmt.Fprintf(sb, "Definition %s : list %s := %s.\n", name, ty, strings.Join(parts, " ++ "))
}

// canonAll re-formats ZSON texts through the plain runtime so both sides print alike.
func CanonAll(vals []string) []string {
	out, err := RunQuery("pass", strings.Join(vals, "\n"))
	if err != nil {
		panic(err)
	}
	return out
}

func MultisetMinus(all, del []string) []string {
	all = CanonAll(all)
	cnt := map[string]int{}
	for _, d := range del {
		cnt[d]++
	}
	var out []string
	for _, a := range all {
		if cnt[a] > 0 {
			cnt[a]--
			continue
		}
		out = append(out, a)
	}
	return out
}

func SortedCopy(x []string) []string {
	y := append([]string{}, x...)
	sort.Strings(y)
	return y
}
