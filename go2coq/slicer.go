// Translation of meta.Slicer.stash (runtime/sam/op/meta/slicer.go):
//
//	var batch zbuf.Batch
//	if len(s.objects) > 0 {
//		if <flush> {
//			var err error
//			batch, err = s.nextPartition()
//			if err != nil { return nil, err }
//			s.min = nil
//			s.max = nil
//		}
//	}
//	s.objects = append(s.objects, o)
//	if <newmin> { s.min = o.Min.Copy().Ptr() }
//	if <newmax> { s.max = o.Max.Copy().Ptr() }
//	return batch, nil
//
// into the three st_cond terms of coq/Model/StashTable.v.  The statement
// skeleton is checked; the conditions are translated.  Anything else is a
// translation failure.
package main

import (
	"fmt"
	"go/ast"
	"go/parser"
	"go/token"
	"path/filepath"
	"strings"
)

func selName(e ast.Expr) string {
	// s.min, o.Min, ...
	if sel, ok := e.(*ast.SelectorExpr); ok {
		return identName(sel.X) + "." + sel.Sel.Name
	}
	return ""
}

func stOperand(e ast.Expr) string {
	if p, ok := e.(*ast.ParenExpr); ok {
		return stOperand(p.X)
	}
	if st, ok := e.(*ast.StarExpr); ok {
		switch selName(st.X) {
		case "s.min":
			return "OpSMin"
		case "s.max":
			return "OpSMax"
		}
	}
	switch selName(e) {
	case "o.Min":
		return "OpOMin"
	case "o.Max":
		return "OpOMax"
	}
	fail("stash: comparison operand is not one of o.Min, o.Max, *s.min, *s.max")
	return ""
}

func stCond(e ast.Expr) string {
	switch e := e.(type) {
	case *ast.ParenExpr:
		return stCond(e.X)
	case *ast.UnaryExpr:
		if e.Op == token.NOT {
			return "(SNot " + stCond(e.X) + ")"
		}
	case *ast.BinaryExpr:
		switch e.Op {
		case token.LOR:
			return "(SOr " + stCond(e.X) + " " + stCond(e.Y) + ")"
		case token.LAND:
			return "(SAnd " + stCond(e.X) + " " + stCond(e.Y) + ")"
		case token.EQL:
			if identName(e.Y) == "nil" {
				switch selName(e.X) {
				case "s.min":
					return "(SIsNil OpSMin)"
				case "s.max":
					return "(SIsNil OpSMax)"
				}
			}
		case token.LSS, token.GTR:
			// s.cmp(a, b) < 0   /   s.cmp(a, b) > 0
			lit, ok := e.Y.(*ast.BasicLit)
			if c, ok2 := isCall(e.X, "s.cmp", 2); ok && ok2 && lit.Value == "0" {
				k := "SCmpLt"
				if e.Op == token.GTR {
					k = "SCmpGt"
				}
				return fmt.Sprintf("(%s %s %s)", k, stOperand(c.Args[0]), stOperand(c.Args[1]))
			}
		}
	}
	fail("stash: condition is outside the translated subset")
	return ""
}

// s.min = o.Min.Copy().Ptr()
func isBoundAssign(st ast.Stmt, lhs, field string) bool {
	as, ok := st.(*ast.AssignStmt)
	if !ok || as.Tok != token.ASSIGN || len(as.Lhs) != 1 || len(as.Rhs) != 1 || selName(as.Lhs[0]) != lhs {
		return false
	}
	// o.Min.Copy().Ptr()
	c1, ok := as.Rhs[0].(*ast.CallExpr)
	if !ok || len(c1.Args) != 0 {
		return false
	}
	s1, ok := c1.Fun.(*ast.SelectorExpr)
	if !ok || s1.Sel.Name != "Ptr" {
		return false
	}
	c2, ok := s1.X.(*ast.CallExpr)
	if !ok || len(c2.Args) != 0 {
		return false
	}
	s2, ok := c2.Fun.(*ast.SelectorExpr)
	return ok && s2.Sel.Name == "Copy" && selName(s2.X) == field
}

func isNilAssign(st ast.Stmt, lhs string) bool {
	as, ok := st.(*ast.AssignStmt)
	return ok && as.Tok == token.ASSIGN && len(as.Lhs) == 1 && len(as.Rhs) == 1 && selName(as.Lhs[0]) == lhs && identName(as.Rhs[0]) == "nil"
}

func genSlicer(repo string) string {
	const file = "runtime/sam/op/meta/slicer.go"
	fset := token.NewFileSet()
	f, err := parser.ParseFile(fset, filepath.Join(repo, file), nil, 0)
	if err != nil {
		fail("%v", err)
	}
	var fd *ast.FuncDecl
	for _, d := range f.Decls {
		if x, ok := d.(*ast.FuncDecl); ok && x.Name.Name == "stash" && x.Recv != nil {
			fd = x
		}
	}
	if fd == nil {
		fail("method stash not found in %s", file)
	}
	if identName(fd.Recv.List[0].Names[0]) != "s" || len(fd.Type.Params.List) != 1 || identName(fd.Type.Params.List[0].Names[0]) != "o" {
		fail("stash: unexpected signature")
	}
	b := fd.Body.List
	if len(b) != 6 {
		fail("stash: body has %d statements, expected 6 (var batch; if len(s.objects) > 0 {...}; append; if; if; return)", len(b))
	}
	if _, ok := b[0].(*ast.DeclStmt); !ok {
		fail("stash: first statement is not `var batch zbuf.Batch`")
	}
	// if len(s.objects) > 0 { if <flush> { ...; s.min = nil; s.max = nil } }
	outer, ok := b[1].(*ast.IfStmt)
	okOuter := false
	if ok && outer.Init == nil && outer.Else == nil && len(outer.Body.List) == 1 {
		if be, ok := outer.Cond.(*ast.BinaryExpr); ok && be.Op == token.GTR {
			if c, ok := isCall(be.X, "len", 1); ok && selName(c.Args[0]) == "s.objects" {
				if lit, ok := be.Y.(*ast.BasicLit); ok && lit.Value == "0" {
					okOuter = true
				}
			}
		}
	}
	if !okOuter {
		fail("stash: second statement is not `if len(s.objects) > 0 { if ... }`")
	}
	inner, ok := outer.Body.List[0].(*ast.IfStmt)
	if !ok || inner.Init != nil || inner.Else != nil {
		fail("stash: the partition test is not a plain if")
	}
	flush := stCond(inner.Cond)
	// the body must call s.nextPartition() and reset both running bounds
	callsNext, minNil, maxNil := false, false, false
	for _, st := range inner.Body.List {
		if as, ok := st.(*ast.AssignStmt); ok && len(as.Rhs) == 1 {
			if _, ok := isCall(as.Rhs[0], "s.nextPartition", 0); ok && len(as.Lhs) == 2 && identName(as.Lhs[0]) == "batch" {
				callsNext = true
			}
		}
		if isNilAssign(st, "s.min") {
			minNil = true
		}
		if isNilAssign(st, "s.max") {
			maxNil = true
		}
	}
	if !callsNext || !minNil || !maxNil {
		fail("stash: the partition branch does not (batch, err = s.nextPartition(); s.min = nil; s.max = nil)")
	}
	// s.objects = append(s.objects, o)
	okApp := false
	if as, ok := b[2].(*ast.AssignStmt); ok && len(as.Lhs) == 1 && len(as.Rhs) == 1 && selName(as.Lhs[0]) == "s.objects" {
		if c, ok := isCall(as.Rhs[0], "append", 2); ok && selName(c.Args[0]) == "s.objects" && identName(c.Args[1]) == "o" {
			okApp = true
		}
	}
	if !okApp {
		fail("stash: third statement is not `s.objects = append(s.objects, o)`")
	}
	bound := func(st ast.Stmt, lhs, field string) string {
		i, ok := st.(*ast.IfStmt)
		if !ok || i.Init != nil || i.Else != nil || len(i.Body.List) != 1 || !isBoundAssign(i.Body.List[0], lhs, field) {
			fail("stash: expected `if <cond> { %s = %s.Copy().Ptr() }`", lhs, field)
		}
		return stCond(i.Cond)
	}
	newmin := bound(b[3], "s.min", "o.Min")
	newmax := bound(b[4], "s.max", "o.Max")
	ret, ok := b[5].(*ast.ReturnStmt)
	if !ok || len(ret.Results) != 2 || identName(ret.Results[0]) != "batch" || identName(ret.Results[1]) != "nil" {
		fail("stash: last statement is not `return batch, nil`")
	}
	var sb strings.Builder
	sb.WriteString("(* GENERATED by /verif/go2coq from the repository's Go source on every run of bin/check.\n   Do not edit: the proofs in Proofs/SlicerGenProofs.v are re-checked against this text. *)\n")
	sb.WriteString("From ZV Require Import Base.Prelude Model.StashTable.\n\n")
	fmt.Fprintf(&sb, "(* %s:%d  func (s *Slicer) stash *)\n", file, fset.Position(fd.Pos()).Line)
	fmt.Fprintf(&sb, "(* the accumulated partition is closed before o is added *)\nDefinition gen_stash_flush : st_cond := %s.\n", flush)
	fmt.Fprintf(&sb, "(* s.min = o.Min *)\nDefinition gen_stash_newmin : st_cond := %s.\n", newmin)
	fmt.Fprintf(&sb, "(* s.max = o.Max *)\nDefinition gen_stash_newmax : st_cond := %s.\n", newmax)
	return sb.String()
}
