// go2coq: a deliberately tiny translator from a restricted subset of Go to
// Gallina (tie T of DESIGN.md).  It handles functions whose body is a single
// `switch <param> { case "..."[, "..."]: return <expr> ... }` optionally
// followed by a panic, over the comparison-operator strings of the optimizer,
// and whose returned expressions are operator string literals, parameters,
// calls of compare(op, a, b) and dag.NewBinaryExpr("and"|"or", x, y).
// Anything else is a translation failure (exit 1), reported by bin/check as a
// broken tie.
//
// usage: go2coq <repo> <out.v>
package main

import (
	"fmt"
	"go/ast"
	"go/parser"
	"go/token"
	"os"
	"path/filepath"
	"strconv"
	"strings"
)

var ops = map[string]string{"==": "OEq", "!=": "ONe", "<": "OLt", "<=": "OLe", ">": "OGt", ">=": "OGe"}
var opOrder = []string{"==", "!=", "<", "<=", ">", ">="}

type fnSpec struct {
	file, name string
	params     string // Coq binder list after the switched parameter
	retType    string
	env        map[string]string // Go identifier -> Coq term
}

func fail(format string, a ...any) {
	fmt.Fprintf(os.Stderr, "go2coq: "+format+"\n", a...)
	os.Exit(1)
}

func expr(e ast.Expr, env map[string]string) string {
	switch e := e.(type) {
	case *ast.BasicLit:
		if e.Kind == token.STRING {
			s, _ := strconv.Unquote(e.Value)
			if c, ok := ops[s]; ok {
				return c
			}
			fail("string literal %q is not a comparison operator", s)
		}
	case *ast.Ident:
		if t, ok := env[e.Name]; ok {
			return t
		}
		fail("unknown identifier %s", e.Name)
	case *ast.CallExpr:
		name := ""
		switch f := e.Fun.(type) {
		case *ast.Ident:
			name = f.Name
		case *ast.SelectorExpr:
			if x, ok := f.X.(*ast.Ident); ok {
				name = x.Name + "." + f.Sel.Name
			}
		}
		switch name {
		case "compare":
			if len(e.Args) != 3 {
				fail("compare with %d args", len(e.Args))
			}
			return fmt.Sprintf("(XCmp %s %s %s)", expr(e.Args[0], env), expr(e.Args[1], env), expr(e.Args[2], env))
		case "dag.NewBinaryExpr":
			if len(e.Args) != 3 {
				fail("NewBinaryExpr with %d args", len(e.Args))
			}
			lit, ok := e.Args[0].(*ast.BasicLit)
			if !ok {
				fail("NewBinaryExpr with a computed operator")
			}
			s, _ := strconv.Unquote(lit.Value)
			c := map[string]string{"and": "XAnd", "or": "XOr"}[s]
			if c == "" {
				fail("NewBinaryExpr operator %q", s)
			}
			return fmt.Sprintf("(%s %s %s)", c, expr(e.Args[1], env), expr(e.Args[2], env))
		}
		fail("call of %q is outside the translated subset", name)
	}
	fail("expression %T is outside the translated subset", e)
	return ""
}

func translate(repo string, spec fnSpec) string {
	fset := token.NewFileSet()
	f, err := parser.ParseFile(fset, filepath.Join(repo, spec.file), nil, 0)
	if err != nil {
		fail("%v", err)
	}
	var fd *ast.FuncDecl
	for _, d := range f.Decls {
		if x, ok := d.(*ast.FuncDecl); ok && x.Name.Name == spec.name && x.Recv == nil {
			fd = x
		}
	}
	if fd == nil {
		fail("function %s not found in %s", spec.name, spec.file)
	}
	if len(fd.Body.List) < 1 || len(fd.Body.List) > 2 {
		fail("%s: body is not `switch ...` [+ panic]", spec.name)
	}
	sw, ok := fd.Body.List[0].(*ast.SwitchStmt)
	if !ok || sw.Init != nil {
		fail("%s: first statement is not a plain switch", spec.name)
	}
	tag, ok := sw.Tag.(*ast.Ident)
	if !ok || tag.Name != fd.Type.Params.List[0].Names[0].Name {
		fail("%s: switch is not on the first parameter", spec.name)
	}
	if len(fd.Body.List) == 2 {
		es, ok := fd.Body.List[1].(*ast.ExprStmt)
		call, ok2 := es.X.(*ast.CallExpr)
		if !ok || !ok2 {
			fail("%s: trailing statement is not panic(...)", spec.name)
		}
		if id, ok := call.Fun.(*ast.Ident); !ok || id.Name != "panic" {
			fail("%s: trailing statement is not panic(...)", spec.name)
		}
	}
	env := map[string]string{tag.Name: "op"}
	for k, v := range spec.env {
		env[k] = v
	}
	result := map[string]string{}
	for _, st := range sw.Body.List {
		cc := st.(*ast.CaseClause)
		if cc.List == nil {
			fail("%s: default clause is outside the translated subset", spec.name)
		}
		if len(cc.Body) != 1 {
			fail("%s: case body is not a single return", spec.name)
		}
		ret, ok := cc.Body[0].(*ast.ReturnStmt)
		if !ok || len(ret.Results) != 1 {
			fail("%s: case body is not `return <expr>`", spec.name)
		}
		for _, l := range cc.List {
			lit, ok := l.(*ast.BasicLit)
			if !ok {
				fail("%s: case label is not a string literal", spec.name)
			}
			s, _ := strconv.Unquote(lit.Value)
			c, ok := ops[s]
			if !ok {
				fail("%s: case label %q is not a comparison operator", spec.name, s)
			}
			cenv := map[string]string{}
			for k, v := range env {
				cenv[k] = v
			}
			cenv[tag.Name] = c
			if _, dup := result[s]; dup {
				fail("%s: duplicate case %q", spec.name, s)
			}
			result[s] = expr(ret.Results[0], cenv)
		}
	}
	var sb strings.Builder
	pos := fset.Position(fd.Pos())
	fmt.Fprintf(&sb, "(* %s:%d  func %s *)\n", spec.file, pos.Line, spec.name)
	fmt.Fprintf(&sb, "Definition gen_%s (op : cop)%s : option %s :=\n  match op with\n", spec.name, spec.params, spec.retType)
	for _, s := range opOrder {
		if r, ok := result[s]; ok {
			fmt.Fprintf(&sb, "  | %s => Some %s\n", ops[s], r)
		} else {
			fmt.Fprintf(&sb, "  | %s => None  (* falls through to panic *)\n", ops[s])
		}
	}
	sb.WriteString("  end.\n\n")
	return sb.String()
}

func writeIfChanged(out, text string) {
	old, _ := os.ReadFile(out)
	if string(old) != text {
		if err := os.WriteFile(out, []byte(text), 0644); err != nil {
			fail("%v", err)
		}
		fmt.Println("CHANGED: " + out)
	}
}

func genOptimizer(repo string) string {
	var sb strings.Builder
	sb.WriteString("(* GENERATED by /verif/go2coq from the repository's Go source on every run of bin/check.\n   Do not edit: the proofs in Proofs/PrunerGenProofs.v are re-checked against this text. *)\n")
	sb.WriteString("From ZV Require Import Base.Prelude Model.Pruner.\n\n")
	sb.WriteString(translate(repo, fnSpec{file: "compiler/optimizer/optimizer.go", name: "reverseComparator", retType: "cop"}))
	sb.WriteString(translate(repo, fnSpec{file: "compiler/optimizer/optimizer.go", name: "rangePrunerPred", params: " (literal : key)", retType: "pexpr",
		env: map[string]string{"literal": "(Lit literal)", "min": "Min", "max": "Max"}}))
	return sb.String()
}

func main() {
	if len(os.Args) < 3 {
		fail("usage: go2coq <repo> <out.v>...   (OptimizerGen.v, ParallelizeGen.v, SlicerGen.v)")
	}
	repo := os.Args[1]
	for _, out := range os.Args[2:] {
		switch filepath.Base(out) {
		case "OptimizerGen.v":
			writeIfChanged(out, genOptimizer(repo))
		case "ParallelizeGen.v":
			writeIfChanged(out, genParallelize(repo))
		case "SlicerGen.v":
			writeIfChanged(out, genSlicer(repo))
		default:
			fail("no generator for %s", out)
		}
	}
}
