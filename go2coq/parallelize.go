// Translation of Optimizer.concurrentPath (compiler/optimizer/parallelize.go):
//
//	for k := range ops {
//		switch op := ops[k].(type) {
//		case *dag.X, ...: <body>
//		default: <body>
//		}
//	}
//	return len(ops), sortKeys, true, true, nil
//
// into one cp_body (coq/Model/CpTable.v) per dag operator kind.  Bodies are
// translated statement by statement; anything outside the subset below is a
// translation failure.
package main

import (
	"fmt"
	"go/ast"
	"go/parser"
	"go/token"
	"path/filepath"
	"strings"
)

var cpKinds = []string{"Summarize", "Sort", "Load", "Fork", "Scatter", "Mirror", "Head", "Tail", "Uniq",
	"Fuse", "Join", "Output", "Filter", "Cut", "Drop", "Put", "Rename", "Pass", "Yield",
	"Merge", "Combine", "Over", "DefaultScan"}

func cpKind(e ast.Expr) string {
	// *dag.X
	st, ok := e.(*ast.StarExpr)
	if !ok {
		fail("concurrentPath: case label %T is not *dag.X", e)
	}
	sel, ok := st.X.(*ast.SelectorExpr)
	if !ok {
		fail("concurrentPath: case label is not *dag.X")
	}
	if p, ok := sel.X.(*ast.Ident); !ok || p.Name != "dag" {
		fail("concurrentPath: case label is not *dag.X")
	}
	for _, k := range cpKinds {
		if k == sel.Sel.Name {
			return "K" + k
		}
	}
	fail("concurrentPath: dag.%s is not an operator kind known to Model/CpTable.v", sel.Sel.Name)
	return ""
}

func identName(e ast.Expr) string {
	if id, ok := e.(*ast.Ident); ok {
		return id.Name
	}
	return ""
}

func cpKeys(e ast.Expr) string {
	switch identName(e) {
	case "sortKeys":
		return "KsKeep"
	case "nil":
		return "KsNil"
	case "newKeys":
		return "KsNew"
	case "next":
		return "KsNext"
	}
	fail("concurrentPath: %T is not one of sortKeys, nil, newKeys, next", e)
	return ""
}

func cpBool(e ast.Expr) string {
	switch identName(e) {
	case "true":
		return "true"
	case "false":
		return "false"
	}
	fail("concurrentPath: returned flag is not a boolean constant")
	return ""
}

func isCall(e ast.Expr, name string, nargs int) (*ast.CallExpr, bool) {
	c, ok := e.(*ast.CallExpr)
	if !ok || len(c.Args) != nargs {
		return nil, false
	}
	switch f := c.Fun.(type) {
	case *ast.Ident:
		return c, f.Name == name
	case *ast.SelectorExpr:
		return c, identName(f.X)+"."+f.Sel.Name == name
	}
	return nil, false
}

func cpCond(e ast.Expr) string {
	switch e := e.(type) {
	case *ast.ParenExpr:
		return cpCond(e.X)
	case *ast.UnaryExpr:
		if e.Op == token.NOT {
			return "(CNot " + cpCond(e.X) + ")"
		}
	case *ast.BinaryExpr:
		if e.Op == token.LAND {
			return "(CAnd " + cpCond(e.X) + " " + cpCond(e.Y) + ")"
		}
		if e.Op == token.LOR {
			return "(COr " + cpCond(e.X) + " " + cpCond(e.Y) + ")"
		}
	case *ast.CallExpr:
		if c, ok := isCall(e, "isKeyOfSummarize", 2); ok && identName(c.Args[0]) == "op" && identName(c.Args[1]) == "sortKeys" {
			return "CKeyOfSummarize"
		}
		if sel, ok := e.Fun.(*ast.SelectorExpr); ok && sel.Sel.Name == "IsNil" && len(e.Args) == 0 {
			return "(CIsNil " + cpKeys(sel.X) + ")"
		}
	}
	fail("concurrentPath: condition is outside the translated subset")
	return ""
}

// the 5 results of a return inside the loop
func cpRet(r *ast.ReturnStmt, inLoop bool) string {
	if len(r.Results) != 5 {
		fail("concurrentPath: return with %d results", len(r.Results))
	}
	if identName(r.Results[4]) != "nil" {
		fail("concurrentPath: a return with a non-nil error outside the analyzeSortKeys error check")
	}
	idx := ""
	switch x := r.Results[0].(type) {
	case *ast.Ident:
		if x.Name == "k" {
			idx = "IK"
		}
	case *ast.BasicLit:
		if x.Value == "0" {
			idx = "IZero"
		}
	}
	if idx == "" {
		fail("concurrentPath: returned length is neither k nor 0")
	}
	return fmt.Sprintf("(BRet %s %s %s %s)", idx, cpKeys(r.Results[1]), cpBool(r.Results[2]), cpBool(r.Results[3]))
}

func cpStmts(l []ast.Stmt) string {
	if len(l) == 0 {
		return "(BContinue KsKeep)"
	}
	switch s := l[0].(type) {
	case *ast.ReturnStmt:
		return cpRet(s, true)
	case *ast.IfStmt:
		if s.Init != nil || s.Else != nil {
			fail("concurrentPath: if with init or else")
		}
		t := cpStmts(s.Body.List)
		if !strings.HasPrefix(t, "(BRet") && !strings.HasPrefix(t, "(BIf") {
			fail("concurrentPath: an if body that does not return")
		}
		if strings.Contains(t, "BContinue") {
			fail("concurrentPath: an if body that does not return on every path")
		}
		return fmt.Sprintf("(BIf %s %s %s)", cpCond(s.Cond), t, cpStmts(l[1:]))
	case *ast.AssignStmt:
		// newKeys := sortKeysOfSort(op)
		if s.Tok == token.DEFINE && len(s.Lhs) == 1 && len(s.Rhs) == 1 && identName(s.Lhs[0]) == "newKeys" {
			if c, ok := isCall(s.Rhs[0], "sortKeysOfSort", 1); ok && identName(c.Args[0]) == "op" {
				return "(BLetSort " + cpStmts(l[1:]) + ")"
			}
		}
		// next, err := o.analyzeSortKeys(op, sortKeys); if err != nil { return 0, nil, false, false, err }
		if s.Tok == token.DEFINE && len(s.Lhs) == 2 && len(s.Rhs) == 1 && identName(s.Lhs[0]) == "next" && identName(s.Lhs[1]) == "err" {
			if c, ok := isCall(s.Rhs[0], "o.analyzeSortKeys", 2); ok && identName(c.Args[0]) == "op" && identName(c.Args[1]) == "sortKeys" && len(l) >= 2 {
				if chk, ok := l[1].(*ast.IfStmt); ok && chk.Init == nil && chk.Else == nil && len(chk.Body.List) == 1 {
					if b, ok := chk.Cond.(*ast.BinaryExpr); ok && b.Op == token.NEQ && identName(b.X) == "err" && identName(b.Y) == "nil" {
						if r, ok := chk.Body.List[0].(*ast.ReturnStmt); ok && len(r.Results) == 5 && identName(r.Results[4]) == "err" {
							return "(BLetAnalyze " + cpStmts(l[2:]) + ")"
						}
					}
				}
			}
		}
		// sortKeys = <keys>   (last statement of the case)
		if s.Tok == token.ASSIGN && len(s.Lhs) == 1 && len(s.Rhs) == 1 && identName(s.Lhs[0]) == "sortKeys" && len(l) == 1 {
			return "(BContinue " + cpKeys(s.Rhs[0]) + ")"
		}
	}
	fail("concurrentPath: statement %T is outside the translated subset", l[0])
	return ""
}

func genParallelize(repo string) string {
	const file = "compiler/optimizer/parallelize.go"
	fset := token.NewFileSet()
	f, err := parser.ParseFile(fset, filepath.Join(repo, file), nil, 0)
	if err != nil {
		fail("%v", err)
	}
	var fd *ast.FuncDecl
	for _, d := range f.Decls {
		if x, ok := d.(*ast.FuncDecl); ok && x.Name.Name == "concurrentPath" && x.Recv != nil {
			fd = x
		}
	}
	if fd == nil {
		fail("method concurrentPath not found in %s", file)
	}
	ps := fd.Type.Params.List
	if len(ps) != 2 || identName(ps[0].Names[0]) != "ops" || identName(ps[1].Names[0]) != "sortKeys" || identName(fd.Recv.List[0].Names[0]) != "o" {
		fail("concurrentPath: unexpected signature")
	}
	if len(fd.Body.List) != 2 {
		fail("concurrentPath: body is not `for ... { switch }; return`")
	}
	loop, ok := fd.Body.List[0].(*ast.RangeStmt)
	if !ok || identName(loop.Key) != "k" || loop.Value != nil || identName(loop.X) != "ops" || len(loop.Body.List) != 1 {
		fail("concurrentPath: first statement is not `for k := range ops { switch }`")
	}
	sw, ok := loop.Body.List[0].(*ast.TypeSwitchStmt)
	if !ok || sw.Init != nil {
		fail("concurrentPath: loop body is not a type switch")
	}
	as, ok := sw.Assign.(*ast.AssignStmt)
	okSw := false
	if ok && len(as.Lhs) == 1 && identName(as.Lhs[0]) == "op" && len(as.Rhs) == 1 {
		if ta, ok := as.Rhs[0].(*ast.TypeAssertExpr); ok && ta.Type == nil {
			if ix, ok := ta.X.(*ast.IndexExpr); ok && identName(ix.X) == "ops" && identName(ix.Index) == "k" {
				okSw = true
			}
		}
	}
	if !okSw {
		fail("concurrentPath: the switch is not `switch op := ops[k].(type)`")
	}
	final, ok := fd.Body.List[1].(*ast.ReturnStmt)
	if !ok || len(final.Results) != 5 || identName(final.Results[4]) != "nil" {
		fail("concurrentPath: last statement is not a 5-result return with nil error")
	}
	if c, ok := isCall(final.Results[0], "len", 1); !ok || identName(c.Args[0]) != "ops" {
		fail("concurrentPath: final return does not return len(ops)")
	}
	cases := map[string]string{}
	def := ""
	for _, st := range sw.Body.List {
		cc := st.(*ast.CaseClause)
		body := cpStmts(cc.Body)
		if cc.List == nil {
			def = body
			continue
		}
		for _, l := range cc.List {
			k := cpKind(l)
			if _, dup := cases[k]; dup {
				fail("concurrentPath: duplicate case %s", k)
			}
			cases[k] = body
		}
	}
	if def == "" {
		fail("concurrentPath: no default clause")
	}
	var sb strings.Builder
	sb.WriteString("(* GENERATED by /verif/go2coq from the repository's Go source on every run of bin/check.\n   Do not edit: the proofs in Proofs/ParallelizeGenProofs.v are re-checked against this text. *)\n")
	sb.WriteString("From ZV Require Import Base.Prelude Model.CpTable.\n\n")
	fmt.Fprintf(&sb, "(* %s:%d  func (o *Optimizer) concurrentPath: the type switch of its loop *)\n", file, fset.Position(fd.Pos()).Line)
	sb.WriteString("Definition gen_concurrentPath_case (k : cp_kind) : cp_body :=\n  match k with\n")
	for _, k := range cpKinds {
		if b, ok := cases["K"+k]; ok {
			fmt.Fprintf(&sb, "  | K%s => %s\n", k, b)
		}
	}
	fmt.Fprintf(&sb, "  | _ => %s  (* default *)\n  end.\n\n", def)
	fmt.Fprintf(&sb, "(* the return after the loop: len(ops), keys, orderRequired, needMerge *)\nDefinition gen_concurrentPath_final : cp_keys * bool * bool := (%s, %s, %s).\n",
		cpKeys(final.Results[1]), cpBool(final.Results[2]), cpBool(final.Results[3]))
	return sb.String()
}
