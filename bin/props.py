# Per-property configuration for bin/check.
COMMON_TB = [
    "correspondence harness zvh (Go, /verif/harness): calls the named entry points of /repo's working tree and canonicalises outputs",
    "the executable Gallina model is tied to the code by evaluating it (vm_compute) on the same cases the implementation ran; no extraction, no Extract Constant",
]

PROPS = {
    "C16": {
        "cmd": "c16",
        "props": "Props/C16.v",
        "caselibs": ["Model/PrunerCases.v"],
        "trusted_base": COMMON_TB + [
            "modelled, not verified: key domain restricted to int64/string/null/missing; expression evaluation of non-key sub-predicates is an arbitrary oracle (POther); object metadata accuracy (min <= key <= max) is a hypothesis here and C14's obligation",
        ],
        "level_text": "Proof: for every filter predicate built from key/literal comparisons, and/or/not and arbitrary opaque sub-predicates, every key range and every key in it, a 'prune' verdict of the synthesised range pruner implies the filter is not true (C16_pruner_sound), hence pruned scan + filter = full scan + filter for any object list with accurate metadata (C16_pruned_scan_eq). The model (buildRangePruner, rangePrunerPred, reverseComparator, compare(), Compare/Equal/And/Or/Not evaluation incl. the constant-RHS fast path) is tied to the code by evaluating it in Coq on every predicate up to depth 2 over a 9-value key domain against the real optimizer and kernel (exhaustive in the thorough tier), and the spec is run as an oracle on real lakes (pruned query and delete-where vs full scan).",
        "level_note": "Trusted: Coq kernel; the harness; the model covers int64/string/null/missing keys only (floats, other key types and multi-key pools are exercised only by the lake-level differential runs); metadata accuracy is assumed here (C14).",
        "assumptions": ["Go runtime, zson parser and kernel builder behave as exercised", "object min/max metadata is accurate (checked by C14)"],
    },
}
