# Per-property configuration for bin/check: one JSON file per property in bin/props.d/.
import glob, json, os
COMMON_TB = [
    "correspondence harness zvh (Go, /verif/harness): calls the named entry points of /repo's working tree and canonicalises outputs",
    "the executable Gallina model is tied to the code by evaluating it (vm_compute) on the same cases the implementation ran; no extraction, no Extract Constant",
]
PROPS = {}
for f in sorted(glob.glob(os.path.join(os.path.dirname(os.path.abspath(__file__)), "props.d", "C*.json"))):
    pid = os.path.basename(f)[:-5]
    c = json.load(open(f))
    c["trusted_base"] = COMMON_TB + c.get("trusted_base", [])
    PROPS[pid] = c
NOT_APPLICABLE = {}
