(* C15  Merge and revert have exact, conflict-safe semantics.  Statements only. *)
From ZV Require Import Base.Prelude Model.Merge Proofs.MergeProofs.

(* If the merge object can be built (no conflict), it replays on the parent's
   tip — so the parent stays readable — and the parent then holds exactly its
   previous objects plus what the child added since the common base minus what
   the child deleted since then.  Holds for all well-formed patches over a
   common base, i.e. all branch histories. *)
Theorem C15_merge_exact :
  forall parent child acts,
    wf_patch parent = true -> wf_patch child = true -> pbase parent = pbase child ->
    diff parent child = Some acts ->
    exists tip', play (pview parent) acts = Some tip' /\ nodup tip' = true /\
      forall x, mem x tip' = (mem x (pview parent) && negb (mem x (pdel child))) || mem x (pdiff child).
Proof. exact merge_exact. Qed.
Print Assumptions C15_merge_exact.

(* Reverting a commit: the revert object replays on the tip, removes what the
   commit added (if still present) and restores what it deleted (if absent). *)
Theorem C15_revert_exact :
  forall p tip acts,
    wf_patch p = true -> nodup tip = true -> revert p tip = Some acts ->
    exists tip', play tip acts = Some tip' /\ nodup tip' = true /\
      forall x, mem x tip' = (mem x tip && negb (mem x (pdiff p))) || mem x (pdel p).
Proof. exact revert_exact. Qed.
Print Assumptions C15_revert_exact.

(* Reverting the revert restores the prior contents. *)
Theorem C15_revert_revert_id :
  forall p tip acts tip',
    wf_patch p = true -> nodup tip = true ->
    revert p tip = Some acts -> play tip acts = Some tip' ->
    let pr := {| pbase := tip;
                 pdiff := filter (fun x => negb (mem x tip)) (pdel p);
                 pdel := filter (fun x => mem x tip) (pdiff p) |} in
    wf_patch pr = true /\
    exists acts2 tip'', revert pr tip' = Some acts2 /\ play tip' acts2 = Some tip'' /\
                       forall x, mem x tip'' = mem x tip.
Proof. exact revert_revert_id. Qed.
Print Assumptions C15_revert_revert_id.

(* Patches computed from replayable commit logs are well formed and denote the
   replayed snapshot (the hypothesis of the theorems above is met by every
   branch history the lake can produce). *)
Theorem C15_replayable_log_patch :
  forall acts p s s' p',
    wf_patch p = true -> (forall x, mem x s = mem x (pview p)) ->
    play s acts = Some s' -> pplay p acts = Some p' ->
    wf_patch p' = true /\ pbase p' = pbase p /\ forall x, mem x s' = mem x (pview p').
Proof. exact replayable_log_patch. Qed.
Print Assumptions C15_replayable_log_patch.
