(* C13  A commit is an immutable snapshot; readers are isolated from writers.
   Statements only. *)
From ZV Require Import Base.Prelude Model.Merge Model.Commits Proofs.CommitsProofs.

(* The data visible at a commit never changes, for every sequence of later
   storage writes (commit objects and data objects are write-once under fresh
   ids; branch pointers may move or disappear freely). *)
Theorem C13_commit_immutable :
  forall s fuel c r (ws : list wstep),
    read_commit s fuel c = Some r -> read_commit (fold_left wapply ws s) fuel c = Some r.
Proof. exact commit_immutable. Qed.
Print Assumptions C13_commit_immutable.

(* A query resolves its pool reference to one commit when it starts and sees
   exactly that commit's data, for every placement of writers' storage steps
   before its snapshot read and between its successive object reads. *)
Theorem C13_reader_isolated :
  forall s fuel b c r before sched,
    assoc b (branches s) = Some c ->
    read_commit s fuel c = Some r ->
    reader s fuel b before sched = Some r.
Proof. exact reader_isolated. Qed.
Print Assumptions C13_reader_isolated.

(* Two queries that start after a commit is acknowledged both see it. *)
Theorem C13_read_your_commit :
  forall s fuel b c r ws1 ws2 sched1 sched2,
    assoc b (branches s) = Some c ->
    read_commit s fuel c = Some r ->
    reader s fuel b ws1 sched1 = Some r /\ reader s fuel b ws2 sched2 = Some r.
Proof. exact read_your_commit. Qed.
Print Assumptions C13_read_your_commit.
