(* C05  Types are canonical within a context and portable across contexts.
   Statements only; each is closed by [exact] of a lemma from Proofs/. *)
From ZV Require Import Base.Prelude Base.Types Base.TypeValue Base.TypeOrder Model.Ctx
     Proofs.TypeValueProofs Proofs.CtxProofs Proofs.TypeOrderProofs.
Local Open Scope N_scope.

(* --- the serialized type value is a pure, injective function of structure --- *)

(* Decoding the serialization of any type (implemented primitives, <= 100000
   fields/members/symbols, name lengths <= MaxInt32: [wf]) gives back that type and exactly the trailing
   bytes, whatever names the decoding context has bound ([D] arbitrary):
   name-def on first occurrence, name-ref afterwards, rebinding included. *)
Theorem C05_type_value_roundtrip :
  forall t, wf t -> noref t = true ->
  forall (D : tdefs) (rest : bytes), decode D (encode t ++ rest) = Some (t, rest).
Proof. exact decode_encode. Qed.
Print Assumptions C05_type_value_roundtrip.

Theorem C05_type_value_injective :
  forall a b, wf a -> wf b -> noref a = true -> noref b = true -> encode a = encode b -> a = b.
Proof. exact encode_inj. Qed.
Print Assumptions C05_type_value_injective.

Theorem C05_type_value_prefix_free :
  forall a b rest, wf a -> wf b -> noref a = true -> noref b = true ->
  encode a ++ rest = encode b -> a = b /\ rest = [].
Proof. exact encode_prefix_free. Qed.
Print Assumptions C05_type_value_prefix_free.

(* the byte-level syntax alone (with reference nodes) also round-trips *)
Theorem C05_type_value_syntax_roundtrip :
  forall t rest, wf t -> parse_tv (unparse t ++ rest) = Some (t, rest).
Proof. exact (fun t rest W => parse_tv_unparse t rest W). Qed.
Print Assumptions C05_type_value_syntax_roundtrip.

(* --- canonicity of the table --- *)

(* After ANY history of atomic steps - LookupType* critical sections with
   arbitrary arguments and LookupByValue's map updates with arbitrary bytes, in
   any order - no two ids of the context hold the same structure. *)
Theorem C05_no_duplicate_types_any_history :
  forall l : list atom, NoDup (types (run empty l)).
Proof. exact (fun l => proj1 (no_duplicate_types l)). Qed.
Print Assumptions C05_no_duplicate_types_any_history.

Theorem C05_no_duplicate_types_concurrent :
  forall (threads : list (list atom)) (l : list atom),
    interleave threads l -> NoDup (types (run empty l)).
Proof. exact no_duplicate_types_concurrent. Qed.
Print Assumptions C05_no_duplicate_types_concurrent.

(* For histories of LookupType* calls (creation by fields) in any order: two
   calls return the same id exactly when they asked for the same structure. *)
Theorem C05_same_structure_same_id :
  forall l i j ti tj a b,
    Forall okty l ->
    nth_error l i = Some ti -> nth_error l j = Some tj ->
    nth_error (snd (lookups empty l)) i = Some (Some a) ->
    nth_error (snd (lookups empty l)) j = Some (Some b) ->
    (a = b <-> ti = tj).
Proof. exact same_structure_same_id. Qed.
Print Assumptions C05_same_structure_same_id.

(* ... in particular for every interleaving of the critical sections of any
   number of goroutines *)
Theorem C05_same_structure_same_id_concurrent :
  forall (threads : list (list ty)) l i j ti tj a b,
    interleave threads l -> Forall okty l ->
    nth_error l i = Some ti -> nth_error l j = Some tj ->
    nth_error (snd (lookups empty l)) i = Some (Some a) ->
    nth_error (snd (lookups empty l)) j = Some (Some b) ->
    (a = b <-> ti = tj).
Proof. exact same_structure_same_id_concurrent. Qed.
Print Assumptions C05_same_structure_same_id_concurrent.

(* every call is answered by the id that denotes the requested structure, and
   the reachable states satisfy the full invariant *)
Theorem C05_lookups_canonical :
  forall l c, Canon c -> Forall okty l ->
    Canon (fst (lookups c l)) /\ extends c (fst (lookups c l)) /\
    Forall2 (answered (fst (lookups c l))) l (snd (lookups c l)).
Proof. exact lookups_canon. Qed.
Print Assumptions C05_lookups_canonical.

Theorem C05_ids_injective :
  forall c a b t, Canon c -> denote c a = Some t -> denote c b = Some t -> a = b.
Proof. exact ids_injective. Qed.
Print Assumptions C05_ids_injective.

(* the same for histories of whole operations of the model (by fields,
   LookupByValue / TranslateType, DecodeTypeValue with arbitrary arguments) *)
Theorem C05_no_duplicate_types_any_operations :
  forall ops : list op, NoDup (types (exec empty ops)).
Proof. exact exec_no_duplicate_types. Qed.
Print Assumptions C05_no_duplicate_types_any_operations.

(* --- the stored type value --- *)

(* Whatever operations ran (LookupByValue with any bytes included), the stored
   type value of every id is the serialization of the id's structure; whatever
   runs afterwards, the id keeps its structure and its stored value. *)
Theorem C05_type_value_pure_and_stable :
  forall (ops1 ops2 : list op) i t,
    nth_error (types (exec empty ops1)) i = Some t ->
    assocN (30 + N.of_nat i) (toValue (exec empty ops1)) = Some (encode t) /\
    nth_error (types (exec empty (ops1 ++ ops2))) i = Some t /\
    assocN (30 + N.of_nat i) (toValue (exec empty (ops1 ++ ops2))) = Some (encode t).
Proof. exact type_value_pure_and_stable. Qed.
Print Assumptions C05_type_value_pure_and_stable.

(* ... and for every sequence of atomic steps, i.e. every interleaving of the
   critical sections of concurrently running operations *)
Theorem C05_type_value_pure_and_stable_any_interleaving :
  forall (l1 l2 : list atom) i t,
    nth_error (types (run empty l1)) i = Some t ->
    assocN (30 + N.of_nat i) (toValue (run empty l1)) = Some (encode t) /\
    nth_error (types (run empty (l1 ++ l2))) i = Some t /\
    assocN (30 + N.of_nat i) (toValue (run empty (l1 ++ l2))) = Some (encode t).
Proof. exact type_value_pure_and_stable_atoms. Qed.
Print Assumptions C05_type_value_pure_and_stable_any_interleaving.

(* --- the structural type order --- *)

(* CompareTypes returns 0 exactly for equal types *)
Theorem C05_compare_zero_iff_equal :
  forall a b, noref a = true -> noref b = true -> (cmp a b = Eq <-> a = b).
Proof. exact cmp_eq_iff. Qed.
Print Assumptions C05_compare_zero_iff_equal.

(* --- what remains false (known finding F-C05-1) --- *)

(* A name reference is resolved through the context's single typedefs map:
   after goroutine 1 defined foo=int64 and goroutine 2 defined foo=string,
   goroutine 1's reference to foo denotes goroutine 2's type. *)
Theorem C05_name_ref_interleaving_refuted :
  exists c1 c2 t,
    c1 = fst (build empty (TNamed foo i64)) /\
    c2 = fst (build c1 (TNamed foo str25)) /\
    option_map fst (snd (build c2 (TRef foo))) = Some t /\ t <> TNamed foo i64.
Proof. exact name_ref_interleaving_refuted. Qed.
Print Assumptions C05_name_ref_interleaving_refuted.
