(* C06  Value ordering is a total preorder; sort and merge honour it at any memory limit.
   Statements only; each is closed by [exact] of a lemma from Proofs/.

   Model: Model/Order.v (compareValues, compareNumbers with the exact
   integer/float comparison compareExact, CompareTypes, Comparator.Compare, the
   less closure of sortStableIndices) and Model/Sort.v (sort.Op run splitting,
   spill.MergeSort, merge.Op).
   The only hypothesis on values is well-formedness [all_nums num_wf]: every
   integer, at any nesting depth, lies in the range of its 64-bit encoding (the
   model's Z and N are unbounded; every decoded ZNG value satisfies it). *)
From Coq Require Import Sorting.Permutation Sorting.Sorted.
From ZV Require Import Base.Prelude Base.Num Model.Order Model.Sort
     Proofs.OrderProofs Proofs.SortProofs Proofs.SortRowsProofs.
Local Open Scope Z_scope.

Local Notation wf_v := (all_nums num_wf).
(* rows of well-formed key values *)
Local Notation rows_wf l := (Forall (fun r : irow => Forall wf_v (snd r)) l).
Local Notation le_rows nm ks := (fun a b : irow => lt_rows nm ks (snd b) (snd a) = false).
Local Notation less nm ks := (fun a b : irow => lt_rows nm ks (snd a) (snd b)).

(* 1. compareValues: antisymmetric and reflexive on ALL modelled values *)
Theorem C06_compare_antisymmetric :
  forall nm a b, cmp_to_Z (cmpv nm b a) = - cmp_to_Z (cmpv nm a b).
Proof. exact cmpv_antisym_Z. Qed.
Print Assumptions C06_compare_antisymmetric.

Theorem C06_compare_reflexive : forall nm a, cmp_to_Z (cmpv nm a a) = 0.
Proof. exact cmpv_refl_Z. Qed.
Print Assumptions C06_compare_reflexive.

(* ... and transitive: integers of any magnitude against floats, NaN, +-Inf, -0,
   durations/times, nested arrays/sets, nulls first or last *)
Theorem C06_compare_transitive :
  forall nm a b c,
    wf_v a -> wf_v b -> wf_v c ->
    cmp_to_Z (cmpv nm a b) <= 0 -> cmp_to_Z (cmpv nm b c) <= 0 -> cmp_to_Z (cmpv nm a c) <= 0.
Proof. exact cmpv_trans_Z. Qed.
Print Assumptions C06_compare_transitive.

(* 2. Comparator.Compare (1..n keys, asc/desc, nulls first/last, missing as null) *)
Theorem C06_comparator_antisymmetric :
  forall nm ks ra rb,
    cmp_to_Z (compare_rows nm ks rb ra) = - cmp_to_Z (compare_rows nm ks ra rb).
Proof. exact compare_rows_antisym_Z. Qed.
Print Assumptions C06_comparator_antisymmetric.

Theorem C06_comparator_transitive :
  forall nm ks ra rb rc,
    Forall wf_v ra -> Forall wf_v rb -> Forall wf_v rc ->
    cmp_to_Z (compare_rows nm ks ra rb) <= 0 -> cmp_to_Z (compare_rows nm ks rb rc) <= 0 ->
    cmp_to_Z (compare_rows nm ks ra rc) <= 0.
Proof. exact compare_rows_trans_Z. Qed.
Print Assumptions C06_comparator_transitive.

(* 3. the bulk sorter's less closure (native int64 table, clamped uint64 and
   null sentinels, fall-through on sentinel collisions) = (Compare < 0),
   whether or not the native path is taken *)
Theorem C06_bulk_less_agrees_with_compare :
  forall nm native ks ra rb,
    in_range (hd vnull ra) -> in_range (hd vnull rb) ->
    less_rows nm native true ks ra rb = lt_rows nm ks ra rb.
Proof. exact less_rows_agrees. Qed.
Print Assumptions C06_bulk_less_agrees_with_compare.

(* 4. the sort operator = the stable sort of all its input, for EVERY memory
   limit, batch structure and flag combination *)
Theorem C06_sort_is_stable_sort_at_any_memory_limit :
  forall nullsFirst reverse descs mem (bs : list (Z * list irow)),
    let ks := eff_keys reverse descs in
    let nm := eff_nullsmax nullsFirst ks in
    rows_wf (List.concat (map snd bs)) ->
    sort_op_rows nm ks mem bs = stable_sort (less nm ks) (List.concat (map snd bs)).
Proof. exact sort_any_memory_limit. Qed.
Print Assumptions C06_sort_is_stable_sort_at_any_memory_limit.

Theorem C06_sort_output_independent_of_memory_limit :
  forall nm ks mem1 mem2 (bs1 bs2 : list (Z * list irow)),
    List.concat (map snd bs1) = List.concat (map snd bs2) ->
    rows_wf (List.concat (map snd bs1)) ->
    sort_op_rows nm ks mem1 bs1 = sort_op_rows nm ks mem2 bs2.
Proof. exact sort_spill_invariant. Qed.
Print Assumptions C06_sort_output_independent_of_memory_limit.

(* spill.MergeSort: stable-sorted runs merged by (Compare, run ordinal) = stable
   sort of the concatenation, for EVERY placement of the run boundaries *)
Theorem C06_external_merge_sort_any_run_boundaries :
  forall nm ks (runs : list (list irow)),
    rows_wf (List.concat runs) ->
    ext_sort (less nm ks) (sort_run nm ks) runs = stable_sort (less nm ks) (List.concat runs).
Proof. exact external_sort_any_runs. Qed.
Print Assumptions C06_external_merge_sort_any_run_boundaries.

(* ... and that stable sort is a permutation, non-decreasing, and keeps
   equivalent values in input order *)
Theorem C06_stable_sort_is_sorted_stable_permutation :
  forall nm ks (l : list irow),
    rows_wf l ->
    Permutation (stable_sort (less nm ks) l) l /\
    StronglySorted (le_rows nm ks) (stable_sort (less nm ks) l) /\
    (forall x, In x l ->
       filter (eqvb (less nm ks) x) (stable_sort (less nm ks) l) = filter (eqvb (less nm ks) x) l).
Proof. exact stable_sort_spec. Qed.
Print Assumptions C06_stable_sort_is_sorted_stable_permutation.

(* 5. merge operator: any execution that repeatedly emits a prefix of one
   parent whose last value does not exceed any other parent's head yields a
   sorted permutation of the (sorted) inputs *)
Theorem C06_kway_merge_sorted_permutation :
  forall nm ks (parents : list (list irow)) out,
    rows_wf (List.concat parents) ->
    Forall (StronglySorted (le_rows nm ks)) parents ->
    kmerge (less nm ks) parents out ->
    Permutation out (List.concat parents) /\ StronglySorted (le_rows nm ks) out.
Proof. exact kmerge_spec. Qed.
Print Assumptions C06_kway_merge_sorted_permutation.
