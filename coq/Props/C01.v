(* C01  ZNG binary stream round trip is the identity.
   Statements only; each is closed by [exact] of a lemma from Base/ or Proofs/. *)
From ZV Require Import Base.Prelude Base.Uvarint Base.Zcode Model.Zng Proofs.ZngProofs Proofs.ZngTypeProofs.
Local Open Scope N_scope.

(* uvarint (binary.AppendUvarint / ReadUvarint): every uint64 decodes to itself,
   whatever follows it *)
Theorem C01_uvarint_roundtrip :
  forall n rest, n < 2 ^ 64 -> read_uvarint (uvarint n ++ rest) = Some (n, rest).
Proof. exact uvarint_roundtrip. Qed.
Print Assumptions C01_uvarint_roundtrip.

(* ... and the code is prefix-free *)
Theorem C01_uvarint_prefix_free :
  forall a b r1 r2, a < 2 ^ 64 -> b < 2 ^ 64 ->
    uvarint a ++ r1 = uvarint b ++ r2 -> a = b /\ r1 = r2.
Proof. exact uvarint_prefix_free. Qed.
Print Assumptions C01_uvarint_prefix_free.

(* zcode.SizeOfUvarint (used for the compressed frame header) is the encoded length *)
Theorem C01_uvarint_size :
  forall n, len (uvarint n) = size_of_uvarint n.
Proof. exact uvarint_size. Qed.
Print Assumptions C01_uvarint_size.

(* zcode tag encoding: null (None), the empty body and every other body decode to themselves *)
Theorem C01_zcode_roundtrip :
  forall body rest, body_ok body -> read_tagged (zappend body ++ rest) = Some (body, rest).
Proof. exact zcode_roundtrip. Qed.
Print Assumptions C01_zcode_roundtrip.

Theorem C01_zcode_null_vs_empty :
  zappend None <> zappend (Some []) /\
  (forall rest, read_tagged (zappend None ++ rest) = Some (None, rest)) /\
  (forall rest, read_tagged (zappend (Some []) ++ rest) = Some (Some [], rest)).
Proof. exact zcode_null_vs_empty. Qed.
Print Assumptions C01_zcode_null_vs_empty.

Theorem C01_zcode_injective :
  forall b1 b2 r1 r2, body_ok b1 -> body_ok b2 ->
    zappend b1 ++ r1 = zappend b2 ++ r2 -> b1 = b2 /\ r1 = r2.
Proof. exact zcode_injective. Qed.
Print Assumptions C01_zcode_injective.

(* typedef syntax (record, array, set, map, union, enum, error, named): a
   types-frame payload decodes to the typedefs that were encoded *)
Theorem C01_typedefs_roundtrip :
  forall ds, Forall tdef_wf ds -> dec_tdefs (enc_tdefs ds) = Some ds.
Proof. exact tdefs_roundtrip. Qed.
Print Assumptions C01_typedefs_roundtrip.

(* a values-frame payload decodes to the (type id, body) sequence that was encoded *)
Theorem C01_values_roundtrip :
  forall vs, Forall val_wf vs -> dec_vals (enc_vals vs) = Some vs.
Proof. exact vals_roundtrip. Qed.
Print Assumptions C01_values_roundtrip.

(* One writer: for EVERY frame threshold, compression on or off, every
   placement of EndStream and control messages, the reader delivers exactly the
   streams the operations describe: same typedefs, same (type id, body) items,
   same order, stream boundaries where an EndStream followed content. *)
Theorem C01_stream_roundtrip :
  forall (lz4c : bytes -> option bytes) (lz4d : bytes -> N -> option bytes),
    (forall b z, lz4c b = Some z -> lz4d z (len b) = Some b) ->
    (forall b z, lz4c b = Some z -> len z <= len b) ->
    forall (compress : bool) (thresh : N) (ops : list op),
      ops_wf ops ->
      parse lz4d (write lz4c compress thresh ops) = Some (streams_of ops).
Proof. exact zng_roundtrip. Qed.
Print Assumptions C01_stream_roundtrip.

(* Concatenation of any number of independently written streams, each with its
   own options, parses to the concatenation. *)
Theorem C01_concat_roundtrip :
  forall (lz4c : bytes -> option bytes) (lz4d : bytes -> N -> option bytes),
    (forall b z, lz4c b = Some z -> lz4d z (len b) = Some b) ->
    (forall b z, lz4c b = Some z -> len z <= len b) ->
    forall l : list wcase,
      Forall (fun c => ops_wf (snd c)) l ->
      parse lz4d (flat_map (wcase_bytes lz4c) l) = Some (flat_map wcase_streams l).
Proof. exact zng_concat. Qed.
Print Assumptions C01_concat_roundtrip.

(* ... and, flattened over the streams, the reader's items are the written
   values and control messages in write order, its typedefs the emitted typedefs in order *)
Theorem C01_items_in_order :
  forall (lz4c : bytes -> option bytes) (lz4d : bytes -> N -> option bytes),
    (forall b z, lz4c b = Some z -> lz4d z (len b) = Some b) ->
    (forall b z, lz4c b = Some z -> len z <= len b) ->
    forall l : list wcase,
      Forall (fun c => ops_wf (snd c)) l ->
      exists ss, parse lz4d (flat_map (wcase_bytes lz4c) l) = Some ss /\
                 flat_map snd ss = flat_map (fun c => flat_map item_of (snd c)) l /\
                 flat_map fst ss = flat_map (fun c => flat_map defs_of (snd c)) l.
Proof. exact zng_items_in_order. Qed.
Print Assumptions C01_items_in_order.

(* Type ids.  Writer (Encoder + its local zed.Context) and reader (Decoder + its
   local zed.Context) both build their id table by interning the same typedef
   sequence (C01_items_in_order), typedef by typedef: *)
Theorem C01_table_step :
  forall ds d, intern_all (ds ++ [d]) = fst (intern (intern_all ds) d).
Proof. exact intern_all_snoc. Qed.
Print Assumptions C01_table_step.

(* the id handed out for a typedef (>= 30) denotes that typedef in the table,
   and the table only grows at its end *)
Theorem C01_intern_lookup :
  forall tbl d,
    30 <= snd (intern tbl d) /\
    nth_error (fst (intern tbl d)) (N.to_nat (snd (intern tbl d) - 30)) = Some d /\
    exists ext, fst (intern tbl d) = tbl ++ ext.
Proof. exact intern_lookup. Qed.
Print Assumptions C01_intern_lookup.

(* ids handed out earlier keep their meaning; a typedef seen again gets its old
   id (duplicate typedefs, e.g. for equal types of different contexts, are harmless) *)
Theorem C01_intern_stable :
  forall tbl d j x, nth_error tbl j = Some x -> nth_error (fst (intern tbl d)) j = Some x.
Proof. exact intern_stable. Qed.
Print Assumptions C01_intern_stable.

Theorem C01_intern_existing :
  forall tbl d, In d tbl -> fst (intern tbl d) = tbl /\ snd (intern tbl d) < 30 + len tbl.
Proof. exact intern_existing. Qed.
Print Assumptions C01_intern_existing.

(* the hypotheses are satisfiable *)
Theorem C01_nonvacuous :
  ops_wf ex_ops /\
  parse (fun _ _ => None) (write (fun _ => None) false 1 ex_ops) = Some (streams_of ex_ops) /\
  List.length (streams_of ex_ops) = 2%nat.
Proof. exact (conj ex_ops_wf ex_roundtrip). Qed.
Print Assumptions C01_nonvacuous.
