(* C10  Aggregation and join agree with naive evaluation at any memory limit.
   Statements only; each is closed by [exact] of a lemma from Proofs/. *)
From ZV Require Import Base.Prelude Model.Agg Proofs.AggProofs.
From Coq Require Import Permutation.

(* The group-by operator (table with limit, spill of sorted runs, stable merge,
   re-combination of adjacent records whose keys compare equal) emits, for every
   table limit (0..k spills) and every input, exactly one row per distinct key
   (same type and value) holding the aggregates over exactly that key's records
   -- on inputs whose keys compare equal only when they are identical. *)
Theorem C10_groupby_any_limit :
  forall (limit : N) (xs : list rec_in),
    cmp_faithful key_cmp (to_rows xs) ->
    Permutation (groupby_model limit xs) (naive_groupby xs).
Proof. exact groupby_model_correct. Qed.
Print Assumptions C10_groupby_any_limit.

(* ... hence the result depends neither on the order of the input nor on the limit. *)
Theorem C10_groupby_order_and_limit_independent :
  forall (l1 l2 : N) (xs ys : list rec_in),
    Permutation xs ys -> cmp_faithful key_cmp (to_rows xs) ->
    Permutation (groupby_model l1 xs) (groupby_model l2 ys).
Proof. exact groupby_model_order_limit_independent. Qed.
Print Assumptions C10_groupby_order_and_limit_independent.

(* The guard is necessary: the model of the code as it is merges distinct keys
   that merely compare equal once it spills (1:int64 / 1:uint64, limit 1); the
   same input is observed on the real operator by the harness. *)
Theorem C10_groupby_spill_refuted :
  exists limit xs, ~ Permutation (groupby_model limit xs) (naive_groupby xs).
Proof. exact groupby_spill_refuted. Qed.
Print Assumptions C10_groupby_spill_refuted.

(* The same statement for any key type with a total-preorder comparator and any
   aggregation whose partial form is a commutative monoid. *)
Theorem C10_groupby_generic :
  forall (K S : Type) (keqb : K -> K -> bool),
    (forall a b, keqb a b = true <-> a = b) ->
    forall kcmp : K -> K -> comparison,
      (forall a, kcmp a a = Eq) ->
      (forall a b, kcmp b a = CompOpp (kcmp a b)) ->
      (forall a b c, kcmp a b <> Gt -> kcmp b c <> Gt -> kcmp a c <> Gt) ->
      forall (op : S -> S -> S) (e : S),
        (forall a b c, op a (op b c) = op (op a b) c) ->
        (forall a b, op a b = op b a) ->
        (forall a, op e a = a) ->
        forall (limit : N) (xs : list (K * S)),
          cmp_faithful kcmp xs ->
          Permutation (groupby keqb kcmp op e limit xs) (groupby_spec keqb op e xs).
Proof. exact groupby_correct. Qed.
Print Assumptions C10_groupby_generic.

(* Partial results compose: consuming the partial results of the parts of any
   split of the input (count, sum, min, max, avg as (sum,count), and, or; typed
   and untyped nulls, missing arguments) equals consuming the whole input. *)
Theorem C10_partial_compose :
  forall splits : list (list (aval * bval)),
    fold_left st_op (map (fun part => consume_all part st0) splits) st0
    = consume_all (List.concat splits) st0.
Proof. exact partial_compose. Qed.
Print Assumptions C10_partial_compose.

(* Consume of a record is ConsumeAsPartial of its one-record partial, and the
   partial form is a commutative monoid (what the spill path and the
   partials-in consumer rely on). *)
Theorem C10_partials_form_commutative_monoid :
  (forall s a b, st_consume s a b = st_op s (st_inj a b)) /\
  (forall a b c, st_op a (st_op b c) = st_op (st_op a b) c) /\
  (forall a b, st_op a b = st_op b a) /\
  (forall a, st_op st0 a = a).
Proof. exact (conj st_consume_op (conj st_op_assoc (conj st_op_comm st_op_e))). Qed.
Print Assumptions C10_partials_form_commutative_monoid.

(* The key comparator is a total preorder (needed by the merge). *)
Theorem C10_key_order_total_preorder :
  (forall a, key_cmp a a = Eq) /\
  (forall a b, key_cmp b a = CompOpp (key_cmp a b)) /\
  (forall a b c, key_cmp a b <> Gt -> key_cmp b c <> Gt -> key_cmp a c <> Gt).
Proof. exact (conj key_cmp_refl (conj (fun a b => key_cmp_antisym a b) (fun a b c => key_cmp_trans a b c))). Qed.
Print Assumptions C10_key_order_total_preorder.

(* ---- join *)
From ZV Require Import Model.Join Proofs.JoinProofs.
From Coq Require Import Sorting.Sorted.

(* Over inputs sorted by the join key (any comparator that is a total preorder,
   so numerically equal keys of different types and nulls match as the operator
   compares them), the merge walk with its cached join set emits exactly the
   nested-loop join, in the same order, for inner, left and anti joins. *)
Theorem C10_join_sorted_inputs :
  forall (K L R : Type) (kcmp : K -> K -> comparison),
    (forall a, kcmp a a = Eq) ->
    (forall a b, kcmp b a = CompOpp (kcmp a b)) ->
    (forall a b c, kcmp a b <> Gt -> kcmp b c <> Gt -> kcmp a c <> Gt) ->
    forall (lkey : L -> K) (rkey : R -> K) (kd : jkind) (ls : list L) (rs : list R),
      StronglySorted (fun x y => kcmp (lkey x) (lkey y) <> Gt) ls ->
      StronglySorted (fun x y => kcmp (rkey x) (rkey y) <> Gt) rs ->
      walk kcmp lkey rkey kd ls rs None = nested kcmp lkey rkey kd ls rs.
Proof. exact join_sorted_inputs. Qed.
Print Assumptions C10_join_sorted_inputs.

(* With the sorts the operator inserts in front of unsorted inputs, the result is
   the nested-loop join as a multiset, whatever the order of the inputs. *)
Theorem C10_join_any_order :
  forall (kd : jkind) (ls rs : list jrec),
    Permutation (join_atoms kd ls rs) (nested_atoms kd ls rs).
Proof. exact join_atoms_correct. Qed.
Print Assumptions C10_join_any_order.
