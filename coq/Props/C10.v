(* C10  Aggregation and join agree with naive evaluation at any memory limit.
   Statements only; each is closed by [exact] of a lemma from Proofs/. *)
From ZV Require Import Base.Prelude Model.Agg Proofs.AggProofs Model.Join Proofs.JoinProofs.
From Coq Require Import Permutation Sorting.Sorted.

(* The group-by operator (table with limit, spill of stably sorted runs, stable
   merge, re-combination of adjacent records whose keys the spill comparator
   cannot tell apart) emits, for every table limit (0..k spills) and every
   input, exactly one row per distinct key (same type and value) holding the
   aggregates over exactly that key's records.  Keys may be of mixed types,
   numerically equal values of different types, nulls of any type, missing. *)
Theorem C10_groupby_any_limit :
  forall (limit : N) (xs : list rec_in),
    Permutation (groupby_model limit xs) (naive_groupby xs).
Proof. exact groupby_model_correct. Qed.
Print Assumptions C10_groupby_any_limit.

(* ... hence the result depends neither on the order of the input nor on the limit. *)
Theorem C10_groupby_order_and_limit_independent :
  forall (l1 l2 : N) (xs ys : list rec_in),
    Permutation xs ys ->
    Permutation (groupby_model l1 xs) (groupby_model l2 ys).
Proof. exact groupby_model_order_limit_independent. Qed.
Print Assumptions C10_groupby_order_and_limit_independent.

(* The spill comparator (keys by value, then keys by type and bytes) is a total
   preorder under which only identical keys are equivalent. *)
Theorem C10_spill_order_total_and_faithful :
  (forall a, spill_cmp a a = Eq) /\
  (forall a b, spill_cmp b a = CompOpp (spill_cmp a b)) /\
  (forall a b c, spill_cmp a b <> Gt -> spill_cmp b c <> Gt -> spill_cmp a c <> Gt) /\
  (forall a b, spill_cmp a b = Eq -> a = b).
Proof.
  exact (conj spill_cmp_refl (conj (fun a b => spill_cmp_antisym a b)
        (conj (fun a b c => spill_cmp_trans a b c) spill_cmp_eq))).
Qed.
Print Assumptions C10_spill_order_total_and_faithful.

(* The same statement for any key type with a total-preorder comparator and any
   aggregation whose partial form is a commutative monoid, on inputs whose keys
   compare equal only when identical (the hypothesis the tie-break discharges). *)
Theorem C10_groupby_generic :
  forall (K S : Type) (keqb : K -> K -> bool),
    (forall a b, keqb a b = true <-> a = b) ->
    forall kcmp : K -> K -> comparison,
      (forall a, kcmp a a = Eq) ->
      (forall a b, kcmp b a = CompOpp (kcmp a b)) ->
      (forall a b c, kcmp a b <> Gt -> kcmp b c <> Gt -> kcmp a c <> Gt) ->
      forall (op : S -> S -> S) (e : S),
        (forall a b c, op a (op b c) = op (op a b) c) ->
        (forall a b, op a b = op b a) ->
        (forall a, op e a = a) ->
        forall (limit : N) (xs : list (K * S)),
          cmp_faithful kcmp xs ->
          Permutation (groupby keqb kcmp op e limit xs) (groupby_spec keqb op e xs).
Proof. exact groupby_correct. Qed.
Print Assumptions C10_groupby_generic.

(* Partial results compose: consuming the partial results of the parts of any
   split of the input (count, sum, min, max, avg as (sum,count), and, or; typed
   and untyped nulls, missing arguments) equals consuming the whole input. *)
Theorem C10_partial_compose :
  forall splits : list (list (aval * bval)),
    fold_left st_op (map (fun part => consume_all part st0) splits) st0
    = consume_all (List.concat splits) st0.
Proof. exact partial_compose. Qed.
Print Assumptions C10_partial_compose.

(* Consume of a record is ConsumeAsPartial of its one-record partial, and the
   partial form is a commutative monoid (what the spill path and the
   partials-in consumer rely on). *)
Theorem C10_partials_form_commutative_monoid :
  (forall s a b, st_consume s a b = st_op s (st_inj a b)) /\
  (forall a b c, st_op a (st_op b c) = st_op (st_op a b) c) /\
  (forall a b, st_op a b = st_op b a) /\
  (forall a, st_op st0 a = a).
Proof. exact (conj st_consume_op (conj st_op_assoc (conj st_op_comm st_op_e))). Qed.
Print Assumptions C10_partials_form_commutative_monoid.

(* ---- join *)

(* Over inputs sorted by the join key (any comparator that is a total preorder,
   so numerically equal keys of different types and nulls match as the operator
   compares them), the merge walk with its cached join set emits exactly the
   nested-loop join, in the same order, for inner, left and anti joins (a right
   join is a left join with the inputs swapped by the kernel). *)
Theorem C10_join_sorted_inputs :
  forall (K L R : Type) (kcmp : K -> K -> comparison),
    (forall a, kcmp a a = Eq) ->
    (forall a b, kcmp b a = CompOpp (kcmp a b)) ->
    (forall a b c, kcmp a b <> Gt -> kcmp b c <> Gt -> kcmp a c <> Gt) ->
    forall (lkey : L -> K) (rkey : R -> K) (kd : jkind) (ls : list L) (rs : list R),
      StronglySorted (fun x y => kcmp (lkey x) (lkey y) <> Gt) ls ->
      StronglySorted (fun x y => kcmp (rkey x) (rkey y) <> Gt) rs ->
      walk kcmp lkey rkey kd ls rs None = nested kcmp lkey rkey kd ls rs.
Proof. exact join_sorted_inputs. Qed.
Print Assumptions C10_join_sorted_inputs.

(* Ascending mode: with the sorts the operator inserts in front of unsorted
   inputs, the result is the nested-loop join as a multiset, whatever the order
   of the inputs. *)
Theorem C10_join_any_order :
  forall (kd : jkind) (ls rs : list jrec),
    Permutation (join_atoms kd ls rs) (nested_atoms kd ls rs).
Proof. exact join_atoms_correct. Qed.
Print Assumptions C10_join_any_order.

(* Still false (open finding F-C10-7): in descending mode the inserted sort puts
   nulls last while the walk expects them first, so with a correctly sorted
   declared side the null keys of the two sides do not meet. *)
Theorem C10_join_desc_inserted_sort_refuted :
  exists ls rs,
    StronglySorted (fun x y : jrec => atom_cmp_desc (fst x) (fst y) <> Gt) rs /\
    ~ Permutation (join_desc_left_inserted JInner ls rs) (nested atom_cmp_desc fst fst JInner ls rs).
Proof. exact join_desc_inserted_sort_refuted. Qed.
Print Assumptions C10_join_desc_inserted_sort_refuted.
