(* C11  Untrusted bytes and query text never crash or hang the process.
   Statements only; each is closed by [exact] of a lemma from Proofs/.
   The model (Model/ZngSafe.v, [zng_parse]) covers the ZNG reader's framing,
   typedef, value-header and type-id arithmetic of /repo HEAD, with a Panic
   outcome at every Go slice bound / index, for the synchronous scanner with
   validation off.  LZ4 is an arbitrary function. *)
From ZV Require Import Base.Prelude Model.ZngSafe Proofs.ZngSafeProofs.
Local Open Scope Z_scope.

(* No input, LZ4 behaviour or limit makes the reader panic. *)
Theorem C11_zng_no_panic :
  forall (lz4 : bytes -> Z -> option bytes) max b, out (zng_parse lz4 max b) <> Panic.
Proof. exact zng_no_panic. Qed.
Print Assumptions C11_zng_no_panic.

(* Every run terminates with decoded values or an error: each loop of the
   reader (frames, typedefs and their field / member / symbol loops, values)
   consumes input on every iteration, so the explicit fuel of the model
   (= input length + 1) is never what stops it, whatever counts (up to 2^63)
   the input declares. *)
Theorem C11_zng_values_or_error :
  forall (lz4 : bytes -> Z -> option bytes) max b,
    (exists n, out (zng_parse lz4 max b) = Ok n) \/
    (exists e, out (zng_parse lz4 max b) = Err e /\ e <> EFuel).
Proof. exact zng_total. Qed.
Print Assumptions C11_zng_values_or_error.

Theorem C11_loops_progress :
  (forall checked fuel nt k b, (List.length b < fuel)%nat -> values checked fuel nt k b <> RErr EFuel) /\
  (forall checked fuel nt b, (List.length b < fuel)%nat -> typedefs checked fuel nt b <> RErr EFuel) /\
  (forall lz4 checked max b, out (parse lz4 checked max b) <> Err EFuel).
Proof. exact (conj values_fuel_enough (conj typedefs_fuel_enough parse_never_out_of_fuel)). Qed.
Print Assumptions C11_loops_progress.

(* Bounded allocation: no frame buffer exceeds the configured maximum
   (ReaderOpts.Max): neither the payload of a plain frame nor the declared
   uncompressed size of an LZ4 frame. *)
Theorem C11_frame_alloc_bounded :
  (forall checked max code b p r, read_frame checked max code b = ROk (p, r) -> blen p <= max) /\
  (forall checked max code b fmt size z r,
      read_comp_header checked max code b = ROk (fmt, size, z, r) -> 0 <= size <= max).
Proof. exact (conj read_frame_bounded read_comp_header_bounded). Qed.
Print Assumptions C11_frame_alloc_bounded.

(* The theorem above rests on the range check of readUvarintAsInt (commit
   729907a2c): the same reader without it ([checked = false]) panics on three
   13-byte inputs, one per site the check protects (newBuffer(size<0),
   buffer.read(n<0), MapperLookupCache.Lookup(id<0)); the code as it is
   refuses them.  The harness feeds these inputs to the real reader on every
   run (a regression of the check is an oracle failure). *)
Theorem C11_uvarint_guard_necessary :
  (exists b, List.length b = 13%nat /\ read_comp_header false mib 91 (tl b) = RPanic) /\
  (exists b, List.length b = 13%nat /\ out (parse no_lz4 false mib b) = Panic /\ nth 0 b 0%N = 11%N) /\
  (exists b, List.length b = 13%nat /\ out (parse no_lz4 false mib b) = Panic /\ nth 0 b 0%N = 27%N).
Proof. exact uvarint_guard_necessary. Qed.
Print Assumptions C11_uvarint_guard_necessary.

Theorem C11_witnesses_rejected :
  out (zng_parse no_lz4 mib w_newbuffer) = Err EBadFormat /\
  out (zng_parse no_lz4 mib w_bufread) = Err EBadFormat /\
  out (zng_parse no_lz4 mib w_lookup) = Err EBadFormat.
Proof. exact witnesses_rejected. Qed.
Print Assumptions C11_witnesses_rejected.

(* Non-vacuity: the model decodes a valid stream (one typedef {a:int64}, two
   values of it) and reports 2 values. *)
Example C11_model_reads_valid_stream :
  out (zng_parse no_lz4 mib (hex "05000001016109" ++ hex "18001e0302021e030204")) = Ok 2%N.
Proof. vm_compute. reflexivity. Qed.
