(* C11  Untrusted bytes and query text never crash or hang the process.
   Statements only; each is closed by [exact] of a lemma from Proofs/.
   The model (Model/ZngSafe.v) covers the ZNG reader's framing, typedef,
   value-header and type-id arithmetic with a Panic outcome at every Go slice
   bound / index; [checked = false] is the code as it is. *)
From ZV Require Import Base.Prelude Model.ZngSafe Proofs.ZngSafeProofs.
Local Open Scope Z_scope.

(* The full statement "no input makes the ZNG reader panic" is FALSE for the
   code as it is: three 13-byte inputs, one per unguarded site
   (newBuffer(size<0), buffer.read(n<0), MapperLookupCache.Lookup(id<0)).
   The harness confirms each witness against the real reader. *)
Theorem C11_zng_no_panic_refuted :
  (exists b, List.length b = 13%nat /\ read_comp_header false mib 91 (tl b) = RPanic) /\
  (exists b, List.length b = 13%nat /\ out (parse no_lz4 false mib b) = Panic /\ nth 0 b 0%N = 11%N) /\
  (exists b, List.length b = 13%nat /\ out (parse no_lz4 false mib b) = Panic /\ nth 0 b 0%N = 27%N).
Proof. exact zng_no_panic_refuted. Qed.
Print Assumptions C11_zng_no_panic_refuted.

(* What the code as it is does guarantee: the uncompressed frame path never
   panics, for every header, input and limit ... *)
Theorem C11_read_frame_no_panic_partial :
  forall checked max code b, read_frame checked max code b <> RPanic.
Proof. exact read_frame_no_panic. Qed.
Print Assumptions C11_read_frame_no_panic_partial.

(* ... and no frame buffer exceeds the configured maximum (bounded allocation):
   neither the payload of a plain frame nor the declared uncompressed size of
   an LZ4 frame. *)
Theorem C11_frame_alloc_bounded :
  (forall checked max code b p r, read_frame checked max code b = ROk (p, r) -> blen p <= max) /\
  (forall checked max code b fmt size z r,
      read_comp_header checked max code b = ROk (fmt, size, z, r) -> 0 <= size <= max).
Proof. exact (conj read_frame_bounded read_comp_header_bounded). Qed.
Print Assumptions C11_frame_alloc_bounded.

(* With readUvarintAsInt repaired (values >= 2^63 refused) NO input, LZ4
   behaviour or limit makes the modelled reader panic: the three witnesses
   above are the only kind of defect in the modelled code. *)
Theorem C11_zng_no_panic_with_checked_uvarint :
  forall (lz4 : bytes -> Z -> option bytes) max b, out (parse lz4 true max b) <> Panic.
Proof. exact parse_fixed_no_panic. Qed.
Print Assumptions C11_zng_no_panic_with_checked_uvarint.

(* Termination with progress: every loop of the reader (frames, typedefs and
   their field / member / symbol loops, values) consumes input on each
   iteration, so reading stops because the input is exhausted or an error is
   found; the explicit fuel of the model (= input length + 1) is never what
   stops it, for the code as it is and for the repaired one, whatever LZ4
   returns and whatever counts (up to 2^63) the input declares. *)
Theorem C11_reader_progress :
  forall (lz4 : bytes -> Z -> option bytes) checked max b,
    out (parse lz4 checked max b) <> Err EFuel.
Proof. exact parse_never_out_of_fuel. Qed.
Print Assumptions C11_reader_progress.

Theorem C11_loops_progress :
  (forall checked fuel nt k b, (List.length b < fuel)%nat -> values checked fuel nt k b <> RErr EFuel) /\
  (forall checked fuel nt b, (List.length b < fuel)%nat -> typedefs checked fuel nt b <> RErr EFuel).
Proof. exact (conj values_fuel_enough typedefs_fuel_enough). Qed.
Print Assumptions C11_loops_progress.

(* Non-vacuity: the model decodes a valid stream (one typedef {a:int64}, two
   values of it) and reports 2 values. *)
Example C11_model_reads_valid_stream :
  out (parse no_lz4 false mib (hex "05000001016109" ++ hex "18001e0302021e030204")) = Ok 2%N.
Proof. vm_compute. reflexivity. Qed.
