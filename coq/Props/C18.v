(* C18  A failed write to the output is always reported.
   Statements only; each is closed by [exact] of a lemma from Proofs/. *)
From ZV Require Import Base.Prelude Model.Writer Proofs.WriterProofs.
Local Open Scope nat_scope.

(* Generic: a writer whose Write and Close skeletons pass the error-flow
   checker reports every failed sink call -- for every number of values, every
   failing call k, every mode (one-shot, sticky, short write, failing Close of
   the sink), with or without a bufio layer: the verdict of the run (0 = all
   calls returned nil) is non-zero whenever a sink call failed. *)
Theorem C18_checked_reports :
  forall e ops close v s,
    forallb err_checked ops = true -> err_checked close = true ->
    run e ops close = (v, s) -> s_faulted s = true -> v <> 0.
Proof. exact checked_reports. Qed.
Print Assumptions C18_checked_reports.

(* The transcribed zson, zjson, text, zeek, lake, csv/tsv, table and vng
   writers (on the sink or on pkg/bufwriter) pass the checker for every call
   pattern, hence report every failed sink call. *)
Theorem C18_transcribed_writers_report :
  forall k buffered cs nclose spill f ws cl v s,
    sound_kind k = true ->
    write_skels k cs = Some ws -> close_skel k buffered nclose = Some cl ->
    run (static_env k buffered spill f) ws cl = (v, s) -> s_faulted s = true -> v <> 0.
Proof. exact transcribed_writers_report. Qed.
Print Assumptions C18_transcribed_writers_report.

(* jsonio: dropped errors of buffered writes are recovered by bufio's sticky
   error and the checked Flush that ends every Write. *)
Theorem C18_json_writer_reports :
  forall cs nclose f ws cl v s,
    write_skels KJson cs = Some ws -> close_skel KJson false nclose = Some cl ->
    run (static_env KJson false [] f) ws cl = (v, s) -> s_faulted s = true -> v <> 0.
Proof. exact json_writer_reports. Qed.
Print Assumptions C18_json_writer_reports.

(* zngio.Writer (state machine over pending type/value bytes, frame threshold,
   position/flushed test before the end-of-stream marker): every failed sink
   call is reported, for all value sizes, thresholds, faults, on the sink
   directly or on pkg/bufwriter. *)
Theorem C18_zng_reports :
  forall e thresh szs v s l n,
    zrun e thresh szs = (v, s, l, n) -> s_faulted s = true -> v <> 0.
Proof. exact zng_reports. Qed.
Print Assumptions C18_zng_reports.

(* pkg/bufwriter: whatever a writer does with the errors of its writes (even
   dropping all of them), on a bufio layer closed by Flush-then-Close a failed
   sink call is reported at the latest by Close. *)
Theorem C18_buffered_reports :
  forall e ops a v s,
    e_buf e = true -> forallb no_close ops = true -> no_close a = true ->
    run e ops (Both a (sink_close true)) = (v, s) -> s_faulted s = true -> v <> 0.
Proof. exact buffered_reports. Qed.
Print Assumptions C18_buffered_reports.

(* Converse directions: an error is reported only if a sink call failed, and
   with a sink that never fails nothing is reported. *)
Theorem C18_no_false_alarm :
  forall e ops close v s, run e ops close = (v, s) -> v <> 0 -> s_faulted s = true.
Proof. exact no_false_alarm. Qed.
Print Assumptions C18_no_false_alarm.

Theorem C18_fault_free_silent :
  forall e ops close v s,
    f_mode (e_fault e) = FNone -> run e ops close = (v, s) -> v = 0 /\ s_faulted s = false.
Proof. exact fault_free_silent. Qed.
Print Assumptions C18_fault_free_silent.
