(* C04  Query results do not depend on the physical encoding of the input.
   The part decided here: the filter pushed into the ZNG scanner (per-frame
   buffer filter, then per-value evaluator) against the evaluator alone, for
   every split of the stream into frames.
   Statements only; each is closed by [exact] of a lemma from Proofs/. *)
From ZV Require Import Base.Prelude Model.Scan Proofs.ScanProofs.

(* The statement at full strength is FALSE of the code as it is: `search foo`
   over the single-value frame {a:[{foo:1}]} compiles to a buffer filter that
   rejects the frame although the evaluator accepts the value (the field-name
   finder inspects only the dotted names of the top-level record type, the
   evaluator's walk also reaches record types below arrays). *)
Theorem C04_bufferfilter_sound_refuted :
  exists e b (fr : frame),
    compile_bf e = Some b /\
    (exists id t v, In (id, t, v) fr /\ forall oth lit_oth, eval oth lit_oth e t v = true) /\
    bf_eval b fr = false.
Proof. exact bufferfilter_refuted. Qed.
Print Assumptions C04_bufferfilter_sound_refuted.

Theorem C04_scan_is_filter_refuted :
  exists e (frs : list frame), forall oth lit_oth,
    scan oth lit_oth e frs <> spec oth lit_oth e frs.
Proof. exact scan_refuted. Qed.
Print Assumptions C04_scan_is_filter_refuted.

(* What does hold (partial: frames whose record types hide no record type
   below an array): for every filter expression of the modelled language
   (keyword and literal searches, field == literal, literal in field, and/or/not,
   arbitrary opaque sub-expressions), every compiled buffer filter and every
   frame, a frame holding a value the filter accepts passes the buffer filter. *)
Theorem C04_bufferfilter_sound_partial :
  forall (oth : nat -> ty -> val -> tv3) (lit_oth : expr -> ty -> val -> tv3) e b (fr : frame),
    compile_bf e = Some b ->
    frame_visible fr ->
    (exists id t v, In (id, t, v) fr /\ eval oth lit_oth e t v = true) ->
    bf_eval b fr = true.
Proof. exact bufferfilter_sound_partial. Qed.
Print Assumptions C04_bufferfilter_sound_partial.

(* With the proposed repair of FieldNameFinder.Find (answer true when the record
   type hides a record type below an array) the statement holds for every frame. *)
Theorem C04_bufferfilter_sound_with_proposed_fix :
  forall (oth : nat -> ty -> val -> tv3) (lit_oth : expr -> ty -> val -> tv3) e b (fr : frame),
    compile_bf e = Some b ->
    (exists id t v, In (id, t, v) fr /\ eval oth lit_oth e t v = true) ->
    bf_eval_with fnf_find_fixed b fr = true.
Proof. exact bufferfilter_sound_with_fix. Qed.
Print Assumptions C04_bufferfilter_sound_with_proposed_fix.

(* Hence the scanner (gate per frame, evaluator per value) returns exactly the
   values the evaluator accepts, in order, for ANY segmentation of the stream
   into frames (frame threshold, end-of-stream positions, compression and
   thread count only change the segmentation). *)
Theorem C04_scan_is_filter_partial :
  forall (oth : nat -> ty -> val -> tv3) (lit_oth : expr -> ty -> val -> tv3) e frs,
    Forall frame_visible frs ->
    scan oth lit_oth e frs = spec oth lit_oth e frs.
Proof. exact scan_is_filter_partial. Qed.
Print Assumptions C04_scan_is_filter_partial.

(* Unconditionally, the pushed-down filter never adds a value. *)
Theorem C04_scan_subset :
  forall (oth : nat -> ty -> val -> tv3) (lit_oth : expr -> ty -> val -> tv3) e frs x,
    In x (scan oth lit_oth e frs) -> In x (spec oth lit_oth e frs).
Proof. exact scan_subset_spec. Qed.
Print Assumptions C04_scan_subset.

(* Finder.Next(text) > -1 is the substring relation, which composes along the
   nesting of ZNG encodings (used by all of the above). *)
Theorem C04_index_iff_contains :
  forall t p, (0 <= index_of t p)%Z <-> contains t p = true.
Proof. exact index_of_nonneg. Qed.
Print Assumptions C04_index_iff_contains.

Theorem C04_walked_values_are_embedded :
  forall v t t' v', In (t', v') (walk t v) -> exists a b, enc_val v = a ++ enc_val v' ++ b.
Proof. exact walk_seg. Qed.
Print Assumptions C04_walked_values_are_embedded.
