(* C04  Query results do not depend on the physical encoding of the input.
   The part decided here: the filter pushed into the ZNG scanner (per-frame
   buffer filter, then per-value evaluator) against the evaluator alone, for
   every split of the stream into frames.
   Statements only; each is closed by [exact] of a lemma from Proofs/. *)
From ZV Require Import Base.Prelude Model.Scan Proofs.ScanProofs.

(* CompileBufferFilter's contract ("returns true for any byte slice containing
   the ZNG encoding of a record matching e"): for every filter expression of the
   modelled language (keyword searches over this or a field path, literal
   searches, field == literal, literal in field, and/or/not, arbitrary opaque
   sub-expressions incl. searches over computed expressions), every buffer filter
   compiled from it and every frame: a frame holding a value the filter accepts
   passes the buffer filter. *)
Theorem C04_bufferfilter_sound :
  forall (oth : nat -> ty -> val -> tv3) (lit_oth : expr -> ty -> val -> tv3) e b (fr : frame),
    compile_bf e = Some b ->
    (exists id t v, In (id, t, v) fr /\ eval oth lit_oth e t v = true) ->
    bf_eval b fr = true.
Proof. exact bufferfilter_sound. Qed.
Print Assumptions C04_bufferfilter_sound.

(* Hence the scanner (gate per frame, evaluator per value) returns exactly the
   values the evaluator accepts, in order, for ANY segmentation of the stream
   into frames (frame threshold, end-of-stream positions, compression and
   thread count only change the segmentation). *)
Theorem C04_scan_is_filter :
  forall (oth : nat -> ty -> val -> tv3) (lit_oth : expr -> ty -> val -> tv3) e frs,
    scan oth lit_oth e frs = spec oth lit_oth e frs.
Proof. exact scan_is_filter. Qed.
Print Assumptions C04_scan_is_filter.

Theorem C04_scan_segmentation_independent :
  forall (oth : nat -> ty -> val -> tv3) (lit_oth : expr -> ty -> val -> tv3) e frs1 frs2,
    flat_map frame_vals frs1 = flat_map frame_vals frs2 ->
    scan oth lit_oth e frs1 = scan oth lit_oth e frs2.
Proof. exact scan_segmentation_independent. Qed.
Print Assumptions C04_scan_segmentation_independent.

(* The field-name finder sees every record type occurring anywhere inside the
   top-level type, hence every type the evaluator's walk (from the value or from
   the value at a field path) can reach. *)
Theorem C04_finder_sees_nested_types :
  forall term t' t,
    subty t' t -> search_type term t' = true ->
    search_type term t || find_hidden term t = true.
Proof. exact subty_find_below. Qed.
Print Assumptions C04_finder_sees_nested_types.

Theorem C04_walk_and_paths_stay_inside :
  (forall v t t' v', In (t', v') (walk t v) -> subty t' t) /\
  (forall path t v t' v', deref path t v = Some (t', v') -> subty t' t).
Proof. exact (conj walk_subty deref_subty). Qed.
Print Assumptions C04_walk_and_paths_stay_inside.

(* Finder.Next(text) > -1 is the substring relation, which composes along the
   nesting of ZNG encodings (used by all of the above). *)
Theorem C04_index_iff_contains :
  forall t p, (0 <= index_of t p)%Z <-> contains t p = true.
Proof. exact index_of_nonneg. Qed.
Print Assumptions C04_index_iff_contains.

Theorem C04_walked_values_are_embedded :
  forall v t t' v', In (t', v') (walk t v) -> exists a b, enc_val v = a ++ enc_val v' ++ b.
Proof. exact walk_seg. Qed.
Print Assumptions C04_walked_values_are_embedded.
