(* C03  VNG columnar round trip is the identity for both read paths.
   Statements only; each is closed by [exact] of a lemma from Proofs/.

   Scope of the model (Model/Vng.v): sequences of values of any number of
   interleaved top-level types whose columns are nullable primitive columns
   (null run lengths, const / dictionary / plain encoding, dynamic tags), read
   back by the row reader ([vec = false]) and by the vector cache loader +
   materializer ([vec = true]).  Records, containers, unions and projections
   are covered by the oracle on the real code only. *)
From ZV Require Import Base.Prelude Model.Vng Proofs.VngProofs.
From Coq Require Import Permutation.
Local Open Scope N_scope.

(* Whole object.  [less t] is sortDict's order on the values of column type t
   (value comparison, ties broken by the bytes: a strict total order);
   [iter1] / [iter2] are the orders in which the two calls of makeDict happen to
   iterate the Go map.  The round trip holds for every dictionary bound that a
   selector byte can address (the code uses MaxDictSize = 256). *)
Theorem C03_vng_roundtrip :
  forall (less : tyid -> bytes -> bytes -> bool) (iter1 iter2 : dict -> dict)
         (vec : bool) (maxdict : nat) (small : tyid -> bool) (vs : list value),
    (forall t, strict_total (less t)) ->
    (forall d, Permutation (iter1 d) d) -> (forall d, Permutation (iter2 d) d) ->
    (maxdict <= 256)%nat ->
    obj_read vec (obj_encode less iter1 iter2 maxdict small vs) = Some vs.
Proof. exact vng_roundtrip. Qed.
Print Assumptions C03_vng_roundtrip.

(* One nullable column: any length, nulls anywhere, any number of distinct values. *)
Theorem C03_column_roundtrip :
  forall (less : bytes -> bytes -> bool) (iter1 iter2 : dict -> dict)
         (vec : bool) (maxdict : nat) (small : bool) (l : list body),
    strict_total less ->
    (forall d, Permutation (iter1 d) d) -> (forall d, Permutation (iter2 d) d) ->
    (maxdict <= 256)%nat ->
    col_decode vec (col_encode less iter1 iter2 maxdict small l) = Some l.
Proof. exact column_roundtrip. Qed.
Print Assumptions C03_column_roundtrip.

(* The two independent calls of makeDict (selectors / stored entries) build the
   same dictionary whatever the map iteration orders: the order is total. *)
Theorem C03_make_dict_deterministic :
  forall (less : bytes -> bytes -> bool), strict_total less ->
  forall (iter1 iter2 : dict -> dict),
    (forall d, Permutation (iter1 d) d) -> (forall d, Permutation (iter2 d) d) ->
    forall d, NoDup (keys d) -> make_dict less iter2 d = make_dict less iter1 d.
Proof. exact make_dict_deterministic. Qed.
Print Assumptions C03_make_dict_deterministic.

(* Null run lengths: both decoders (NullsBuilder; vcache bitmap) return the
   null flags that were written, for every flag sequence with a null ... *)
Theorem C03_nulls_runs_roundtrip :
  forall (bits : list bool) (runs : list N),
    nulls_finish (nulls_state bits) = Some runs ->
    nulls_row runs (List.length bits) = Some bits /\ nulls_vec runs (List.length bits) = Some bits.
Proof. exact (fun bits runs H => conj (nulls_runs_roundtrip_row bits runs H) (nulls_runs_roundtrip_vec bits runs H)). Qed.
Print Assumptions C03_nulls_runs_roundtrip.

(* ... and the Nulls node is omitted exactly when no value is null. *)
Theorem C03_nulls_node_omitted_iff_no_null :
  forall bits : list bool, nulls_finish (nulls_state bits) = None <-> forallb negb bits = true.
Proof. exact nulls_finish_none. Qed.
Print Assumptions C03_nulls_node_omitted_iff_no_null.

(* The dictionary survives iff at most [maxdict] distinct values were written,
   and then holds exactly the distinct values (const = one entry). *)
Theorem C03_dict_kept_iff_few_distinct :
  forall (maxdict : nat) (vals : list bytes),
    match pe_state maxdict false vals with
    | Some d => NoDup (keys d) /\ (forall v, In v vals <-> In v (keys d)) /\ (List.length d <= maxdict)%nat
    | None => exists l, NoDup l /\ (forall x, In x l -> In x vals) /\ (maxdict < List.length l)%nat
    end.
Proof. exact dict_kept_iff_few_distinct. Qed.
Print Assumptions C03_dict_kept_iff_few_distinct.

(* The hypotheses are satisfiable (the bytewise order is a strict total order)
   and the bound 256 is tight: 257 entries cannot be addressed by a selector byte. *)
Theorem C03_hypotheses_satisfiable_and_bound_tight :
  strict_total bytes_ltb /\
  prim_decode (prim_encode (make_dict bytes_ltb (fun d => d)) (make_dict bytes_ltb (@rev _)) 256 false (distinct_vals 256))
    = Some (distinct_vals 256) /\
  prim_decode (prim_encode (make_dict bytes_ltb (fun d => d)) (make_dict bytes_ltb (@rev _)) 257 false (distinct_vals 257))
    <> Some (distinct_vals 257).
Proof. exact (conj bytes_ltb_strict_total (conj dict_256_entries_roundtrip dict_257_entries_break_roundtrip)). Qed.
Print Assumptions C03_hypotheses_satisfiable_and_bound_tight.
