(* C03  VNG columnar round trip is the identity for both read paths.
   Statements only; each is closed by [exact] of a lemma from Proofs/.

   Scope of the model (Model/Vng.v): sequences of values of any number of
   interleaved top-level types whose columns are nullable primitive columns
   (null run lengths, const / dictionary / plain encoding, dynamic tags), read
   back by the row reader ([vec = false]) and by the vector cache loader +
   materializer ([vec = true]).  Records, containers, unions and projections
   are covered by the oracle on the real code only. *)
From ZV Require Import Base.Prelude Model.Vng Proofs.VngProofs.
From Coq Require Import Permutation.
Local Open Scope N_scope.

(* Whole object.  [order_sel] / [order_meta] are the two applications of
   sortDict in the writer (selectors / stored entries): the round trip holds
   whenever both are permutations and agree, for every dictionary bound that a
   selector byte can address (the code uses MaxDictSize = 256). *)
Theorem C03_vng_roundtrip :
  forall (order_sel order_meta : dict -> dict),
    (forall d, Permutation (order_sel d) d) ->
    (forall d, order_meta d = order_sel d) ->
    forall (vec : bool) (maxdict : nat) (small : tyid -> bool) (vs : list value),
      (maxdict <= 256)%nat ->
      obj_read vec (obj_encode order_sel order_meta maxdict small vs) = Some vs.
Proof. exact vng_roundtrip. Qed.
Print Assumptions C03_vng_roundtrip.

(* One nullable column: any length, nulls anywhere, any number of distinct values. *)
Theorem C03_column_roundtrip :
  forall (order_sel order_meta : dict -> dict),
    (forall d, Permutation (order_sel d) d) ->
    (forall d, order_meta d = order_sel d) ->
    forall (vec : bool) (maxdict : nat) (small : bool) (l : list body),
      (maxdict <= 256)%nat ->
      col_decode vec (col_encode order_sel order_meta maxdict small l) = Some l.
Proof. exact column_roundtrip. Qed.
Print Assumptions C03_column_roundtrip.

(* Null run lengths: both decoders (NullsBuilder; vcache bitmap) return the
   null flags that were written, for every flag sequence with a null ... *)
Theorem C03_nulls_runs_roundtrip :
  forall (bits : list bool) (runs : list N),
    nulls_finish (nulls_state bits) = Some runs ->
    nulls_row runs (List.length bits) = Some bits /\ nulls_vec runs (List.length bits) = Some bits.
Proof. exact (fun bits runs H => conj (nulls_runs_roundtrip_row bits runs H) (nulls_runs_roundtrip_vec bits runs H)). Qed.
Print Assumptions C03_nulls_runs_roundtrip.

(* ... and the Nulls node is omitted exactly when no value is null. *)
Theorem C03_nulls_node_omitted_iff_no_null :
  forall bits : list bool, nulls_finish (nulls_state bits) = None <-> forallb negb bits = true.
Proof. exact nulls_finish_none. Qed.
Print Assumptions C03_nulls_node_omitted_iff_no_null.

(* The dictionary survives iff at most [maxdict] distinct values were written,
   and then holds exactly the distinct values (const = one entry). *)
Theorem C03_dict_kept_iff_few_distinct :
  forall (maxdict : nat) (vals : list bytes),
    match pe_state maxdict false vals with
    | Some d => NoDup (keys d) /\ (forall v, In v vals <-> In v (keys d)) /\ (List.length d <= maxdict)%nat
    | None => exists l, NoDup l /\ (forall x, In x l -> In x vals) /\ (maxdict < List.length l)%nat
    end.
Proof. exact dict_kept_iff_few_distinct. Qed.
Print Assumptions C03_dict_kept_iff_few_distinct.

(* The hypothesis [order_meta = order_sel] is essential: the model of the code
   as it is (two independent sorts) loses the round trip on both read paths as
   soon as the two orders differ -- witness: a float column holding -0 and +0,
   which sortDict's comparison cannot tell apart. *)
Theorem C03_roundtrip_refuted_when_dict_orders_differ :
  exists order_sel order_meta : dict -> dict,
    (forall d, Permutation (order_sel d) d) /\ (forall d, Permutation (order_meta d) d) /\
    exists l : list body,
      col_decode false (col_encode order_sel order_meta 256 false l) <> Some l /\
      col_decode true (col_encode order_sel order_meta 256 false l) <> Some l.
Proof. exact column_roundtrip_refuted_when_orders_differ. Qed.
Print Assumptions C03_roundtrip_refuted_when_dict_orders_differ.

(* The bound 256 is tight: 257 entries cannot be addressed by a selector byte. *)
Theorem C03_dict_bound_tight :
  prim_decode (prim_encode (fun d => d) (fun d => d) 256 false (distinct_vals 256)) = Some (distinct_vals 256) /\
  prim_decode (prim_encode (fun d => d) (fun d => d) 257 false (distinct_vals 257)) <> Some (distinct_vals 257).
Proof. exact (conj dict_256_entries_roundtrip dict_257_entries_break_roundtrip). Qed.
Print Assumptions C03_dict_bound_tight.
