(* C17  A crash at any point leaves the lake consistent, atomic and usable.
   Statements only.  A crash of a client = the client takes no more steps;
   the theorems quantify over EVERY schedule, hence over every crash point of
   every client in every history. *)
From ZV Require Import Base.Prelude Model.Journal Proofs.JournalProofs Proofs.CrashProofs
     Model.FilePut Proofs.FilePutProofs.

(* consistent: after any history with any crashes the log is a valid sequential
   history (replayable) *)
Theorem C17_crash_consistent :
  forall ops sched k i p,
    nth_error (entries (jrun ops sched)) k = Some (i, p) ->
    exists o, nth_error ops i = Some o /\ p = jentry o /\
              jcheck o (map snd (firstn k (entries (jrun ops sched)))) = true.
Proof. exact journal_log_valid. Qed.
Print Assumptions C17_crash_consistent.

(* atomic: every operation, wherever it was interrupted, owns no log entry or exactly one *)
Theorem C17_crash_atomic :
  forall ops sched i c,
    nth_error (clients (jrun ops sched)) i = Some c ->
    count_entries (jrun ops sched) i = match cpc c with PWroteEntry _ | PDone true => 1%nat | _ => 0%nat end.
Proof. exact crash_atomic. Qed.
Print Assumptions C17_crash_atomic.

(* usable: after any history with any crashes, an operation run alone is
   acknowledged and its entry is appended (object store with atomic puts) *)
Theorem C17_followup_succeeds :
  forall ops sched i c,
    nth_error (clients (jrun ops sched)) i = Some c -> cpc c = PStart ->
    jcheck (cop c) (map snd (entries (jrun ops sched))) = true ->
    let s' := jrun ops (sched ++ [i; i; i; i]) in
    entries s' = entries (jrun ops sched) ++ [(i, jentry (cop c))] /\
    exists c', nth_error (clients s') i = Some c' /\ cpc c' = PDone true.
Proof. exact followup_succeeds. Qed.
Print Assumptions C17_followup_succeeds.

(* The file engine's create-then-fill puts.  A torn HEAD used to make the
   journal unusable (F-C17-2, repaired): ReadHead now falls back to TAIL-1 and
   probes, so in EVERY persistent state of an interrupted put of HEAD it returns
   the true end of the log. *)
Theorem C17_file_engine_head_recovers :
  forall old new tail n ho hn,
    (1 <= tail)%N -> (tail - 1 <= n)%N ->
    read_head old = Some ho -> (tail - 1 <= ho <= n)%N ->
    read_head (Content new) = Some hn -> (tail - 1 <= hn <= n)%N ->
    forall f fuel, In f (put_states old new) -> (N.to_nat (n + 1) <= fuel)%nat ->
    journal_read_head f tail (entries_between tail n) fuel = Some n.
Proof. exact file_put_head_recovers. Qed.
Print Assumptions C17_file_engine_head_recovers.

(* ... and a torn snapshot cache file used to be read as the empty snapshot
   (F-C17-3, repaired): now a reader finds, in every persistent state of an
   interrupted put, either no snapshot (it rebuilds it) or the right one. *)
Theorem C17_file_engine_snapshot_safe :
  forall (new : bytes) f, In f (put_snapshot_states Absent new) ->
    get_snapshot f = None \/ get_snapshot f = Some new.
Proof. exact file_put_snapshot_safe. Qed.
Print Assumptions C17_file_engine_snapshot_safe.

Theorem C17_atomic_put_head_readable :
  forall old new n m,
    read_head old = Some n -> read_head (Content new) = Some m ->
    forall f, In f (put_states_atomic old new) -> read_head f = Some n \/ read_head f = Some m.
Proof. exact atomic_put_head_readable. Qed.
Print Assumptions C17_atomic_put_head_readable.
