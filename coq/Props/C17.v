(* C17  A crash at any point leaves the lake consistent, atomic and usable.
   Statements only.  A crash of a client = the client takes no more steps;
   the theorems quantify over EVERY schedule, hence over every crash point of
   every client in every history. *)
From ZV Require Import Base.Prelude Model.Journal Proofs.JournalProofs Proofs.CrashProofs
     Model.FilePut Proofs.FilePutProofs.

(* consistent: after any history with any crashes the log is a valid sequential
   history (replayable) *)
Theorem C17_crash_consistent :
  forall ops sched k i p,
    nth_error (entries (jrun ops sched)) k = Some (i, p) ->
    exists o, nth_error ops i = Some o /\ p = jentry o /\
              jcheck o (map snd (firstn k (entries (jrun ops sched)))) = true.
Proof. exact journal_log_valid. Qed.
Print Assumptions C17_crash_consistent.

(* atomic: every operation, wherever it was interrupted, owns no log entry or exactly one *)
Theorem C17_crash_atomic :
  forall ops sched i c,
    nth_error (clients (jrun ops sched)) i = Some c ->
    count_entries (jrun ops sched) i = match cpc c with PWroteEntry _ | PDone true => 1%nat | _ => 0%nat end.
Proof. exact crash_atomic. Qed.
Print Assumptions C17_crash_atomic.

(* usable: after any history with any crashes, an operation run alone is
   acknowledged and its entry is appended (object store with atomic puts) *)
Theorem C17_followup_succeeds :
  forall ops sched i c,
    nth_error (clients (jrun ops sched)) i = Some c -> cpc c = PStart ->
    jcheck (cop c) (map snd (entries (jrun ops sched))) = true ->
    let s' := jrun ops (sched ++ [i; i; i; i]) in
    entries s' = entries (jrun ops sched) ++ [(i, jentry (cop c))] /\
    exists c', nth_error (clients s') i = Some c' /\ cpc c' = PDone true.
Proof. exact followup_succeeds. Qed.
Print Assumptions C17_followup_succeeds.

(* The file engine's create-then-fill puts: the full statement is FALSE there;
   these are the witnesses (known findings F-C17-2, F-C17-3). *)
Theorem C17_file_engine_head_refuted :
  exists old new f, read_head old <> None /\ read_head (Content new) <> None /\
                    In f (put_states old new) /\ read_head f = None.
Proof. exact file_put_head_refuted. Qed.
Print Assumptions C17_file_engine_head_refuted.

Theorem C17_file_engine_snapshot_refuted :
  exists (new : bytes) f, new <> [] /\ In f (put_states Absent new) /\ decode_snapshot f = Some [].
Proof. exact file_put_snapshot_refuted. Qed.
Print Assumptions C17_file_engine_snapshot_refuted.

Theorem C17_atomic_put_head_readable :
  forall old new n m,
    read_head old = Some n -> read_head (Content new) = Some m ->
    forall f, In f (put_states_atomic old new) -> read_head f = Some n \/ read_head f = Some m.
Proof. exact atomic_put_head_readable. Qed.
Print Assumptions C17_atomic_put_head_readable.
