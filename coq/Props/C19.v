(* C19  The lake service behaves exactly like direct access.  Statements only. *)
From ZV Require Import Base.Prelude Model.Service Proofs.ServiceProofs Model.Channels Proofs.ChannelsProofs.

(* Query responses with control frames: the client receives exactly the values
   of the batches, in order, and the late error if there was one, for every
   batching and every placement of progress frames. *)
Theorem C19_stream_codec_ctrl :
  forall stats bs late, client (server true true stats bs late) = (List.concat bs, late).
Proof. exact stream_codec_ctrl. Qed.
Print Assumptions C19_stream_codec_ctrl.

(* In every mode the values arrive complete and in order. *)
Theorem C19_stream_codec_values :
  forall ctrl fmtc stats bs late, fst (client (server ctrl fmtc stats bs late)) = List.concat bs.
Proof. exact stream_codec_values. Qed.
Print Assumptions C19_stream_codec_values.

(* A late error is never lost: it arrives in-band, or else it is on the query
   status endpoint. *)
Theorem C19_late_error_reported :
  forall ctrl fmtc stats bs late, reported ctrl fmtc stats bs late = late.
Proof. exact late_error_reported. Qed.
Print Assumptions C19_late_error_reported.

(* In-band delivery alone needs control frames: the error is in the response
   stream exactly when control frames are enabled and the format has them. *)
Theorem C19_late_error_needs_ctrl :
  forall ctrl fmtc stats bs e,
    snd (client (server ctrl fmtc stats bs (Some e))) = Some e <-> ctrl && fmtc = true.
Proof. exact late_error_needs_ctrl. Qed.
Print Assumptions C19_late_error_needs_ctrl.


(* Every other endpoint: the remote path is  decode . handler . decode . encode ;
   when the codecs round-trip (hypotheses, exercised by the harness), any history
   through the service leaves the same state as direct access. *)
Theorem C19_remote_history_refines_local :
  forall (Req Resp State Wire : Type) (handler : State -> Req -> State * Resp)
         (ereq : Req -> Wire) (dreq : Wire -> option Req) (eresp : Resp -> Wire) (dresp : Wire -> option Resp),
    (forall r, dreq (ereq r) = Some r) -> (forall x, dresp (eresp x) = Some x) ->
    forall (h : list Req) s,
      fold_left (fun st r => fst (remote_step Req Resp State Wire handler ereq dreq eresp dresp st r)) h s =
      fold_left (fun st r => fst (local_step Req Resp State handler st r)) h s.
Proof. exact remote_history_refines_local. Qed.
Print Assumptions C19_remote_history_refines_local.

(* Multi-output queries: whatever the interleaving of batches and channel ends
   of any number of channels (the server announces a channel only when it
   changes), the client delivers every batch under the channel it was written
   to, and every channel end, in order. *)
Theorem C19_channel_attribution :
  forall evs, chan_client 0 (chan_server 0 evs) = map relabel evs.
Proof. exact chan_roundtrip. Qed.
Print Assumptions C19_channel_attribution.
