(* C07  The optimizer preserves program meaning.
   Statements only; each is closed by [exact] of a lemma from Proofs/.
   V, holds, app, multi, comb, over_run: arbitrary values, filter predicate
   evaluation, single-input operators, join/merge, fan-in interleaving and
   lateral `over` (see Model/DagSem.v). *)
From ZV Require Import Base.Prelude Model.Dag Model.DagSem Model.Optimizer Proofs.OptimizerProofs.

(* mergeFilters ("where a | where b" => "where a and b"), at every nesting level
   (fork branches, over bodies), for any plan: same output sequence. *)
Theorem C07_merge_filters_preserves :
  forall V holds app multi comb over_run,
    (forall a b v, holds (EAnd a b) v = holds a v && holds b v) ->
    (forall id f g l, (forall x, f x = g x) -> over_run id f l = over_run id g l) ->
    forall s input,
      run V holds app multi comb over_run (merge_filters s) input =
      run V holds app multi comb over_run s input.
Proof. exact merge_filters_preserves. Qed.
Print Assumptions C07_merge_filters_preserves.

(* removePassOps, at every nesting level, for any plan. *)
Theorem C07_remove_pass_preserves :
  forall V holds app multi comb over_run,
    (forall id f g l, (forall x, f x = g x) -> over_run id f l = over_run id g l) ->
    forall s input,
      run V holds app multi comb over_run (remove_pass s) input =
      run V holds app multi comb over_run s input.
Proof. exact remove_pass_preserves. Qed.
Print Assumptions C07_remove_pass_preserves.

(* matchFilter: the leading filter lifted into the source. *)
Theorem C07_scan_filter_lift :
  forall V holds app multi comb over_run sk e chain input,
    run V holds app multi comb over_run (OScan sk (Some e) :: chain) input =
    run V holds app multi comb over_run (OScan sk None :: OFilter e :: chain) input.
Proof. exact scan_filter_lift. Qed.
Print Assumptions C07_scan_filter_lift.

(* propagateSortKey only writes hints (Summarize.InputSortDir, Join.LeftDir/
   RightDir): every operator of the rewritten plan means what it meant, for
   any plan including fork branches. *)
Theorem C07_propagate_sort_key_only_hints :
  forall V holds app multi comb over_run,
    forall o parents ps,
      sem_op V holds app multi comb over_run (fst (prop_op o parents)) ps =
      sem_op V holds app multi comb over_run o ps.
Proof. exact prop_op_equiv. Qed.
Print Assumptions C07_propagate_sort_key_only_hints.

(* Optimizer.Optimize never fails on a plan of the modelled subset: pass
   operators are removed before demand is computed, so the "Duplicate op value"
   panic is unreachable (fixed by 87d257a9e). *)
Theorem C07_optimize_total :
  forall s,
    optimize s =
    Some (remove_pass (source_paths (merge_filters (opt_parallels (remove_pass (merge_filters s)))))).
Proof. exact optimize_total. Qed.
Print Assumptions C07_optimize_total.

(* Optimizer.Optimize end to end (mergeFilters; removePassOps; optimizeParallels;
   mergeFilters; optimizeSourcePaths; removePassOps; insertDemand), partial:
   for the plans on which nothing is lifted into fork branches and no nested
   entry is rewritten (computable side conditions, true of every fork-free
   plan), Optimize succeeds and the optimized plan has the output sequence of
   the analysed plan.  Missing: liftIntoParPaths (its soundness needs laws of
   the abstract sort/merge/aggregate operators; it is covered by the
   correspondence check and the execution oracle). *)
Theorem C07_optimize_preserves_partial :
  forall V holds app multi comb over_run,
    (forall id f g l, (forall x, f x = g x) -> over_run id f l = over_run id g l) ->
    (forall a b v, holds (EAnd a b) v = holds a v && holds b v) ->
    forall s input s2,
      s2 = remove_pass (merge_filters s) ->
      opt_parallels s2 = s2 ->
      source_paths (merge_filters s2) = source_post (merge_filters s2) ->
      scan_clean (merge_filters s2) ->
      exists s', optimize s = Some s' /\
                 run V holds app multi comb over_run s' input =
                 run V holds app multi comb over_run s input.
Proof. exact optimize_preserves_partial. Qed.
Print Assumptions C07_optimize_preserves_partial.

(* The sort-key analysis that licenses the hints (analyzeSortKeys), against
   flat records.  cut (fixed by d16c8d29d): if the order on k is reported to
   continue as the order on k', then k' of the output is k of the input. *)
Theorem C07_analyze_cut_keeps_key :
  forall args d k k' r,
    Forall flat_arg args -> NoDup (map lhs_name args) ->
    analyze (OCut args) [(d, [k])] = [(d, [k'])] ->
    lookup k' (cut_sem args r) = lookup k r.
Proof. exact analyze_cut_keeps_key. Qed.
Print Assumptions C07_analyze_cut_keeps_key.

(* drop: a kept key keeps its value. *)
Theorem C07_analyze_drop_keeps_key :
  forall args d k r,
    analyze (ODrop args) [(d, [k])] = [(d, [k])] ->
    lookup k (drop_sem args r) = lookup k r.
Proof. exact analyze_drop_keeps_key. Qed.
Print Assumptions C07_analyze_drop_keeps_key.

(* The former counterexamples (`cut c`; `cut c | rename k:=c`; put / drop /
   rename of a record containing the key) are now analysed as "order unknown"
   (fixed by d16c8d29d and 5939a8776). *)
Theorem C07_analyze_former_counterexamples :
  let k := [1%N] in let c := [2%N] in let n := [4%N] in let nx := [4%N; 5%N] in
  analyze (OCut [(EThis c, EThis c)]) [(false, k)] = [] /\
  analyze (ORename [(EThis k, EThis c)]) [(false, k)] = [] /\
  analyze (OPut [(EThis n, EOther 0)]) [(false, nx)] = [] /\
  analyze (ODrop [EThis n]) [(false, nx)] = [] /\
  analyze (ORename [(EThis [6%N], EThis n)]) [(false, nx)] = [].
Proof. exact analyze_former_counterexamples. Qed.
Print Assumptions C07_analyze_former_counterexamples.

(* A sort lifted into fork branches is replaced by a merge only if the merge has
   the sort's direction and null placement (fixed by 7e8198198). *)
Theorem C07_lift_sort_merge_agrees :
  forall paths k0 d0 nf rev after paths' e d after',
    lift (OFork paths :: OSort [(k0, d0)] nf rev :: after) = OFork paths' :: OMerge e d :: after' ->
    e = k0 /\ d = (if rev then negb d0 else d0) /\
    sort_puts_nulls_first nf d = key_order_nulls_first d /\
    paths' = append_paths paths (OSort [(k0, d0)] nf rev).
Proof. exact lift_sort_merge_agrees. Qed.
Print Assumptions C07_lift_sort_merge_agrees.

(* Still false (open known finding F-C07-2): sortKeysOfSort describes
   `sort -r k` as the sort key k:desc although the sort puts nulls last and
   k:desc means nulls first. *)
Theorem C07_sort_key_null_placement_refuted :
  exists args nf rev d p,
    sort_keys_of_sort args rev = [(d, p)] /\
    sort_puts_nulls_first nf d <> key_order_nulls_first d.
Proof. exact sort_key_null_placement_refuted. Qed.
Print Assumptions C07_sort_key_null_placement_refuted.

(* concurrentPath (lake plans): an operator whose result depends on the
   positions of the values or on the whole stream (head, tail, uniq, fuse,
   fork, join, output) ends the concurrent path and requires the scan order,
   and it is never passed over: behind any prefix of other operators the path
   ends at it with orderRequired = true, unless an earlier sort or summarize
   ended the path first.  (The model's decision is compared with the real
   optimizer's Slicer on every lake plan the harness compiles.) *)
Theorem C07_positional_requires_order :
  forall o r k sk,
    positional_op o = true -> concurrent_path (o :: r) k sk = (k, sk, true, true).
Proof. exact positional_requires_order. Qed.
Print Assumptions C07_positional_requires_order.

Theorem C07_order_required_at_first_positional :
  forall pre o r k sk,
    positional_op o = true ->
    let '(_, _, required, _) := concurrent_path (pre ++ o :: r) k sk in
    required = true \/ exists p, In p pre /\ (exists l ks a d pi po, p = OSummarize l ks a d pi po) \/
                                 In p pre /\ (exists a nf rv, p = OSort a nf rv).
Proof. exact order_required_at_first_positional. Qed.
Print Assumptions C07_order_required_at_first_positional.

(* buildRangePruner (which pushed-down filters get a key-range pruner; what the
   pruner computes is C16's subject): an `or` is prunable only if both sides
   are, an `and` if one is, and an `or` with a side that contains no comparison
   of the pool key with a literal gets no pruner.  (The model's answer is
   compared with the real Lister.KeyPruner on every lake plan compiled.) *)
Theorem C07_pruner_or_needs_both :
  forall a b key,
    prunable (EBinary 1 a b) key = true -> prunable a key = true /\ prunable b key = true.
Proof. exact prunable_or_needs_both. Qed.
Print Assumptions C07_pruner_or_needs_both.

Theorem C07_pruner_or_with_unanalysable_side :
  forall a b key,
    mentions_key_cmp b key = false -> prunable (EBinary 1 a b) key = false.
Proof. exact or_with_unanalysable_side_not_prunable. Qed.
Print Assumptions C07_pruner_or_with_unanalysable_side.

(* Tie T: the type switch of Optimizer.concurrentPath is re-translated from
   compiler/optimizer/parallelize.go by go2coq on every run
   (Gen/ParallelizeGen.v).  Interpreting the translated table is the
   hand-written concurrent_path for every operator list (so the theorems above
   speak about the code's own case table), and in the translated text every
   positional operator kind is `return k, sortKeys, true, true`. *)
From ZV Require Import Model.CpTable Gen.ParallelizeGen Proofs.ParallelizeGenProofs.

Theorem C07_concurrent_path_translated :
  forall ops k sk,
    cp_interp gen_concurrentPath_case gen_concurrentPath_final ops k sk = concurrent_path ops k sk.
Proof. exact concurrent_path_gen_ok. Qed.
Print Assumptions C07_concurrent_path_translated.

Theorem C07_positional_requires_order_translated :
  forall o r k sk,
    positional_op o = true ->
    cp_interp gen_concurrentPath_case gen_concurrentPath_final (o :: r) k sk = (k, sk, true, true).
Proof. exact positional_requires_order_translated. Qed.
Print Assumptions C07_positional_requires_order_translated.

Theorem C07_positional_kinds_stop_translated :
  forall k, positional_kind k = true -> gen_concurrentPath_case k = BRet IK KsKeep true true.
Proof. exact positional_kinds_stop_translated. Qed.
Print Assumptions C07_positional_kinds_stop_translated.
