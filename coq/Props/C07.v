(* C07  The optimizer preserves program meaning.
   Statements only; each is closed by [exact] of a lemma from Proofs/.
   V, holds, app, multi, comb, over_run: arbitrary values, filter predicate
   evaluation, single-input operators, join/merge, fan-in interleaving and
   lateral `over` (see Model/DagSem.v). *)
From ZV Require Import Base.Prelude Model.Dag Model.DagSem Model.Optimizer Proofs.OptimizerProofs.

(* mergeFilters ("where a | where b" => "where a and b"), at every nesting level
   (fork branches, over bodies), for any plan: same output sequence. *)
Theorem C07_merge_filters_preserves :
  forall V holds app multi comb over_run,
    (forall a b v, holds (EAnd a b) v = holds a v && holds b v) ->
    (forall id f g l, (forall x, f x = g x) -> over_run id f l = over_run id g l) ->
    forall s input,
      run V holds app multi comb over_run (merge_filters s) input =
      run V holds app multi comb over_run s input.
Proof. exact merge_filters_preserves. Qed.
Print Assumptions C07_merge_filters_preserves.

(* removePassOps, at every nesting level, for any plan. *)
Theorem C07_remove_pass_preserves :
  forall V holds app multi comb over_run,
    (forall id f g l, (forall x, f x = g x) -> over_run id f l = over_run id g l) ->
    forall s input,
      run V holds app multi comb over_run (remove_pass s) input =
      run V holds app multi comb over_run s input.
Proof. exact remove_pass_preserves. Qed.
Print Assumptions C07_remove_pass_preserves.

(* matchFilter: the leading filter lifted into the source. *)
Theorem C07_scan_filter_lift :
  forall V holds app multi comb over_run sk e chain input,
    run V holds app multi comb over_run (OScan sk (Some e) :: chain) input =
    run V holds app multi comb over_run (OScan sk None :: OFilter e :: chain) input.
Proof. exact scan_filter_lift. Qed.
Print Assumptions C07_scan_filter_lift.

(* propagateSortKey only writes hints (Summarize.InputSortDir, Join.LeftDir/
   RightDir): every operator of the rewritten plan means what it meant, for
   any plan including fork branches. *)
Theorem C07_propagate_sort_key_only_hints :
  forall V holds app multi comb over_run,
    forall o parents ps,
      sem_op V holds app multi comb over_run (fst (prop_op o parents)) ps =
      sem_op V holds app multi comb over_run o ps.
Proof. exact prop_op_equiv. Qed.
Print Assumptions C07_propagate_sort_key_only_hints.

(* Optimizer.Optimize end to end (mergeFilters; removePassOps; optimizeParallels;
   mergeFilters; optimizeSourcePaths; insertDemand; removePassOps), partial:
   for the plans on which nothing is lifted into fork branches and no nested
   entry is rewritten (computable side conditions, true of every fork-free
   plan).  Missing: liftIntoParPaths, whose soundness is refuted on the real
   code by the oracle (lifted sort loses -r / -nulls first; order propagated
   through the fan-in of a fork). *)
Theorem C07_optimize_preserves_partial :
  forall V holds app multi comb over_run,
    (forall id f g l, (forall x, f x = g x) -> over_run id f l = over_run id g l) ->
    (forall a b v, holds (EAnd a b) v = holds a v && holds b v) ->
    forall s s' input,
      optimize s = Some s' ->
      forall s2, s2 = remove_pass (merge_filters s) ->
      opt_parallels s2 = s2 ->
      source_paths (merge_filters s2) = source_post (merge_filters s2) ->
      scan_clean (merge_filters s2) ->
      run V holds app multi comb over_run s' input =
      run V holds app multi comb over_run s input.
Proof. exact optimize_preserves_partial. Qed.
Print Assumptions C07_optimize_preserves_partial.

(* The sort-key analysis that licenses the hints is unsound as written:
   analyzeCuts judges `cut c` to keep the order on k (k is gone), and a
   following `rename k:=c` to keep it too (k now carries c's values). *)
Theorem C07_analyze_cut_keeps_key_refuted :
  exists args d key r,
    analyze (OCut args) [(d, [key])] = [(d, [key])] /\
    lookup key (cut_sem args r) <> lookup key r.
Proof. exact analyze_cut_keeps_key_refuted. Qed.
Print Assumptions C07_analyze_cut_keeps_key_refuted.

Theorem C07_analyze_cut_rename_refuted :
  let cut := [(EThis [2%N], EThis [2%N])] in
  let ren := [(EThis [1%N], EThis [2%N])] in
  analyze (ORename ren) (analyze (OCut cut) [(false, [1%N])]) = [(false, [1%N])] /\
  forall r, lookup 1%N (cut_sem cut r) = None.
Proof. exact analyze_cut_rename_refuted. Qed.
Print Assumptions C07_analyze_cut_rename_refuted.

(* ... while `drop` is analysed correctly for top-level fields. *)
Theorem C07_analyze_drop_keeps_key :
  forall args d k r,
    analyze (ODrop args) [(d, [k])] = [(d, [k])] ->
    lookup k (drop_sem args r) = lookup k r.
Proof. exact analyze_drop_keeps_key. Qed.
Print Assumptions C07_analyze_drop_keeps_key.
