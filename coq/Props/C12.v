(* C12  Branch and metadata updates are linearizable; accepted commits stay
   replayable.  Statements only. *)
From ZV Require Import Base.Prelude Model.Journal Proofs.JournalProofs.

(* For any number of clients and EVERY interleaving of their storage steps
   (no preemption bound): every log entry was appended by an operation whose
   constraint held in the state denoted by the entries before it -- the log is
   a valid sequential history (linearization point = the successful
   PutIfNotExists). *)
Theorem C12_journal_log_valid :
  forall ops sched k i p,
    nth_error (entries (jrun ops sched)) k = Some (i, p) ->
    exists o, nth_error ops i = Some o /\ p = jentry o /\
              jcheck o (map snd (firstn k (entries (jrun ops sched)))) = true.
Proof. exact journal_log_valid. Qed.
Print Assumptions C12_journal_log_valid.

(* Every acknowledged operation owns exactly one entry; an operation that
   reports failure owns none (no visible trace). *)
Theorem C12_acked_exactly_once :
  forall ops sched i c,
    nth_error (clients (jrun ops sched)) i = Some c ->
    (cpc c = PDone true -> count_entries (jrun ops sched) i = 1%nat) /\
    (cpc c = PDone false -> count_entries (jrun ops sched) i = 0%nat).
Proof. exact acked_exactly_once. Qed.
Print Assumptions C12_acked_exactly_once.

(* Branch pointers: the accepted updates of a branch form a single parent chain. *)
Theorem C12_branch_single_chain :
  forall (ups : list (nat * nat)) sched k i p,
    nth_error (entries (jrun (map (fun '(par, new) => branch_update par new) ups) sched)) k = Some (i, p) ->
    exists par, nth_error ups i = Some (par, p) /\
                par = last (map snd (firstn k (entries (jrun (map (fun '(par, new) => branch_update par new) ups) sched)))) 0%nat.
Proof. exact branch_single_chain. Qed.
Print Assumptions C12_branch_single_chain.

Theorem C12_head_within_log :
  forall ops sched, (head (jrun ops sched) <= List.length (entries (jrun ops sched)))%nat.
Proof. exact head_within_log. Qed.
Print Assumptions C12_head_within_log.

(* Creation of a named object spread over several storage paths
   (Root.CreatePool): if the entry that makes the name visible is written only
   after the layout is complete, then in every state another client can
   observe -- after any prefix of the creator's storage operations, which is
   also every state a creator that stops for good leaves behind -- whatever is
   listed is complete.  (The order of the real CreatePool's storage operations
   is checked against [register_last] on every run, and a second client really
   looks at every intermediate state in the observer campaign.) *)
From ZV Require Import Model.PoolCreate Proofs.PoolCreateProofs.
Theorem C12_create_every_prefix_consistent :
  forall need steps k,
    register_last need p0 steps = true ->
    pconsistent need (prun (firstn k steps)) = true.
Proof. intros need steps k H. exact (create_every_prefix_consistent need steps k H). Qed.
Print Assumptions C12_create_every_prefix_consistent.
