(* C16  Pool-key pruning never changes a query's result.
   Statements only; each is closed by [exact] of a lemma from Proofs/. *)
From ZV Require Import Base.Prelude Model.Pruner Proofs.PrunerProofs.
Local Open Scope Z_scope.

(* For every filter predicate (including arbitrary opaque sub-predicates),
   every key range [mn, mx] of an object or seek-index entry and every key k
   stored in it: if the synthesised pruner says "skip", the filter is not true. *)
Theorem C16_pruner_sound :
  forall (oth : nat -> key -> tv) p mn mx k,
    cmpk mn k <= 0 -> cmpk k mx <= 0 ->
    prune p mn mx = true -> is_true (eval oth p k) = false.
Proof. exact pruner_sound. Qed.
Print Assumptions C16_pruner_sound.

(* Pruned scan followed by the filter = full scan followed by the filter
   (same values, same order), for any list of objects with accurate metadata. *)
Theorem C16_pruned_scan_eq :
  forall (oth : nat -> key -> tv) p objs,
    Forall meta_ok objs ->
    filter (fun k => is_true (eval oth p k)) (scan_pruned p objs) =
    filter (fun k => is_true (eval oth p k)) (scan_all objs).
Proof. exact pruned_scan_eq. Qed.
Print Assumptions C16_pruned_scan_eq.

Theorem C16_unknown_subpredicate_no_prune :
  forall i mn mx, prune (POther i) mn mx = false.
Proof. exact unknown_subpredicate_no_prune. Qed.
Print Assumptions C16_unknown_subpredicate_no_prune.

(* The lake order used for min/max is a total preorder (needed by the above). *)
Theorem C16_order_total_preorder :
  (forall a b, cmpk b a = - cmpk a b) /\
  (forall a b c, cmpk a b <= 0 -> cmpk b c <= 0 -> cmpk a c <= 0).
Proof. exact (conj cmpk_antisym cmpk_le_trans). Qed.
Print Assumptions C16_order_total_preorder.

(* Tie T: the same soundness statement for the pruner built from the operator
   tables that go2coq translates from the Go source on every run
   (reverseComparator, rangePrunerPred). *)
From ZV Require Import Gen.OptimizerGen Proofs.PrunerGenProofs.
Theorem C16_pruner_sound_translated :
  forall (oth : nat -> key -> tv) p mn mx k,
    cmpk mn k <= 0 -> cmpk k mx <= 0 ->
    prune_gen p mn mx = true -> is_true (eval oth p k) = false.
Proof. exact pruner_sound_translated. Qed.
Print Assumptions C16_pruner_sound_translated.
