(* C02  ZSON text round trip is the identity; JSON is a subset.
   Statements only; each is closed by [exact] of a lemma from Proofs/.
   Modelled: string/name escaping and the lexer's string scanner (code
   points); the decorator logic of Formatter and Analyzer at parse-tree level
   for the fragment primitive | record | array | named | null.  The text
   parser, primitive token spelling, unions/sets/maps/enums/errors/type values
   and the JSON reader are exercised by the oracles of the harness only. *)
From ZV Require Import Base.Prelude Model.Escape Model.Zson Proofs.EscapeProofs Proofs.ZsonProofs.
Local Open Scope N_scope.

(* The lexer's scanString/parseStringBytes inverts QuotedString on every
   string, whatever follows the closing quote. *)
Theorem C02_escape_roundtrip :
  forall s rest, unquote (quoted s ++ rest) = Some (s, rest).
Proof. exact unquote_quoted. Qed.
Print Assumptions C02_escape_roundtrip.

(* Field names, enum symbols: QuotedName then matchSymbol is the identity
   (for any letter predicate that does not contain the quote character),
   provided the next character cannot extend an identifier. *)
Theorem C02_name_roundtrip :
  forall (letter : N -> bool), letter 34 = false ->
  forall s rest, boundary letter rest ->
    match_symbol letter (quoted_name letter s ++ rest) = Some (s, rest).
Proof. exact symbol_roundtrip. Qed.
Print Assumptions C02_name_roundtrip.

Theorem C02_name_quoting_total :
  forall (letter : N -> bool) s,
    (is_identifier letter s = true /\ quoted_name letter s = s) \/
    (is_identifier letter s = false /\ quoted_name letter s = quoted s).
Proof. exact name_quoting_total. Qed.
Print Assumptions C02_name_quoting_total.

(* Decorator sufficiency: a value of an anonymous type written by formatValue
   with the decorator rule of Formatter.decorate (under any typedef state,
   persist setting and implied-parent flag consistent with the type) is
   analysed, without any enclosing type, to exactly its type and value: the
   decorator is elided only where the analyzer re-infers the same type. *)
Theorem C02_decorator_sufficient_partial :
  forall P t v st a pi,
    anon t -> wf t v -> implied_ok pi t ->
    exists z, fv P st t v false pi true = (z, st) /\ conv_val a z None = Some (t, v, a).
Proof. exact fv_roundtrip_anon. Qed.
Print Assumptions C02_decorator_sufficient_partial.

(* Round trip of a value at the top of a text (FormatValue / ParseValue),
   anonymous fragment, every value except the top-level empty array. *)
Theorem C02_zson_roundtrip_partial :
  forall P t v st a,
    anon t -> wf t v -> top_ok t v ->
    exists z, fmt_top P st t v = (z, st) /\ conv_val a z None = Some (t, v, a).
Proof. exact top_roundtrip_anon. Qed.
Print Assumptions C02_zson_roundtrip_partial.

(* Sequences: any persist setting, Format or FormatRecord, one reader. *)
Theorem C02_zson_stream_roundtrip_partial :
  forall P reset l st a,
    Forall (fun tv => anon (fst tv) /\ wf (fst tv) (snd tv) /\ top_ok (fst tv) (snd tv)) l ->
    conv_stream a (fmt_stream P reset st l) = map Some l.
Proof. exact stream_roundtrip_anon. Qed.
Print Assumptions C02_zson_stream_roundtrip_partial.

(* The faithful model violates the full statement in three places; each is a
   defect of the code reported by the oracle with the same input. *)
Theorem C02_toplevel_empty_array_refuted :
  exists t v, anon t /\ wf t v /\
    conv_val [] (fst (fmt_top PNone fstate0 t v)) None <> Some (t, v, []).
Proof. exact toplevel_empty_array_refuted. Qed.
Print Assumptions C02_toplevel_empty_array_refuted.

Theorem C02_redefined_name_refuted :
  exists l, Forall (fun tv => wf (fst tv) (snd tv)) l /\
    conv_stream [] (fmt_stream PNone false fstate0 l) <> map Some l.
Proof. exact redefined_name_refuted. Qed.
Print Assumptions C02_redefined_name_refuted.

Theorem C02_named_of_named_refuted :
  exists t v, wf t v /\
    option_map (fun r => fst (fst r)) (conv_val [] (fst (fmt_top PNone fstate0 t v)) None) <> Some t.
Proof. exact named_of_named_refuted. Qed.
Print Assumptions C02_named_of_named_refuted.
