(* C02  ZSON text round trip is the identity; JSON is a subset.
   Statements only; each is closed by [exact] of a lemma from Proofs/.
   Modelled (Model/Escape.v, Model/Zson.v, vocabulary in Model/ZsonSpec.v):
   string/name escaping and the lexer's string scanner over code points; the
   decorator logic of zson.Formatter and zson.Analyzer at parse-tree level for
   the fragment  primitive | record | array | named type | null, with the
   typedef state (per value / per stream, persist).  The text parser,
   primitive token spelling, unions/sets/maps/enums/errors/type values,
   pretty-printing and the JSON reader are exercised by the oracles of the
   harness only. *)
From ZV Require Import Base.Prelude Model.Escape Model.Zson Model.ZsonSpec
                       Proofs.EscapeProofs Proofs.ZsonProofs.
Local Open Scope N_scope.

(* The lexer's scanString/scanToCloseQuote/parseStringBytes inverts
   QuotedString on every string, whatever follows the closing quote. *)
Theorem C02_escape_roundtrip :
  forall s rest, unquote (quoted s ++ rest) = Some (s, rest).
Proof. exact unquote_quoted. Qed.
Print Assumptions C02_escape_roundtrip.

(* Field names, enum symbols: QuotedName then matchSymbol is the identity (for
   any letter predicate that does not contain the quote character), provided
   the next character cannot extend an identifier. *)
Theorem C02_name_roundtrip :
  forall (letter : N -> bool), letter 34 = false ->
  forall s rest, boundary letter rest ->
    match_symbol letter (quoted_name letter s ++ rest) = Some (s, rest).
Proof. exact symbol_roundtrip. Qed.
Print Assumptions C02_name_roundtrip.

Theorem C02_name_quoting_total :
  forall (letter : N -> bool) s,
    (is_identifier letter s = true /\ quoted_name letter s = s) \/
    (is_identifier letter s = false /\ quoted_name letter s = quoted s).
Proof. exact name_quoting_total. Qed.
Print Assumptions C02_name_quoting_total.

(* Decorator sufficiency.  A value written by formatValue where no enclosing
   type is known (any typedef state related to the reader's by [Inv], any
   persist setting) is analysed, without any enclosing type, to exactly its
   type and value, and the two typedef states stay related: a decorator is
   elided only where the analyzer re-infers the same type, a name is used
   only where the reader has it bound to that type. *)
Theorem C02_decorator_sufficient :
  forall P t v st a pi,
    wf t v -> good t -> implied_ok pi t -> Inv P st a ->
    exists z nl st' a',
      fv P st t v false pi true = (z, nl, st') /\
      conv_val a z None = Some (t, v, a') /\ Inv P st' a' /\ frame (names_of t) st st'.
Proof. exact decorator_sufficient. Qed.
Print Assumptions C02_decorator_sufficient.

(* Where the enclosing type is known (inside a value of an already defined
   named type) nothing is decorated and the analyzer reads the value by the
   type of its context. *)
Theorem C02_known_type_sufficient :
  forall P t v st c,
    wf t v -> under c = under t ->
    exists z nl, fv P st t v true false true = (z, nl, st) /\
                 forall a, conv_val a z (Some c) = Some (c, v, a).
Proof. exact known_type_sufficient. Qed.
Print Assumptions C02_known_type_sufficient.

(* Formatter.formatType is read back by Analyzer.convertType, embedded
   typedefs and references to earlier typedefs included. *)
Theorem C02_type_roundtrip :
  forall P t st a,
    good t -> Inv P st a ->
    exists y st' a', fmt_type P st t = (y, st') /\ conv_type a y = Some (t, a') /\
                     Inv P st' a' /\ frame (names_of t) st st'.
Proof. exact format_type_roundtrip. Qed.
Print Assumptions C02_type_roundtrip.

(* FormatValue / ParseValue: every well-formed value of the fragment, named
   types, first-use typedefs (=name), later references (name), redefined names
   and empty containers included. *)
Theorem C02_zson_roundtrip :
  forall P t v st a,
    wf t v -> good t -> Inv P st a ->
    exists z st' a', fmt_top P st t v = (z, st') /\
                     conv_val a z None = Some (t, v, a') /\ Inv P st' a'.
Proof. exact top_roundtrip. Qed.
Print Assumptions C02_zson_roundtrip.

(* Sequences written by one formatter (Format: typedefs persist; FormatRecord:
   typedefs per value, persisting only for names matching [P]) and read by one
   reader. *)
Theorem C02_zson_stream_roundtrip :
  forall P reset l,
    Forall (fun tv => wf (fst tv) (snd tv) /\ good (fst tv)) l ->
    conv_stream [] (fmt_stream P reset fstate0 l) = map Some l.
Proof. exact stream_roundtrip0. Qed.
Print Assumptions C02_zson_stream_roundtrip.

(* The two shapes excluded by [good] are not artefacts: the faithful model,
   like the code, fails on them (open findings F-C02-8 and F-C02-7). *)
Theorem C02_named_of_named_inner_named_refuted :
  exists t v, wf t v /\ conv_val [] (fst (fmt_top PNone fstate0 t v)) None = None.
Proof. exact named_of_named_inner_named_refuted. Qed.
Print Assumptions C02_named_of_named_inner_named_refuted.

Theorem C02_name_nested_in_itself_refuted :
  exists l, Forall (fun tv => wf (fst tv) (snd tv)) l /\
    conv_stream [] (fmt_stream PNone false fstate0 l) <> map Some l.
Proof. exact name_nested_in_itself_refuted. Qed.
Print Assumptions C02_name_nested_in_itself_refuted.
