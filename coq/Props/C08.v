(* C08  Lake query results are independent of the degree of parallelism.
   Statements only; each is closed by [exact] of a lemma from Proofs/ParProofs.v.
   [leg a j parts] is what scatter leg j scans when the schedule hands partition
   i to leg [a i]; [kmr] is the k-way merge (any tie-break), [ilv] is combine
   (any interleaving). *)
From ZV Require Import Base.Prelude Model.Par Proofs.ParProofs.
From Coq Require Import Permutation.

(* scatter + merge on the key = sequential scan: for every number of legs, every
   assignment of partitions to legs (schedule) and every tie-break of the merge,
   nothing is added, dropped, duplicated or reordered. *)
Theorem C08_scatter_merge_id :
  forall {A} (leb : A -> A -> bool) n a parts out,
    (forall i, a i < n) -> parts_ordered leb parts ->
    kmr leb n (fun j => leg a j parts) out -> out = List.concat parts.
Proof. exact @scatter_merge_id. Qed.
Print Assumptions C08_scatter_merge_id.

(* head m copied into the legs and kept after the merge *)
Theorem C08_head_push_ok :
  forall {A} (leb : A -> A -> bool) m n a parts out,
    (forall i, a i < n) -> parts_ordered leb parts ->
    kmr leb n (fun j => firstn m (leg a j parts)) out ->
    firstn m out = firstn m (List.concat parts).
Proof. exact @head_push_ok. Qed.
Print Assumptions C08_head_push_ok.

(* a filter lifted into the legs *)
Theorem C08_filter_push_ok :
  forall {A} (leb : A -> A -> bool) f n a parts out,
    (forall i, a i < n) -> parts_ordered leb parts ->
    kmr leb n (fun j => filter f (leg a j parts)) out ->
    out = filter f (List.concat parts).
Proof. exact @filter_push_ok. Qed.
Print Assumptions C08_filter_push_ok.

(* merge of legs that are each sorted (sort lifted into the legs): sorted, and a
   permutation of everything the legs delivered *)
Theorem C08_merge_sorted_perm :
  forall {A} (leb : A -> A -> bool),
    (forall a b c, leb a b = true -> leb b c = true -> leb a c = true) ->
    forall n (L : nat -> list A) out,
      (forall j, j < n -> sorted leb (L j)) -> kmr leb n L out ->
      sorted leb out /\ Permutation out (all_of n L).
Proof. exact @merge_sorted_perm. Qed.
Print Assumptions C08_merge_sorted_perm.

(* combine: any interleaving is a permutation *)
Theorem C08_combine_perm :
  forall {A} n (L : nat -> list A) out, ilv n L out -> Permutation out (all_of n L).
Proof. exact @combine_perm. Qed.
Print Assumptions C08_combine_perm.

(* every value is scanned by exactly one leg *)
Theorem C08_legs_partition_input :
  forall {A} n (parts : list (list A)) a, (forall i, a i < n) ->
    Permutation (List.concat parts) (flat_map (fun j => leg a j parts) (seq 0 n)).
Proof. exact @legs_perm. Qed.
Print Assumptions C08_legs_partition_input.

(* summarize split into per-leg partials and a combining tail, for any
   commutative-monoid aggregate, any assignment and any arrival order of the
   partials; and the same for each group of a group-by *)
Theorem C08_partials_compose :
  forall {A M} (op : M -> M -> M) (e : M) (inj : A -> M),
    (forall a b c, op a (op b c) = op (op a b) c) -> (forall a b, op a b = op b a) -> (forall a, op e a = a) ->
    forall n a parts ms, (forall i, a i < n) ->
      Permutation ms (map (fun j => agg op e inj (leg a j parts)) (seq 0 n)) ->
      combine_partials op e ms = agg op e inj (List.concat parts).
Proof. exact @partials_compose. Qed.
Print Assumptions C08_partials_compose.

Theorem C08_partials_compose_by_group :
  forall {A M} (op : M -> M -> M) (e : M) (inj : A -> M),
    (forall a b c, op a (op b c) = op (op a b) c) -> (forall a b, op a b = op b a) -> (forall a, op e a = a) ->
    forall (g : A -> bool) n a parts ms, (forall i, a i < n) ->
      Permutation ms (map (fun j => agg op e inj (filter g (leg a j parts))) (seq 0 n)) ->
      combine_partials op e ms = agg op e inj (filter g (List.concat parts)).
Proof. exact @partials_compose_by. Qed.
Print Assumptions C08_partials_compose_by_group.

Theorem C08_count_sum_min_partials :
  (forall {A} n a (parts : list (list A)), (forall i, a i < n) ->
     fold_right Nat.add 0 (map (fun j => List.length (leg a j parts)) (seq 0 n)) = List.length (List.concat parts)) /\
  (forall n a (parts : list (list Z)), (forall i, a i < n) ->
     fold_right Z.add 0%Z (map (fun j => fold_right Z.add 0%Z (leg a j parts)) (seq 0 n))
     = fold_right Z.add 0%Z (List.concat parts)) /\
  (forall n a (parts : list (list Z)), (forall i, a i < n) ->
     fold_right omin_z None (map (fun j => fold_right (fun z m => omin_z (Some z) m) None (leg a j parts)) (seq 0 n))
     = fold_right (fun z m => omin_z (Some z) m) None (List.concat parts)).
Proof. exact (conj (@count_partials) (conj sum_partials min_partials)). Qed.
Print Assumptions C08_count_sum_min_partials.

(* the executable merge used in the correspondence check is an instance of [kmr] *)
Theorem C08_kmerge_is_merge :
  forall {A} (leb : A -> A -> bool),
    (forall a b c, leb a b = true -> leb b c = true -> leb a c = true) ->
    (forall a b, leb a b = true \/ leb b a = true) ->
    forall fuel legs, total_len legs < fuel ->
      kmr leb (List.length legs) (fun j => nth j legs []) (kmerge leb fuel legs).
Proof. exact @kmerge_kmr. Qed.
Print Assumptions C08_kmerge_is_merge.

(* the executable model of `from p | yield key` (Lister order, Slicer partitions,
   per-partition merge, scatter over n legs, merge) does not depend on n or on
   the assignment, on pools whose partition runs are ordered *)
Theorem C08_scan_par_schedule_independent :
  forall desc n a objs,
    (forall i, a i < n) -> parts_ordered (dle desc) (runs_of desc objs) ->
    scan_par desc n a objs = List.concat (runs_of desc objs).
Proof. exact scan_par_schedule_independent. Qed.
Print Assumptions C08_scan_par_schedule_independent.

(* the lake order is a total preorder in both directions *)
Theorem C08_lake_order_total_preorder :
  (forall d a b c, dle d a b = true -> dle d b c = true -> dle d a c = true) /\
  (forall d a b, dle d a b = true \/ dle d b a = true).
Proof. exact (conj dle_trans dle_total). Qed.
Print Assumptions C08_lake_order_total_preorder.

(* Slicer (ascending pools): on a Lister output sorted by object minimum with
   min <= max, the partitions contain every object exactly once, in order, and
   every object of a later partition starts strictly after every object of an
   earlier partition ends. *)
Theorem C08_slicer_partitions :
  forall objs,
    sorted omin_le objs -> (forall o, In o objs -> kle (omin o) (omax o) = true) ->
    List.concat (slice objs) = objs /\ obj_parts_ordered (slice objs).
Proof. exact slicer_partitions. Qed.
Print Assumptions C08_slicer_partitions.

(* Tie T: the three decisions of meta.Slicer.stash (close the accumulated
   partition; replace the running minimum; replace the running maximum) are
   re-translated from runtime/sam/op/meta/slicer.go by go2coq on every run
   (Gen/SlicerGen.v).  The Slicer loop over the translated conditions is the
   hand-written slice for every object list, so the partition theorem speaks
   about the code's own conditions. *)
From ZV Require Import Model.StashTable Gen.SlicerGen Proofs.SlicerGenProofs.

Theorem C08_slicer_translated :
  forall objs,
    slice_tbl gen_stash_flush gen_stash_newmin gen_stash_newmax objs [] None None = slice objs.
Proof. exact slice_gen_ok. Qed.
Print Assumptions C08_slicer_translated.

Theorem C08_slicer_partitions_translated :
  forall objs,
    sorted omin_le objs -> (forall o, In o objs -> kle (omin o) (omax o) = true) ->
    List.concat (slice_tbl gen_stash_flush gen_stash_newmin gen_stash_newmax objs [] None None) = objs /\
    obj_parts_ordered (slice_tbl gen_stash_flush gen_stash_newmin gen_stash_newmax objs [] None None).
Proof. exact slicer_partitions_translated. Qed.
Print Assumptions C08_slicer_partitions_translated.
