(* C09  The vector runtime agrees with the sequential runtime.
   Statements only; each is closed by [exact] of a lemma from Proofs/VamProofs.v.
   The model (Model/Vam.v) mirrors runtime/vam/op/agg.go and the planner
   predicate as they are after the fixes C09-01..06.  The theorems hold for
   every input in which the grouped field is string-typed (count() by) / the
   summed field holds int64 numbers (sum()); outside these type classes the
   code still leaves the sequential semantics (open findings F-C09-1..3): the
   [refuted] theorems give the witnesses, which the harness replays on real
   lakes. *)
From ZV Require Import Base.Prelude Model.Vam Model.VamCases Proofs.VamProofs.
From Coq Require Import Permutation.
Local Open Scope Z_scope.

(* count() by <field>, one vectorised leg.  For every list of columns (any
   number of objects and record types, any null masks) made of the vector kinds
   a string-typed field can have -- plain string vectors, string constants,
   string dictionaries satisfying the VNG dictionary invariant [col_wfb] that
   the correspondence check evaluates on every real vector -- the operator does
   not panic and the rows it emits report, for every value v, exactly the
   number of occurrences of v in the decoded data (the sequential result),
   including the null(string) row. *)
Theorem C09_count_by_agrees_on_strings : forall cols,
  Forall good_col cols ->
  exists st, v_count_by cols = Some st /\
             forall v, row_count st v = occ v (decode_all cols).
Proof. exact count_by_agrees. Qed.
Print Assumptions C09_count_by_agrees_on_strings.

(* several legs (any distribution of the objects over the legs): no leg
   panics and the per-key sums of the legs' rows are the occurrence counts. *)
Theorem C09_count_by_legs_compose : forall legs,
  Forall (Forall good_col) legs ->
  Forall (fun leg => v_count_by leg <> None) legs /\
  forall v, legs_total legs v = occ v (decode_all (List.concat legs)).
Proof. exact count_by_legs_compose. Qed.
Print Assumptions C09_count_by_legs_compose.

(* hence adding/removing vector copies does not change the modelled result *)
Theorem C09_count_by_vectors_irrelevant : forall legs seqvals,
  Forall (Forall good_col) legs ->
  Permutation seqvals (decode_all (List.concat legs)) ->
  forall v, legs_total legs v = occ v seqvals.
Proof. exact count_by_vectors_irrelevant. Qed.
Print Assumptions C09_count_by_vectors_irrelevant.

(* sum(<field>): plain int64 vectors and int64 constants with any null mask,
   mixed with columns holding no number (strings, missing field), at least one
   int64 present: the vector result is the sequential one, int64 wrap-around
   included.  (Dictionaries of numbers are not covered by this theorem.) *)
Theorem C09_sum_agrees_on_int64_partial : forall cols,
  Forall sum_good cols ->
  ints_of (decode_all cols) <> [] ->
  seq_sum_int (decode_all cols) = Some (v_sum cols).
Proof. exact sum_agrees. Qed.
Print Assumptions C09_sum_agrees_on_int64_partial.

(* the planner hands a leg to the vector runtime only when parallelism > 1,
   the pool is non-empty, EVERY object has a vector copy, the leg has one of
   the two shapes, the scan carries no pushed-down filter and the plan has no
   Slicer; with any vector copy missing it never does *)
Theorem C09_vectorized_only_with_all_vectors : forall sh par nobj nvec filt sliced,
  vectorized sh par nobj nvec filt sliced = true ->
  (1 < par)%N /\ (0 < nobj)%N /\ nvec = nobj /\ sh <> SOther /\ filt = false /\ sliced = false.
Proof. exact vectorized_only_with_all_vectors. Qed.
Print Assumptions C09_vectorized_only_with_all_vectors.

Theorem C09_not_vectorized_without_vectors : forall sh par nobj nvec filt sliced,
  (nvec < nobj)%N -> vectorized sh par nobj nvec filt sliced = false.
Proof. exact not_vectorized_without_vectors. Qed.
Print Assumptions C09_not_vectorized_without_vectors.

(* vam Head inside `over ... => ( head N )`: one Head instance serves every
   scope; each scope (any batching) yields exactly its first min(N, length)
   values -- the count of a scope that ended short of the limit does not leak
   into the next one.  The model is checked against the real vamop.Head on
   generated scope sequences on every run. *)
Theorem C09_head_scopes : forall limit scopes, (0 < limit)%nat ->
  map nsum (head_scopes limit O scopes) = map (fun s => Nat.min limit (nsum s)) scopes.
Proof. exact head_scopes_spec. Qed.
Print Assumptions C09_head_scopes.

(* ---- refutations of the unrestricted statement (open findings) *)

(* F-C09-1: a field that is not a string in some record: panic *)
Theorem C09_count_by_refuted_nonstring_panics :
  v_count_by [CNum NInt [1; 2] []] = None /\ v_count_by [CMissing 1] = None /\
  v_count_by [CDictNum NInt [1; 2] [1; 1] [0; 1]%nat []] = None.
Proof. exact count_by_refuted_nonstring_panics. Qed.
Print Assumptions C09_count_by_refuted_nonstring_panics.

(* F-C09-1/2: a constant of another type is dropped; a null-typed constant is
   reported as null(string) *)
Theorem C09_count_by_refuted_const :
  disagrees [CConst (KNum NInt 7) 3 []] /\ disagrees [CConst KNullV 2 []].
Proof. exact count_by_refuted_const. Qed.
Print Assumptions C09_count_by_refuted_const.

(* F-C09-3: no number at all gives 0 instead of null; floats are skipped *)
Theorem C09_sum_refuted_no_values :
  seq_sum_int (decode_all [CMissing 2]) = None /\ v_sum [CMissing 2] = 0.
Proof. exact sum_refuted_no_values. Qed.
Print Assumptions C09_sum_refuted_no_values.

Theorem C09_sum_refuted_float_ignored :
  v_sum [CNum NFloat [4609434218613702656; 4612811918334230528] []] = 0.
Proof. exact sum_refuted_float_ignored. Qed.
Print Assumptions C09_sum_refuted_float_ignored.

(* vam Tail (runtime/vam/op/tail.go): for every limit and every split of a
   scope's values into vectors, the vectors it hands out hold exactly the last
   min(limit, n) values of the scope, in order -- also when one large vector
   makes several buffered vectors unnecessary at once, and in every scope of a
   sequence served by one instance. *)
From ZV Require Import Model.VamTail Proofs.VamTailProofs.
Theorem C09_tail_scope : forall limit batches,
  List.concat (tail_scope limit batches) = lastn limit (List.concat batches).
Proof. exact tail_scope_spec. Qed.
Print Assumptions C09_tail_scope.

Theorem C09_tail_scopes : forall limit scopes,
  map (@List.concat Z) (tail_scopes limit scopes) = map (fun s => lastn limit (List.concat s)) scopes.
Proof. exact tail_scopes_spec. Qed.
Print Assumptions C09_tail_scopes.
