(* C09  The vector runtime agrees with the sequential runtime.
   Statements only; each is closed by [exact] of a lemma from Proofs/VamProofs.v.
   The model (Model/Vam.v) mirrors runtime/vam/op/agg.go as it is.  The faithful
   model does NOT satisfy the unrestricted statement: the theorems below hold on
   explicit classes of columns, and the [refuted] theorems give witnesses
   outside them (each class of witness is replayed on a real lake by the
   harness and reported as a defect of the code). *)
From ZV Require Import Base.Prelude Model.Vam Model.VamCases Proofs.VamProofs.
From Coq Require Import Permutation.
Local Open Scope Z_scope.

(* count() by <field>, one vectorised leg.  For every list of columns (any
   number of objects and record types) made of plain string vectors, string
   constants and well-formed string dictionaries none of whose keys the leg
   has seen before, all without nulls: the operator does not panic and the
   rows it emits report, for every value v, exactly the number of occurrences
   of v in the decoded data (the sequential result). *)
Theorem C09_count_by_agrees_partial : forall cols,
  good_cols [] cols ->
  exists st, v_count_by cols = Some st /\
             forall v, row_count st v = occ v (decode_all cols).
Proof. exact count_by_agrees. Qed.
Print Assumptions C09_count_by_agrees_partial.

(* the dictionary hypotheses of the class are implied by the syntactic VNG
   invariant that the correspondence check evaluates on every real vector *)
Theorem C09_good_dict_from_wfb : forall pre e cnt idx nulls,
  col_wfb (CDictStr e cnt idx nulls) = true -> no_nulls nulls ->
  (forall s, In s e -> occ (VStr s) pre = 0) ->
  good_col pre (CDictStr e cnt idx nulls).
Proof. exact good_dict_from_wfb. Qed.
Print Assumptions C09_good_dict_from_wfb.

(* several legs (any distribution of the objects over the legs): no leg
   panics and the per-key sums of the legs' rows are the occurrence counts. *)
Theorem C09_count_by_legs_compose : forall legs,
  Forall (good_cols []) legs ->
  Forall (fun leg => v_count_by leg <> None) legs /\
  forall v, legs_total legs v = occ v (decode_all (List.concat legs)).
Proof. exact count_by_legs_compose. Qed.
Print Assumptions C09_count_by_legs_compose.

(* hence adding/removing vector copies does not change the modelled result *)
Theorem C09_count_by_vectors_irrelevant : forall legs seqvals,
  Forall (good_cols []) legs ->
  Permutation seqvals (decode_all (List.concat legs)) ->
  forall v, legs_total legs v = occ v seqvals.
Proof. exact count_by_vectors_irrelevant. Qed.
Print Assumptions C09_count_by_vectors_irrelevant.

(* sum(<field>): plain int64 vectors with any null mask, mixed with columns
   holding no number (strings, missing field), at least one int64 present:
   the vector result is the sequential one, int64 wrap-around included. *)
Theorem C09_sum_agrees_partial : forall cols,
  Forall sum_good cols ->
  ints_of (decode_all cols) <> [] ->
  seq_sum_int (decode_all cols) = Some (v_sum cols).
Proof. exact sum_agrees. Qed.
Print Assumptions C09_sum_agrees_partial.

(* the planner hands a leg to the vector runtime only when parallelism > 1,
   the pool is non-empty, EVERY object has a vector copy and the leg has one
   of the two shapes; with any vector copy missing it never does *)
Theorem C09_vectorized_only_with_all_vectors : forall sh par nobj nvec,
  vectorized sh par nobj nvec = true ->
  (1 < par)%N /\ (0 < nobj)%N /\ nvec = nobj /\ sh <> SOther.
Proof. exact vectorized_only_with_all_vectors. Qed.
Print Assumptions C09_vectorized_only_with_all_vectors.

Theorem C09_not_vectorized_without_vectors : forall sh par nobj nvec,
  (nvec < nobj)%N -> vectorized sh par nobj nvec = false.
Proof. exact not_vectorized_without_vectors. Qed.
Print Assumptions C09_not_vectorized_without_vectors.

(* ---- refutations of the unrestricted statement (defects of the code) *)

Theorem C09_count_by_refuted_dict_overwrites :
  exists cols, Forall (fun c => col_wfb c = true) cols /\ disagrees cols.
Proof. exact count_by_refuted_dict_overwrites. Qed.
Print Assumptions C09_count_by_refuted_dict_overwrites.

Theorem C09_count_by_refuted_null_string :
  exists cols, Forall (fun c => col_wfb c = true) cols /\ disagrees cols.
Proof. exact count_by_refuted_null_string. Qed.
Print Assumptions C09_count_by_refuted_null_string.

Theorem C09_count_by_refuted_nonstring_panics :
  v_count_by [CNum NInt [1; 2] []] = None /\ v_count_by [CMissing 1] = None /\
  v_count_by [CDictNum NInt [1; 2] [1; 1] [0; 1]%nat []] = None.
Proof. exact count_by_refuted_nonstring_panics. Qed.
Print Assumptions C09_count_by_refuted_nonstring_panics.

Theorem C09_count_by_refuted_const :
  disagrees [CConst (KNum NInt 7) 3 []] /\ disagrees [CConst KNullV 2 []].
Proof. exact count_by_refuted_const. Qed.
Print Assumptions C09_count_by_refuted_const.

Theorem C09_sum_refuted_const_ignored :
  seq_sum_int (decode_all [CConst (KNum NInt 5) 3 []]) = Some 15 /\ v_sum [CConst (KNum NInt 5) 3 []] = 0.
Proof. exact sum_refuted_const_ignored. Qed.
Print Assumptions C09_sum_refuted_const_ignored.

Theorem C09_sum_refuted_no_values :
  seq_sum_int (decode_all [CMissing 2]) = None /\ v_sum [CMissing 2] = 0.
Proof. exact sum_refuted_no_values. Qed.
Print Assumptions C09_sum_refuted_no_values.
