(* C14  Pool contents always equal the loaded values minus the deleted ones.
   Statements only. *)
From Coq Require Import Sorting.Sorted Sorting.Permutation.
From ZV Require Import Base.Prelude Model.Pruner Model.LakeData Proofs.LakeDataProofs.
Local Open Scope Z_scope.

(* For every history of loads, deletes by id, deletes by predicate, compactions
   and data-neutral operations (vector add/del, vacuum), for both pool orders:
   everything loaded = everything deleted + what the branch holds (multisets).
   Operations that report an error are part of the history and change nothing. *)
Theorem C14_contents_spec :
  forall desc (h : list lop),
    Permutation (loaded (ledger_run desc h))
                (deleted (ledger_run desc h) ++ contents (lbranch (lrun desc h))).
Proof. intros desc h. rewrite <- ledger_st. exact (contents_spec desc h). Qed.
Print Assumptions C14_contents_spec.

(* A predicate delete removes exactly the values for which the predicate is true. *)
Theorem C14_delete_where_exact :
  forall desc s p n,
    Permutation (contents (lbranch (lstep' desc s (ODeleteWhere p n))))
                (filter (fun v => negb (p v)) (contents (lbranch s))).
Proof. exact delete_where_exact. Qed.
Print Assumptions C14_delete_where_exact.

(* An unfiltered scan of every reachable branch state is in pool-key order
   (asc or desc, null/missing largest, ties by value bytes) and returns exactly
   the branch's values. *)
Theorem C14_scan_sorted_and_complete :
  forall desc (h : list lop),
    Sorted (fun a b => ile desc a b = true) (scan desc (lbranch (lrun desc h))) /\
    Permutation (scan desc (lbranch (lrun desc h))) (contents (lbranch (lrun desc h))).
Proof. exact scan_reachable. Qed.
Print Assumptions C14_scan_sorted_and_complete.

(* Loading cuts the input into objects without losing or duplicating values,
   for every threshold. *)
Theorem C14_load_objects_partition :
  forall desc thresh l, Permutation (flat_map dvals (load_objs desc thresh l)) l.
Proof. exact load_objs_perm. Qed.
Print Assumptions C14_load_objects_partition.

(* Every object's metadata is accurate: count, and inclusive min/max in
   ascending terms for both pool orders (this is the hypothesis of C16). *)
Theorem C14_object_meta_accurate :
  forall desc chunk,
    (forall v, In v (dvals (mk_obj desc chunk)) ->
               cmpk (dmin (mk_obj desc chunk)) (vkey v) <= 0 /\ cmpk (vkey v) (dmax (mk_obj desc chunk)) <= 0)
    /\ dcount (mk_obj desc chunk) = Datatypes.length chunk
    /\ Permutation (dvals (mk_obj desc chunk)) chunk.
Proof. exact mk_obj_meta. Qed.
Print Assumptions C14_object_meta_accurate.

(* The import order (pool key, nulls max, then value bytes; operands swapped
   for a descending pool) is a total preorder. *)
Theorem C14_import_order_total_preorder :
  forall desc, (forall a b, ile desc a b = false -> ile desc b a = true) /\
               (forall a b c, ile desc a b = true -> ile desc b c = true -> ile desc a c = true).
Proof. intros desc. split; [apply ile_total | apply ile_trans]. Qed.
Print Assumptions C14_import_order_total_preorder.
