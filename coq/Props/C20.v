(* C20  fuse is uniform, order-preserving and lossless.
   Statements only; each is closed by [exact] of a lemma from Proofs/FuseProofs.v.

   The model (Model/Fuse.v) mirrors, as of /repo HEAD, agg.merge / Schema.Mixin,
   the fuse() aggregate, the shaper with Cast|Fill|Order (shaperType, newStep,
   step.build, bestUnionTag, the per-type-id cache of ConstShaper) and the
   Fuser's buffering with its spill file.

   Full strength (all inputs, all memory limits): C20_fuse_count_order,
   C20_fuse_spill_invariant, C20_fuse_type_is_agg_type.

   "Every output has the fused type and carries exactly the leaves of its
   input" is still FALSE of the code and of the faithful model; the witnesses
   are the open findings F-C20-1 (C20_fuse_uniform_refuted: a union member
   widened by the merge) and F-C20-2 (C20_fuse_lossless_map_refuted: maps);
   F-C20-3 (error values pass through unshaped) is outside the type algebra of
   the model.  The statement is proved under the computable guard [input_ok] =
   "the real shaper computes the fused type for this input type, without
   primitive casts, and the input type fits the fused type"
   (C20_fuse_uniform_lossless_guarded); the correspondence run checks that the
   guard holds exactly for the inputs outside the finding classes. *)
From ZV Require Import Base.Prelude Model.Fuse Proofs.FuseProofs.

Section C20.
  (* the temporary file of runtime/sam/op/spill: written values are read back in order (C01) *)
  Variable file : Type.
  Variable file_empty : file.
  Variable file_write : file -> tv -> file.
  Variable file_read : file -> list tv.
  Variable vsize : tv -> nat.
  Hypothesis file_roundtrip : forall l, file_read (fold_left file_write l file_empty) = l.

  (* One output per input, and the k-th output is the shaper applied to the
     k-th input (for every memory limit, i.e. whether or not the input was
     spilled). *)
Theorem C20_fuse_count_order :
    forall cf mem vs,
      List.length (fuse_op file file_empty file_write file_read vsize cf mem vs) = List.length vs /\
      forall T, fuser_type cf vs = Some T ->
        forall a x b, vs = a ++ x :: b ->
          nth_error (fuse_op file file_empty file_write file_read vsize cf mem vs) (List.length a) =
          Some (snd (shaper_eval cf T (cache_after cf T [] a) x)).
Proof. exact (fuse_count_order file file_empty file_write file_read vsize file_roundtrip). Qed.

  (* The result does not depend on the memory limit. *)
Theorem C20_fuse_spill_invariant :
    forall cf mem mem' vs,
      fuse_op file file_empty file_write file_read vsize cf mem vs =
      fuse_op file file_empty file_write file_read vsize cf mem' vs.
Proof. exact (fuse_spill_invariant file file_empty file_write file_read vsize file_roundtrip). Qed.

  (* Under the guard, every output has the fused type T and has exactly the
     non-null leaves of its input: same path, same primitive type, same value;
     everything else in the output is null ([leaves] lists non-null leaves only). *)
Theorem C20_fuse_uniform_lossless_guarded :
    forall cf mem vs T,
      fuser_type cf vs = Some T ->
      Forall (input_ok cf T) vs ->
      Forall2 (fun x y : tv =>
                 fst y = T /\
                 forall p lf, In lf (leaves T (snd y) p) <-> In lf (leaves (fst x) (snd x) p))
              vs (fuse_op file file_empty file_write file_read vsize cf mem vs).
Proof. exact (fuse_uniform_lossless_guarded file file_empty file_write file_read vsize file_roundtrip). Qed.
End C20.
Print Assumptions C20_fuse_count_order.
Print Assumptions C20_fuse_spill_invariant.
Print Assumptions C20_fuse_uniform_lossless_guarded.

(* The type the operator shapes to is the one the fuse() aggregate reports. *)
Theorem C20_fuse_type_is_agg_type :
  forall cf vs, fuser_type cf vs = agg_type cf (map fst vs).
Proof. exact fuser_type_is_agg_type. Qed.
Print Assumptions C20_fuse_type_is_agg_type.

(* Every step the shaper builds for a fitting pair of types carries a
   well-typed value into the target type without loss (any fuel, any path). *)
Theorem C20_shaper_step_sound :
  forall cf F F' i o s,
    fits F i o = true -> new_step F' i o = Some s -> step_ok s = true -> wf_ty i = true ->
    forall v p, has_ty v i = true ->
      fst (build cf s v) = o /\
      (forall lf, In lf (leaves o (snd (build cf s v)) p) <-> In lf (leaves i v p)).
Proof. exact shape_sound. Qed.
Print Assumptions C20_shaper_step_sound.

(* The unguarded statement is false of the faithful model. *)
Theorem C20_fuse_uniform_refuted :
  exists vs T,
    forallb (fun x : tv => has_ty (snd x) (fst x) && wf_ty (fst x)) vs = true /\
    fuser_type 20 vs = Some T /\
    exists y, In y (list_op 20 1000 vs) /\ fst y <> T.
Proof. exact uniform_refuted. Qed.
Print Assumptions C20_fuse_uniform_refuted.

Theorem C20_fuse_lossless_map_refuted :
  exists vs T x y,
    forallb (fun x : tv => has_ty (snd x) (fst x) && wf_ty (fst x)) vs = true /\
    fuser_type 20 vs = Some T /\
    nth_error vs 0 = Some x /\ nth_error (list_op 20 1000 vs) 0 = Some y /\
    In ([PField "id"], 9%N, 7%N) (leaves (fst x) (snd x) []) /\
    ~ In ([PField "id"], 9%N, 7%N) (leaves (fst y) (snd y) []).
Proof. exact lossless_map_refuted. Qed.
Print Assumptions C20_fuse_lossless_map_refuted.
