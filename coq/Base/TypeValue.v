(* Serialized type values (type.go AppendTypeValue; context.go DecodeTypeValue,
   DecodeName, DecodeLength).  Serialization is split in two layers:
   - syntax: [unparse]/[parse] between byte strings and trees that may contain
     name definitions ([TNamed], tag 37) and name references ([TRef], tag 38);
   - binding: [to_syn] replaces a repeated named type by a reference when the
     name's latest binding in depth-first order is that type (the encoder's
     typedefs map), [resolve] looks references up in a typedefs map that is
     updated by every definition (the decoder; the map is the context's). *)
From ZV Require Import Base.Prelude Base.Types.
Local Open Scope N_scope.

(* ---- binary.AppendUvarint / binary.Uvarint *)
Fixpoint uvarint_f (fuel : nat) (n : N) : bytes :=
  match fuel with
  | O => [n mod 128]
  | S f => if n <? 128 then [n] else (n mod 128 + 128) :: uvarint_f f (n / 128)
  end.
Definition uvarint (n : N) : bytes := uvarint_f 10 n.

Fixpoint read_uv (fuel : nat) (b : bytes) : option (N * bytes) :=
  match fuel with
  | O => None
  | S f =>
    match b with
    | [] => None
    | x :: r =>
      if x <? 128 then Some (x, r)
      else match read_uv f r with
           | Some (v, r') => Some ((x - 128) + 128 * v, r')
           | None => None
           end
    end
  end.

(* DecodeLength: lengths above math.MaxInt32 are rejected. *)
Definition max_len : N := 2147483648.
Definition read_len (b : bytes) : option (N * bytes) :=
  match read_uv 10 b with
  | Some (v, r) => if v <? max_len then Some (v, r) else None
  | None => None
  end.

Definition blen (s : bytes) : N := N.of_nat (List.length s).
Definition str (s : bytes) : bytes := uvarint (blen s) ++ s.

(* DecodeName *)
Definition read_str (b : bytes) : option (bytes * bytes) :=
  match read_len b with
  | Some (n, r) =>
    if n <=? blen r then Some (firstn (N.to_nat n) r, skipn (N.to_nat n) r) else None
  | None => None
  end.

(* ---- syntax *)
Fixpoint unparse (t : ty) : bytes :=
  match t with
  | TPrim id => [id]
  | TRecord fs => 30 :: uvarint (N.of_nat (List.length fs)) ++ flat_map (fun f => str (fst f) ++ unparse (snd f)) fs
  | TArray t => 31 :: unparse t
  | TSet t => 32 :: unparse t
  | TMap k v => 33 :: unparse k ++ unparse v
  | TUnion ts => 34 :: uvarint (N.of_nat (List.length ts)) ++ flat_map unparse ts
  | TEnum syms => 35 :: uvarint (N.of_nat (List.length syms)) ++ flat_map str syms
  | TError t => 36 :: unparse t
  | TNamed n t => 37 :: str n ++ unparse t
  | TRef n => 38 :: str n
  end.

(* LookupPrimitiveByID *)
Definition valid_prim (id : N) : bool :=
  (id <? 30) && negb (existsb (N.eqb id) [4; 5; 10; 11; 17; 18; 19; 20; 21; 22]).

Definition max_count : N := 100000.  (* MaxRecordFields = MaxUnionTypes = MaxEnumSymbols *)

Fixpoint rep {A} (p : bytes -> option (A * bytes)) (n : nat) (b : bytes) : option (list A * bytes) :=
  match n with
  | O => Some ([], b)
  | S n' =>
    match p b with
    | None => None
    | Some (x, b1) =>
      match rep p n' b1 with
      | None => None
      | Some (xs, b2) => Some (x :: xs, b2)
      end
    end
  end.

Definition read_count (b : bytes) : option (nat * bytes) :=
  match read_len b with
  | Some (n, r) => if max_count <? n then None else Some (N.to_nat n, r)
  | None => None
  end.

Fixpoint parse (fuel : nat) (b : bytes) : option (ty * bytes) :=
  match fuel with
  | O => None
  | S f =>
    match b with
    | [] => None
    | id :: b =>
      if id =? 37 then
        match read_str b with
        | None => None
        | Some (name, b) =>
          match parse f b with None => None | Some (t, b) => Some (TNamed name t, b) end
        end
      else if id =? 38 then
        match read_str b with None => None | Some (name, b) => Some (TRef name, b) end
      else if id =? 30 then
        match read_count b with
        | None => None
        | Some (n, b) =>
          match rep (fun b => match read_str b with
                              | None => None
                              | Some (name, b) =>
                                match parse f b with None => None | Some (t, b) => Some ((name, t), b) end
                              end) n b with
          | None => None
          | Some (fs, b) => Some (TRecord fs, b)
          end
        end
      else if id =? 31 then match parse f b with None => None | Some (t, b) => Some (TArray t, b) end
      else if id =? 32 then match parse f b with None => None | Some (t, b) => Some (TSet t, b) end
      else if id =? 33 then
        match parse f b with
        | None => None
        | Some (k, b) => match parse f b with None => None | Some (v, b) => Some (TMap k v, b) end
        end
      else if id =? 34 then
        match read_count b with
        | None => None
        | Some (n, b) =>
          match rep (parse f) n b with None => None | Some (ts, b) => Some (TUnion ts, b) end
        end
      else if id =? 35 then
        match read_count b with
        | None => None
        | Some (n, b) => match rep read_str n b with None => None | Some (ss, b) => Some (TEnum ss, b) end
        end
      else if id =? 36 then match parse f b with None => None | Some (t, b) => Some (TError t, b) end
      else if valid_prim id then Some (TPrim id, b)
      else None
    end
  end.

(* every level of nesting consumes a byte, so this fuel never runs out *)
Definition parse_tv (b : bytes) : option (ty * bytes) := parse (S (List.length b)) b.

(* ---- binding *)
Definition tdefs := list (bytes * ty).   (* name -> the type it is bound to (latest first) *)

Definition syn_list (f : tdefs -> ty -> ty * tdefs) : tdefs -> list ty -> list ty * tdefs :=
  fix go (E : tdefs) (l : list ty) {struct l} : list ty * tdefs :=
    match l with
    | [] => ([], E)
    | t :: r => let (s, E1) := f E t in let (ss, E2) := go E1 r in (s :: ss, E2)
    end.

Definition syn_fields (f : tdefs -> ty -> ty * tdefs)
  : tdefs -> list (bytes * ty) -> list (bytes * ty) * tdefs :=
  fix go (E : tdefs) (l : list (bytes * ty)) {struct l} : list (bytes * ty) * tdefs :=
    match l with
    | [] => ([], E)
    | fld :: r =>
      let (s, E1) := f E (snd fld) in let (ss, E2) := go E1 r in ((fst fld, s) :: ss, E2)
    end.

Definition res_list (f : tdefs -> ty -> option (ty * tdefs)) : tdefs -> list ty -> option (list ty * tdefs) :=
  fix go (D : tdefs) (l : list ty) {struct l} : option (list ty * tdefs) :=
    match l with
    | [] => Some ([], D)
    | s :: r =>
      match f D s with
      | None => None
      | Some (t, D1) =>
        match go D1 r with None => None | Some (ts, D2) => Some (t :: ts, D2) end
      end
    end.

Definition res_fields (f : tdefs -> ty -> option (ty * tdefs))
  : tdefs -> list (bytes * ty) -> option (list (bytes * ty) * tdefs) :=
  fix go (D : tdefs) (l : list (bytes * ty)) {struct l} : option (list (bytes * ty) * tdefs) :=
    match l with
    | [] => Some ([], D)
    | fld :: r =>
      match f D (snd fld) with
      | None => None
      | Some (t, D1) =>
        match go D1 r with None => None | Some (ts, D2) => Some ((fst fld, t) :: ts, D2) end
      end
    end.

(* appendTypeValue's choice between name-def and name-ref *)
Fixpoint to_syn (E : tdefs) (t : ty) {struct t} : ty * tdefs :=
  match t with
  | TPrim _ | TEnum _ | TRef _ => (t, E)
  | TRecord fs =>
    let (ss, E') := syn_fields (fun E t => to_syn E t) E fs in (TRecord ss, E')
  | TArray t => let (s, E1) := to_syn E t in (TArray s, E1)
  | TSet t => let (s, E1) := to_syn E t in (TSet s, E1)
  | TError t => let (s, E1) := to_syn E t in (TError s, E1)
  | TMap k v =>
    let (sk, E1) := to_syn E k in let (sv, E2) := to_syn E1 v in (TMap sk sv, E2)
  | TUnion ts => let (ss, E') := syn_list (fun E t => to_syn E t) E ts in (TUnion ss, E')
  | TNamed n i =>
    let isref := match assoc n E with Some p => ty_eqb p i | None => false end in
    if isref then (TRef n, E)
    else let (s, E1) := to_syn E i in (TNamed n s, (n, i) :: E1)
  end.

Definition encode (t : ty) : bytes := unparse (fst (to_syn [] t)).

(* the decoder's treatment of names, without interning: a definition binds the
   name (after its body has been processed), a reference reads the binding *)
Fixpoint resolve (D : tdefs) (s : ty) {struct s} : option (ty * tdefs) :=
  match s with
  | TPrim _ | TEnum _ => Some (s, D)
  | TRef n => match assoc n D with Some i => Some (TNamed n i, D) | None => None end
  | TRecord fs =>
    match res_fields (fun D s => resolve D s) D fs with
    | Some (ts, D') => Some (TRecord ts, D')
    | None => None
    end
  | TArray s => match resolve D s with Some (t, D1) => Some (TArray t, D1) | None => None end
  | TSet s => match resolve D s with Some (t, D1) => Some (TSet t, D1) | None => None end
  | TError s => match resolve D s with Some (t, D1) => Some (TError t, D1) | None => None end
  | TMap k v =>
    match resolve D k with
    | Some (tk, D1) =>
      match resolve D1 v with Some (tv, D2) => Some (TMap tk tv, D2) | None => None end
    | None => None
    end
  | TUnion ss =>
    match res_list (fun D s => resolve D s) D ss with Some (ts, D') => Some (TUnion ts, D') | None => None end
  | TNamed n s =>
    match resolve D s with Some (i, D1) => Some (TNamed n i, (n, i) :: D1) | None => None end
  end.

(* decoding a type value in a context whose typedefs map is [D], structure only *)
Definition decode (D : tdefs) (b : bytes) : option (ty * bytes) :=
  match parse_tv b with
  | Some (s, rest) => match resolve D s with Some (t, _) => Some (t, rest) | None => None end
  | None => None
  end.
