(* Shared numeric/ordering base for C06:
   - three-way comparisons as total preorders ([strans], lexicographic lists);
   - the float64 domain as extended dyadic rationals with Go's cmp.Compare,
     math.Trunc and the exact fractional remainder. *)
From Coq Require Import QArith.
From ZV Require Import Base.Prelude.
Close Scope Q_scope.
Local Open Scope Z_scope.

(* ---------------------------------------------------------------- *)
(* Three-way comparisons.  [strans c x y z]: if x <= y and y <= z then
   [c x z] is the composition of the two results.  Together with
   antisymmetry this is "c is a total preorder"; unlike the usual
   formulation it is preserved by lexicographic products using the
   hypothesis only in the order (x, y, z), which is what a structural
   induction on the first argument provides. *)

Definition comp_cmp (c1 c2 : comparison) : comparison :=
  match c1, c2 with Eq, Eq => Eq | _, _ => Lt end.

Definition strans {A} (c : A -> A -> comparison) (x y z : A) : Prop :=
  c x y <> Gt -> c y z <> Gt -> c x z = comp_cmp (c x y) (c y z).

Definition antisym {A} (c : A -> A -> comparison) (x y : A) : Prop :=
  c y x = CompOpp (c x y).

Section Preorder.
  Context {A : Type}.
  Variable c : A -> A -> comparison.
  Variable D : A -> Prop.
  Hypothesis Hanti : forall x y, D x -> D y -> antisym c x y.
  Hypothesis Hle : forall x y z, D x -> D y -> D z ->
      c x y <> Gt -> c y z <> Gt -> c x z <> Gt.

  Lemma strans_of_le_trans : forall x y z, D x -> D y -> D z -> strans c x y z.
  Proof.
    intros x y z Dx Dy Dz Hxy Hyz.
    pose proof (Hle x y z Dx Dy Dz Hxy Hyz) as Hxz.
    pose proof (Hanti x y Dx Dy) as Ayx. pose proof (Hanti y z Dy Dz) as Azy.
    pose proof (Hanti x z Dx Dz) as Azx. unfold antisym in *.
    destruct (c x y) eqn:Exy; destruct (c y z) eqn:Eyz; try congruence; simpl in *.
    - (* Eq Eq *)
      assert (Hzx : c z x <> Gt).
      { apply (Hle z y x); auto; congruence. }
      destruct (c x z); simpl in *; congruence.
    - (* Eq Lt *)
      destruct (c x z) eqn:Exz; simpl in *; try congruence.
      exfalso. assert (Hzy : c z y <> Gt).
      { apply (Hle z x y); auto; congruence. }
      congruence.
    - (* Lt Eq *)
      destruct (c x z) eqn:Exz; simpl in *; try congruence.
      exfalso. assert (Hyx : c y x <> Gt).
      { apply (Hle y z x); auto; congruence. }
      congruence.
    - (* Lt Lt *)
      destruct (c x z) eqn:Exz; simpl in *; try congruence.
      exfalso. assert (Hyx : c y x <> Gt).
      { apply (Hle y z x); auto; congruence. }
      congruence.
  Qed.
End Preorder.

Lemma strans_le {A} (c : A -> A -> comparison) x y z :
  strans c x y z -> c x y <> Gt -> c y z <> Gt -> c x z <> Gt.
Proof.
  intros H H1 H2. rewrite (H H1 H2). destruct (c x y), (c y z); simpl; congruence.
Qed.

(* Lexicographic comparison of lists (Go: element-wise loop, shorter first). *)
Definition lexcmp {A} (c : A -> A -> comparison) : list A -> list A -> comparison :=
  fix go (l1 l2 : list A) : comparison :=
    match l1, l2 with
    | [], [] => Eq
    | [], _ :: _ => Lt
    | _ :: _, [] => Gt
    | x :: r1, y :: r2 => match c x y with Eq => go r1 r2 | r => r end
    end.

Lemma lexcmp_antisym {A} (c : A -> A -> comparison) (l1 : list A) :
  Forall (fun x => forall y, antisym c x y) l1 ->
  forall l2, antisym (lexcmp c) l1 l2.
Proof.
  unfold antisym. induction 1 as [|x r1 Hx _ IH]; intros [|y r2]; simpl; try reflexivity.
  rewrite (Hx y). destruct (c x y); simpl; auto.
Qed.

Lemma lexcmp_strans {A} (c : A -> A -> comparison) (l1 : list A) :
  Forall (fun x => forall y z, strans c x y z) l1 ->
  forall l2 l3, strans (lexcmp c) l1 l2 l3.
Proof.
  unfold strans.
  induction 1 as [|x r1 Hx _ IH]; intros l2 l3.
  - destruct l2 as [|y r2], l3 as [|z r3]; simpl; intros H1 H2; try congruence; reflexivity.
  - destruct l2 as [|y r2]; [simpl; congruence|].
    destruct l3 as [|z r3]; [simpl; congruence|].
    simpl. intros H1 H2. specialize (Hx y z).
    destruct (c x y) eqn:Exy; try congruence;
    destruct (c y z) eqn:Eyz; try congruence;
    rewrite Hx by congruence; simpl; try reflexivity.
    + apply IH; assumption.
    + destruct (lexcmp c r1 r2); reflexivity.
Qed.

(* Leaf comparisons. *)
Lemma Zcompare_antisym' x y : antisym Z.compare x y.
Proof. unfold antisym. apply Z.compare_antisym. Qed.

Lemma Zcompare_strans x y z : strans Z.compare x y z.
Proof.
  apply (strans_of_le_trans Z.compare (fun _ => True)); auto.
  - intros; apply Zcompare_antisym'.
  - intros a b c _ _ _ H1 H2 H3. apply H1 || idtac.
    rewrite Z.compare_gt_iff in H3.
    destruct (Z.compare_spec a b); try congruence;
    destruct (Z.compare_spec b c); try congruence; lia.
Qed.

Lemma Ncompare_antisym' x y : antisym N.compare x y.
Proof. unfold antisym. apply N.compare_antisym. Qed.

Lemma Ncompare_strans x y z : strans N.compare x y z.
Proof.
  apply (strans_of_le_trans N.compare (fun _ => True)); auto.
  - intros; apply Ncompare_antisym'.
  - intros a b c _ _ _ H1 H2 H3.
    rewrite N.compare_gt_iff in H3.
    destruct (N.compare_spec a b); try congruence;
    destruct (N.compare_spec b c); try congruence; lia.
Qed.

Lemma bytes_cmp_is_lex a b : bytes_cmp a b = lexcmp N.compare a b.
Proof.
  revert b. induction a as [|x a IH]; destruct b as [|y b]; simpl; try reflexivity.
Qed.

Lemma bytes_cmp_antisym' x y : antisym bytes_cmp x y.
Proof. unfold antisym. apply bytes_cmp_antisym. Qed.

Lemma bytes_cmp_strans x y z : strans bytes_cmp x y z.
Proof.
  unfold strans. rewrite !bytes_cmp_is_lex. apply lexcmp_strans.
  apply Forall_forall. intros; apply Ncompare_strans.
Qed.

Definition bool_cmp (a b : bool) : comparison :=
  if Bool.eqb a b then Eq else if a then Gt else Lt.

Lemma bool_cmp_antisym x y : antisym bool_cmp x y.
Proof. destruct x, y; reflexivity. Qed.

Lemma bool_cmp_strans x y z : strans bool_cmp x y z.
Proof. unfold strans, bool_cmp; destruct x, y, z; simpl; intros; try reflexivity; congruence. Qed.

(* ---------------------------------------------------------------- *)
(* float64 values as extended dyadic rationals: m * 2^e, +-Inf, NaN.
   Every finite binary64 (incl. subnormals, -0 as m = 0) is of this form. *)
Inductive fl := FNaN | FInf (neg : bool) | FFin (m e : Z).

Definition dyq (m e : Z) : Q :=
  if 0 <=? e then inject_Z (m * 2 ^ e) else Qmake m (Z.to_pos (2 ^ (- e))).

(* The exact order: NaN < -Inf < finite (by value) < +Inf.  This is the order
   Go's cmp.Compare defines on float64 (NaN below everything, NaN = NaN, -0 = +0). *)
Definition xcmp (x y : fl) : comparison :=
  match x, y with
  | FNaN, FNaN => Eq
  | FNaN, _ => Lt
  | _, FNaN => Gt
  | FInf true, FInf true => Eq
  | FInf true, _ => Lt
  | _, FInf true => Gt
  | FInf false, FInf false => Eq
  | FInf false, _ => Gt
  | _, FInf false => Lt
  | FFin m1 e1, FFin m2 e2 => Qcompare (dyq m1 e1) (dyq m2 e2)
  end.

(* IEEE "<" *)
Definition flt (x y : fl) : bool :=
  match x, y with
  | FNaN, _ | _, FNaN => false
  | FInf true, FInf true => false
  | FInf true, _ => true
  | _, FInf true => false
  | FInf false, _ => false
  | _, FInf false => true
  | FFin m1 e1, FFin m2 e2 =>
    match Qcompare (dyq m1 e1) (dyq m2 e2) with Lt => true | _ => false end
  end.

Definition isnan (x : fl) : bool := match x with FNaN => true | _ => false end.

(* Go: cmp.Compare[float64] *)
Definition fcmp (x y : fl) : comparison :=
  if isnan x then (if isnan y then Eq else Lt)
  else if isnan y then Gt
  else if flt x y then Lt
  else if flt y x then Gt
  else Eq.

Lemma Qcompare_antisym' (p q : Q) : Qcompare q p = CompOpp (Qcompare p q).
Proof. rewrite <- Qcompare_antisym. reflexivity. Qed.

Lemma fcmp_xcmp x y : fcmp x y = xcmp x y.
Proof.
  destruct x as [|[|]|m1 e1], y as [|[|]|m2 e2]; try reflexivity.
  unfold fcmp; simpl.
  rewrite (Qcompare_antisym' (dyq m1 e1) (dyq m2 e2)).
  destruct (Qcompare (dyq m1 e1) (dyq m2 e2)); reflexivity.
Qed.

Lemma xcmp_antisym x y : antisym xcmp x y.
Proof.
  unfold antisym.
  destruct x as [|[|]|m1 e1], y as [|[|]|m2 e2]; try reflexivity.
  simpl. apply Qcompare_antisym'.
Qed.

Lemma Qcompare_le_trans (p q r : Q) :
  Qcompare p q <> Gt -> Qcompare q r <> Gt -> Qcompare p r <> Gt.
Proof.
  rewrite <- !Qle_alt. apply Qle_trans.
Qed.

Lemma xcmp_le_trans x y z : xcmp x y <> Gt -> xcmp y z <> Gt -> xcmp x z <> Gt.
Proof.
  destruct x as [|[|]|m1 e1], y as [|[|]|m2 e2], z as [|[|]|m3 e3]; simpl;
    try congruence.
  apply Qcompare_le_trans.
Qed.

Lemma xcmp_strans x y z : strans xcmp x y z.
Proof.
  apply (strans_of_le_trans xcmp (fun _ => True)); auto.
  - intros; apply xcmp_antisym.
  - intros a b c _ _ _. apply xcmp_le_trans.
Qed.

Lemma xcmp_int (a b : Z) : xcmp (FFin a 0) (FFin b 0) = Z.compare a b.
Proof.
  simpl. unfold dyq; simpl. unfold Qcompare; simpl. rewrite !Z.mul_1_r. reflexivity.
Qed.

(* ---------------------------------------------------------------- *)
(* Integer part (math.Trunc, toward zero) and the exact remainder f - Trunc(f)
   of a finite float; 0 for NaN and the infinities (never used there). *)
Definition ftrunc (f : fl) : Z :=
  match f with
  | FFin m e => if 0 <=? e then m * 2 ^ e else Z.quot m (2 ^ (- e))
  | _ => 0
  end.

Definition ffrac (f : fl) : fl :=
  match f with
  | FFin m e => if 0 <=? e then FFin 0 0 else FFin (Z.rem m (2 ^ (- e))) e
  | _ => FFin 0 0
  end.

(* IEEE ">=" *)
Definition fge (x y : fl) : bool := negb (isnan x) && negb (isnan y) && negb (flt x y).

Definition maxi64 : Z := 9223372036854775807.
Definition mini64 : Z := -9223372036854775808.

(* Domain-aware variants (the element comparison is a preorder only on [D]). *)
Lemma lexcmp_strans_dom {A} (c : A -> A -> comparison) (D : A -> Prop) (l1 : list A) :
  Forall (fun x => forall y z, D y -> D z -> strans c x y z) l1 ->
  forall l2 l3, Forall D l2 -> Forall D l3 -> strans (lexcmp c) l1 l2 l3.
Proof.
  unfold strans.
  induction 1 as [|x r1 Hx _ IH]; intros l2 l3 D2 D3.
  - destruct l2 as [|y r2], l3 as [|z r3]; simpl; intros H1 H2; try congruence; reflexivity.
  - destruct l2 as [|y r2]; [simpl; congruence|].
    destruct l3 as [|z r3]; [simpl; congruence|].
    inversion D2 as [|? ? Dy D2']; subst. inversion D3 as [|? ? Dz D3']; subst.
    simpl. intros H1 H2. specialize (Hx y z Dy Dz).
    destruct (c x y) eqn:Exy; try congruence;
    destruct (c y z) eqn:Eyz; try congruence;
    rewrite Hx by congruence; simpl; try reflexivity.
    + apply IH; assumption.
    + destruct (lexcmp c r1 r2); reflexivity.
Qed.

Lemma comp_cmp_comm a b : comp_cmp a b = comp_cmp b a.
Proof. destruct a, b; reflexivity. Qed.

Lemma CompOpp_Gt c : CompOpp c <> Gt <-> c <> Lt.
Proof. destruct c; simpl; split; congruence. Qed.

Lemma cmp_to_Z_opp c : cmp_to_Z (CompOpp c) = - cmp_to_Z c.
Proof. destruct c; reflexivity. Qed.

Lemma cmp_to_Z_le c : cmp_to_Z c <= 0 <-> c <> Gt.
Proof. destruct c; simpl; split; intros; try congruence; lia. Qed.

(* the flipped comparison (descending keys) *)
Lemma flip_strans {A} (c : A -> A -> comparison) x y z :
  (forall a b, antisym c a b) -> strans c z y x -> strans (fun a b => c b a) x y z.
Proof.
  unfold strans. intros _ H H1 H2. rewrite (H H2 H1). apply comp_cmp_comm.
Qed.
