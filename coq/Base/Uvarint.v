(* Go's encoding/binary uvarint (LEB128, at most 10 bytes for a uint64):
   binary.AppendUvarint / binary.ReadUvarint / zcode.SizeOfUvarint.
   Bytes are [N]; all statements are about values below 2^64 (Go's uint64). *)
From ZV Require Import Base.Prelude.
From Coq Require Import ZifyN ZifyNat ZifyBool.
Local Open Scope N_scope.

Definition len {A} (l : list A) : N := N.of_nat (List.length l).

Lemma len_app {A} (a b : list A) : len (a ++ b) = len a + len b.
Proof. unfold len. rewrite app_length. lia. Qed.

Lemma len_nil {A} : len (@nil A) = 0.
Proof. reflexivity. Qed.

Lemma len_cons {A} (x : A) l : len (x :: l) = 1 + len l.
Proof. unfold len. simpl List.length. lia. Qed.

(* binary.AppendUvarint: for x >= 0x80 { append(byte(x)|0x80); x >>= 7 }; append(byte(x)).
   [fuel] bounds the loop; 10 iterations suffice for every uint64. *)
Fixpoint uv_fuel (fuel : nat) (n : N) : bytes :=
  match fuel with
  | O => []
  | S f => if n <? 128 then [n] else (n mod 128 + 128) :: uv_fuel f (n / 128)
  end.

Definition uvarint (n : N) : bytes := uv_fuel 10 n.

(* binary.ReadUvarint: k = bytes still allowed (10 at the start), s = shift, acc = x.
   The tenth byte may only be 0 or 1 (overflow otherwise); running out of input is an error. *)
Fixpoint read_uv (k : nat) (s acc : N) (bs : bytes) : option (N * bytes) :=
  match k with
  | O => None
  | S k' =>
    match bs with
    | [] => None
    | b :: r =>
      if b <? 128 then
        if (match k' with O => true | _ => false end) && (1 <? b) then None
        else Some (acc + b * 2 ^ s, r)
      else read_uv k' (s + 7) (acc + (b mod 128) * 2 ^ s) r
    end
  end.

Definition read_uvarint (bs : bytes) : option (N * bytes) := read_uv 10 0 0 bs.

(* zcode.SizeOfUvarint: n := 1; for u >= 0x80 { n++; u >>= 7 } *)
Fixpoint size_uv (fuel : nat) (n : N) : N :=
  match fuel with
  | O => 0
  | S f => if n <? 128 then 1 else 1 + size_uv f (n / 128)
  end.

Definition size_of_uvarint (n : N) : N := size_uv 10 n.

(* upper bound of the values representable in k bytes under ReadUvarint's rule *)
Fixpoint ub (k : nat) : N :=
  match k with
  | O => 0
  | S O => 2
  | S k' => 128 * ub k'
  end.

Lemma ub_10 : ub 10 = 2 ^ 64.
Proof. reflexivity. Qed.

Lemma ub_step k : ub (S (S k)) = 128 * ub (S k).
Proof. reflexivity. Qed.

Lemma ub_pos k : 2 <= ub (S k).
Proof. induction k as [|k IH]; [simpl; lia|]. rewrite ub_step. lia. Qed.

Lemma read_uv_cons k s acc b r :
  read_uv (S k) s acc (b :: r) =
  if b <? 128 then
    if (match k with O => true | _ => false end) && (1 <? b) then None
    else Some (acc + b * 2 ^ s, r)
  else read_uv k (s + 7) (acc + (b mod 128) * 2 ^ s) r.
Proof. reflexivity. Qed.

Lemma read_uv_roundtrip :
  forall k f n s acc rest,
    (k <= f)%nat -> n < ub k ->
    read_uv k s acc (uv_fuel f n ++ rest) = Some (acc + n * 2 ^ s, rest).
Proof.
  induction k as [|k IH]; intros f n s acc rest Hf Hn.
  - simpl in Hn. lia.
  - destruct f as [|f]; [lia|].
    simpl uv_fuel. destruct (n <? 128) eqn:E.
    + simpl app. rewrite read_uv_cons. rewrite E.
      destruct k as [|k].
      * simpl in Hn. assert (L : (1 <? n) = false) by lia. rewrite L. reflexivity.
      * reflexivity.
    + simpl app. rewrite read_uv_cons.
      assert (B : (n mod 128 + 128 <? 128) = false) by lia.
      rewrite B.
      assert (M : (n mod 128 + 128) mod 128 = n mod 128).
      { rewrite N.add_mod by lia. rewrite N.mod_same by lia. rewrite N.add_0_r.
        rewrite N.mod_mod by lia. rewrite N.mod_mod by lia. reflexivity. }
      rewrite M.
      destruct k as [|k]; [simpl in Hn; lia|].
      rewrite IH.
      * f_equal. f_equal.
        rewrite N.pow_add_r.
        change (2 ^ 7) with 128.
        pose proof (N.div_mod n 128 ltac:(lia)) as D.
        nia.
      * lia.
      * rewrite ub_step in Hn.
        apply N.div_lt_upper_bound; lia.
Qed.

Theorem uvarint_roundtrip :
  forall n rest, n < 2 ^ 64 -> read_uvarint (uvarint n ++ rest) = Some (n, rest).
Proof.
  intros n rest H. unfold read_uvarint, uvarint.
  rewrite read_uv_roundtrip; [|lia|rewrite ub_10; exact H].
  f_equal. f_equal. simpl. lia.
Qed.

(* Prefix-freeness: no encoding is a proper prefix of another; an encoding
   followed by anything determines the number and the remainder. *)
Theorem uvarint_prefix_free :
  forall a b r1 r2, a < 2 ^ 64 -> b < 2 ^ 64 ->
    uvarint a ++ r1 = uvarint b ++ r2 -> a = b /\ r1 = r2.
Proof.
  intros a b r1 r2 Ha Hb E.
  pose proof (uvarint_roundtrip a r1 Ha) as A.
  pose proof (uvarint_roundtrip b r2 Hb) as B.
  rewrite E in A. rewrite A in B. inversion B. auto.
Qed.

Lemma uv_fuel_nonempty f n : uv_fuel (S f) n <> [].
Proof. simpl. destruct (n <? 128); discriminate. Qed.

Lemma uvarint_nonempty n : uvarint n <> [].
Proof. apply uv_fuel_nonempty. Qed.

Lemma uvarint_len_pos n : 1 <= len (uvarint n).
Proof.
  pose proof (uvarint_nonempty n). destruct (uvarint n); [congruence|]. rewrite len_cons. lia.
Qed.

Lemma uv_fuel_size f n : len (uv_fuel f n) = size_uv f n.
Proof.
  revert n. induction f as [|f IH]; intros n; simpl; [reflexivity|].
  destruct (n <? 128); [reflexivity|]. rewrite len_cons. rewrite IH. reflexivity.
Qed.

(* zcode.SizeOfUvarint agrees with the length binary.AppendUvarint produces *)
Theorem uvarint_size n : len (uvarint n) = size_of_uvarint n.
Proof. apply uv_fuel_size. Qed.

Lemma size_of_uvarint_le n : size_of_uvarint n <= 10.
Proof.
  unfold size_of_uvarint.
  assert (G : forall f m, size_uv f m <= N.of_nat f).
  { induction f as [|f IH]; intros m; [simpl; lia|]; cbn [size_uv]; rewrite Nat2N.inj_succ.
    destruct (m <? 128); [lia|]. specialize (IH (m / 128)). lia. }
  exact (G 10%nat n).
Qed.

(* the reader consumes at least one byte and returns a suffix *)
Lemma read_uv_suffix :
  forall k s acc bs v r, read_uv k s acc bs = Some (v, r) ->
    exists p, bs = p ++ r /\ p <> [].
Proof.
  induction k as [|k IH]; intros s acc bs v r H; simpl in H; [discriminate|].
  destruct bs as [|b bs]; [discriminate|].
  destruct (b <? 128).
  - destruct ((match k with O => true | _ => false end) && (1 <? b)); [discriminate|].
    inversion H; subst. exists [b]. split; [reflexivity|discriminate].
  - apply IH in H. destruct H as [p [E _]]. exists (b :: p). subst. split; [reflexivity|discriminate].
Qed.

Lemma read_uvarint_shorter bs v r :
  read_uvarint bs = Some (v, r) -> (List.length r < List.length bs)%nat.
Proof.
  intros H. apply read_uv_suffix in H. destruct H as [p [E NE]]. subst.
  rewrite app_length. destruct p; [congruence|]. simpl. lia.
Qed.

Example uvarint_300 : uvarint 300 = [172; 2] /\ read_uvarint [172; 2; 9] = Some (300, [9]).
Proof. split; reflexivity. Qed.

Example uvarint_max : len (uvarint (2 ^ 64 - 1)) = 10 /\ read_uvarint (uvarint (2 ^ 64 - 1)) = Some (2 ^ 64 - 1, []).
Proof. split; reflexivity. Qed.

(* the overflow rule: a tenth byte above 1 is rejected *)
Example uvarint_overflow : read_uvarint [255;255;255;255;255;255;255;255;255;2] = None.
Proof. reflexivity. Qed.
