(* Shared prelude: bytes as [list N], hex decoding for case files, small list helpers. *)
From Coq Require Export List NArith ZArith Bool Lia String Ascii.
Export ListNotations.

Definition bytes := list N.

Definition hexval (c : ascii) : N :=
  let n := N_of_ascii c in
  if (48 <=? n)%N && (n <=? 57)%N then (n - 48)%N
  else if (97 <=? n)%N && (n <=? 102)%N then (n - 87)%N
  else if (65 <=? n)%N && (n <=? 70)%N then (n - 55)%N
  else 0%N.

(* [hex "0a1b"] = [10; 27].  Odd trailing nibble is dropped. *)
Fixpoint hex (s : string) : bytes :=
  match s with
  | String a (String b r) => (hexval a * 16 + hexval b)%N :: hex r
  | _ => []
  end.

Fixpoint list_eqb {A} (eqb : A -> A -> bool) (a b : list A) : bool :=
  match a, b with
  | [], [] => true
  | x :: a', y :: b' => eqb x y && list_eqb eqb a' b'
  | _, _ => false
  end.

Lemma list_eqb_eq {A} (eqb : A -> A -> bool)
      (H : forall x y, eqb x y = true <-> x = y) :
  forall a b, list_eqb eqb a b = true <-> a = b.
Proof.
  induction a as [|x a IH]; destruct b as [|y b]; simpl; split; intros E;
    try congruence; try discriminate.
  - apply andb_true_iff in E as [E1 E2]. apply H in E1. apply IH in E2. congruence.
  - inversion E; subst. apply andb_true_iff; split; [apply H | apply IH]; reflexivity.
Qed.

Definition bytes_eqb : bytes -> bytes -> bool := list_eqb N.eqb.

Lemma bytes_eqb_eq a b : bytes_eqb a b = true <-> a = b.
Proof. apply list_eqb_eq. intros; apply N.eqb_eq. Qed.

(* Lexicographic comparison of byte strings: Go's bytes.Compare / string compare. *)
Fixpoint bytes_cmp (a b : bytes) : comparison :=
  match a, b with
  | [], [] => Eq
  | [], _ :: _ => Lt
  | _ :: _, [] => Gt
  | x :: a', y :: b' =>
    match N.compare x y with
    | Eq => bytes_cmp a' b'
    | c => c
    end
  end.

Lemma bytes_cmp_refl a : bytes_cmp a a = Eq.
Proof. induction a as [|x a IH]; simpl; [reflexivity|]. rewrite N.compare_refl. exact IH. Qed.

Lemma bytes_cmp_eq a : forall b, bytes_cmp a b = Eq -> a = b.
Proof.
  induction a as [|x a IH]; destruct b as [|y b]; simpl; intros E; try congruence; try discriminate.
  destruct (N.compare x y) eqn:C; try discriminate.
  apply N.compare_eq in C. subst. f_equal. apply IH. exact E.
Qed.

Lemma bytes_cmp_antisym a : forall b, bytes_cmp b a = CompOpp (bytes_cmp a b).
Proof.
  induction a as [|x a IH]; destruct b as [|y b]; simpl; try reflexivity.
  rewrite (N.compare_antisym x y). destruct (N.compare x y); simpl; auto.
Qed.

Lemma bytes_cmp_lt_trans a : forall b c,
  bytes_cmp a b = Lt -> bytes_cmp b c = Lt -> bytes_cmp a c = Lt.
Proof.
  induction a as [|x a IH]; destruct b as [|y b]; destruct c as [|z c]; simpl;
    intros H1 H2; try congruence; try discriminate.
  destruct (N.compare x y) eqn:C1; try discriminate;
  destruct (N.compare y z) eqn:C2; try discriminate.
  - apply N.compare_eq in C1, C2. subst. rewrite N.compare_refl. eapply IH; eauto.
  - apply N.compare_eq in C1. subst. rewrite C2. reflexivity.
  - apply N.compare_eq in C2. subst. rewrite C1. reflexivity.
  - rewrite N.compare_lt_iff in C1, C2.
    assert (L : (x < z)%N) by lia. rewrite <- N.compare_lt_iff in L. rewrite L. reflexivity.
Qed.

Definition cmp_to_Z (c : comparison) : Z :=
  match c with Lt => (-1)%Z | Eq => 0%Z | Gt => 1%Z end.
