(* Structural zed types (type.go, complex.go).  Names are byte strings (Go strings
   compare bytewise).  [TRef] only occurs in the syntax of serialized type
   values (a reference to an earlier definition of a name); a type proper is
   [noref]. *)
From ZV Require Import Base.Prelude.

Inductive ty : Type :=
| TPrim (id : N)
| TRecord (fs : list (bytes * ty))
| TArray (t : ty)
| TSet (t : ty)
| TMap (k v : ty)
| TUnion (ts : list ty)
| TEnum (syms : list bytes)
| TError (t : ty)
| TNamed (name : bytes) (t : ty)
| TRef (name : bytes).

Section Ind.
  Variable P : ty -> Prop.
  Hypothesis HPrim : forall id, P (TPrim id).
  Hypothesis HRecord : forall fs, Forall (fun f => P (snd f)) fs -> P (TRecord fs).
  Hypothesis HArray : forall t, P t -> P (TArray t).
  Hypothesis HSet : forall t, P t -> P (TSet t).
  Hypothesis HMap : forall k v, P k -> P v -> P (TMap k v).
  Hypothesis HUnion : forall ts, Forall P ts -> P (TUnion ts).
  Hypothesis HEnum : forall syms, P (TEnum syms).
  Hypothesis HError : forall t, P t -> P (TError t).
  Hypothesis HNamed : forall n t, P t -> P (TNamed n t).
  Hypothesis HRef : forall n, P (TRef n).

  Fixpoint ty_ind' (t : ty) : P t :=
    match t with
    | TPrim id => HPrim id
    | TRecord fs =>
      HRecord fs ((fix go (l : list (bytes * ty)) : Forall (fun f => P (snd f)) l :=
                     match l with
                     | [] => Forall_nil _
                     | f :: r => Forall_cons f (ty_ind' (snd f)) (go r)
                     end) fs)
    | TArray t => HArray t (ty_ind' t)
    | TSet t => HSet t (ty_ind' t)
    | TMap k v => HMap k v (ty_ind' k) (ty_ind' v)
    | TUnion ts =>
      HUnion ts ((fix go (l : list ty) : Forall P l :=
                    match l with
                    | [] => Forall_nil _
                    | x :: r => Forall_cons x (ty_ind' x) (go r)
                    end) ts)
    | TEnum s => HEnum s
    | TError t => HError t (ty_ind' t)
    | TNamed n t => HNamed n t (ty_ind' t)
    | TRef n => HRef n
    end.
End Ind.

(* Decidable structural equality. *)
Fixpoint ty_eqb (a b : ty) : bool :=
  match a, b with
  | TPrim x, TPrim y => N.eqb x y
  | TRecord fa, TRecord fb =>
    (fix go (la lb : list (bytes * ty)) : bool :=
       match la, lb with
       | [], [] => true
       | (na, ta) :: ra, (nb, tb) :: rb => bytes_eqb na nb && ty_eqb ta tb && go ra rb
       | _, _ => false
       end) fa fb
  | TArray x, TArray y => ty_eqb x y
  | TSet x, TSet y => ty_eqb x y
  | TMap k v, TMap k' v' => ty_eqb k k' && ty_eqb v v'
  | TUnion la, TUnion lb =>
    (fix go (la lb : list ty) : bool :=
       match la, lb with
       | [], [] => true
       | x :: ra, y :: rb => ty_eqb x y && go ra rb
       | _, _ => false
       end) la lb
  | TEnum x, TEnum y => list_eqb bytes_eqb x y
  | TError x, TError y => ty_eqb x y
  | TNamed n x, TNamed m y => bytes_eqb n m && ty_eqb x y
  | TRef n, TRef m => bytes_eqb n m
  | _, _ => false
  end.

Lemma ty_eqb_refl : forall a, ty_eqb a a = true.
Proof.
  induction a using ty_ind'; simpl;
    repeat match goal with H : ty_eqb _ _ = true |- _ => rewrite H end; simpl; auto.
  - apply N.eqb_refl.
  - induction H as [|[n t] r Ht _ IH]; simpl in *; auto.
    rewrite Ht, IH. replace (bytes_eqb n n) with true; auto.
    symmetry. apply bytes_eqb_eq. reflexivity.
  - induction H as [|t r Ht _ IH]; simpl in *; auto. rewrite Ht, IH. reflexivity.
  - apply list_eqb_eq; auto. apply bytes_eqb_eq.
  - replace (bytes_eqb n n) with true; auto. symmetry. apply bytes_eqb_eq. reflexivity.
  - apply bytes_eqb_eq. reflexivity.
Qed.

Lemma ty_eqb_true : forall a b, ty_eqb a b = true -> a = b.
Proof.
  induction a using ty_ind'; destruct b; simpl; intros E; try discriminate.
  - apply N.eqb_eq in E. congruence.
  - f_equal. revert fs0 E.
    induction H as [|[n t] r Ht _ IH]; intros [|[m u] r'] E; try discriminate; auto.
    apply andb_true_iff in E as [E E3]. apply andb_true_iff in E as [E1 E2].
    apply bytes_eqb_eq in E1. simpl in Ht. apply Ht in E2. apply IH in E3. congruence.
  - f_equal; auto.
  - f_equal; auto.
  - apply andb_true_iff in E as [E1 E2]. f_equal; auto.
  - f_equal. revert ts0 E.
    induction H as [|t r Ht _ IH]; intros [|u r'] E; try discriminate; auto.
    apply andb_true_iff in E as [E1 E2]. apply Ht in E1. apply IH in E2. congruence.
  - f_equal. apply (list_eqb_eq bytes_eqb bytes_eqb_eq). exact E.
  - f_equal; auto.
  - apply andb_true_iff in E as [E1 E2]. apply bytes_eqb_eq in E1. f_equal; auto.
  - apply bytes_eqb_eq in E. congruence.
Qed.

Lemma ty_eqb_eq : forall a b, ty_eqb a b = true <-> a = b.
Proof. split; [apply ty_eqb_true | intros ->; apply ty_eqb_refl]. Qed.

Lemma ty_eqb_neq : forall a b, ty_eqb a b = false <-> a <> b.
Proof.
  intros a b. split.
  - intros E ->. rewrite ty_eqb_refl in E. discriminate.
  - intros N. destruct (ty_eqb a b) eqn:E; auto. apply ty_eqb_true in E. contradiction.
Qed.

Lemma ty_eq_dec : forall a b : ty, {a = b} + {a <> b}.
Proof.
  intros a b. destruct (ty_eqb a b) eqn:E.
  - left. apply ty_eqb_true. exact E.
  - right. apply ty_eqb_neq. exact E.
Qed.

(* A type proper contains no reference nodes. *)
Fixpoint noref (t : ty) : bool :=
  match t with
  | TPrim _ | TEnum _ => true
  | TRecord fs => forallb (fun f => noref (snd f)) fs
  | TArray t | TSet t | TError t | TNamed _ t => noref t
  | TMap k v => noref k && noref v
  | TUnion ts => forallb noref ts
  | TRef _ => false
  end.

Fixpoint under (t : ty) : ty :=
  match t with TNamed _ t => under t | _ => t end.

Fixpoint depth (t : ty) : nat :=
  match t with
  | TPrim _ | TEnum _ | TRef _ => 0
  | TRecord fs => S (fold_right (fun f m => Nat.max (depth (snd f)) m) 0 fs)
  | TArray t | TSet t | TError t | TNamed _ t => S (depth t)
  | TMap k v => S (Nat.max (depth k) (depth v))
  | TUnion ts => S (fold_right (fun t m => Nat.max (depth t) m) 0 ts)
  end.

(* association lists keyed by byte strings: first match wins *)
Fixpoint assoc {A} (k : bytes) (l : list (bytes * A)) : option A :=
  match l with
  | [] => None
  | (k', v) :: r => if bytes_eqb k k' then Some v else assoc k r
  end.
