(* zcode tag-length value encoding (zcode/bytes.go): tag 0 = null, tag n+1 =
   body of n bytes.  [None] is Go's nil body (null), [Some []] the empty body. *)
From ZV Require Import Base.Prelude Base.Uvarint.
From Coq Require Import ZifyN ZifyNat ZifyBool.
Local Open Scope N_scope.

Definition take (n : N) (b : bytes) : bytes := firstn (N.to_nat n) b.
Definition drop (n : N) (b : bytes) : bytes := skipn (N.to_nat n) b.

Lemma take_app_len (a b : bytes) : take (len a) (a ++ b) = a.
Proof.
  unfold take, len. rewrite Nat2N.id.
  rewrite firstn_app. rewrite Nat.sub_diag. simpl. rewrite firstn_all. apply app_nil_r.
Qed.

Lemma drop_app_len (a b : bytes) : drop (len a) (a ++ b) = b.
Proof.
  unfold drop, len. rewrite Nat2N.id.
  rewrite skipn_app. rewrite Nat.sub_diag. simpl. rewrite skipn_all. reflexivity.
Qed.

Lemma drop_length n (b : bytes) : (List.length (drop n b) <= List.length b)%nat.
Proof. unfold drop. rewrite skipn_length. lia. Qed.

(* zcode.Append(dst, val) *)
Definition zappend (body : option bytes) : bytes :=
  match body with
  | None => uvarint 0
  | Some b => uvarint (len b + 1) ++ b
  end.

(* zcode.ReadTag: -1 for null (here None), else the body length *)
Definition read_tag (bs : bytes) : option (option N * bytes) :=
  match read_uvarint bs with
  | None => None
  | Some (t, r) => Some (if t =? 0 then None else Some (t - 1), r)
  end.

(* The body read of zngio worker.decodeVal / buffer.read: length 0 gives the
   empty body; a body that is entirely missing (no bytes left at all) is
   tolerated by the code and yields a nil body; a partially present body is an error. *)
Definition read_body (n : N) (bs : bytes) : option (option bytes * bytes) :=
  if n =? 0 then Some (Some [], bs)
  else if len bs =? 0 then Some (None, bs)
  else if len bs <? n then None
  else Some (Some (take n bs), drop n bs).

Definition read_tagged (bs : bytes) : option (option bytes * bytes) :=
  match read_tag bs with
  | None => None
  | Some (None, r) => Some (None, r)
  | Some (Some n, r) => read_body n r
  end.

Definition body_ok (body : option bytes) : Prop :=
  match body with None => True | Some b => len b + 1 < 2 ^ 64 end.

Theorem zcode_roundtrip :
  forall body rest, body_ok body ->
    read_tagged (zappend body ++ rest) = Some (body, rest).
Proof.
  intros [b|] rest H; unfold read_tagged, read_tag, zappend.
  - simpl in H. rewrite <- app_assoc. rewrite uvarint_roundtrip by exact H.
    assert (E : (len b + 1 =? 0) = false) by lia. rewrite E.
    replace (len b + 1 - 1) with (len b) by lia.
    unfold read_body.
    destruct (len b =? 0) eqn:Z.
    + assert (b = []). { destruct b; [reflexivity|]. rewrite len_cons in Z. lia. }
      subst. reflexivity.
    + assert (L1 : (len (b ++ rest) =? 0) = false) by (rewrite len_app; lia).
      assert (L2 : (len (b ++ rest) <? len b) = false) by (rewrite len_app; lia).
      rewrite L1, L2. rewrite take_app_len, drop_app_len. reflexivity.
  - rewrite uvarint_roundtrip by (simpl; lia). reflexivity.
Qed.

(* null and the empty body have different encodings and decode differently *)
Theorem zcode_null_vs_empty :
  zappend None <> zappend (Some []) /\
  (forall rest, read_tagged (zappend None ++ rest) = Some (None, rest)) /\
  (forall rest, read_tagged (zappend (Some []) ++ rest) = Some (Some [], rest)).
Proof.
  split; [discriminate|]. split; intros rest; apply zcode_roundtrip; simpl; [exact I|lia].
Qed.

(* the encoding is injective: equal encodings (followed by anything) come
   from equal bodies, so null / empty / non-empty are never confused *)
Theorem zcode_injective :
  forall b1 b2 r1 r2, body_ok b1 -> body_ok b2 ->
    zappend b1 ++ r1 = zappend b2 ++ r2 -> b1 = b2 /\ r1 = r2.
Proof.
  intros b1 b2 r1 r2 H1 H2 E.
  pose proof (zcode_roundtrip b1 r1 H1) as A.
  pose proof (zcode_roundtrip b2 r2 H2) as B.
  rewrite E in A. rewrite A in B. inversion B. auto.
Qed.

Lemma zappend_len_pos body : 1 <= len (zappend body).
Proof.
  destruct body as [b|]; simpl.
  - rewrite len_app. pose proof (uvarint_len_pos (len b + 1)). lia.
  - apply uvarint_len_pos.
Qed.

Lemma read_body_shorter n bs body r :
  read_body n bs = Some (body, r) -> (List.length r <= List.length bs)%nat.
Proof.
  unfold read_body. destruct (n =? 0); [intros H; inversion H; lia|].
  destruct (len bs =? 0); [intros H; inversion H; lia|].
  destruct (len bs <? n); [discriminate|]. intros H; inversion H. apply drop_length.
Qed.

Lemma read_tagged_shorter bs body r :
  read_tagged bs = Some (body, r) -> (List.length r < List.length bs)%nat.
Proof.
  unfold read_tagged, read_tag. destruct (read_uvarint bs) as [[t r0]|] eqn:U; [|discriminate].
  apply read_uvarint_shorter in U.
  destruct (t =? 0).
  - intros H; inversion H; subst. exact U.
  - intros H. apply read_body_shorter in H. lia.
Qed.

Example zcode_examples :
  zappend None = [0] /\ zappend (Some []) = [1] /\ zappend (Some [7; 8]) = [3; 7; 8].
Proof. repeat split. Qed.
