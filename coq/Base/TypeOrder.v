(* The structural type order zed.CompareTypes (type.go) and the stable sort of
   union members in Context.LookupTypeUnion (context.go). *)
From ZV Require Import Base.Prelude Base.Types.
Local Open Scope N_scope.

(* Kind(): a named type has the kind of its underlying type *)
Definition kind (t : ty) : N :=
  match under t with
  | TPrim _ => 0 | TRecord _ => 1 | TArray _ => 2 | TSet _ => 3 | TMap _ _ => 4
  | TUnion _ => 5 | TEnum _ => 6 | TError _ => 7 | TNamed _ _ => 8 | TRef _ => 9
  end.

Definition thenc (c d : comparison) : comparison := match c with Eq => d | _ => c end.

(* element-wise comparison of two lists of the same length *)
Fixpoint lex {A} (f : A -> A -> comparison) (la lb : list A) : comparison :=
  match la, lb with
  | x :: ra, y :: rb => thenc (f x y) (lex f ra rb)
  | _, _ => Eq
  end.

(* "aID == bID" is modelled as structural equality of the underlying types: in
   a context, equal ids <-> same object <-> (canonicity) equal structure. *)
Fixpoint cmp_f (fuel : nat) (a b : ty) : comparison :=
  match fuel with
  | O => Eq
  | S f =>
    if ty_eqb (under a) (under b) then
      match a, b with
      | TNamed na ia, TNamed nb ib => thenc (bytes_cmp na nb) (cmp_f f ia ib)
      | TNamed _ _, _ => Gt
      | _, TNamed _ _ => Lt
      | _, _ => Eq
      end
    else
      thenc (N.compare (kind a) (kind b))
        match under a, under b with
        | TPrim x, TPrim y => N.compare x y
        | TRecord fa, TRecord fb =>
          thenc (Nat.compare (List.length fa) (List.length fb))
            (thenc (lex bytes_cmp (map fst fa) (map fst fb))
                   (lex (cmp_f f) (map snd fa) (map snd fb)))
        | TArray x, TArray y => cmp_f f x y
        | TSet x, TSet y => cmp_f f x y
        | TError x, TError y => cmp_f f x y
        | TMap k v, TMap k' v' => thenc (cmp_f f k k') (cmp_f f v v')
        | TUnion la, TUnion lb =>
          thenc (Nat.compare (List.length la) (List.length lb)) (lex (cmp_f f) la lb)
        | TEnum sa, TEnum sb =>
          thenc (Nat.compare (List.length sa) (List.length sb)) (lex bytes_cmp sa sb)
        | _, _ => Eq
        end
  end.

Definition cmp (a b : ty) : comparison := cmp_f (S (depth a)) a b.

Definition ltb (a b : ty) : bool := match cmp a b with Lt => true | _ => false end.

(* sort.SliceStable's insertion sort (exact for up to 20 elements, and for any
   length whenever the order is a total preorder): each element moves left
   while it is strictly less than its predecessor.  [acc] is kept reversed. *)
Fixpoint ins (lt : ty -> ty -> bool) (x : ty) (acc : list ty) : list ty :=
  match acc with
  | [] => [x]
  | y :: r => if lt x y then y :: ins lt x r else x :: y :: r
  end.

Definition sort_by (lt : ty -> ty -> bool) (l : list ty) : list ty :=
  rev (fold_left (fun acc x => ins lt x acc) l []).

Definition usort (l : list ty) : list ty := sort_by ltb l.
