(* C11: the length / header arithmetic of the ZNG reader, in an outcome monad
   where [Panic] marks every Go slice bound / index that would be out of
   range.  Mirrors /repo HEAD:
     zio/zngio/reader.go   readUvarintAsInt  (rejects values > MaxInt since
                           commit 729907a2c; before it int(u64) wrapped negative)
     zio/zngio/parser.go   read, decodeLength, readFrame, readCompressedFrame,
                           decodeTypes, decodeValues, decodeControl
     pkg/peeker/reader.go  Peek / Read on an in-memory input
     zio/zngio/buffer.go   newBuffer (slices with the requested length),
                           buffer.read (slices data[off:off+n])
     zio/zngio/types.go    Decoder.decode and the readType* functions
                           (lengths, counts and type ids; type construction
                           itself is abstracted, see [sem] below)
     zio/zngio/scanner.go  worker.scanBatch / decodeVal (Validate off)
     zcode/bytes.go        ReadTag, tagLength, SizeOfUvarint
     mapper.go             MapperLookupCache.Lookup (indexes cache[id])
     zio/zngio/sync.go     scannerSync.Pull;  reader.go Reader.Read
   LZ4 is an external library: a Section variable.
   [checked = true] is the code as it is ([zng_parse]).  [checked = false] is
   readUvarintAsInt WITHOUT its range check, kept only to state that this
   check is what the no-panic theorem rests on (Props: C11_uvarint_guard_necessary). *)
From ZV Require Import Base.Prelude.
Local Open Scope Z_scope.

Inductive err :=
| EVersion | EFrameType | ETooBig | ENegLen | ETruncated | ELarge
| EUnexpectedEOF | EOverflow | EBadFormat | ETypedefCode | ETypeId
| EUnionZero | EValType | ECompFormat | ELz4 | EFuel.

Definition err_code (e : err) : N :=
  match e with
  | EVersion => 1 | EFrameType => 2 | ETooBig => 3 | ENegLen => 4 | ETruncated => 5
  | ELarge => 6 | EUnexpectedEOF => 7 | EOverflow => 8 | EBadFormat => 9
  | ETypedefCode => 10 | ETypeId => 11 | EUnionZero => 12 | EValType => 13
  | ECompFormat => 14 | ELz4 => 15 | EFuel => 16
  end%N.

(* Result of one reading step.  [REof] is Go's io.EOF, which the scanner
   turns into a clean end of stream wherever it surfaces. *)
Inductive res (A : Type) :=
| ROk (a : A) | RErr (e : err) | REof | RPanic.
Arguments ROk {A} a. Arguments RErr {A} e. Arguments REof {A}. Arguments RPanic {A}.

Definition two63 : Z := 9223372036854775808.
Definition two64 : Z := 18446744073709551616.

(* Go's int(u64) / int64 wrap-around. *)
Definition wrap64 (z : Z) : Z :=
  let m := z mod two64 in if m <? two63 then m else m - two64.

(* binary.ReadUvarint on a byte list: at most 10 bytes, the 10th at most 1. *)
Inductive uvres := UvOk (v : Z) (rest : bytes) | UvEOF | UvUnexpected | UvOverflow.

Fixpoint read_uvarint_from (i : nat) (n : nat) (x s : Z) (b : bytes) : uvres :=
  match n with
  | O => UvOverflow
  | S n' =>
    match b with
    | [] => match i with O => UvEOF | _ => UvUnexpected end
    | c :: r =>
      let c := Z.of_N c in
      if c <? 128 then
        if andb (Nat.eqb i 9) (1 <? c) then UvOverflow
        else UvOk (x + c * 2 ^ s) r
      else read_uvarint_from (S i) n' (x + (c - 128) * 2 ^ s) (s + 7) r
    end
  end.

Definition read_uvarint (b : bytes) : uvres := read_uvarint_from 0 10 0 0 b.

(* zcode.SizeOfUvarint *)
Fixpoint size_of_uvarint_fuel (f : nat) (u : Z) : Z :=
  match f with
  | O => 1
  | S f' => if u <? 128 then 1 else 1 + size_of_uvarint_fuel f' (u / 128)
  end.
Definition size_of_uvarint (u : Z) : Z := size_of_uvarint_fuel 10 u.

Definition blen (b : bytes) : Z := Z.of_nat (List.length b).
Definition take (n : Z) (b : bytes) : bytes := firstn (Z.to_nat n) b.
Definition drop (n : Z) (b : bytes) : bytes := skipn (Z.to_nat n) b.

Section Model.
  (* frame.decompress: Some data iff LZ4 succeeds with exactly [size] bytes *)
  Variable lz4 : bytes -> Z -> option bytes.
  Variable checked : bool.
  Variable max : Z.      (* ReaderOpts.Max = parser.maxSize = peeker limit *)

  (* readUvarintAsInt: a value that does not fit a non-negative int is
     refused with errBadFormat ([checked]; without the check it wraps). *)
  Inductive ires := IOk (v : Z) (rest : bytes) | IEOF | IUnexpected | IOverflow | IRange.
  Definition read_int (b : bytes) : ires :=
    match read_uvarint b with
    | UvOk u r => if andb checked (two63 <=? u) then IRange else IOk (wrap64 u) r
    | UvEOF => IEOF | UvUnexpected => IUnexpected | UvOverflow => IOverflow
    end.

  (* peeker.Read(n) on what is left of the input. *)
  Definition peek_read (n : Z) (b : bytes) : res (bytes * bytes) :=
    if n <? 0 then RErr ENegLen
    else if n <=? blen b then ROk (take n b, drop n b)
    else if max <? n then RErr ELarge
    else match b with [] => REof | _ => RErr ETruncated end.

  (* parser.decodeLength, reading from the peeker *)
  Definition decode_length (code : Z) (b : bytes) : res (Z * bytes) :=
    match read_int b with
    | IOk v r => ROk (wrap64 (wrap64 (v * 16) + code mod 16), r)
    | IEOF => REof
    | IUnexpected => RErr EUnexpectedEOF
    | IOverflow => RErr EOverflow
    | IRange => RErr EBadFormat
    end.

  (* parser.readFrame *)
  Definition read_frame (code : Z) (b : bytes) : res (bytes * bytes) :=
    match decode_length code b with
    | ROk (size, r) =>
      if max <? size then RErr ETooBig
      else match peek_read size r with
           | RErr ELarge => RErr ELarge
           | x => x
           end
    | RErr e => RErr e | REof => REof | RPanic => RPanic
    end.

  (* parser.readCompressedFrame followed by frame.decompress.
     newBuffer(size) slices a pooled buffer with [:size]: a negative size is
     a run-time panic. *)
  Definition read_comp_header (code : Z) (b : bytes) : res (Z * Z * bytes * bytes) :=
    match decode_length code b with
    | ROk (n, r) =>
      match r with
      | [] => REof
      | fmt :: r1 =>
        match read_int r1 with
        | IOk size r2 =>
          if max <? size then RErr ETooBig
          else
            let n' := wrap64 (n - (1 + size_of_uvarint (size mod two64))) in
            match peek_read n' r2 with
            | ROk (z, r3) => if size <? 0 then RPanic else ROk (Z.of_N fmt, size, z, r3)
            | REof => if size <? 0 then RPanic else ROk (Z.of_N fmt, size, [], r2)
            | RErr ELarge => RErr ELarge
            | RErr _ => RErr EBadFormat
            | RPanic => RPanic
            end
        | IEOF => REof
        | IUnexpected => RErr EUnexpectedEOF
        | IOverflow => RErr EOverflow
        | IRange => RErr EBadFormat
        end
      end
    | RErr e => RErr e | REof => REof | RPanic => RPanic
    end.

  Definition decompress (fmt size : Z) (z : bytes) : res bytes :=
    if negb (fmt =? 0) then RErr ECompFormat
    else match lz4 z size with Some d => ROk d | None => RErr ELz4 end.

  Definition read_payload (code : Z) (b : bytes) : res (bytes * bytes) :=
    if (code / 64) mod 2 =? 1 then
      match read_comp_header code b with
      | ROk (fmt, size, z, r) =>
        match decompress fmt size z with
        | ROk d => ROk (d, r) | RErr e => RErr e | REof => REof | RPanic => RPanic
        end
      | RErr e => RErr e | REof => REof | RPanic => RPanic
      end
    else read_frame code b.

  (* ---- typedefs (types.go), on a frame buffer ---- *)

  (* buffer.read(n) inside readCountedString: data[off:off+n] panics for n<0 *)
  Definition counted_string (b : bytes) : res bytes :=
    match read_int b with
    | IOk n r =>
      if n <? 0 then RPanic
      else if blen r <? n then RErr EBadFormat
      else ROk (drop n r)
    | _ => RErr EBadFormat
    end.

  Definition prim_ok (id : Z) : bool :=
    andb (0 <=? id) (andb (id <? 30)
      (negb (orb (orb (id =? 4) (id =? 5)) (orb (orb (id =? 10) (id =? 11)) (andb (17 <=? id) (id <=? 22)))))).

  (* Context.LookupType in the local context holding [nt] complex types *)
  Definition lookup_type (nt id : Z) : bool :=
    if id <? 30 then prim_ok id else id <? 30 + nt.

  Definition type_id (nt : Z) (b : bytes) : res bytes :=
    match read_int b with
    | IOk id r => if lookup_type nt id then ROk r else RErr ETypeId
    | _ => RErr EBadFormat
    end.

  Fixpoint fields_loop (fuel : nat) (k : Z) (nt : Z) (b : bytes) : res bytes :=
    if k <=? 0 then ROk b else
    match fuel with
    | O => RErr EFuel
    | S f =>
      match counted_string b with
      | ROk r =>
        match type_id nt r with
        | ROk r' => fields_loop f (k - 1) nt r'
        | x => x
        end
      | x => x
      end
    end.

  Fixpoint ids_loop (fuel : nat) (k : Z) (nt : Z) (b : bytes) : res bytes :=
    if k <=? 0 then ROk b else
    match fuel with
    | O => RErr EFuel
    | S f =>
      match type_id nt b with
      | ROk r => ids_loop f (k - 1) nt r
      | x => x
      end
    end.

  Fixpoint syms_loop (fuel : nat) (k : Z) (b : bytes) : res bytes :=
    if k <=? 0 then ROk b else
    match fuel with
    | O => RErr EFuel
    | S f =>
      match counted_string b with
      | ROk r => syms_loop f (k - 1) r
      | x => x
      end
    end.

  Definition count (b : bytes) : res (Z * bytes) :=
    match read_int b with IOk n r => ROk (n, r) | _ => RErr EBadFormat end.

  (* one typedef; the construction of the type (duplicate field names, bad
     type names, translation into the shared context) is not modelled: the
     caller records that by setting the [sem] flag. *)
  Definition typedef (nt : Z) (code : Z) (b : bytes) : res bytes :=
    let f := S (List.length b) in
    if code =? 0 then
      match count b with ROk (n, r) => fields_loop f n nt r | RErr e => RErr e | REof => REof | RPanic => RPanic end
    else if orb (orb (code =? 1) (code =? 2)) (code =? 6) then type_id nt b
    else if code =? 3 then
      match type_id nt b with ROk r => type_id nt r | x => x end
    else if code =? 4 then
      match count b with
      | ROk (n, r) => if n =? 0 then RErr EUnionZero else ids_loop f n nt r
      | RErr e => RErr e | REof => REof | RPanic => RPanic end
    else if code =? 5 then
      match count b with ROk (n, r) => syms_loop f n r | RErr e => RErr e | REof => REof | RPanic => RPanic end
    else if code =? 7 then
      match counted_string b with ROk r => type_id nt r | x => x end
    else RErr ETypedefCode.

  (* Decoder.decode *)
  Fixpoint typedefs (fuel : nat) (nt : Z) (b : bytes) : res Z :=
    match b with
    | [] => ROk nt
    | c :: r =>
      match fuel with
      | O => RErr EFuel
      | S f =>
        match typedef nt (Z.of_N c) r with
        | ROk r' => typedefs f (nt + 1) r'
        | RErr e => RErr e | REof => REof | RPanic => RPanic
        end
      end
    end.

  (* ---- values (scanner.go worker.scanBatch/decodeVal, Validate off) ---- *)

  (* Mapper.Lookup: which ids resolve to a type *)
  Definition val_type_ok (nt id : Z) : bool :=
    if id <? 30 then prim_ok id else id <? 30 + nt.

  Definition decode_val (nt : Z) (b : bytes) : res bytes :=
    match read_int b with
    | IOk id r =>
      match read_uvarint r with
      | UvOk t r1 =>
        (* zcode.ReadTag: -1 for null, else int(t-1) *)
        let n := if t =? 0 then -1 else wrap64 (t - 1) in
        let body :=
          if 0 <? n then
            if n <=? blen r1 then ROk (drop n r1)
            else match r1 with [] => ROk r1 | _ => RErr EBadFormat end
          else ROk r1 in
        match body with
        | ROk r2 =>
          (* MapperLookupCache.Lookup: cache[id] for every id < len(cache) *)
          if id <? 0 then RPanic
          else if val_type_ok nt id then ROk r2 else RErr EValType
        | x => x
        end
      | _ => RErr EBadFormat
      end
    | IEOF => REof
    | IUnexpected => RErr EUnexpectedEOF
    | IOverflow => RErr EOverflow
    | IRange => RErr EBadFormat
    end.

  Fixpoint values (fuel : nat) (nt : Z) (k : N) (b : bytes) : res N :=
    match b with
    | [] => ROk k
    | _ =>
      match fuel with
      | O => RErr EFuel
      | S f =>
        match decode_val nt b with
        | ROk r => values f nt (N.succ k) r
        | RErr e => RErr e | REof => REof | RPanic => RPanic
        end
      end
    end.

  (* ---- the stream: scannerSync.Pull driven by Reader.Read until the end ---- *)

  Inductive outcome := Ok (nvals : N) | Err (e : err) | Panic.

  Record verdict := { out : outcome; sem : bool }.

  Fixpoint stream (fuel : nat) (nt : Z) (nv : N) (sm : bool) (b : bytes) : verdict :=
    match b with
    | [] => {| out := Ok nv; sem := sm |}
    | c :: r =>
      match fuel with
      | O => {| out := Err EFuel; sem := sm |}
      | S f =>
        let code := Z.of_N c in
        if code =? 255 then stream f 0 nv sm r
        else if 128 <=? code then {| out := Err EVersion; sem := sm |}
        else
          let kind := (code / 16) mod 4 in
          if kind =? 3 then {| out := Err EFrameType; sem := sm |}
          else
            match read_payload code r with
            | REof => {| out := Ok nv; sem := sm |}
            | RErr e => {| out := Err e; sem := sm |}
            | RPanic => {| out := Panic; sem := sm |}
            | ROk (p, r') =>
              if kind =? 0 then
                match typedefs (S (List.length p)) nt p with
                | ROk nt' => stream f nt' nv (orb sm (negb (nt' =? nt))) r'
                | REof => {| out := Ok nv; sem := true |}
                | RErr e => {| out := Err e; sem := orb sm (negb (blen p =? 0)) |}
                | RPanic => {| out := Panic; sem := orb sm (negb (blen p =? 0)) |}
                end
              else if kind =? 1 then
                match values (S (List.length p)) nt 0 p with
                | ROk k => stream f nt (nv + k) sm r'
                | REof => {| out := Ok nv; sem := sm |}
                | RErr e => {| out := Err e; sem := sm |}
                | RPanic => {| out := Panic; sem := sm |}
                end
              else (* control *)
                match p with
                | [] => {| out := Err EBadFormat; sem := sm |}
                | _ => stream f nt nv sm r'
                end
            end
      end
    end.

  Definition parse (b : bytes) : verdict := stream (S (List.length b)) 0 0 false b.

End Model.

(* The reader of /repo HEAD. *)
Definition zng_parse (lz4 : bytes -> Z -> option bytes) (max : Z) (b : bytes) : verdict :=
  parse lz4 true max b.
