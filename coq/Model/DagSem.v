(* Reference semantics of the DAG subset (C07).  Values, expression evaluation
   and every operator other than filter/pass/fork/over/combine are abstract
   (Section variables): the theorems hold for any instance.
   - [holds e v]: the filter with predicate e keeps v.
   - [app o l]: output of the single-input operator o on the stream l.  It is
     applied to [erase o], i.e. the semantics cannot see the optimizer's hints
     (Summarize.InputSortDir, Join.LeftDir/RightDir, scan sort keys): a plan is
     *supposed* to mean the same with or without them.  Whether the runtime
     honours that is what the harness oracle checks on the real code.
   - [multi o ps]: join / merge, which consume the list of parent streams.
   - [comb ps]: the interleaving the runtime's combine produces; arbitrary.
   - [over_run id body l]: `over` with a lateral body.
   State between operators = the list of parent streams (kernel.Builder.compile);
   an ordinary operator first collapses several parents with comb; `pass`
   forwards its parents unchanged (equivalent on every plan that builds, since
   comb [x] = x). *)
From ZV Require Import Base.Prelude Model.Dag.
Local Open Scope Z_scope.

Definition erase (o : op) : op :=
  match o with
  | OSummarize l k a _ pi po => OSummarize l k a 0 pi po
  | OJoin i l r _ _ => OJoin i l r 0 0
  | _ => o
  end.

Section Sem.
  Variable V : Type.
  Variable holds : expr -> V -> bool.
  Variable app : op -> list V -> list V.
  Variable multi : op -> list (list V) -> list V.
  Variable comb : list (list V) -> list V.
  Variable over_run : N -> (list V -> list V) -> list V -> list V.

  Definition collapse (ps : list (list V)) : list V :=
    match ps with [x] => x | _ => comb ps end.

  Fixpoint sem_op (o : op) (ps : list (list V)) {struct o} : list (list V) :=
    let sem_seq :=
        fix sem_seq (s : list op) (q : list (list V)) {struct s} : list (list V) :=
          match s with
          | [] => q
          | o' :: r => sem_seq r (sem_op o' q)
          end in
    match o with
    | OPass => ps
    | OScan _ None => [collapse ps]
    | OScan _ (Some e) => [filter (holds e) (collapse ps)]
    | OFilter e => [filter (holds e) (collapse ps)]
    | OFork paths => map (fun p => collapse (sem_seq p [collapse ps])) paths
    | OOver id (Some b) => [over_run id (fun l => collapse (sem_seq b [l])) (collapse ps)]
    | OJoin _ _ _ _ _ | OMerge _ _ => [multi (erase o) ps]
    | OCombine => [comb ps]
    | OOutput _ => [collapse ps]
    | _ => [app (erase o) (collapse ps)]
    end.

  Fixpoint sem_seq (s : list op) (q : list (list V)) {struct s} : list (list V) :=
    match s with
    | [] => q
    | o :: r => sem_seq r (sem_op o q)
    end.

  (* The observable result of running plan s on the input stream. *)
  Definition run (s : seq) (input : list V) : list V := collapse (sem_seq s [input]).
End Sem.
