(* Correspondence check for C06: the harness lists what the implementation
   computed; these functions return the indices where the model differs. *)
From ZV Require Import Base.Prelude Base.Num Model.Order Model.Sort.
Local Open Scope Z_scope.

Fixpoint mism6 {A} (ok : A -> bool) (i : N) (l : list A) : list N :=
  match l with
  | [] => []
  | x :: r => if ok x then mism6 ok (N.succ i) r else i :: mism6 ok (N.succ i) r
  end.

(* one observed row of the comparison matrix per universe value, written as a
   string over '<' '=' '>' (anything else decodes to 2 and mismatches) *)
Fixpoint decode_row (s : string) : list Z :=
  match s with
  | EmptyString => []
  | String c r =>
    (match N_of_ascii c with 60%N => -1 | 61%N => 0 | 62%N => 1 | _ => 2 end) :: decode_row r
  end.

Definition matrix_mismatches (nm : bool) (univ : list value) (rows : list string) : list N :=
  if negb (Nat.eqb (List.length univ) (List.length rows)) then [999999%N] else
  mism6 (fun '(a, row) => list_eqb Z.eqb (map (fun b => cmp_to_Z (cmpv nm a b)) univ) (decode_row row))
        0 (combine univ rows).

(* a key is an index into the universe, or -1 when the field is missing
   (missing becomes null: WithMissingAsNull) *)
Definition keyval (univ : list value) (k : Z) : value :=
  if k <? 0 then vnull else nth (Z.to_nat k) univ vnull.

(* (nullsFirst, reverse, descs, MemMaxBytes, batches [(bytes, rows of keys)], observed positions) *)
Definition sort_case :=
  (bool * bool * list bool * Z * list (Z * list (list Z)) * list N)%type.

Fixpoint number_rows (univ : list value) (i : N) (rows : list (list Z)) : list irow :=
  match rows with
  | [] => []
  | r :: rs => (i, map (keyval univ) r) :: number_rows univ (N.succ i) rs
  end.

Fixpoint number_batches (univ : list value) (i : N) (bs : list (Z * list (list Z))) : list (Z * list irow) :=
  match bs with
  | [] => []
  | (sz, rows) :: bs' =>
    (sz, number_rows univ i rows) :: number_batches univ (i + N.of_nat (List.length rows)) bs'
  end.

Definition run_sort_case (univ : list value) (c : sort_case) : list N :=
  let '(nf, rev, descs, mem, batches, _) := c in
  let ks := eff_keys rev descs in
  let nm := eff_nullsmax nf ks in
  map fst (sort_op_rows nm ks mem (number_batches univ 0 batches)).

Definition sort_mismatches (univ : list value) (l : list sort_case) : list N :=
  mism6 (fun c => list_eqb N.eqb (run_sort_case univ c) (snd c)) 0 l.
