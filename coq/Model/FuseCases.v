(* Correspondence check for C20: the harness lists, for each input sequence,
   the typed input values, the type reported by the real fuse() aggregate and
   the typed values the real fuse operator produced; [fuse_mismatches] returns
   the indices where the model differs. *)
From ZV Require Import Base.Prelude Model.Fuse.

(* an output: [OT v] has the fused type of the case, [OX t v] another type *)
Inductive outv := OT (v : val) | OX (t : ty) (v : val).
Definition out_tv (T : ty) (o : outv) : tv := match o with OT v => (T, v) | OX t v => (t, v) end.

(* inputs, fused type reported by fuse(this), outputs, compare values too?,
   and for each input whether the harness classifier puts it outside every
   open finding class ("plain") *)
Definition fcase := (list tv * ty * list outv * bool * list bool)%type.

Definition FUEL := 48%nat.

Fixpoint mism {A} (ok : A -> bool) (i : N) (l : list A) : list N :=
  match l with
  | [] => []
  | x :: r => if ok x then mism ok (N.succ i) r else i :: mism ok (N.succ i) r
  end.

Definition opt_ty_eqb (a : option ty) (b : ty) : bool :=
  match a with Some x => ty_eqb x b | None => false end.

(* the model of the operator with a list as the temporary file *)
Definition model_op (mem : nat) (ins : list tv) : list tv :=
  fuse_op (list tv) [] (fun f x => f ++ [x]) (fun f => f) (fun _ => 1%nat) FUEL mem ins.

Definition tv_eqb (cmpv : bool) (a b : tv) : bool :=
  ty_eqb (fst a) (fst b) && (negb cmpv || val_eqb (snd a) (snd b)).

Definition fuse_ok (c : fcase) : bool :=
  let '(ins, T, outs, cmpv, plain) := c in
  forallb (fun x : tv => has_ty (snd x) (fst x) && wf_ty (fst x)) ins
  && opt_ty_eqb (fuser_type FUEL ins) T
  && opt_ty_eqb (agg_type FUEL (map fst ins)) T
  && list_eqb (tv_eqb cmpv) (model_op 1000 ins) (map (out_tv T) outs)
  && list_eqb (tv_eqb cmpv) (model_op 2 ins) (map (out_tv T) outs)
  (* the guard of C20_fuse_uniform_lossless_guarded holds exactly for the
     inputs the harness classifies as outside the open findings *)
  && list_eqb Bool.eqb (map (fun x : tv => shapeable FUEL (fst x) T) ins) plain.

Definition fuse_mismatches (l : list fcase) : list N := mism fuse_ok 0 l.
