(* Model of the optimizer passes run by Optimizer.Optimize on a file/stream
   (DefaultScan) program (C07).  Mirrors, for the subset of Model/Dag.v:
     compiler/optimizer/optimizer.go  mergeFilters, removePassOps, walk, walkEntries,
                                      Optimize, optimizeSourcePaths (DefaultScan case),
                                      matchFilter, propagateSortKey, propagateSortKeyOp
     compiler/optimizer/op.go         analyzeSortKeys, sortKeysOfSort, sortKeyOfExpr,
                                      orderPreservingCall, analyzeCuts, fieldOf, FieldsOf
     compiler/optimizer/parallelize.go optimizeParallels, liftIntoParPaths (Fork)
     compiler/optimizer/demand.go     insertDemand: no SeqScan in this subset, so only
                                      its panic "Duplicate op value" is modelled (two
                                      top-level occurrences of the shared dag.PassOp)
   The model mirrors the code as it is (including the fixes 7e8198198 lifted
   sort merge order, 87d257a9e pass removal before demand, a057e6809 no sort
   key through a fan-in, d16c8d29d analyzeCuts, 5939a8776 key overlap).
   Definitions only. *)
From ZV Require Import Base.Prelude Model.Dag.
Local Open Scope Z_scope.

(* ---- op.go: fieldOf, FieldsOf ---- *)

Definition field_of (e : expr) : option path :=
  match e with EThis p => Some p | _ => None end.

(* fieldOf(e).Equal(key): a nil path equals an empty key *)
Definition field_is (e : expr) (key : path) : bool :=
  match e with
  | EThis p => path_eqb p key
  | _ => match key with [] => true | _ => false end
  end.

Fixpoint fields_of (e : expr) : option (list path) :=
  match e with
  | ESearch _ | ELit _ => Some []
  | EThis p => Some [p]
  | EUnary _ x => fields_of x
  | EBinary _ a b =>
    match fields_of a with
    | None => None
    | Some x => match fields_of b with None => None | Some y => Some (x ++ y) end
    end
  | ERegexp _ x => fields_of x
  | ECall _ _ | EOther _ => None
  end.

Definition order_preserving (e : expr) (key : path) : bool :=
  match e with
  | ECall fn args =>
    if (fn =? 1)%N || (fn =? 2)%N || (fn =? 3)%N || (fn =? 4)%N then
      match args with a :: _ => field_is a key | [] => false end
    else (fn =? 5)%N
  | _ => false
  end.

(* sortKeysOfSort / sortKeyOfExpr *)
Definition sort_keys_of_sort (args : list (expr * bool)) (reverse : bool) : sortkeys :=
  match args with
  | [(e, desc)] =>
    match field_of e with
    | None => []
    | Some p => [(if reverse then negb desc else desc, p)]
    end
  | _ => []
  end.

(* Null placement.  runtime/sam/op/sort/sort.go setComparator: nullsMax :=
   !nullsFirst, negated when the (effective) first key is descending, and a
   descending comparator swaps its operands: so sort puts nulls first iff
   -nulls first was given, whatever the direction.  A sort key (pools, merge,
   join: expr.NewComparator(nullsMax=true, key, order)) puts nulls last when
   ascending and first when descending. *)
Definition sort_puts_nulls_first (nf desc : bool) : bool :=
  let nulls_max := if desc then negb (negb nf) else negb nf in
  if desc then nulls_max else negb nulls_max.

Definition key_order_nulls_first (desc : bool) : bool := desc.

(* ---- analyzeCuts: a cut outputs only the fields it assigns and evaluates
        every right-hand side on its input, so the ordered output fields are
        exactly those assigned from the input key ---- *)

Fixpoint has_prefix (p pre : path) : bool :=
  match pre, p with
  | [], _ => true
  | x :: pre', y :: p' => N.eqb x y && has_prefix p' pre'
  | _ :: _, [] => false
  end.

(* overlaps(a, b) = a.HasPrefix(b) || b.HasPrefix(a) *)
Definition overlaps (a b : path) : bool := has_prefix a b || has_prefix b a.

(* overlaps(fieldOf(e), key): fieldOf of a non-field is the nil path, a prefix
   of every path *)
Definition overlaps_e (e : expr) (key : path) : bool :=
  match e with EThis p => overlaps p key | _ => true end.

Fixpoint cuts_loop (args : list assignment) (key : path) (ordered : list path)
  : option (list path) :=
  match args with
  | [] => Some ordered
  | (l, r) :: rest =>
    match field_of l with
    | None => None
    | Some lhs =>
      match field_of r with
      | None =>
        match fields_of r with
        | None => None
        | Some deps =>
          if existsb (fun d => overlaps d key) deps then None
          else cuts_loop rest key ordered
        end
      | Some rhs =>
        if path_eqb rhs key then cuts_loop rest key (ordered ++ [lhs])
        else cuts_loop rest key ordered
      end
    end
  end.

Definition analyze_cuts (args : list assignment) (in_ : sortkeys) : sortkeys :=
  match in_ with
  | [] => []
  | (d, key) :: _ =>
    match cuts_loop args key [] with
    | Some [f] => [(d, f)]
    | _ => []
    end
  end.

(* ---- analyzeSortKeys ---- *)

Fixpoint rename_loop (args : list assignment) (d : bool) (key : path) (out : sortkeys)
  : sortkeys :=
  match args with
  | [] => out
  | (l, r) :: rest =>
    if field_is r key
    then rename_loop rest d key [(d, match field_of l with Some p => p | None => [] end)]
    else if overlaps_e r key || overlaps_e l key then []
    else rename_loop rest d key out
  end.

Definition analyze (o : op) (in_ : sortkeys) : sortkeys :=
  match o with
  | OSort args _ rev => sort_keys_of_sort args rev
  | _ =>
    match in_ with
    | [] => []
    | (d, key) :: _ =>
      match o with
      | OFilter _ | OHead _ | OPass | OUniq _ | OTail _ | OFuse | OOutput _ => in_
      | OCut args => analyze_cuts args in_
      | ODrop args => if existsb (fun f => overlaps_e f key) args then [] else in_
      | ORename args => rename_loop args d key in_
      | OPut args => if existsb (fun a => overlaps_e (fst a) key) args then [] else in_
      | _ => []
      end
    end
  end.

(* ---- propagateSortKey / propagateSortKeyOp ---- *)

Definition dir_of (desc : bool) : Z := if desc then -1 else 1.

Definition condense (parents : list sortkeys) : sortkeys :=
  match parents with
  | [] => []
  | p :: r => if forallb (sortkeys_eqb p) r then p else []
  end.

(* Only merge keeps the common order of several parents. *)
Definition parent_of (o : op) (parents : list sortkeys) : sortkeys :=
  match o with
  | OMerge _ _ => condense parents
  | _ => if (1 <? List.length parents)%nat then [] else condense parents
  end.

Fixpoint summ_match (keys : list assignment) (key : path) : bool :=
  match keys with
  | [] => false
  | (l, r) :: rest =>
    if field_is l key && (field_is r key || order_preserving r key) then true
    else summ_match rest key
  end.

Definition prop_res := (list sortkeys * bool)%type.   (* parents out, error *)

Fixpoint prop_op (o : op) (parents : list sortkeys) {struct o} : op * prop_res :=
  let prop_seq :=
      fix prop_seq (s : list op) (parents : list sortkeys) {struct s} : list op * prop_res :=
        match s with
        | [] => ([], (parents, false))
        | o' :: r =>
          let '(o2, (ps2, e)) := prop_op o' parents in
          if e then (o2 :: r, ([[]], true))
          else let '(r2, res) := prop_seq r ps2 in (o2 :: r2, res)
        end in
  match o with
  | OJoin id lk rk ld rd =>
    match parents with
    | [p0; p1] =>
      let ld' := match p0 with (d, k) :: _ => if field_is lk k then dir_of d else ld | [] => ld end in
      let rd' := match p1 with (d, k) :: _ => if field_is rk k then dir_of d else rd | [] => rd end in
      (OJoin id lk rk ld' rd', ([[]], false))
    | _ => (o, ([], true))
    end
  | OSummarize l keys aggs dir pin pout =>
    match parent_of o parents with
    | [] => (o, ([[]], false))
    | ((d, key) :: _) as parent =>
      if summ_match keys key
      then (OSummarize l keys aggs (dir_of d) pin pout, ([parent], false))
      else (o, ([[]], false))
    end
  | OFork paths =>
    let parent := parent_of o parents in
    let '(paths', res) :=
        (fix go (pp : list (list op)) : list (list op) * prop_res :=
           match pp with
           | [] => ([], ([], false))
           | p :: r =>
             let '(p2, (out, e)) := prop_seq p [parent] in
             if e then (p2 :: r, ([], true))
             else let '(r2, (outs, e2)) := go r in (p2 :: r2, (out ++ outs, e2))
           end) paths in
    (OFork paths', res)
  | OMerge e d =>
    let sk := match field_of e with Some p => [(d, p)] | None => [] end in
    (o, ([if sortkeys_eqb sk (condense parents) then sk else []], false))
  | OScan sk _ => (o, ([sk], false))
  | _ => (o, ([analyze o (parent_of o parents)], false))
  end.

Fixpoint prop_seq (s : list op) (parents : list sortkeys) {struct s} : list op * prop_res :=
  match s with
  | [] => ([], (parents, false))
  | o' :: r =>
    let '(o2, (ps2, e)) := prop_op o' parents in
    if e then (o2 :: r, ([[]], true))
    else let '(r2, res) := prop_seq r ps2 in (o2 :: r2, res)
  end.

(* ---- walk / walkEntries ---- *)

Fixpoint walk_op (over : bool) (post : list op -> list op) (o : op) {struct o} : op :=
  match o with
  | OFork paths => OFork (map (fun p => post (map (walk_op over post) p)) paths)
  | OOver id (Some b) =>
    if over then OOver id (Some (post (map (walk_op over post) b))) else o
  | _ => o
  end.

Definition walk (over : bool) (post : list op -> list op) (s : list op) : list op :=
  post (map (walk_op over post) s).

Fixpoint entries_op (post : list op -> list op) (o : op) {struct o} : op :=
  match o with
  | OFork paths => OFork (map (fun p => post (map (entries_op post) p)) paths)
  | _ => o
  end.

Definition walk_entries (post : list op -> list op) (s : list op) : list op :=
  post (map (entries_op post) s).

(* ---- mergeFilters ---- *)

Fixpoint merge_post (s : list op) : list op :=
  match s with
  | [] => []
  | x :: r =>
    let r' := merge_post r in
    match x, r' with
    | OFilter a, OFilter b :: r'' => OFilter (EAnd a b) :: r''
    | _, _ => x :: r'
    end
  end.

Definition merge_filters : seq -> seq := walk true merge_post.

(* ---- removePassOps ---- *)

Definition is_pass (o : op) : bool := match o with OPass => true | _ => false end.

Definition pass_post (s : list op) : list op :=
  match filter (fun o => negb (is_pass o)) s with
  | [] => [OPass]
  | s' => s'
  end.

Definition remove_pass : seq -> seq := walk true pass_post.

(* ---- optimizeParallels / liftIntoParPaths (Fork) ---- *)

Definition append_paths (paths : list (list op)) (o : op) : list (list op) :=
  map (fun p => p ++ [o]) paths.

Definition lift (ops : list op) : list op :=
  match ops with
  | OFork paths :: (o1 :: rest2) as rest1 =>
    let '(egress_ops, merge, has2) :=
        match o1 with
        | OMerge e d => (rest2, Some (e, d), true)
        | OCombine => (rest2, None, true)
        | _ => (rest1, None, false)
        end in
    match egress_ops with
    | [] => ops
    | eo :: after =>
      let rebuild (paths' : list (list op)) (o1' eo' : op) :=
          if has2 then OFork paths' :: o1' :: eo' :: after
          else OFork paths' :: eo' :: after in
      match eo with
      | OSummarize l keys aggs dir pin pout =>
        if pin || pout then ops
        else rebuild (append_paths paths (OSummarize l keys aggs dir false true)) o1
                     (OSummarize l (map (fun k => (fst k, fst k)) keys) aggs dir true pout)
      | OSort args nf rev =>
        match args with
        | [(k0, d0)] =>
          (* the merge must order values the way the sort does: -r reverses the
             key's order; a merge places nulls last for asc and first for desc *)
          let sort_desc := if rev then negb d0 else d0 in
          if negb (Bool.eqb nf sort_desc) then ops
          else
          match merge with
          | Some (e, d) =>
            match field_of e with
            | None => ops
            | Some p =>
              if sortkeys_eqb (sort_keys_of_sort args rev) [(d, p)]
              then rebuild (append_paths paths eo) o1 OPass
              else ops
            end
          | None =>
            if has2 then rebuild (append_paths paths eo) (OMerge k0 sort_desc) OPass
            else rebuild (append_paths paths eo) o1 (OMerge k0 sort_desc)
          end
        | _ => ops
        end
      | OHead _ | OTail _ => rebuild (append_paths paths eo) o1 eo
      | OCut _ | ODrop _ | OPut _ | ORename _ | OFilter _ =>
        match merge with
        | Some _ => ops   (* propagateSortKeyOp(merge, [nil]) never yields a key *)
        | None => rebuild (append_paths paths eo) o1 OPass
        end
      | _ => ops
      end
    end
  | _ => ops
  end.

Fixpoint lift_all (fuel : nat) (s : list op) : list op :=
  match fuel with
  | O => s
  | S f =>
    match s with
    | [] => []
    | [_] => s
    | _ =>
      match lift s with
      | x :: r => x :: lift_all f r
      | [] => []
      end
    end
  end.

Definition lift_post (s : list op) : list op := lift_all (List.length s) s.

Definition opt_parallels : seq -> seq := walk false lift_post.

(* ---- optimizeSourcePaths (DefaultScan) ---- *)

Definition source_post (s : list op) : list op :=
  match s with
  | [] => s
  | [_] => s
  | _ =>
    match fst (prop_seq s [[]]) with
    | OScan sk _ :: OFilter e :: chain => OScan sk (Some e) :: chain
    | OScan sk _ :: chain => OScan sk None :: chain
    | s2 => s2
    end
  end.

Definition source_paths : seq -> seq := walk_entries source_post.

(* ---- Optimize ---- *)

Definition count_pass (s : list op) : nat := List.length (filter is_pass s).

Definition optimize (s : seq) : option seq :=
  let s1 := merge_filters s in
  let s2 := remove_pass s1 in
  let s3 := opt_parallels s2 in
  let s4 := merge_filters s3 in
  let s5 := source_paths s4 in
  (* removePassOps now runs before insertDemand, whose panic "Duplicate op
     value" (two top-level occurrences of the shared dag.PassOp) is therefore
     unreachable; it stays in the model so that the correspondence check
     notices if it comes back. *)
  let s6 := remove_pass s5 in
  if (2 <=? count_pass s6)%nat then None else Some s6.

(* ---- concurrentPath (parallelize.go) and the Slicer decision of
        optimizeSourcePaths for a pool scan.  A pool scan is written OScan with
        the pool's sort key.  Result: (length of the concurrent path, sort keys
        at its exit, orderRequired, needMerge). ---- *)

Definition sk_nil (sk : sortkeys) : bool := match sk with [] => true | _ => false end.

(* isKeyOfSummarize *)
Definition is_key_of_summarize (keys : list assignment) (in_ : sortkeys) : bool :=
  match in_ with
  | [] => false
  | (_, key) :: _ => summ_match keys key
  end.

Fixpoint concurrent_path (ops : list op) (k : nat) (sk : sortkeys)
  : nat * sortkeys * bool * bool :=
  match ops with
  | [] => (k, sk, true, true)
  | o :: r =>
    match o with
    | OSummarize _ keys _ _ _ _ =>
      if is_key_of_summarize keys sk then (k, sk, true, true) else (k, [], false, false)
    | OSort args _ rev =>
      match sort_keys_of_sort args rev with
      | [] => (O, [], false, false)
      | nk => (k, nk, false, true)
      end
    | OFork _ | OHead _ | OTail _ | OUniq _ | OFuse | OJoin _ _ _ _ _ | OOutput _ =>
      (k, sk, true, true)
    | _ =>
      let next := analyze o sk in
      if negb (sk_nil sk) && sk_nil next then (k, sk, true, true)
      else concurrent_path r (S k) next
    end
  end.

(* Does Optimize put a Slicer between the Lister and the SeqScan?  (The scan
   must deliver the pool's objects merged in key order.)  None: the plan does
   not start with a pool scan followed by something. *)
Definition lake_order_required (s : seq) : option bool :=
  let s4 := merge_filters (opt_parallels (remove_pass (merge_filters s))) in
  match s4 with
  | OScan sk _ :: (_ :: _) as chain =>
    let chain' := match chain with OFilter _ :: c => c | c => c end in
    let '(_, _, order_required, _) := concurrent_path chain' O sk in
    Some order_required
  | _ => None
  end.

(* ---- maybeNewRangePruner / buildRangePruner: does Optimize give the Lister a
        key-range pruner for the pushed-down filter?  (What the pruner computes
        is C16's subject; here only which filters get one.)  Binary operator
        codes from the harness: 0 and, 1 or, 2 ==, 3 <, 4 <=, 5 >, 6 >=. ---- *)
Definition is_cmp_op (o : N) : bool := (2 <=? o)%N && (o <=? 6)%N.

Fixpoint prunable (e : expr) (key : path) : bool :=
  match e with
  | EBinary o a b =>
    if (o =? 0)%N then prunable a key || prunable b key
    else if (o =? 1)%N then prunable a key && prunable b key
    else if is_cmp_op o then
      match a, b with
      | EThis p, ELit _ => path_eqb p key
      | ELit _, EThis p => path_eqb p key
      | _, _ => false
      end
    else false
  | _ => false
  end.

Definition lake_pruner_present (s : seq) : option bool :=
  let s4 := merge_filters (opt_parallels (remove_pass (merge_filters s))) in
  match s4 with
  | OScan sk _ :: (_ :: _) as chain =>
    match chain, sk with
    | OFilter e :: _, (_, key) :: _ => Some (prunable e key)
    | _, _ => Some false
    end
  | _ => None
  end.
