(* Model of the optimizer passes run by Optimizer.Optimize on a file/stream
   (DefaultScan) program (C07).  Mirrors, for the subset of Model/Dag.v:
     compiler/optimizer/optimizer.go  mergeFilters, removePassOps, walk, walkEntries,
                                      Optimize, optimizeSourcePaths (DefaultScan case),
                                      matchFilter, propagateSortKey, propagateSortKeyOp
     compiler/optimizer/op.go         analyzeSortKeys, sortKeysOfSort, sortKeyOfExpr,
                                      orderPreservingCall, analyzeCuts, fieldOf, FieldsOf
     compiler/optimizer/parallelize.go optimizeParallels, liftIntoParPaths (Fork)
     compiler/optimizer/demand.go     insertDemand: no SeqScan in this subset, so only
                                      its panic "Duplicate op value" is modelled (two
                                      top-level occurrences of the shared dag.PassOp)
   The model mirrors the code as it is.  Definitions only. *)
From ZV Require Import Base.Prelude Model.Dag.
Local Open Scope Z_scope.

(* ---- op.go: fieldOf, FieldsOf ---- *)

Definition field_of (e : expr) : option path :=
  match e with EThis p => Some p | _ => None end.

(* fieldOf(e).Equal(key): a nil path equals an empty key *)
Definition field_is (e : expr) (key : path) : bool :=
  match e with
  | EThis p => path_eqb p key
  | _ => match key with [] => true | _ => false end
  end.

Fixpoint fields_of (e : expr) : option (list path) :=
  match e with
  | ESearch _ | ELit _ => Some []
  | EThis p => Some [p]
  | EUnary _ x => fields_of x
  | EBinary _ a b =>
    match fields_of a with
    | None => None
    | Some x => match fields_of b with None => None | Some y => Some (x ++ y) end
    end
  | ERegexp _ x => fields_of x
  | ECall _ _ | EOther _ => None
  end.

Definition order_preserving (e : expr) (key : path) : bool :=
  match e with
  | ECall fn args =>
    if (fn =? 1)%N || (fn =? 2)%N || (fn =? 3)%N || (fn =? 4)%N then
      match args with a :: _ => field_is a key | [] => false end
    else (fn =? 5)%N
  | _ => false
  end.

(* sortKeysOfSort / sortKeyOfExpr *)
Definition sort_keys_of_sort (args : list (expr * bool)) (reverse : bool) : sortkeys :=
  match args with
  | [(e, desc)] =>
    match field_of e with
    | None => []
    | Some p => [(if reverse then negb desc else desc, p)]
    end
  | _ => []
  end.

(* ---- analyzeCuts: the scoreboard is a set of paths ---- *)

Definition sb_mem (p : path) (sb : list path) : bool := existsb (path_eqb p) sb.
Definition sb_add (p : path) (sb : list path) : list path := if sb_mem p sb then sb else sb ++ [p].
Definition sb_del (p : path) (sb : list path) : list path :=
  filter (fun q => negb (path_eqb p q)) sb.

Fixpoint cuts_loop (args : list assignment) (sb : list path) : option (list path) :=
  match args with
  | [] => Some sb
  | (l, r) :: rest =>
    match field_of l with
    | None => None
    | Some lhs =>
      match field_of r with
      | None =>
        match fields_of r with
        | None => None
        | Some deps =>
          if existsb (fun d => sb_mem d sb) deps then None
          else cuts_loop rest (sb_del lhs sb)
        end
      | Some rhs =>
        if sb_mem rhs sb then cuts_loop rest (sb_add lhs sb)
        else cuts_loop rest (sb_del lhs sb)
      end
    end
  end.

Definition analyze_cuts (args : list assignment) (in_ : sortkeys) : sortkeys :=
  match in_ with
  | [] => []
  | (d, key) :: _ =>
    match cuts_loop args [key] with
    | Some [f] => [(d, f)]
    | _ => []
    end
  end.

(* ---- analyzeSortKeys ---- *)

Definition analyze (o : op) (in_ : sortkeys) : sortkeys :=
  match o with
  | OSort args _ rev => sort_keys_of_sort args rev
  | _ =>
    match in_ with
    | [] => []
    | (d, key) :: _ =>
      match o with
      | OFilter _ | OHead _ | OPass | OUniq _ | OTail _ | OFuse | OOutput _ => in_
      | OCut args => analyze_cuts args in_
      | ODrop args => if existsb (fun f => field_is f key) args then [] else in_
      | ORename args =>
        fold_left (fun out a =>
                     if field_is (snd a) key
                     then [(d, match field_of (fst a) with Some p => p | None => [] end)]
                     else out) args in_
      | OPut args => if existsb (fun a => field_is (fst a) key) args then [] else in_
      | _ => []
      end
    end
  end.

(* ---- propagateSortKey / propagateSortKeyOp ---- *)

Definition dir_of (desc : bool) : Z := if desc then -1 else 1.

Definition condense (parents : list sortkeys) : sortkeys :=
  match parents with
  | [] => []
  | p :: r => if forallb (sortkeys_eqb p) r then p else []
  end.

Fixpoint summ_match (keys : list assignment) (key : path) : bool :=
  match keys with
  | [] => false
  | (l, r) :: rest =>
    if field_is l key && (field_is r key || order_preserving r key) then true
    else summ_match rest key
  end.

Definition prop_res := (list sortkeys * bool)%type.   (* parents out, error *)

Fixpoint prop_op (o : op) (parents : list sortkeys) {struct o} : op * prop_res :=
  let prop_seq :=
      fix prop_seq (s : list op) (parents : list sortkeys) {struct s} : list op * prop_res :=
        match s with
        | [] => ([], (parents, false))
        | o' :: r =>
          let '(o2, (ps2, e)) := prop_op o' parents in
          if e then (o2 :: r, ([[]], true))
          else let '(r2, res) := prop_seq r ps2 in (o2 :: r2, res)
        end in
  match o with
  | OJoin id lk rk ld rd =>
    match parents with
    | [p0; p1] =>
      let ld' := match p0 with (d, k) :: _ => if field_is lk k then dir_of d else ld | [] => ld end in
      let rd' := match p1 with (d, k) :: _ => if field_is rk k then dir_of d else rd | [] => rd end in
      (OJoin id lk rk ld' rd', ([[]], false))
    | _ => (o, ([], true))
    end
  | OSummarize l keys aggs dir pin pout =>
    match condense parents with
    | [] => (o, ([[]], false))
    | ((d, key) :: _) as parent =>
      if summ_match keys key
      then (OSummarize l keys aggs (dir_of d) pin pout, ([parent], false))
      else (o, ([[]], false))
    end
  | OFork paths =>
    let parent := condense parents in
    let '(paths', res) :=
        (fix go (pp : list (list op)) : list (list op) * prop_res :=
           match pp with
           | [] => ([], ([], false))
           | p :: r =>
             let '(p2, (out, e)) := prop_seq p [parent] in
             if e then (p2 :: r, ([], true))
             else let '(r2, (outs, e2)) := go r in (p2 :: r2, (out ++ outs, e2))
           end) paths in
    (OFork paths', res)
  | OMerge e d =>
    let sk := match field_of e with Some p => [(d, p)] | None => [] end in
    (o, ([if sortkeys_eqb sk (condense parents) then sk else []], false))
  | OScan sk _ => (o, ([sk], false))
  | _ => (o, ([analyze o (condense parents)], false))
  end.

Fixpoint prop_seq (s : list op) (parents : list sortkeys) {struct s} : list op * prop_res :=
  match s with
  | [] => ([], (parents, false))
  | o' :: r =>
    let '(o2, (ps2, e)) := prop_op o' parents in
    if e then (o2 :: r, ([[]], true))
    else let '(r2, res) := prop_seq r ps2 in (o2 :: r2, res)
  end.

(* ---- walk / walkEntries ---- *)

Fixpoint walk_op (over : bool) (post : list op -> list op) (o : op) {struct o} : op :=
  match o with
  | OFork paths => OFork (map (fun p => post (map (walk_op over post) p)) paths)
  | OOver id (Some b) =>
    if over then OOver id (Some (post (map (walk_op over post) b))) else o
  | _ => o
  end.

Definition walk (over : bool) (post : list op -> list op) (s : list op) : list op :=
  post (map (walk_op over post) s).

Fixpoint entries_op (post : list op -> list op) (o : op) {struct o} : op :=
  match o with
  | OFork paths => OFork (map (fun p => post (map (entries_op post) p)) paths)
  | _ => o
  end.

Definition walk_entries (post : list op -> list op) (s : list op) : list op :=
  post (map (entries_op post) s).

(* ---- mergeFilters ---- *)

Fixpoint merge_post (s : list op) : list op :=
  match s with
  | [] => []
  | x :: r =>
    let r' := merge_post r in
    match x, r' with
    | OFilter a, OFilter b :: r'' => OFilter (EAnd a b) :: r''
    | _, _ => x :: r'
    end
  end.

Definition merge_filters : seq -> seq := walk true merge_post.

(* ---- removePassOps ---- *)

Definition is_pass (o : op) : bool := match o with OPass => true | _ => false end.

Definition pass_post (s : list op) : list op :=
  match filter (fun o => negb (is_pass o)) s with
  | [] => [OPass]
  | s' => s'
  end.

Definition remove_pass : seq -> seq := walk true pass_post.

(* ---- optimizeParallels / liftIntoParPaths (Fork) ---- *)

Definition append_paths (paths : list (list op)) (o : op) : list (list op) :=
  map (fun p => p ++ [o]) paths.

Definition lift (ops : list op) : list op :=
  match ops with
  | OFork paths :: (o1 :: rest2) as rest1 =>
    let '(egress_ops, merge, has2) :=
        match o1 with
        | OMerge e d => (rest2, Some (e, d), true)
        | OCombine => (rest2, None, true)
        | _ => (rest1, None, false)
        end in
    match egress_ops with
    | [] => ops
    | eo :: after =>
      let rebuild (paths' : list (list op)) (o1' eo' : op) :=
          if has2 then OFork paths' :: o1' :: eo' :: after
          else OFork paths' :: eo' :: after in
      match eo with
      | OSummarize l keys aggs dir pin pout =>
        if pin || pout then ops
        else rebuild (append_paths paths (OSummarize l keys aggs dir false true)) o1
                     (OSummarize l (map (fun k => (fst k, fst k)) keys) aggs dir true pout)
      | OSort args nf rev =>
        match args with
        | [(k0, d0)] =>
          match merge with
          | Some (e, d) =>
            match field_of e with
            | None => ops
            | Some p =>
              if sortkeys_eqb (sort_keys_of_sort args rev) [(d, p)]
              then rebuild (append_paths paths eo) o1 OPass
              else ops
            end
          | None =>
            if has2 then rebuild (append_paths paths eo) (OMerge k0 d0) OPass
            else rebuild (append_paths paths eo) o1 (OMerge k0 d0)
          end
        | _ => ops
        end
      | OHead _ | OTail _ => rebuild (append_paths paths eo) o1 eo
      | OCut _ | ODrop _ | OPut _ | ORename _ | OFilter _ =>
        match merge with
        | Some _ => ops   (* propagateSortKeyOp(merge, [nil]) never yields a key *)
        | None => rebuild (append_paths paths eo) o1 OPass
        end
      | _ => ops
      end
    end
  | _ => ops
  end.

Fixpoint lift_all (fuel : nat) (s : list op) : list op :=
  match fuel with
  | O => s
  | S f =>
    match s with
    | [] => []
    | [_] => s
    | _ =>
      match lift s with
      | x :: r => x :: lift_all f r
      | [] => []
      end
    end
  end.

Definition lift_post (s : list op) : list op := lift_all (List.length s) s.

Definition opt_parallels : seq -> seq := walk false lift_post.

(* ---- optimizeSourcePaths (DefaultScan) ---- *)

Definition source_post (s : list op) : list op :=
  match s with
  | [] => s
  | [_] => s
  | _ =>
    match fst (prop_seq s [[]]) with
    | OScan sk _ :: OFilter e :: chain => OScan sk (Some e) :: chain
    | OScan sk _ :: chain => OScan sk None :: chain
    | s2 => s2
    end
  end.

Definition source_paths : seq -> seq := walk_entries source_post.

(* ---- Optimize ---- *)

Definition count_pass (s : list op) : nat := List.length (filter is_pass s).

Definition optimize (s : seq) : option seq :=
  let s1 := merge_filters s in
  let s2 := remove_pass s1 in
  let s3 := opt_parallels s2 in
  let s4 := merge_filters s3 in
  let s5 := source_paths s4 in
  (* insertDemand: panic("Duplicate op value") when the shared dag.PassOp occurs
     twice at the top level *)
  if (2 <=? count_pass s5)%nat then None else Some (remove_pass s5).
