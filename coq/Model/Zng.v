(* Model of the ZNG writer and reader (zio/zngio: writer.go, types.go, parser.go,
   scanner.go decodeVal/scanBatch, frame.go) -- definitions only.

   Three layers:
   1. typedef and value syntax ([enc_tdef]/[dec_tdefs], [enc_val]/[dec_vals]);
   2. framing: [write] (Writer.Write / flush / writeBlock / writeHeader /
      writeCompHeader / EndStream / WriteControl / Close) over low-level
      operations carrying flat typedefs and type ids, and [parse]
      (parser.read / decodeTypes / decodeValues / decodeControl / readFrame /
      readCompressedFrame / decodeLength, worker.scanBatch / decodeVal);
   3. the type encoder ([encode]: Encoder.Encode and the interning done by the
      writer's local zed.Context) from structural types to flat typedefs and
      ids, and [resolve], the reader's reconstruction of a structural type from
      its local table (zed.Context.LookupType* + Mapper).

   LZ4 is a pair of section variables. *)
From ZV Require Import Base.Prelude Base.Uvarint Base.Zcode.
Local Open Scope N_scope.

(* ------------------------------------------------------------ flat typedefs *)

Inductive tdef :=
| DRecord (fs : list (bytes * N))
| DArray (i : N)
| DSet (i : N)
| DMap (k v : N)
| DUnion (ts : list N)
| DEnum (syms : list bytes)
| DError (i : N)
| DNamed (name : bytes) (i : N).

(* counted string *)
Definition cstr (s : bytes) : bytes := uvarint (len s) ++ s.

Definition enc_field (f : bytes * N) : bytes := cstr (fst f) ++ uvarint (snd f).

Definition enc_tdef (d : tdef) : bytes :=
  match d with
  | DRecord fs => 0 :: uvarint (len fs) ++ flat_map enc_field fs
  | DArray i => 1 :: uvarint i
  | DSet i => 2 :: uvarint i
  | DMap k v => 3 :: uvarint k ++ uvarint v
  | DUnion ts => 4 :: uvarint (len ts) ++ flat_map uvarint ts
  | DEnum ss => 5 :: uvarint (len ss) ++ flat_map cstr ss
  | DError i => 6 :: uvarint i
  | DNamed n i => 7 :: cstr n ++ uvarint i
  end.

Definition enc_tdefs (ds : list tdef) : bytes := flat_map enc_tdef ds.

(* Decoder.readCountedString: uvarint n, then exactly n bytes *)
Definition read_cstr (bs : bytes) : option (bytes * bytes) :=
  match read_uvarint bs with
  | None => None
  | Some (n, r) => if len r <? n then None else Some (take n r, drop n r)
  end.

Definition read_field (bs : bytes) : option ((bytes * N) * bytes) :=
  match read_cstr bs with
  | None => None
  | Some (name, r) =>
    match read_uvarint r with
    | None => None
    | Some (i, r') => Some ((name, i), r')
    end
  end.

(* read k items with the given item reader *)
Fixpoint read_n {A} (rd : bytes -> option (A * bytes)) (k : nat) (bs : bytes) : option (list A * bytes) :=
  match k with
  | O => Some ([], bs)
  | S k' =>
    match rd bs with
    | None => None
    | Some (x, r) =>
      match read_n rd k' r with
      | None => None
      | Some (xs, r') => Some (x :: xs, r')
      end
    end
  end.

(* one typedef: Decoder.decode's switch and the readType* functions (syntax only;
   id validity is checked when a type is resolved) *)
Definition read_tdef (bs : bytes) : option (tdef * bytes) :=
  match bs with
  | [] => None
  | code :: r =>
    match code with
    | 0 => match read_uvarint r with
           | None => None
           | Some (n, r1) => match read_n read_field (N.to_nat n) r1 with
                             | None => None
                             | Some (fs, r2) => Some (DRecord fs, r2)
                             end
           end
    | 1 => match read_uvarint r with Some (i, r1) => Some (DArray i, r1) | None => None end
    | 2 => match read_uvarint r with Some (i, r1) => Some (DSet i, r1) | None => None end
    | 3 => match read_uvarint r with
           | Some (k, r1) => match read_uvarint r1 with Some (v, r2) => Some (DMap k v, r2) | None => None end
           | None => None
           end
    | 4 => match read_uvarint r with
           | None => None
           | Some (n, r1) => if n =? 0 then None else
                             match read_n read_uvarint (N.to_nat n) r1 with
                             | None => None
                             | Some (ts, r2) => Some (DUnion ts, r2)
                             end
           end
    | 5 => match read_uvarint r with
           | None => None
           | Some (n, r1) => match read_n read_cstr (N.to_nat n) r1 with
                             | None => None
                             | Some (ss, r2) => Some (DEnum ss, r2)
                             end
           end
    | 6 => match read_uvarint r with Some (i, r1) => Some (DError i, r1) | None => None end
    | 7 => match read_cstr r with
           | None => None
           | Some (name, r1) => match read_uvarint r1 with Some (i, r2) => Some (DNamed name i, r2) | None => None end
           end
    | _ => None
    end
  end.

(* Decoder.decode: typedefs until the payload is exhausted *)
Fixpoint dec_tdefs_fuel (fuel : nat) (bs : bytes) : option (list tdef) :=
  match bs with
  | [] => Some []
  | _ =>
    match fuel with
    | O => None
    | S f =>
      match read_tdef bs with
      | None => None
      | Some (d, r) =>
        match dec_tdefs_fuel f r with
        | None => None
        | Some ds => Some (d :: ds)
        end
      end
    end
  end.

Definition dec_tdefs (bs : bytes) : option (list tdef) := dec_tdefs_fuel (List.length bs) bs.

(* ------------------------------------------------------------ values *)

Definition value := (N * option bytes)%type.        (* type id, body *)

Definition enc_val (v : value) : bytes := uvarint (fst v) ++ zappend (snd v).
Definition enc_vals (vs : list value) : bytes := flat_map enc_val vs.

(* worker.decodeVal *)
Definition read_val (bs : bytes) : option (value * bytes) :=
  match read_uvarint bs with
  | None => None
  | Some (id, r) =>
    match read_tagged r with
    | None => None
    | Some (body, r') => Some ((id, body), r')
    end
  end.

(* worker.scanBatch: values until the frame is exhausted *)
Fixpoint dec_vals_fuel (fuel : nat) (bs : bytes) : option (list value) :=
  match bs with
  | [] => Some []
  | _ =>
    match fuel with
    | O => None
    | S f =>
      match read_val bs with
      | None => None
      | Some (v, r) =>
        match dec_vals_fuel f r with
        | None => None
        | Some vs => Some (v :: vs)
        end
      end
    end
  end.

Definition dec_vals (bs : bytes) : option (list value) := dec_vals_fuel (List.length bs) bs.

(* ------------------------------------------------------------ framing *)

Inductive op :=
| OWrite (tds : list tdef) (id : N) (body : option bytes)   (* Write: typedefs first emitted by this call, the value *)
| OEnd                                                      (* EndStream *)
| OControl (fmt : N) (b : bytes).                           (* WriteControl *)

Inductive item :=
| IVal (id : N) (body : option bytes)
| ICtl (fmt : N) (b : bytes).

(* what a reader learns from one stream (EOS to EOS): all typedefs in order, all items in order *)
Definition stream := (list tdef * list item)%type.

Section Framing.

Variable lz4c : bytes -> option bytes.       (* compressor.compress: Some z only when the block got smaller *)
Variable lz4d : bytes -> N -> option bytes.  (* lz4.UncompressBlock into a buffer of the given size *)

Variable compress : bool.                    (* WriterOpts.Compress *)
Variable thresh : N.                         (* WriterOpts.FrameThresh *)

(* Writer.writeHeader *)
Definition header (ftype size : N) : bytes :=
  (ftype * 16 + size mod 16) :: uvarint (size / 16).

(* Writer.writeCompHeader *)
Definition comp_header (ftype size zlen : N) : bytes :=
  let z := zlen + 1 + size_of_uvarint size in
  (ftype * 16 + z mod 16 + 64) :: uvarint (z / 16) ++ [0] ++ uvarint size.

(* Writer.writeBlock *)
Definition write_block (ftype : N) (b : bytes) : bytes :=
  match b with
  | [] => []
  | _ =>
    match (if compress then lz4c b else None) with
    | Some z => comp_header ftype (len b) (len z) ++ z
    | None => header ftype (len b) ++ b
    end
  end.

Record wstate := { w_types : bytes; w_values : bytes; w_dirty : bool }.  (* dirty: position <> flushed *)

Definition w_init : wstate := {| w_types := []; w_values := []; w_dirty := false |}.

Definition nonempty (b : bytes) : bool := match b with [] => false | _ => true end.

(* Writer.flush *)
Definition w_flush (st : wstate) : wstate * bytes :=
  let out := write_block 0 (w_types st) ++ write_block 1 (w_values st) in
  ({| w_types := []; w_values := []; w_dirty := w_dirty st || nonempty out |}, out).

Definition w_step (st : wstate) (o : op) : wstate * bytes :=
  match o with
  | OWrite tds id body =>
    let st1 := {| w_types := w_types st ++ enc_tdefs tds;
                  w_values := w_values st ++ enc_val (id, body);
                  w_dirty := w_dirty st |} in
    if (thresh <=? len (w_values st1)) || (thresh <=? len (w_types st1)) then w_flush st1
    else (st1, [])
  | OEnd =>
    let '(st1, out) := w_flush st in
    if w_dirty st1 then ({| w_types := []; w_values := []; w_dirty := false |}, out ++ [255])
    else (st1, out)
  | OControl fmt b =>
    let '(st1, out) := w_flush st in
    ({| w_types := []; w_values := []; w_dirty := true |}, out ++ write_block 2 (fmt :: b))
  end.

Fixpoint w_run (st : wstate) (ops : list op) : wstate * bytes :=
  match ops with
  | [] => (st, [])
  | o :: r =>
    let '(st1, out1) := w_step st o in
    let '(st2, out2) := w_run st1 r in
    (st2, out1 ++ out2)
  end.

(* everything a writer produces for [ops] followed by Close (= EndStream) *)
Definition write (ops : list op) : bytes := snd (w_run w_init (ops ++ [OEnd])).

(* parser.readFrame / readCompressedFrame (+ frame.decompress): the
   uncompressed payload and the remaining input *)
Definition read_frame (code : N) (r : bytes) : option (bytes * bytes) :=
  match read_uvarint r with
  | None => None
  | Some (v, r1) =>
    let n := v * 16 + code mod 16 in
    if (code / 64) mod 2 =? 0 then
      if len r1 <? n then None else Some (take n r1, drop n r1)
    else
      match r1 with
      | [] => None
      | fmt :: r2 =>
        match read_uvarint r2 with
        | None => None
        | Some (size, r3) =>
          let hdr := 1 + size_of_uvarint size in
          if n <? hdr then None
          else if len r3 <? n - hdr then None
          else if negb (fmt =? 0) then None
          else match lz4d (take (n - hdr) r3) size with
               | None => None
               | Some u => if len u =? size then Some (u, drop (n - hdr) r3) else None
               end
        end
      end
  end.

(* reader state: the typedefs and items of the current stream so far *)
Definition rstate := stream.
Definition r_init : rstate := ([], []).

Definition is_empty (s : stream) : bool :=
  match s with ([], []) => true | _ => false end.

Definition val_item (v : value) : item := IVal (fst v) (snd v).

(* what a frame of type t does to the reader: Decoder.decode for types frames,
   worker.scanBatch for values frames, decodeControl for control frames *)
Definition frame_action (t : N) (payload : bytes) (st : rstate) : option rstate :=
  match t with
  | 0 => match dec_tdefs payload with
         | None => None
         | Some ds => Some (fst st ++ ds, snd st)
         end
  | 1 => match dec_vals payload with
         | None => None
         | Some vs => Some (fst st, snd st ++ map val_item vs)
         end
  | 2 => match payload with
         | [] => None
         | fmt :: b => Some (fst st, snd st ++ [ICtl fmt b])
         end
  | _ => None
  end.

(* parser.read in a loop: one frame (or EOS) per unit of fuel *)
Fixpoint parse_fuel (fuel : nat) (st : rstate) (bs : bytes) : option (list stream) :=
  match bs with
  | [] => Some (if is_empty st then [] else [st])
  | code :: r =>
    match fuel with
    | O => None
    | S f =>
      if code =? 255 then
        match parse_fuel f r_init r with
        | None => None
        | Some ss => Some (st :: ss)
        end
      else if 128 <=? code then None
      else
        match read_frame code r with
        | None => None
        | Some (payload, rest) =>
          match frame_action ((code / 16) mod 4) payload st with
          | None => None
          | Some st' => parse_fuel f st' rest
          end
        end
    end
  end.

Definition parse_from (st : rstate) (bs : bytes) : option (list stream) :=
  parse_fuel (List.length bs) st bs.

Definition parse (bs : bytes) : option (list stream) := parse_from r_init bs.

End Framing.

(* the specification side: the streams a sequence of writer operations describes *)
Definition s_step (cur : stream) (o : op) : list stream * stream :=
  match o with
  | OWrite tds id body => ([], (fst cur ++ tds, snd cur ++ [IVal id body]))
  | OEnd => if is_empty cur then ([], cur) else ([cur], r_init)
  | OControl fmt b => ([], (fst cur, snd cur ++ [ICtl fmt b]))
  end.

Fixpoint s_run (cur : stream) (ops : list op) : list stream * stream :=
  match ops with
  | [] => ([], cur)
  | o :: r =>
    let '(d1, c1) := s_step cur o in
    let '(d2, c2) := s_run c1 r in
    (d1 ++ d2, c2)
  end.

Definition streams_of (ops : list op) : list stream := fst (s_run r_init (ops ++ [OEnd])).

(* ------------------------------------------------------------ type encoder *)

(* structural types as the writer's caller holds them; [key] identifies the
   Go pointer (the encoder memoizes on it) *)
Inductive ty :=
| TPrim (id : N)
| TRecord (key : N) (fs : list (bytes * ty))
| TArray (key : N) (t : ty)
| TSet (key : N) (t : ty)
| TMap (key : N) (k v : ty)
| TUnion (key : N) (ts : list ty)
| TEnum (key : N) (syms : list bytes)
| TError (key : N) (t : ty)
| TNamed (key : N) (name : bytes) (t : ty).

Definition pair_eqb {A B} (ea : A -> A -> bool) (eb : B -> B -> bool) (x y : A * B) : bool :=
  ea (fst x) (fst y) && eb (snd x) (snd y).

Definition tdef_eqb (a b : tdef) : bool :=
  match a, b with
  | DRecord x, DRecord y => list_eqb (pair_eqb bytes_eqb N.eqb) x y
  | DArray x, DArray y => N.eqb x y
  | DSet x, DSet y => N.eqb x y
  | DMap k v, DMap k' v' => N.eqb k k' && N.eqb v v'
  | DUnion x, DUnion y => list_eqb N.eqb x y
  | DEnum x, DEnum y => list_eqb bytes_eqb x y
  | DError x, DError y => N.eqb x y
  | DNamed n i, DNamed n' i' => bytes_eqb n n' && N.eqb i i'
  | _, _ => false
  end.

Fixpoint index_of (d : tdef) (tbl : list tdef) (i : N) : option N :=
  match tbl with
  | [] => None
  | x :: r => if tdef_eqb x d then Some i else index_of d r (i + 1)
  end.

(* zed.Context.LookupType*: one id per distinct typedef, ids from 30 in order of first appearance *)
Definition intern (tbl : list tdef) (d : tdef) : list tdef * N :=
  match index_of d tbl 0 with
  | Some i => (tbl, 30 + i)
  | None => (tbl ++ [d], 30 + len tbl)
  end.

Definition intern_all (ds : list tdef) : list tdef :=
  fold_left (fun tbl d => fst (intern tbl d)) ds [].

Record estate := { e_tbl : list tdef; e_memo : list (N * N); e_out : list tdef }.

Definition e_init : estate := {| e_tbl := []; e_memo := []; e_out := [] |}.

Fixpoint memo_find (k : N) (m : list (N * N)) : option N :=
  match m with
  | [] => None
  | (k', i) :: r => if k =? k' then Some i else memo_find k r
  end.

(* the tail of every encodeType*: intern in the local context, emit the typedef, memoize *)
Definition e_finish (st : estate) (key : N) (d : tdef) : estate * N :=
  let '(tbl, i) := intern (e_tbl st) d in
  ({| e_tbl := tbl; e_memo := (key, i) :: e_memo st; e_out := e_out st ++ [d] |}, i).

(* Encoder.Encode *)
Fixpoint encode (st : estate) (t : ty) : estate * N :=
  match t with
  | TPrim id => (st, id)
  | TRecord key fs =>
    match memo_find key (e_memo st) with
    | Some i => (st, i)
    | None =>
      let '(st1, ids) :=
        (fix go (st : estate) (fs : list (bytes * ty)) : estate * list (bytes * N) :=
           match fs with
           | [] => (st, [])
           | (n, t) :: r =>
             let '(st1, i) := encode st t in
             let '(st2, is) := go st1 r in
             (st2, (n, i) :: is)
           end) st fs in
      e_finish st1 key (DRecord ids)
    end
  | TArray key t =>
    match memo_find key (e_memo st) with
    | Some i => (st, i)
    | None => let '(st1, i) := encode st t in e_finish st1 key (DArray i)
    end
  | TSet key t =>
    match memo_find key (e_memo st) with
    | Some i => (st, i)
    | None => let '(st1, i) := encode st t in e_finish st1 key (DSet i)
    end
  | TMap key k v =>
    match memo_find key (e_memo st) with
    | Some i => (st, i)
    | None =>
      let '(st1, ik) := encode st k in
      let '(st2, iv) := encode st1 v in
      e_finish st2 key (DMap ik iv)
    end
  | TUnion key ts =>
    match memo_find key (e_memo st) with
    | Some i => (st, i)
    | None =>
      let '(st1, ids) :=
        (fix go (st : estate) (ts : list ty) : estate * list N :=
           match ts with
           | [] => (st, [])
           | t :: r =>
             let '(st1, i) := encode st t in
             let '(st2, is) := go st1 r in
             (st2, i :: is)
           end) st ts in
      e_finish st1 key (DUnion ids)
    end
  | TEnum key syms =>
    match memo_find key (e_memo st) with
    | Some i => (st, i)
    | None => e_finish st key (DEnum syms)
    end
  | TError key t =>
    match memo_find key (e_memo st) with
    | Some i => (st, i)
    | None => let '(st1, i) := encode st t in e_finish st1 key (DError i)
    end
  | TNamed key name t =>
    match memo_find key (e_memo st) with
    | Some i => (st, i)
    | None => let '(st1, i) := encode st t in e_finish st1 key (DNamed name i)
    end
  end.

(* the writer's caller-level operations *)
Inductive hop :=
| HWrite (t : ty) (body : option bytes)
| HEnd
| HControl (fmt : N) (b : bytes).

(* Writer.Write = Encoder.Lookup/Encode + the low-level write; EndStream resets the encoder *)
Fixpoint lower (st : estate) (hs : list hop) : list op :=
  match hs with
  | [] => []
  | HWrite t body :: r =>
    let '(st1, i) := encode {| e_tbl := e_tbl st; e_memo := e_memo st; e_out := [] |} t in
    OWrite (e_out st1) i body :: lower st1 r
  | HEnd :: r => OEnd :: lower e_init r
  | HControl fmt b :: r => OControl fmt b :: lower st r
  end.

(* ------------------------------------------------------------ the reader's view of types *)

Inductive rty :=
| RPrim (id : N)
| RRecord (fs : list (bytes * rty))
| RArray (t : rty)
| RSet (t : rty)
| RMap (k v : rty)
| RUnion (ts : list rty)
| REnum (syms : list bytes)
| RError (t : rty)
| RNamed (name : bytes) (t : rty)
| RBad.                                   (* id not in the table: "type ID not in context" *)

Fixpoint erase (t : ty) : rty :=
  match t with
  | TPrim id => RPrim id
  | TRecord _ fs => RRecord (map (fun f => (fst f, erase (snd f))) fs)
  | TArray _ t => RArray (erase t)
  | TSet _ t => RSet (erase t)
  | TMap _ k v => RMap (erase k) (erase v)
  | TUnion _ ts => RUnion (map erase ts)
  | TEnum _ ss => REnum ss
  | TError _ t => RError (erase t)
  | TNamed _ n t => RNamed n (erase t)
  end.

(* the structural type an id denotes in a local table *)
Fixpoint resolve (fuel : nat) (tbl : list tdef) (id : N) : rty :=
  if id <? 30 then RPrim id
  else
    match fuel with
    | O => RBad
    | S f =>
      match nth_error tbl (N.to_nat (id - 30)) with
      | None => RBad
      | Some d =>
        match d with
        | DRecord fs => RRecord (map (fun x => (fst x, resolve f tbl (snd x))) fs)
        | DArray i => RArray (resolve f tbl i)
        | DSet i => RSet (resolve f tbl i)
        | DMap k v => RMap (resolve f tbl k) (resolve f tbl v)
        | DUnion ts => RUnion (map (resolve f tbl) ts)
        | DEnum ss => REnum ss
        | DError i => RError (resolve f tbl i)
        | DNamed n i => RNamed n (resolve f tbl i)
        end
      end
    end.

Inductive titem :=
| TVal (t : rty) (body : option bytes)
| TCtl (fmt : N) (b : bytes).

(* what the application sees of one stream: every value with its structural type *)
Definition typed_stream (s : stream) : list titem :=
  let tbl := intern_all (fst s) in
  map (fun it => match it with
                 | IVal id body => TVal (resolve (S (List.length tbl)) tbl id) body
                 | ICtl f b => TCtl f b
                 end) (snd s).

Definition typed_hops (hs : list hop) : list titem :=
  flat_map (fun h => match h with
                     | HWrite t body => [TVal (erase t) body]
                     | HEnd => []
                     | HControl f b => [TCtl f b]
                     end) hs.
