(* Model of pool-key range pruning (C16).
   Mirrors: compiler/optimizer/optimizer.go (buildRangePruner, rangePrunerPred,
   literalComparison, reverseComparator, compare), runtime/sam/expr/eval.go
   (Compare.Eval, Equal.Eval, And/Or/Not.Eval), runtime/sam/expr/sort.go
   (compareValues with nullsMax = true), runtime/sam/op/meta/pruner.go.
   Definitions only; proofs are in Proofs/PrunerProofs.v. *)
From ZV Require Import Base.Prelude.

(* Key values of the modelled domain: int64, string, null, and "missing"
   (the key path is absent from the value). *)
Inductive key := KInt (z : Z) | KStr (s : bytes) | KNull | KMissing.

Definition key_eqb (a b : key) : bool :=
  match a, b with
  | KInt x, KInt y => Z.eqb x y
  | KStr x, KStr y => bytes_eqb x y
  | KNull, KNull => true
  | KMissing, KMissing => true
  | _, _ => false
  end.

(* data.Writer.Write: key := val.DerefPath(k).MissingAsNull() *)
Definition man (k : key) : key := match k with KMissing => KNull | _ => k end.

(* compareValues a b nullsMax:=true  (sort.go).  int64 (id 7) < string (id 16)
   by CompareTypes on primitive ids.  Missing is treated as null (the
   callers in the lake apply MissingAsNull first; compare() on an
   error("missing") is not modelled: min/max never hold it). *)
Definition cmpk (a b : key) : Z :=
  match man a, man b with
  | KNull, KNull => 0
  | KNull, _ => 1
  | _, KNull => -1
  | KInt x, KInt y => cmp_to_Z (Z.compare x y)
  | KStr x, KStr y => cmp_to_Z (bytes_cmp x y)
  | KInt _, KStr _ => -1
  | KStr _, KInt _ => 1
  | _, _ => 0
  end%Z.

Inductive cop := OEq | ONe | OLt | OLe | OGt | OGe.

Definition cop_eqb (a b : cop) : bool :=
  match a, b with
  | OEq, OEq | ONe, ONe | OLt, OLt | OLe, OLe | OGt, OGt | OGe, OGe => true
  | _, _ => false
  end.

(* Truth values of the expression language: bool, error("missing"), other error. *)
Inductive tv := TT | TF | TMissing | TErr.

(* Compare.convert *)
Definition conv (o : cop) (v : Z) : bool :=
  match o with
  | OLt => (v <? 0)%Z | OLe => (v <=? 0)%Z
  | OGt => (v >? 0)%Z | OGe => (v >=? 0)%Z
  | OEq => (v =? 0)%Z | ONe => negb (v =? 0)%Z
  end.

Definition tvb (b : bool) : tv := if b then TT else TF.

(* The language's binary comparison  lhs o rhs  on key values.
   Relational (Compare.Eval): error operands propagate; null vs null is
   result(0); null vs non-null is false; numbers compare numerically;
   different type ids are false; strings compare bytewise.
   Equality (Equal.Eval with coerce.Equal): null == null; same id and same bytes. *)
Definition rel (o : cop) (a b : key) : tv :=
  match a, b with
  | KMissing, _ => TMissing
  | _, KMissing => TMissing
  | _, _ =>
    match o with
    | OEq => tvb (key_eqb a b)
    | ONe => tvb (negb (key_eqb a b))
    | _ =>
      match a, b with
      | KNull, KNull => tvb (conv o 0)
      | KNull, _ | _, KNull => TF
      | KInt x, KInt y => tvb (conv o (cmp_to_Z (Z.compare x y)))
      | KStr x, KStr y => tvb (conv o (cmp_to_Z (bytes_cmp x y)))
      | _, _ => TF
      end
    end
  end.

(* The fast path for  key o literal  (kernel compileConstCompare +
   expr.Comparison + expr.NewFilter): the predicate is specialised to the
   literal's type and is false for a key of any other type (so  "a" != 1  is
   false here although  1 != "a"  is true on the general path), except that a
   null key answers what the general path answers: true only for != (since the
   repair of expr.Comparison; before it a typed null was decoded as zero); a null
   literal supports only == and != and falls back to the general path otherwise. *)
Definition relc (o : cop) (k c : key) : tv :=
  match k with
  | KMissing => TMissing
  | _ =>
    match c with
    | KNull =>
      match o with
      | OEq => tvb (key_eqb k KNull)
      | ONe => tvb (negb (key_eqb k KNull))
      | _ => rel o k c
      end
    | KInt y =>
      match k with
      | KInt x => tvb (conv o (cmp_to_Z (Z.compare x y)))
      | KNull => match o with ONe => TT | _ => TF end
      | _ => TF
      end
    | KStr y =>
      match k with
      | KStr x => tvb (conv o (cmp_to_Z (bytes_cmp x y)))
      | KNull => match o with ONe => TT | _ => TF end
      | _ => TF
      end
    | KMissing => rel o k c
    end
  end.

(* Filter predicates over the pool key.  [POther i] is any sub-expression the
   pruner does not understand; its value is given by an arbitrary oracle. *)
Inductive pred :=
| PKL (o : cop) (c : key)      (* k o c *)
| PLK (o : cop) (c : key)      (* c o k *)
| PAnd (a b : pred)
| POr (a b : pred)
| PNot (a : pred)
| POther (i : nat).

Section Eval.
  Variable oth : nat -> key -> tv.

  (* And.Eval / Or.Eval / Not.Eval with EvalBool (eval.go). *)
  Fixpoint eval (p : pred) (k : key) : tv :=
    match p with
    | PKL o c => relc o k c
    | PLK o c => rel o c k
    | PAnd a b =>
      match eval a k with
      | TT => match eval b k with TT => TT | TF => TF | e => e end
      | TF => TF
      | e => e
      end
    | POr a b =>
      match eval a k with
      | TT => TT
      | TErr => TErr
      | _ => match eval b k with TT => TT | TF => TF | e => e end
      end
    | PNot a =>
      match eval a k with TT => TF | TF => TT | e => e end
    | POther i => oth i k
    end.
End Eval.

(* The synthesised pruner expression: compare(a, b, true) o 0, and/or. *)
Inductive operand := Lit (c : key) | Min | Max.
Inductive pexpr :=
| XCmp (o : cop) (a b : operand)
| XAnd (a b : pexpr)
| XOr (a b : pexpr).

(* reverseComparator (optimizer.go): the operator o' with  c o k  <=>  k o' c. *)
Definition reverse_comparator (o : cop) : cop :=
  match o with
  | OEq => OEq | ONe => ONe
  | OLt => OGt | OLe => OGe | OGt => OLt | OGe => OLe
  end.

(* rangePrunerPred *)
Definition range_pruner_pred (o : cop) (c : key) : option pexpr :=
  match o with
  | OLt => Some (XCmp OLe (Lit c) Min)
  | OLe => Some (XCmp OLt (Lit c) Min)
  | OGt => Some (XCmp OGe (Lit c) Max)
  | OGe => Some (XCmp OGt (Lit c) Max)
  | OEq => Some (XOr (XCmp OGt Min (Lit c)) (XCmp OLt Max (Lit c)))
  | ONe => None
  end.

(* buildRangePruner *)
Fixpoint build (p : pred) : option pexpr :=
  match p with
  | PAnd a b =>
    match build a, build b with
    | None, r => r
    | l, None => l
    | Some l, Some r => Some (XOr l r)
    end
  | POr a b =>
    match build a, build b with
    | Some l, Some r => Some (XAnd l r)
    | _, _ => None
    end
  | PKL o c => range_pruner_pred o c
  | PLK o c => range_pruner_pred (reverse_comparator o) c
  | PNot _ => None
  | POther _ => None
  end.

Definition opv (mn mx : key) (a : operand) : key :=
  match a with Lit c => c | Min => mn | Max => mx end.

(* pruner.prune: result is bool true.  All leaves are int comparisons, so the
   and/or are two-valued. *)
Fixpoint peval (x : pexpr) (mn mx : key) : bool :=
  match x with
  | XCmp o a b => conv o (cmpk (opv mn mx a) (opv mn mx b))
  | XAnd a b => peval a mn mx && peval b mn mx
  | XOr a b => peval a mn mx || peval b mn mx
  end.

Definition prune (p : pred) (mn mx : key) : bool :=
  match build p with Some x => peval x mn mx | None => false end.

(* A scan over objects (or seek-index ranges) with metadata. *)
Record obj := { omin : key; omax : key; ovals : list key }.

Definition meta_ok (o : obj) : Prop :=
  forall k, In k (ovals o) -> (cmpk (omin o) k <= 0 /\ cmpk k (omax o) <= 0)%Z.

Definition is_true (t : tv) : bool := match t with TT => true | _ => false end.

Definition scan_all (objs : list obj) : list key := flat_map ovals objs.
Definition scan_pruned (p : pred) (objs : list obj) : list key :=
  flat_map ovals (filter (fun o => negb (prune p (omin o) (omax o))) objs).

(* -------- printing helpers for the correspondence check -------- *)
Definition cop_code (o : cop) : N :=
  match o with OEq => 0 | ONe => 1 | OLt => 2 | OLe => 3 | OGt => 4 | OGe => 5 end%N.
Definition tv_code (t : tv) : N :=
  match t with TT => 1 | TF => 0 | TMissing => 2 | TErr => 3 end%N.
