(* Model of the parallel pool scan (C08).
   Mirrors: compiler/optimizer/parallelize.go (scatter of [replicas] identical
   legs followed by merge-on-key or combine), runtime/sam/op/meta/lister.go
   (sortObjects), runtime/sam/op/meta/slicer.go (stash / nextPartition),
   runtime/sam/op/meta/sequence.go (each leg pulls whole partitions from the
   shared, mutex protected Slicer and scans them one after the other; the
   objects of one partition are merged), runtime/sam/op/merge/merge.go (k-way
   merge: the next value is a head that is minimal among the heads of all legs),
   runtime/sam/op/combine/combine.go (any interleaving), and the split of an
   aggregation into per-leg partials (liftIntoParPaths, dag.Summarize case).
   Definitions only; proofs are in Proofs/ParProofs.v. *)
From ZV Require Import Base.Prelude.

Section Scatter.
  Context {A : Type}.
  Variable leb : A -> A -> bool.   (* the fan-in comparison: cmp(a,b) <= 0 *)

  (* Which leg gets the i-th partition is decided by the goroutine schedule:
     whichever leg calls Slicer.Pull (under its mutex) next.  An assignment
     [a : nat -> nat] records that decision; leg [j] scans, in order, the
     partitions [i] with [a i = j]. *)
  Fixpoint leg (a : nat -> nat) (j : nat) (parts : list (list A)) : list A :=
    match parts with
    | [] => []
    | p :: ps => (if Nat.eqb (a 0) j then p else []) ++ leg (fun i => a (S i)) j ps
    end.

  Definition hd_ok (x : A) (l : list A) : Prop :=
    match l with [] => True | y :: _ => leb x y = true end.

  (* merge.Op: repeatedly emit the head of a leg whose head is minimal among
     all heads (heap order; ties are broken arbitrarily). [L j] is what leg [j]
     still has to deliver. *)
  Inductive kmr (n : nat) : (nat -> list A) -> list A -> Prop :=
  | km_nil : forall L, (forall j, j < n -> L j = []) -> kmr n L []
  | km_pick : forall L L' i x rest out,
      i < n -> L i = x :: rest ->
      (forall j, j < n -> hd_ok x (L j)) ->
      (forall j, j < n -> L' j = if Nat.eqb j i then rest else L j) ->
      kmr n L' out -> kmr n L (x :: out).

  (* combine.Op: any interleaving of the legs. *)
  Inductive ilv (n : nat) : (nat -> list A) -> list A -> Prop :=
  | il_nil : forall L, (forall j, j < n -> L j = []) -> ilv n L []
  | il_pick : forall L L' i x rest out,
      i < n -> L i = x :: rest ->
      (forall j, j < n -> L' j = if Nat.eqb j i then rest else L j) ->
      ilv n L' out -> ilv n L (x :: out).

  (* Everything the legs hold, leg by leg. *)
  Definition all_of (n : nat) (L : nat -> list A) : list A := flat_map L (seq 0 n).

  (* Partitions are strictly ordered: every value of a later partition is
     strictly after every value of an earlier one. *)
  Fixpoint parts_ordered (parts : list (list A)) : Prop :=
    match parts with
    | [] => True
    | p :: ps => (forall x y, In x p -> In y (List.concat ps) -> leb y x = false) /\ parts_ordered ps
    end.

  Fixpoint sorted (l : list A) : Prop :=
    match l with
    | [] => True
    | x :: r => (forall y, In y r -> leb x y = true) /\ sorted r
    end.

  (* An executable instance of [kmr] (lowest index wins ties), used to run the
     model on the observed cases. *)
  Fixpoint minidx (legs : list (list A)) : option (nat * A) :=
    match legs with
    | [] => None
    | l :: ls =>
      match l, minidx ls with
      | [], None => None
      | [], Some (i, y) => Some (S i, y)
      | x :: _, None => Some (0, x)
      | x :: _, Some (i, y) => if leb x y then Some (0, x) else Some (S i, y)
      end
    end.

  Fixpoint upd (i : nat) (v : list A) (legs : list (list A)) : list (list A) :=
    match legs, i with
    | [], _ => []
    | _ :: ls, 0 => v :: ls
    | l :: ls, S i' => l :: upd i' v ls
    end.

  Fixpoint kmerge (fuel : nat) (legs : list (list A)) : list A :=
    match fuel with
    | 0 => []
    | S f =>
      match minidx legs with
      | None => []
      | Some (i, x) => x :: kmerge f (upd i (tl (nth i legs [])) legs)
      end
    end.

  Definition total_len (legs : list (list A)) : nat := List.length (List.concat legs).

  Definition legs_of (n : nat) (a : nat -> nat) (parts : list (list A)) : list (list A) :=
    map (fun j => leg a j parts) (seq 0 n).

  (* scatter n legs over the partitions, then merge *)
  Definition scatter_merge (n : nat) (a : nat -> nat) (parts : list (list A)) : list A :=
    kmerge (S (total_len parts)) (legs_of n a parts).
End Scatter.

(* ------------------------------------------------------------------ *)
(* Aggregation split into partials: an aggregate is a homomorphism into a
   commutative monoid (count, sum, min, max, union, and/or; avg as the pair
   (sum,count)).  Each leg computes the aggregate of what it scanned
   (partials-out), the tail combines the partials (partials-in). *)
Section Partials.
  Context {A M : Type}.
  Variable op : M -> M -> M.
  Variable e : M.
  Variable inj : A -> M.

  Definition agg (l : list A) : M := fold_right (fun x m => op (inj x) m) e l.
  Definition combine_partials (ms : list M) : M := fold_right op e ms.
End Partials.

(* ------------------------------------------------------------------ *)
(* Keys, the lake order, Lister and Slicer. *)

Inductive key := KInt (z : Z) | KStr (s : bytes) | KNull.

Definition keqb (a b : key) : bool :=
  match a, b with
  | KInt x, KInt y => Z.eqb x y
  | KStr x, KStr y => bytes_eqb x y
  | KNull, KNull => true
  | _, _ => false
  end.

(* expr.compareValues with nullsMax = true, missing as null:
   int64 < string (CompareTypes on primitive ids), null is the maximum. *)
Definition kle (a b : key) : bool :=
  match a, b with
  | _, KNull => true
  | KNull, _ => false
  | KInt x, KInt y => Z.leb x y
  | KStr x, KStr y => match bytes_cmp x y with Gt => false | _ => true end
  | KInt _, KStr _ => true
  | KStr _, KInt _ => false
  end.

Definition klt (a b : key) : bool := negb (kle b a).

(* Comparator.Compare swaps the operands for order.Desc *)
Definition dle (desc : bool) (a b : key) : bool := if desc then kle b a else kle a b.
Definition dlt (desc : bool) (a b : key) : bool := negb (dle desc b a).

(* A data object: (min, max, the keys of its values in stored order) *)
Definition obj := (key * key * list key)%type.
Definition omin (o : obj) : key := fst (fst o).
Definition omax (o : obj) : key := snd (fst o).
Definition okeys (o : obj) : list key := snd o.

(* meta.sortObjects lessFunc *)
Definition obj_less (desc : bool) (a b : obj) : bool :=
  let aFrom := if desc then omax a else omin a in
  let aTo := if desc then omin a else omax a in
  let bFrom := if desc then omax b else omin b in
  let bTo := if desc then omin b else omax b in
  if dlt desc aFrom bFrom then true
  else if negb (keqb aFrom bFrom) then false
  else if keqb aTo bTo then false
  else dlt desc aTo bTo.

(* the result of a stable sort by [obj_less]: no adjacent inversion *)
Fixpoint lister_sorted (desc : bool) (objs : list obj) : bool :=
  match objs with
  | a :: (b :: _) as r => negb (obj_less desc b a) && lister_sorted desc r
  | _ => true
  end.

(* meta.Slicer: stash / nextPartition.  [cur] is s.objects (reversed), [smin]
   and [smax] are s.min / s.max; the comparison is always the ascending one. *)
Fixpoint slice_go (objs : list obj) (cur : list obj) (smin smax : key) : list (list obj) :=
  match objs with
  | [] => match cur with [] => [] | _ => [rev cur] end
  | o :: r =>
    match cur with
    | [] => slice_go r [o] (omin o) (omax o)
    | _ =>
      if klt (omax o) smin || klt smax (omin o)
      then rev cur :: slice_go r [o] (omin o) (omax o)
      else slice_go r (o :: cur)
             (if klt (omin o) smin then omin o else smin)
             (if klt smax (omax o) then omax o else smax)
    end
  end.

Definition slice (objs : list obj) : list (list obj) := slice_go objs [] KNull KNull.

(* SequenceScanner / newObjectsScanner: the objects of one partition are merged
   on the pool key (ties are further ordered by the value bytes, which the key
   projection does not see). *)
Definition part_run (desc : bool) (p : list obj) : list key :=
  kmerge (dle desc) (S (total_len (map okeys p))) (map okeys p).

Definition runs_of (desc : bool) (objs : list obj) : list (list key) :=
  map (part_run desc) (slice objs).

(* `from p | yield key` at parallelism n under assignment a *)
Definition scan_par (desc : bool) (n : nat) (a : nat -> nat) (objs : list obj) : list key :=
  scatter_merge (dle desc) n a (runs_of desc objs).

(* `from p | count() by key`: per-leg partial counts, merged on the key,
   combined by the partials-in aggregation. *)
Fixpoint add_count (k : key) (c : nat) (rows : list (key * nat)) : list (key * nat) :=
  match rows with
  | [] => [(k, c)]
  | (k', c') :: r => if keqb k k' then (k', c' + c) :: r else (k', c') :: add_count k c r
  end.

Definition count_by (ks : list key) : list (key * nat) :=
  fold_left (fun rows k => add_count k 1 rows) ks [].

Definition row_le (desc : bool) (r1 r2 : key * nat) : bool := dle desc (fst r1) (fst r2).

Definition count_par (desc : bool) (n : nat) (a : nat -> nat) (objs : list obj) : list (key * nat) :=
  let partials := map count_by (legs_of n a (runs_of desc objs)) in
  let merged := kmerge (row_le desc) (S (total_len partials)) partials in
  fold_left (fun rows r => add_count (fst r) (snd r) rows) merged [].
