(* Correspondence cases for Queue.ReadHead on a journal whose HEAD file was put
   into a given state (absent / empty / stale digits / garbage):
   (head file, tail, last entry, observed result). *)
From ZV Require Import Base.Prelude Model.FilePut.

Definition head_case := (option bytes * N * N * option N)%type.

Definition opt_N_eqb (a b : option N) : bool :=
  match a, b with Some x, Some y => N.eqb x y | None, None => true | _, _ => false end.

Fixpoint head_mismatches (i : N) (l : list head_case) : list N :=
  match l with
  | [] => []
  | (h, tail, n, obs) :: r =>
    let f := match h with None => Absent | Some b => Content b end in
    let m := journal_read_head f tail (entries_between tail n) (N.to_nat (n + 2)) in
    if opt_N_eqb m obs then head_mismatches (N.succ i) r else i :: head_mismatches (N.succ i) r
  end.
