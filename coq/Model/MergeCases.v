(* Correspondence check for C15: merges and reverts observed on the real lake
   are replayed through the model of Patch/Diff/Revert. *)
From ZV Require Import Base.Prelude Model.Merge.

Definition subset (a b : list oid) : bool := forallb (fun x => mem x b) a.
Definition same_set (a b : list oid) : bool := subset a b && subset b a.

(* (base snapshot, parent log since base, child log since base, real merge succeeded?, parent's objects afterwards) *)
(* first component: is there a common ancestor commit?  buildMergeObject refuses
   to merge branches whose only common ancestor is the empty (nil) commit. *)
Definition merge_case := (bool * list oid * list action * list action * bool * list oid)%type.

Definition merge_ok (c : merge_case) : bool :=
  let '(hasbase, base, pacts, cacts, ok, result) := c in
  if negb hasbase then negb ok else
  match pplay (new_patch base) pacts, pplay (new_patch base) cacts with
  | Some P, Some C =>
    match diff P C with
    | Some acts =>
      match play (pview P) acts with
      | Some t => ok && same_set t result
      | None => false
      end
    | None => negb ok && same_set (pview P) result
    end
  | _, _ => negb ok
  end.

(* (snapshot before the target commit, the target commit's actions, branch tip, real revert succeeded?, tip afterwards) *)
Definition revert_case := (list oid * list action * list oid * bool * list oid)%type.

Definition revert_ok (c : revert_case) : bool :=
  let '(before, acts, tip, ok, result) := c in
  match pplay (new_patch before) acts with
  | Some P =>
    match revert P tip with
    | Some racts =>
      match play tip racts with
      | Some t => ok && same_set t result
      | None => false
      end
    | None => negb ok && same_set tip result
    end
  | None => negb ok
  end.

Fixpoint mismatches {A} (f : A -> bool) (i : N) (l : list A) : list N :=
  match l with
  | [] => []
  | x :: r => if f x then mismatches f (N.succ i) r else i :: mismatches f (N.succ i) r
  end.

Definition merge_mismatches (l : list merge_case) : list N := mismatches merge_ok 0 l.
Definition revert_mismatches (l : list revert_case) : list N := mismatches revert_ok 0 l.
