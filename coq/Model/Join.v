(* C10: executable model of the merge join of runtime/sam/op/join/join.go
   (Op.Pull / getJoinSet / readJoinSet) over inputs sorted by the join key, for
   records whose key is present (records with a missing key are outside the claim). *)
From ZV Require Import Base.Prelude Model.Agg.

Section Join.
  Variables K L R : Type.
  Variable kcmp : K -> K -> comparison.     (* Op.compare = expr.NewValueCompareFn(o, true) *)
  Variable lkey : L -> K.
  Variable rkey : R -> K.

  Definition keq (a b : K) : bool := match kcmp a b with Eq => true | _ => false end.

  (* getJoinSet: discard right records whose key is smaller than the left key *)
  Fixpoint drop_lt (k : K) (rs : list R) : list R :=
    match rs with
    | [] => []
    | r :: t => match kcmp k (rkey r) with Gt => drop_lt k t | _ => rs end
    end.

  (* readJoinSet: all following right records whose key equals the join key *)
  Fixpoint take_eq (jk : K) (rs : list R) : list R * list R :=
    match rs with
    | [] => ([], [])
    | r :: t => match kcmp (rkey r) jk with
                | Eq => let '(a, b) := take_eq jk t in (r :: a, b)
                | _ => ([], rs)
                end
    end.

  Definition cache : Type := option (K * list R).    (* o.joinKey, o.joinSet *)

  Definition join_set (k : K) (rs : list R) (c : cache) : list R * list R * cache :=
    let miss :=
        match drop_lt k rs with
        | [] => ([], [], c)
        | r :: t => match kcmp k (rkey r) with
                    | Eq => let '(js, rest) := take_eq k (r :: t) in (js, rest, Some (k, js))
                    | _ => ([], r :: t, c)
                    end
        end in
    match c with
    | Some (jk, js) => if keq k jk then (js, rs, c) else miss
    | None => miss
    end.

  (* "right" is "left" with the inputs swapped by the kernel (compiler/kernel/op.go) *)
  Inductive jkind := JInner | JLeft | JAnti.

  Definition emit (kd : jkind) (l : L) (js : list R) : list (L * option R) :=
    match kd, js with
    | JAnti, [] => [(l, None)]
    | JAnti, _ => []
    | JLeft, [] => [(l, None)]
    | JInner, [] => []
    | _, _ => map (fun r => (l, Some r)) js
    end.

  Fixpoint walk (kd : jkind) (ls : list L) (rs : list R) (c : cache) : list (L * option R) :=
    match ls with
    | [] => []
    | l :: t => let '(js, rs', c') := join_set (lkey l) rs c in
                emit kd l js ++ walk kd t rs' c'
    end.

  (* specification: nested loop *)
  Definition matches (k : K) (rs : list R) : list R := filter (fun r => keq k (rkey r)) rs.

  Definition nested (kd : jkind) (ls : list L) (rs : list R) : list (L * option R) :=
    flat_map (fun l => emit kd l (matches (lkey l) rs)) ls.

  (* the sort operators join.New inserts in front of unsorted inputs (stable) *)
  Fixpoint insk {A} (key : A -> K) (x : A) (l : list A) : list A :=
    match l with
    | [] => [x]
    | y :: t => match kcmp (key x) (key y) with Gt => y :: insk key x t | _ => x :: y :: t end
    end.
  Definition sortk {A} (key : A -> K) (l : list A) : list A := fold_right (insk key) [] l.

  Definition join_model (kd : jkind) (ls : list L) (rs : list R) : list (L * option R) :=
    walk kd (sortk lkey ls) (sortk rkey rs) None.
End Join.

Arguments keq {K}. Arguments drop_lt {K R}. Arguments take_eq {K R}. Arguments join_set {K R}.
Arguments emit {L R}. Arguments walk {K L R}. Arguments matches {K R}. Arguments nested {K L R}.
Arguments insk {K} kcmp {A}. Arguments sortk {K} kcmp {A}. Arguments join_model {K L R}.

(* concrete records: a key atom (not missing) and an identifier *)
Definition jrec : Type := atom * N.
Definition join_atoms (kd : jkind) (ls rs : list jrec) : list (jrec * option jrec) :=
  join_model atom_cmp fst fst kd ls rs.
Definition nested_atoms (kd : jkind) (ls rs : list jrec) : list (jrec * option jrec) :=
  nested atom_cmp fst fst kd ls rs.

(* Descending mode as the code has it (open finding): the merge walk compares
   with the reverse of the ascending order (nulls first), while the sort that
   join.New inserts in front of an undeclared input places nulls last. *)
Definition atom_cmp_desc (a b : atom) : comparison := atom_cmp b a.

Definition atom_cmp_desc_nulls_last (a b : atom) : comparison :=
  match atom_rank a, atom_rank b with
  | 2%N, 2%N => Eq
  | 2%N, _ => Gt
  | _, 2%N => Lt
  | _, _ => atom_cmp b a
  end.

(* left input undeclared (sorted by the inserted sort), right input declared
   descending and given in the lake's descending order *)
Definition join_desc_left_inserted (kd : jkind) (ls rs : list jrec) : list (jrec * option jrec) :=
  walk atom_cmp_desc fst fst kd (sortk atom_cmp_desc_nulls_last fst ls) rs None.
