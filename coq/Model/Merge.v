(* Model of commit patches, merge and revert at the object-set level (C15).
   Mirrors lake/commits/patch.go (Patch.AddDataObject/DeleteObject/
   NewCommitObject/Revert, Diff), lake/commits/snapshot.go (PlayAction on a
   Snapshot) and lake/branch.go (buildMergeObject, Revert).  Definitions only. *)
From ZV Require Import Base.Prelude.

Definition oid := nat.
Definition snap := list oid.                       (* a set of object ids *)

Definition mem (x : oid) (s : list oid) : bool := existsb (Nat.eqb x) s.
Definition remove1 (x : oid) (s : list oid) : list oid := filter (fun y => negb (Nat.eqb y x)) s.

Inductive action := AAdd (i : oid) | ADel (i : oid).

(* Snapshot.AddDataObject / DeleteObject via PlayAction *)
Definition play1 (s : snap) (a : action) : option snap :=
  match a with
  | AAdd i => if mem i s then None else Some (s ++ [i])
  | ADel i => if mem i s then Some (remove1 i s) else None
  end.

Fixpoint play (s : snap) (acts : list action) : option snap :=
  match acts with
  | [] => Some s
  | a :: r => match play1 s a with Some s' => play s' r | None => None end
  end.

(* A patch over a base snapshot. *)
Record patch := { pbase : snap; pdiff : list oid; pdel : list oid }.

Definition new_patch (b : snap) : patch := {| pbase := b; pdiff := []; pdel := [] |}.

(* Exists(patch, id): Patch.Lookup consults diff then base; the patch's own
   deletions are NOT consulted. *)
Definition pexists (p : patch) (i : oid) : bool := mem i (pdiff p) || mem i (pbase p).

Definition padd (p : patch) (i : oid) : option patch :=
  if mem i (pbase p) then None
  else if mem i (pdiff p) then None
  else Some {| pbase := pbase p; pdiff := pdiff p ++ [i]; pdel := pdel p |}.

Definition pdelete (p : patch) (i : oid) : option patch :=
  if mem i (pdiff p) then Some {| pbase := pbase p; pdiff := remove1 i (pdiff p); pdel := pdel p |}
  else if negb (mem i (pbase p)) then None
  else Some {| pbase := pbase p; pdiff := pdiff p; pdel := pdel p ++ [i] |}.

Definition pplay1 (p : patch) (a : action) : option patch :=
  match a with AAdd i => padd p i | ADel i => pdelete p i end.

Fixpoint pplay (p : patch) (acts : list action) : option patch :=
  match acts with
  | [] => Some p
  | a :: r => match pplay1 p a with Some p' => pplay p' r | None => None end
  end.

(* what the patched view holds *)
Definition pview (p : patch) : snap :=
  filter (fun x => negb (mem x (pdel p))) (pbase p) ++ pdiff p.

(* Patch.NewCommitObject: deletes first, then adds *)
Definition commit_actions (p : patch) : list action := map ADel (pdel p) ++ map AAdd (pdiff p).

(* commits.Diff(parent, child): the patch (over the parent's view) that brings
   the child's changes since the common base into the parent; None = conflict
   or empty difference. *)
Fixpoint diff_adds (parent child : patch) (cands : list oid) (acc : list oid) : option (list oid) :=
  match cands with
  | [] => Some acc
  | o :: r =>
    if pexists parent o then diff_adds parent child r acc
    else if mem o (pdel child) then None          (* parent deletes object that child adds *)
    else if mem o acc then None                   (* AddDataObject: already in diff *)
    else diff_adds parent child r (acc ++ [o])
  end.

Fixpoint diff_dels (parent : patch) (ids : list oid) (acc : list oid) : option (list oid) :=
  match ids with
  | [] => Some acc
  | i :: r =>
    if pexists parent i && negb (mem i (pdel parent)) then diff_dels parent r (acc ++ [i])
    else None                                     (* delete conflict *)
  end.

Definition diff (parent child : patch) : option (list action) :=
  match diff_adds parent child (pbase child ++ pdiff child) [] with
  | None => None
  | Some adds =>
    match diff_dels parent (pdel child) [] with
    | None => None
    | Some dels =>
      match adds, dels with
      | [], [] => None                            (* difference is empty *)
      | _, _ => Some (map ADel dels ++ map AAdd adds)
      end
    end
  end.

(* Patch.Revert(tip): for each object the patch added that the tip still has, a
   delete; for each object the patch deleted that the tip lacks, an add. *)
Definition revert (p : patch) (tip : snap) : option (list action) :=
  let dels := filter (fun x => mem x tip) (pdiff p) in
  let adds := filter (fun x => negb (mem x tip)) (pdel p) in
  match dels, adds with
  | [], [] => None                                (* revert commit is empty *)
  | _, _ => Some (map ADel dels ++ map AAdd adds)
  end.

Fixpoint nodup (l : list oid) : bool :=
  match l with [] => true | x :: r => negb (mem x r) && nodup r end.

(* well-formed patch: what playing a valid action sequence over a duplicate-free base yields *)
Definition wf_patch (p : patch) : bool :=
  nodup (pbase p) && nodup (pdiff p) && nodup (pdel p)
  && forallb (fun x => negb (mem x (pbase p))) (pdiff p)
  && forallb (fun x => mem x (pbase p)) (pdel p).
