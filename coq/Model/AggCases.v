(* Correspondence check for C10 (group-by): the harness lists, per case, the
   table limit, the input records and the rows the real operator produced; the
   functions below return the indices of the cases where the model differs. *)
From ZV Require Import Base.Prelude Model.Agg.

(* observed aggregates of one output row, taken from the operator run with
   PartialsOut (ResultAsPartial of every aggregate, which is Result for all of
   them except avg): count(), sum(a), min(a), max(a), avg(a) as {sum,count},
   and(b), or(b) *)
Definition obs : Type := N * zres * zres * zres * Z * N * bres * bres.
Definition gb_case : Type := N * list rec_in * list (key * obs).

Definition st_obs (s : st) : obs := (cnt s, sm s, mn s, mx s, avs s, avc s, band s, bor s).

Definition bres_eqb (a b : bres) : bool :=
  match a, b with None, None => true | Some x, Some y => Bool.eqb x y | _, _ => false end.

Definition obs_eqb (a b : obs) : bool :=
  let '(c1, s1, n1, x1, v1, a1, d1, o1) := a in
  let '(c2, s2, n2, x2, v2, a2, d2, o2) := b in
  N.eqb c1 c2 && zres_eqb s1 s2 && zres_eqb n1 n2 && zres_eqb x1 x2 && Z.eqb v1 v2 && N.eqb a1 a2
  && bres_eqb d1 d2 && bres_eqb o1 o2.

Fixpoint remove1 {A} (eqb : A -> A -> bool) (x : A) (l : list A) : option (list A) :=
  match l with
  | [] => None
  | y :: r => if eqb x y then Some r
              else match remove1 eqb x r with Some r' => Some (y :: r') | None => None end
  end.

Fixpoint mset_eqb {A} (eqb : A -> A -> bool) (l1 l2 : list A) : bool :=
  match l1 with
  | [] => match l2 with [] => true | _ => false end
  | x :: t => match remove1 eqb x l2 with Some l2' => mset_eqb eqb t l2' | None => false end
  end.

(* avg's running sum must agree with sum(a) *)
Definition avs_consistent (s : st) : bool :=
  match sm s with RVal v => Z.eqb (avs s) v | _ => Z.eqb (avs s) 0 end.

(* Keys must be identical: the spill comparator separates distinct keys. *)
Definition gb_ok (c : gb_case) : bool :=
  let '(limit, input, observed) := c in
  let model := groupby_model limit input in
  forallb (fun '(_, s) => avs_consistent s) model
  && mset_eqb (fun '(k1, o1) '(k2, o2) => key_eqb k1 k2 && obs_eqb o1 o2)
              (map (fun '(k, s) => (k, st_obs s)) model) observed.

Fixpoint mism10 {A} (ok : A -> bool) (i : N) (l : list A) : list N :=
  match l with
  | [] => []
  | x :: r => if ok x then mism10 ok (N.succ i) r else i :: mism10 ok (N.succ i) r
  end.

Definition gb_mismatches (l : list gb_case) : list N := mism10 gb_ok 0 l.

(* the naive evaluation computed inside Coq must also agree with what the real
   operator produced *)
Definition gb_spec_ok (c : gb_case) : bool :=
  let '(limit, input, observed) := c in
  mset_eqb (fun '(k1, o1) '(k2, o2) => key_eqb k1 k2 && obs_eqb o1 o2)
           (map (fun '(k, s) => (k, st_obs s)) (naive_groupby input)) observed.

Definition gb_spec_mismatches (l : list gb_case) : list N := mism10 gb_spec_ok 0 l.
