(* C02: the decorator logic of the ZSON formatter and analyzer at parse-tree
   level, for the fragment  primitive | record | array | named type | null.

   fmt  mirrors zson.Formatter: formatValueAndDecorate / formatValue /
        formatRecord / formatVector / decorate / formatType / hasName / nameOf /
        saveType (typedefs, permanent, persist), Implied, SelfDescribing;
   conv mirrors zson.Analyzer: convertValue / convertAny / convertPrimitive /
        castType / convertRecord / convertArray / normalizeElems / convertType /
        enterTypeDef.
   The text level (lexer, recursive-descent parser, strconv/time/netip token
   spelling) is not modelled: a primitive value carries its token text and the
   primitive type the parser assigns to that token ([cls]).
   Definitions only; the code is mirrored as it is. *)
From ZV Require Import Base.Prelude Model.Escape.
Local Open Scope N_scope.

Definition name := list N.
Definition name_eqb : name -> name -> bool := list_eqb N.eqb.

Inductive ty :=
| TPrim (p : N)                      (* zed primitive type ID *)
| TRec (fs : list (name * ty))
| TArr (t : ty)
| TNamed (n : name) (t : ty).

Inductive val :=
| VNull
| VPrim (cls : N) (tok : list N)     (* token text and the type the parser gives it *)
| VRec (vs : list val)
| VArr (vs : list val).

Definition ID_NULL : N := 29.

Fixpoint ty_eqb (a b : ty) {struct a} : bool :=
  match a, b with
  | TPrim p, TPrim q => p =? q
  | TRec fs, TRec gs =>
    (fix go (fs gs : list (name * ty)) : bool :=
       match fs, gs with
       | [], [] => true
       | (n, t) :: fr, (m, u) :: gr => name_eqb n m && ty_eqb t u && go fr gr
       | _, _ => false
       end) fs gs
  | TArr t, TArr u => ty_eqb t u
  | TNamed n t, TNamed m u => name_eqb n m && ty_eqb t u
  | _, _ => false
  end.

Fixpoint val_eqb (a b : val) {struct a} : bool :=
  match a, b with
  | VNull, VNull => true
  | VPrim c t, VPrim d u => (c =? d) && list_eqb N.eqb t u
  | VRec xs, VRec ys | VArr xs, VArr ys =>
    (fix go (xs ys : list val) : bool :=
       match xs, ys with
       | [], [] => true
       | x :: xr, y :: yr => val_eqb x y && go xr yr
       | _, _ => false
       end) xs ys
  | _, _ => false
  end.

(* zson.Implied on primitive IDs: int64 duration time float64 bool bytes string ip net type null *)
Definition implied_prim (p : N) : bool :=
  existsb (N.eqb p) [9; 12; 13; 16; 23; 24; 25; 26; 27; 28; 29].

Fixpoint implied (t : ty) : bool :=
  match t with
  | TPrim p => implied_prim p
  | TRec fs => (fix go (fs : list (name * ty)) : bool :=
                  match fs with [] => true | (_, ft) :: fr => implied ft && go fr end) fs
  | TArr u => implied u
  | TNamed _ _ => false
  end.

Fixpoint selfdesc (t : ty) : bool :=
  implied t ||
  match t with
  | TRec _ | TArr _ => true
  | TNamed _ (TNamed _ _) => false     (* the inner name does not appear in the value *)
  | TNamed _ u => selfdesc u
  | TPrim _ => false
  end.

Fixpoint under (t : ty) : ty :=
  match t with TNamed _ u => under u | _ => t end.

(* ---------------------------------------------------------------- formatter *)

Inductive persist := PNone | PAll | PList (l : list name).

Definition persist_enabled (P : persist) : bool := match P with PNone => false | _ => true end.
Definition persist_match (P : persist) (n : name) : bool :=
  match P with PNone => false | PAll => true | PList l => existsb (name_eqb n) l end.

Record fstate := mkF { tdefs : list (name * ty); perm : list (name * ty) }.
Definition fstate0 : fstate := mkF [] [].

Fixpoint assoc (n : name) (l : list (name * ty)) : option ty :=
  match l with
  | [] => None
  | (m, t) :: r => if name_eqb n m then Some t else assoc n r
  end.

Definition is_some {A} (o : option A) : bool := match o with Some _ => true | None => false end.

Definition bound_to (n : name) (t : ty) (l : list (name * ty)) : bool :=
  match assoc n l with Some u => ty_eqb t u | None => false end.

(* Formatter.nameOf: name bound to exactly this type *)
Definition name_of (P : persist) (st : fstate) (t : ty) : option name :=
  match t with
  | TNamed n _ =>
    if bound_to n t (tdefs st) then Some n
    else if persist_enabled P && bound_to n t (perm st) then Some n
    else None
  | _ => None
  end.

(* Formatter.hasName: the name is bound to exactly this type *)
Definition has_name (P : persist) (st : fstate) (t : ty) : bool := is_some (name_of P st t).

Definition save_type (P : persist) (st : fstate) (n : name) (t : ty) : fstate :=
  mkF ((n, t) :: tdefs st)
      (if persist_enabled P && persist_match P n then (n, t) :: perm st else perm st).

Inductive tyast :=
| YPrim (p : N)
| YName (n : name)
| YDef (n : name) (y : tyast)
| YRec (fs : list (name * tyast))
| YArr (y : tyast).

(* Formatter.formatType / formatTypeBody *)
Fixpoint fmt_type (P : persist) (st : fstate) (t : ty) {struct t} : tyast * fstate :=
  match name_of P st t with
  | Some n => (YName n, st)
  | None =>
    match t with
    | TNamed n u =>
      let '(y, st2) := fmt_type P (save_type P st n t) u in (YDef n y, st2)
    | TPrim p => (YPrim p, st)
    | TRec fs =>
      let '(ys, st') :=
        (fix go (fs : list (name * ty)) (st : fstate) : list (name * tyast) * fstate :=
           match fs with
           | [] => ([], st)
           | (n, ft) :: fr =>
             let '(y, st1) := fmt_type P st ft in
             let '(ys, st2) := go fr st1 in ((n, y) :: ys, st2)
           end) fs st in
      (YRec ys, st')
    | TArr u => let '(y, st1) := fmt_type P st u in (YArr y, st1)
    end
  end.

Inductive zany :=
| APrim (cls : N) (tok : list N)
| ARec (fs : list (name * zval))
| AArr (es : list zval)
with zval :=
| ZImplied (a : zany)
| ZDef (a : zany) (n : name)      (* value (=name) *)
| ZDefNil (n : name)              (* a (=name) that is not the first decorator: the parser drops the value *)
| ZCast (of : zval) (y : tyast).  (* value (type) *)

Inductive deco := DNone | DDef (n : name) | DCast (y : tyast).

(* Formatter.decorate *)
Definition decorate (P : persist) (st : fstate) (t : ty) (known null : bool) : deco * fstate :=
  if known || (negb (null && negb (ty_eqb t (TPrim ID_NULL))) && implied t) then (DNone, st)
  else
    match name_of P st t with
    | Some n => (DCast (YName n), st)
    | None =>
      if selfdesc t && negb null then
        match t with
        | TNamed n _ => (DDef n, save_type P st n t)
        | _ => (DNone, st)
        end
      else let '(y, st') := fmt_type P st t in (DCast y, st')
    end.

(* what the parser builds from  value decorator  (Parser.decorate / parseDecorator) *)
Definition wrap (z : zval) (d : deco) : zval :=
  match d with
  | DNone => z
  | DDef n => match z with ZImplied a => ZDef a n | _ => ZDefNil n end
  | DCast y => ZCast z y
  end.

Definition null_tok : list N := [110; 117; 108; 108].
Definition znull : zval := ZImplied (APrim ID_NULL null_tok).

(* Formatter.formatValue (formatRecord, formatVector inlined) *)
Fixpoint fv (P : persist) (st : fstate) (t : ty) (v : val) (pk pi dec : bool) {struct t}
  : zval * bool * fstate :=
  let known := pk || has_name P st t in
  match v with
  | VNull =>
    let pk' := if pi then false else pk in
    if dec then let '(d, st1) := decorate P st t pk' true in (wrap znull d, true, st1)
    else (znull, true, st)
  | _ =>
    let '(z, isnull, st1) :=
      match t with
      | TPrim _ =>
        match v with
        | VPrim cls tok => (ZImplied (APrim cls tok), false, st)
        | _ => (znull, false, st)
        end
      | TNamed _ u => fv P st u v known pi false
      | TRec fs =>
        match v with
        | VRec vs =>
          let '(zs, st1) :=
            (fix go (fs : list (name * ty)) (vs : list val) (st : fstate)
               : list (name * zval) * fstate :=
               match fs, vs with
               | (n, ft) :: fr, x :: xr =>
                 let '(z, _, st1) := fv P st ft x known pi true in
                 let '(zs, st2) := go fr xr st1 in ((n, z) :: zs, st2)
               | _, _ => ([], st)
               end) fs vs st in
          (ZImplied (ARec zs), false, st1)
        | _ => (znull, false, st)
        end
      | TArr u =>
        match v with
        | VArr [] => (ZImplied (AArr []), true, st)
        | VArr vs =>
          let '(zs, st1) :=
            (fix go (vs : list val) (st : fstate) : list zval * fstate :=
               match vs with
               | [] => ([], st)
               | x :: xr =>
                 let '(z, _, st1) := fv P st u x known pi true in
                 let '(zs, st2) := go xr st1 in (z :: zs, st2)
               end) vs st in
          (ZImplied (AArr zs), false, st1)
        | _ => (znull, false, st)
        end
      end in
    if dec then let '(d, st2) := decorate P st1 t pk isnull in (wrap z d, isnull, st2)
    else (z, isnull, st1)
  end.

Definition is_null (v : val) : bool := match v with VNull => true | _ => false end.

(* emptyImpliesType: [] without a decorator is parsed as [null] *)
Definition empty_implies (t : ty) : bool :=
  match t with TArr u => ty_eqb u (TPrim ID_NULL) | _ => false end.

(* Formatter.formatValueAndDecorate *)
Definition fmt_top (P : persist) (st : fstate) (t : ty) (v : val) : zval * fstate :=
  let known := has_name P st t in
  let '(z, null, st1) := fv P st t v known (implied t) false in
  let null' := if negb (is_null v) && empty_implies t then false else null in
  let '(d, st2) := decorate P st1 t false null' in
  (wrap z d, st2).

(* a stream: Format keeps typedefs, FormatRecord ([reset]) clears them per value *)
Fixpoint fmt_stream (P : persist) (reset : bool) (st : fstate) (l : list (ty * val)) : list zval :=
  match l with
  | [] => []
  | (t, v) :: r =>
    let st0 := if reset then mkF [] (perm st) else st in
    let '(z, st1) := fmt_top P st0 t v in
    z :: fmt_stream P reset st1 r
  end.

(* ---------------------------------------------------------------- renderer (pretty = 0) *)

Fixpoint join (sep : str) (l : list str) : str :=
  match l with
  | [] => []
  | [x] => x
  | x :: r => x ++ sep ++ join sep r
  end.

Fixpoint s2l (s : string) : str :=
  match s with EmptyString => [] | String c r => N_of_ascii c :: s2l r end.

Definition prim_name (p : N) : str :=
  s2l (match p with
       | 0 => "uint8" | 1 => "uint16" | 2 => "uint32" | 3 => "uint64" | 4 => "uint128" | 5 => "uint256"
       | 6 => "int8" | 7 => "int16" | 8 => "int32" | 9 => "int64" | 10 => "int128" | 11 => "int256"
       | 12 => "duration" | 13 => "time" | 14 => "float16" | 15 => "float32" | 16 => "float64"
       | 17 => "float128" | 18 => "float256" | 19 => "decimal32" | 20 => "decimal64"
       | 21 => "decimal128" | 22 => "decimal256" | 23 => "bool" | 24 => "bytes" | 25 => "string"
       | 26 => "ip" | 27 => "net" | 28 => "type" | 29 => "null" | _ => "?"
       end)%string.

Fixpoint render_ty (y : tyast) : str :=
  match y with
  | YPrim p => prim_name p
  | YName n => n
  | YDef n y' => n ++ [61] ++ render_ty y'
  | YRec fs => [123] ++ join [44] (map (fun '(n, fy) => quoted_name ascii_letter n ++ [58] ++ render_ty fy) fs) ++ [125]
  | YArr y' => [91] ++ render_ty y' ++ [93]
  end.

Fixpoint render_any (a : zany) : str :=
  match a with
  | APrim _ tok => tok
  | ARec fs => [123] ++ join [44] (map (fun '(n, z) => quoted_name ascii_letter n ++ [58] ++ render_val z) fs) ++ [125]
  | AArr es => [91] ++ join [44] (map render_val es) ++ [93]
  end
with render_val (z : zval) : str :=
  match z with
  | ZImplied a => render_any a
  | ZDef a n => render_any a ++ [40; 61] ++ n ++ [41]
  | ZDefNil n => [40; 61] ++ n ++ [41]
  | ZCast of y => render_val of ++ [40] ++ render_ty y ++ [41]
  end.

(* ---------------------------------------------------------------- analyzer *)

Definition astate := list (name * ty).

(* analyzer.go isNumeric: every rune is a digit (true of the empty name) *)
Definition numeric (n : name) : bool := forallb digit n.

Definition is_int (p : N) : bool := p <=? 11.
Definition is_float (p : N) : bool := (14 <=? p) && (p <=? 18).

(* analyzer.go castType, on the primitive the token has and the cast type *)
Definition cast_ok (cls : N) (c : ty) : bool :=
  (cls =? ID_NULL) ||
  match under c with
  | TPrim q => (cls =? q) || (is_int cls && (is_int q || is_float q)) || (is_float cls && is_float q)
  | _ => false
  end.

Fixpoint conv_type (a : astate) (y : tyast) {struct y} : option (ty * astate) :=
  match y with
  | YPrim p => Some (TPrim p, a)
  | YName n => match assoc n a with Some t => Some (t, a) | None => None end
  | YDef n y' =>
    match conv_type a y' with
    | Some (t, a1) => let t' := if numeric n then t else TNamed n t in Some (t', (n, t') :: a1)
    | None => None
    end
  | YRec fs =>
    match (fix go (fs : list (name * tyast)) (a : astate) : option (list (name * ty) * astate) :=
             match fs with
             | [] => Some ([], a)
             | (n, fy) :: fr =>
               match conv_type a fy with
               | Some (t, a1) =>
                 match go fr a1 with Some (ts, a2) => Some ((n, t) :: ts, a2) | None => None end
               | None => None
               end
             end) fs a with
    | Some (ts, a') => Some (TRec ts, a')
    | None => None
    end
  | YArr y' =>
    match conv_type a y' with Some (t, a1) => Some (TArr t, a1) | None => None end
  end.

(* normalizeElems restricted to the fragment: all non-null element types equal *)
Fixpoint elem_type (ts : list ty) : option ty :=
  match ts with
  | [] => Some (TPrim ID_NULL)
  | t :: r =>
    match elem_type r with
    | None => None
    | Some u =>
      if ty_eqb t (TPrim ID_NULL) then Some u
      else if ty_eqb u (TPrim ID_NULL) then Some t
      else if ty_eqb t u then Some t
      else None                              (* a union: outside the fragment *)
    end
  end.

(* convertValue, DefValue: the enclosing decorator already gave the value the
   named type of this name *)
Definition restates (parent : option ty) (t : ty) (n : name) : bool :=
  match parent, t with
  | Some p, TNamed m _ => ty_eqb p t && name_eqb m n
  | _, _ => false
  end.

Definition type_check (cast : ty) (parent : option ty) : bool :=
  match parent with None => true | Some p => ty_eqb cast p end.

Fixpoint conv_val (a : astate) (z : zval) (parent : option ty) {struct z}
  : option (ty * val * astate) :=
  match z with
  | ZImplied x => conv_any a x parent
  | ZDef x n =>
    match conv_any a x parent with
    | Some (t, v, a1) =>
      if restates parent t n then Some (t, v, (n, t) :: a1)
      else let t' := if numeric n then t else TNamed n t in Some (t', v, (n, t') :: a1)
    | None => None
    end
  | ZDefNil _ => None
  | ZCast of y =>
    let pre :=
      match of with
      | ZDef _ _ => match conv_val a of None with Some (_, _, a1) => Some a1 | None => None end
      | ZCast _ y' => match conv_type a y' with Some (_, a1) => Some a1 | None => None end
      | _ => Some a
      end in
    match pre with
    | None => None
    | Some a1 =>
      match conv_type a1 y with
      | None => None
      | Some (cast, a2) =>
        if type_check cast parent then conv_val a2 of (Some cast) else None
      end
    end
  end
with conv_any (a : astate) (x : zany) (cast : option ty) {struct x}
  : option (ty * val * astate) :=
  match x with
  | APrim cls tok =>
    let v := if cls =? ID_NULL then VNull else VPrim cls tok in
    match cast with
    | None => Some (TPrim cls, v, a)
    | Some c => if cast_ok cls c then Some (c, v, a) else None
    end
  | ARec fs =>
    match cast with
    | Some c =>
      match under c with
      | TRec tfs =>
        if Nat.eqb (List.length tfs) (List.length fs) then
          match (fix go (fs : list (name * zval)) (tfs : list (name * ty)) (a : astate)
                   : option (list val * astate) :=
                   match fs, tfs with
                   | (_, z) :: fr, (_, ft) :: tr =>
                     match conv_val a z (Some ft) with
                     | Some (_, v, a1) =>
                       match go fr tr a1 with Some (vs, a2) => Some (v :: vs, a2) | None => None end
                     | None => None
                     end
                   | _, _ => Some ([], a)
                   end) fs tfs a with
          | Some (vs, a') => Some (c, VRec vs, a')
          | None => None
          end
        else None
      | _ => None
      end
    | None =>
      match (fix go (fs : list (name * zval)) (a : astate)
               : option (list (name * ty) * list val * astate) :=
               match fs with
               | [] => Some ([], [], a)
               | (n, z) :: fr =>
                 match conv_val a z None with
                 | Some (t, v, a1) =>
                   match go fr a1 with
                   | Some (ts, vs, a2) => Some ((n, t) :: ts, v :: vs, a2)
                   | None => None
                   end
                 | None => None
                 end
               end) fs a with
      | Some (ts, vs, a') => Some (TRec ts, VRec vs, a')
      | None => None
      end
    end
  | AArr es =>
    let ep :=
      match cast with
      | None => Some None
      | Some c => match under c with TArr u => Some (Some u) | _ => None end
      end in
    match ep with
    | None => None
    | Some ep =>
      match (fix go (es : list zval) (a : astate) : option (list ty * list val * astate) :=
               match es with
               | [] => Some ([], [], a)
               | z :: er =>
                 match conv_val a z ep with
                 | Some (t, v, a1) =>
                   match go er a1 with
                   | Some (ts, vs, a2) => Some (t :: ts, v :: vs, a2)
                   | None => None
                   end
                 | None => None
                 end
               end) es a with
      | None => None
      | Some (ts, vs, a') =>
        match cast with
        | Some c => Some (c, VArr vs, a')
        | None =>
          match elem_type ts with
          | Some u => Some (TArr u, VArr vs, a')
          | None => None
          end
        end
      end
    end
  end.

(* zsonio.Reader: one analyzer for the whole stream *)
Fixpoint conv_stream (a : astate) (zs : list zval) : list (option (ty * val)) :=
  match zs with
  | [] => []
  | z :: r =>
    match conv_val a z None with
    | Some (t, v, a1) => Some (t, v) :: conv_stream a1 r
    | None => None :: map (fun _ => None) r   (* the reader stops at the first error *)
    end
  end.
