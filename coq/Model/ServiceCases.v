(* Correspondence check for C19: frame sequences of real query responses are
   fed to the model client; it must deliver what the real client library
   (queryio scanner) delivered from the same bytes. *)
From ZV Require Import Base.Prelude Model.Service.

Definition opt_eqb (a b : option nat) : bool :=
  match a, b with
  | None, None => true
  | Some _, Some _ => true      (* error texts are not compared, only presence *)
  | _, _ => false
  end.

Definition stream_case := (list frame * list nat * option nat)%type.

Definition stream_ok (c : stream_case) : bool :=
  let '(fs, vals, err) := c in
  let '(v, e) := client fs in
  list_eqb Nat.eqb v vals && opt_eqb e err.

Fixpoint smis (i : N) (l : list stream_case) : list N :=
  match l with
  | [] => []
  | c :: r => if stream_ok c then smis (N.succ i) r else i :: smis (N.succ i) r
  end.
Definition stream_mismatches (l : list stream_case) : list N := smis 0 l.
