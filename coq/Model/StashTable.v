(* Tie T for C08/C14: the language into which go2coq translates the three
   decisions of meta.Slicer.stash (runtime/sam/op/meta/slicer.go) -- when the
   accumulated partition is closed, when the running minimum is replaced, when
   the running maximum is replaced -- and the Slicer loop over them.
   Gen/SlicerGen.v (regenerated from the Go source on every run) defines the
   three conditions; Proofs/SlicerGenProofs.v proves that the loop over the
   translated conditions is the hand-written [slice] of Model/Par.v. *)
From ZV Require Import Base.Prelude Model.Par.

Inductive st_operand := OpOMin | OpOMax | OpSMin | OpSMax.   (* o.Min, o.Max, *s.min, *s.max *)

Inductive st_cond :=
| SCmpLt (a b : st_operand)      (* s.cmp(a, b) < 0 *)
| SCmpGt (a b : st_operand)      (* s.cmp(a, b) > 0 *)
| SIsNil (a : st_operand)        (* s.min == nil / s.max == nil *)
| SOr (a b : st_cond)
| SAnd (a b : st_cond)
| SNot (a : st_cond).

(* a nil running bound read through the pointer would panic in Go; the loop
   below only evaluates the flush condition when both are set *)
Definition st_val (o : obj) (smin smax : option key) (x : st_operand) : key :=
  match x with
  | OpOMin => omin o
  | OpOMax => omax o
  | OpSMin => match smin with Some k => k | None => KNull end
  | OpSMax => match smax with Some k => k | None => KNull end
  end.

Fixpoint st_cond_val (o : obj) (smin smax : option key) (c : st_cond) : bool :=
  match c with
  | SCmpLt a b => klt (st_val o smin smax a) (st_val o smin smax b)
  | SCmpGt a b => klt (st_val o smin smax b) (st_val o smin smax a)
  | SIsNil a =>
    match a with
    | OpSMin => match smin with None => true | Some _ => false end
    | OpSMax => match smax with None => true | Some _ => false end
    | _ => false
    end
  | SOr a b => st_cond_val o smin smax a || st_cond_val o smin smax b
  | SAnd a b => st_cond_val o smin smax a && st_cond_val o smin smax b
  | SNot a => negb (st_cond_val o smin smax a)
  end.

(* Slicer.Pull / stash / nextPartition with the three conditions as parameters:
     if len(s.objects) > 0 && <flush> { emit s.objects; s.min, s.max = nil, nil }
     s.objects = append(s.objects, o)
     if <newmin> { s.min = o.Min };  if <newmax> { s.max = o.Max } *)
Fixpoint slice_tbl (flush newmin newmax : st_cond) (objs : list obj) (cur : list obj)
         (smin smax : option key) : list (list obj) :=
  match objs with
  | [] => match cur with [] => [] | _ => [rev cur] end
  | o :: r =>
    let fl := match cur with [] => false | _ => st_cond_val o smin smax flush end in
    let cur1 := if fl then [] else cur in
    let smin1 := if fl then None else smin in
    let smax1 := if fl then None else smax in
    let smin2 := if st_cond_val o smin1 smax1 newmin then Some (omin o) else smin1 in
    let smax2 := if st_cond_val o smin1 smax1 newmax then Some (omax o) else smax1 in
    let rest := slice_tbl flush newmin newmax r (o :: cur1) smin2 smax2 in
    if fl then rev cur :: rest else rest
  end.
