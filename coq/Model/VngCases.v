(* Correspondence check for C03: the harness lists what the real writer put
   into the object's metadata / segments and what the two real readers
   returned; these functions return the indices where the model differs. *)
From ZV Require Import Base.Prelude Model.Vng.
Local Open Scope N_scope.

Fixpoint mism {A} (ok : A -> bool) (i : N) (l : list A) : list N :=
  match l with
  | [] => []
  | x :: r => if ok x then mism ok (N.succ i) r else i :: mism ok (N.succ i) r
  end.

(* compact literals *)
Definition V (s : string) : body := Some (hex s).
Definition U : body := None.
Definition H := hex.

Definition body_eqb (a b : body) : bool :=
  match a, b with
  | None, None => true
  | Some x, Some y => bytes_eqb x y
  | _, _ => false
  end.

Definition opt_eqb {A} (eqb : A -> A -> bool) (a b : option A) : bool :=
  match a, b with
  | None, None => true
  | Some x, Some y => eqb x y
  | _, _ => false
  end.

Definition entry_eqb (a b : bytes * N) : bool := bytes_eqb (fst a) (fst b) && (snd a =? snd b).

Definition pmeta_eqb (a b : pmeta) : bool :=
  match a, b with
  | PConst v n, PConst v' n' => bytes_eqb v v' && (n =? n')
  | PDict d s n, PDict d' s' n' => list_eqb entry_eqb d d' && list_eqb N.eqb s s' && (n =? n')
  | PPlain v n, PPlain v' n' => list_eqb bytes_eqb v v' && (n =? n')
  | _, _ => false
  end.

Definition cmeta_eqb (a b : cmeta) : bool :=
  match a, b with
  | CNulls r k p, CNulls r' k' p' => list_eqb N.eqb r r' && (k =? k') && pmeta_eqb p p'
  | CVals p, CVals p' => pmeta_eqb p p'
  | _, _ => false
  end.

Definition ometa_eqb (a b : ometa) : bool :=
  match a, b with
  | OSingle t c, OSingle t' c' => (t =? t') && cmeta_eqb c c'
  | ODyn w g cs n, ODyn w' g' cs' n' =>
    list_eqb N.eqb w w' && list_eqb N.eqb g g' && list_eqb cmeta_eqb cs cs' && (n =? n')
  | _, _ => false
  end.

Definition value_eqb (a b : value) : bool := (fst a =? fst b) && body_eqb (snd a) (snd b).

(* sortDict's value comparison is not modelled: the order of the entries found
   in the metadata defines [less]; the model then sorts its own dictionary
   with it (from two different iteration orders) and must arrive at the same
   entries AND the same selectors. *)
Definition less_of (ord : list bytes) (a b : bytes) : bool := Nat.ltb (index_of a ord) (index_of b ord).

Definition less_for (ords : list (tyid * list bytes)) (t : tyid) : bytes -> bytes -> bool :=
  match find (fun o => fst o =? t) ords with
  | Some o => less_of (snd o)
  | None => less_of []
  end.

Definition iter_a (d : dict) : dict := d.
Definition iter_b (d : dict) : dict := rev d.

Definition maxdict : nat := 256.

(* interned byte strings of a case file *)
From Coq Require Import FMapPositive.
Fixpoint mk_table (i : positive) (l : list bytes) (m : PositiveMap.t bytes) : PositiveMap.t bytes :=
  match l with
  | [] => m
  | x :: r => mk_table (Pos.succ i) r (PositiveMap.add i x m)
  end.
Definition tget (m : PositiveMap.t bytes) (i : positive) : bytes :=
  match PositiveMap.find i m with Some x => x | None => [255; 255; 255; 255; 255] end.

(* nullable structural nodes (records, arrays, sets, maps, unions): the null
   flags written vs the run lengths found in the object (None = no Nulls node) *)
Definition nulls_ok (c : list bool * option (list N)) : bool :=
  let '(bits, obs) := c in
  opt_eqb (list_eqb N.eqb) (nulls_finish (nulls_state bits)) obs
  && match obs with
     | None => true
     | Some runs =>
       opt_eqb (list_eqb Bool.eqb) (nulls_row runs (List.length bits)) (Some bits)
       && opt_eqb (list_eqb Bool.eqb) (nulls_vec runs (List.length bits)) (Some bits)
     end.

Definition nulls_mismatches (l : list (list bool * option (list N))) : list N := mism nulls_ok 0 l.

(* bodies in case files: 0 = null, k > 0 = the k-th interned byte string *)
Definition dec_body (T : PositiveMap.t bytes) (i : N) : body :=
  match i with 0 => None | Npos p => Some (tget T p) end.
Definition dec_value (T : PositiveMap.t bytes) (x : tyid * N) : value := (fst x, dec_body T (snd x)).

(* nullable primitive leaf columns: what was written to the column, the
   dictionary order found in the metadata, the observed metadata + segment contents *)
Definition col_ok (T : PositiveMap.t bytes) (c : bool * list N * list bytes * cmeta) : bool :=
  let '(small, input, ord, obs) := c in
  cmeta_eqb (col_encode (less_of ord) iter_a iter_b maxdict small (map (dec_body T) input)) obs.

Definition col_mismatches T (l : list (bool * list N * list bytes * cmeta)) : list N :=
  mism (col_ok T) 0 l.

(* whole objects of top-level primitive values: the metadata and what each of
   the two real readers returned (None = that reader failed; reported by the oracle) *)
Definition obj_ok (T : PositiveMap.t bytes)
           (c : list tyid * list (tyid * N) * list (tyid * list bytes) * ometa
                * option (list (tyid * N)) * option (list (tyid * N))) : bool :=
  let '(smalls, input, ords, obs, row, vec) := c in
  let small := fun t => existsb (N.eqb t) smalls in
  ometa_eqb (obj_encode (less_for ords) iter_a iter_b maxdict small (map (dec_value T) input)) obs
  && match row with None => true
     | Some r => opt_eqb (list_eqb value_eqb) (obj_read false obs) (Some (map (dec_value T) r)) end
  && match vec with None => true
     | Some r => opt_eqb (list_eqb value_eqb) (obj_read true obs) (Some (map (dec_value T) r)) end.

Definition obj_mismatches T l : list N := mism (obj_ok T) 0 l.
