(* C09: runtime/vam/op/tail.go.  One Tail instance serves every scope of
   `over ... => ( tail N )` (and an unscoped `over a | tail N`, where every
   input value contributes one vector): per scope it pulls vectors until EOS,
   dropping leading vectors as soon as the rest already holds [limit] values
   (the loop in Tail.tail), finally trims the first remaining vector with a
   view, and then hands the vectors out one per Pull.  Vectors are lists of
   values here, so the theorem speaks about which values come out. *)
From ZV Require Import Base.Prelude.
Local Open Scope nat_scope.

(* for len(vecs) > 0 && n-len(vecs[0]) >= limit { n -= len(vecs[0]); vecs = vecs[1:] } *)
Fixpoint drop_lead (limit : nat) (vecs : list (list Z)) (n : nat) {struct vecs}
  : list (list Z) * nat :=
  match vecs with
  | [] => ([], n)
  | v :: r =>
    if limit <=? n - List.length v then drop_lead limit r (n - List.length v) else (vecs, n)
  end.

(* the pull loop of Tail.tail over the batches of one scope *)
Fixpoint tail_loop (limit : nat) (batches : list (list Z)) (vecs : list (list Z)) (n : nat)
  : list (list Z) * nat :=
  match batches with
  | [] => (vecs, n)
  | b :: r =>
    let '(vecs', n') := drop_lead limit (vecs ++ [b]) (n + List.length b) in
    tail_loop limit r vecs' n'
  end.

(* if n > limit { extra := n - limit; vecs[0] = view of vecs[0] from extra on } *)
Definition tail_trim (limit : nat) (vecs : list (list Z)) (n : nat) : list (list Z) :=
  if limit <? n then
    match vecs with
    | v :: r => skipn (n - limit) v :: r
    | [] => []
    end
  else vecs.

Definition tail_scope (limit : nat) (batches : list (list Z)) : list (list Z) :=
  let '(vecs, n) := tail_loop limit batches [] 0 in tail_trim limit vecs n.

Definition tail_scopes (limit : nat) (scopes : list (list (list Z))) : list (list (list Z)) :=
  map (tail_scope limit) scopes.

(* the specification: the last [k] elements *)
Definition lastn {A} (k : nat) (l : list A) : list A := skipn (List.length l - k) l.
