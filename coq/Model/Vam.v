(* Model of the vector runtime's aggregation operators and of the planner's
   vectorisation predicate (C09).
   Mirrors: runtime/vam/op/agg.go (CountByString.update, countByString.count,
   countNulls, countDict, countFixed, materialize; Sum.update, materialize) as the
   code is (after the fixes C09-01..06),
   runtime/vcache/loader.go (the column encodings it produces: plain, dict,
   const, each with an optional null mask), compiler/optimizer/vam.go
   (Vectorize / isScanWithVectors / IsCountByString / IsSum) together with
   compiler/lake.go (Parallelize, hence Vectorize, is only called for
   parallelism > 1; no vectorisation of filtered scans or behind a Slicer).
   Definitions only; proofs are in Proofs/VamProofs.v. *)
From ZV Require Import Base.Prelude.
Local Open Scope Z_scope.

(* numeric types: int64, uint64, float64 (payload = IEEE bits) and the other
   widths/kinds that share the vector.Int / vector.Uint / vector.Float
   representation (int8..int32, duration, time; uint8..uint32; float16/32) *)
Inductive nty := NInt | NUint | NFloat | NIntLike | NUintLike | NFloatLike.

Definition nty_eqb (a b : nty) : bool :=
  match a, b with
  | NInt, NInt | NUint, NUint | NFloat, NFloat
  | NIntLike, NIntLike | NUintLike, NUintLike | NFloatLike, NFloatLike => true
  | _, _ => false
  end.

(* the value of the grouped / summed field in one record *)
Inductive value :=
| VStr (s : bytes)            (* non-null string *)
| VNum (t : nty) (z : Z)      (* non-null number *)
| VNullStr                    (* null(string) *)
| VNullNum (t : nty)          (* null(int64) ... *)
| VNull                       (* null of type null *)
| VMissing                    (* the record has no such field: error("missing") *)
| VOther.                     (* anything else (bool, ip, record, array, union, ...) *)

Definition value_eqb (a b : value) : bool :=
  match a, b with
  | VStr x, VStr y => bytes_eqb x y
  | VNum t x, VNum u y => nty_eqb t u && Z.eqb x y
  | VNullStr, VNullStr => true
  | VNullNum t, VNullNum u => nty_eqb t u
  | VNull, VNull => true
  | VMissing, VMissing => true
  | VOther, VOther => true
  | _, _ => false
  end.

(* the value held by a vector.Const *)
Inductive cval := KStr (s : bytes) | KNum (t : nty) (z : Z) | KNullV | KOther.

(* What  c.field.Eval(vec)  yields for one (object, record type): the vector
   the operators dispatch on.  [nulls] is the null mask ([] = no mask). *)
Inductive col :=
| CStr (vals : list bytes) (nulls : list bool)                       (* *vector.String *)
| CNum (t : nty) (vals : list Z) (nulls : list bool)                 (* *vector.Int/Uint/Float *)
| CDictStr (entries : list bytes) (counts : list Z) (index : list nat) (nulls : list bool)
| CDictNum (t : nty) (entries : list Z) (counts : list Z) (index : list nat) (nulls : list bool)
| CDictOther (n : nat) (counts : list Z)
| CConst (v : cval) (n : nat) (nulls : list bool)                    (* *vector.Const *)
| CMissing (n : nat)                                                 (* *vector.Error "missing" *)
| COther (n : nat).                                                  (* any other vector kind *)

(* ---------------------------------------------------------------- decoding *)

Fixpoint dec_str (vals : list bytes) (nulls : list bool) : list value :=
  match vals with
  | [] => []
  | s :: r => (if hd false nulls then VNullStr else VStr s) :: dec_str r (tl nulls)
  end.

Fixpoint dec_num (t : nty) (vals : list Z) (nulls : list bool) : list value :=
  match vals with
  | [] => []
  | z :: r => (if hd false nulls then VNullNum t else VNum t z) :: dec_num t r (tl nulls)
  end.

Fixpoint dec_dict_str (entries : list bytes) (index : list nat) (nulls : list bool) : list value :=
  match index with
  | [] => []
  | i :: r => (if hd false nulls then VNullStr else VStr (nth i entries [])) :: dec_dict_str entries r (tl nulls)
  end.

Fixpoint dec_dict_num (t : nty) (entries : list Z) (index : list nat) (nulls : list bool) : list value :=
  match index with
  | [] => []
  | i :: r => (if hd false nulls then VNullNum t else VNum t (nth i entries 0)) :: dec_dict_num t entries r (tl nulls)
  end.

Definition cval_value (v : cval) : value :=
  match v with KStr s => VStr s | KNum t z => VNum t z | KNullV => VNull | KOther => VOther end.

Definition cval_null (v : cval) : value :=
  match v with KStr _ => VNullStr | KNum t _ => VNullNum t | KNullV => VNull | KOther => VOther end.

Fixpoint dec_const (v : cval) (n : nat) (nulls : list bool) : list value :=
  match n with
  | O => []
  | S m => (if hd false nulls then cval_null v else cval_value v) :: dec_const v m (tl nulls)
  end.

Definition decode (c : col) : list value :=
  match c with
  | CStr vals nulls => dec_str vals nulls
  | CNum t vals nulls => dec_num t vals nulls
  | CDictStr e _ idx nulls => dec_dict_str e idx nulls
  | CDictNum t e _ idx nulls => dec_dict_num t e idx nulls
  | CDictOther n _ => repeat VOther n
  | CConst v n nulls => dec_const v n nulls
  | CMissing n => repeat VMissing n
  | COther n => repeat VOther n
  end.

Definition decode_all (cols : list col) : list value := flat_map decode cols.

(* ---------------------------------------------------------------- CountByString *)

(* countByString.table: a Go map[string]uint64; absent = 0 *)
Definition table := list (bytes * Z).

Fixpoint tbl_get (k : bytes) (t : table) : Z :=
  match t with
  | [] => 0
  | (k', c) :: r => if bytes_eqb k k' then c else tbl_get k r
  end.

(* table[k] = c *)
Fixpoint tbl_set (k : bytes) (c : Z) (t : table) : table :=
  match t with
  | [] => [(k, c)]
  | (k', c') :: r => if bytes_eqb k k' then (k', c) :: r else (k', c') :: tbl_set k c r
  end.

(* table[k] += d *)
Definition tbl_add (k : bytes) (d : Z) (t : table) : table := tbl_set k (tbl_get k t + d) t.

Record cbstate := mkcb { cb_tbl : table; cb_nulls : Z }.

(* countNulls(nulls, n): number of set bits among the first n slots *)
Fixpoint nullcount (n : nat) (nulls : list bool) : Z :=
  match n with
  | O => 0
  | S m => (if hd false nulls then 1 else 0) + nullcount m (tl nulls)
  end.

(* countByString.count: a null slot goes to the nulls counter, any other
   slot increments its key *)
Fixpoint count_plain (vals : list bytes) (nulls : list bool) (st : cbstate) : cbstate :=
  match vals with
  | [] => st
  | s :: r =>
    count_plain r (tl nulls)
      (if hd false nulls then mkcb (cb_tbl st) (cb_nulls st + 1)
       else mkcb (tbl_add s 1 (cb_tbl st)) (cb_nulls st))
  end.

(* countByString.countDict:  c.table[entry k] += uint64(counts[k]);  then
   update adds countNulls(val.Nulls, val.Len()) to the nulls counter *)
Definition count_dict (entries : list bytes) (counts : list Z) (nslots : nat) (nulls : list bool)
           (st : cbstate) : cbstate :=
  mkcb (fold_left (fun t '(s, c) => tbl_add s c t) (combine entries counts) (cb_tbl st))
       (cb_nulls st + nullcount nslots nulls).

(* countByString.countFixed *)
Definition count_fixed (v : cval) (n : nat) (nulls : list bool) (st : cbstate) : cbstate :=
  match v with
  | KStr s => mkcb (tbl_add s (Z.of_nat n - nullcount n nulls) (cb_tbl st)) (cb_nulls st + nullcount n nulls)
  | KNullV => mkcb (cb_tbl st) (cb_nulls st + Z.of_nat n)
  | _ => st
  end.

(* CountByString.update on one evaluated column; None = panic *)
Definition cb_update (st : cbstate) (c : col) : option cbstate :=
  match c with
  | CStr vals nulls => Some (count_plain vals nulls st)
  | CDictStr e cnt idx nulls => Some (count_dict e cnt (List.length idx) nulls st)
  | CDictNum _ _ _ _ _ | CDictOther _ _ => None   (* val.Any.( *vector.String) fails *)
  | CConst v n nulls => Some (count_fixed v n nulls st)
  | CNum _ _ _ | CMissing _ | COther _ => None    (* panic("UNKNOWN %T") *)
  end.

Fixpoint cb_run (st : cbstate) (cols : list col) : option cbstate :=
  match cols with
  | [] => Some st
  | c :: r => match cb_update st c with Some st' => cb_run st' r | None => None end
  end.

Definition cb_init := mkcb [] 0.

(* one vectorised leg receiving these columns *)
Definition v_count_by (cols : list col) : option cbstate := cb_run cb_init cols.

(* materialize: the count the emitted rows report for key v
   (string keys from the table; one null(string) row when nulls > 0) *)
Definition row_count (st : cbstate) (v : value) : Z :=
  match v with
  | VStr s => tbl_get s (cb_tbl st)
  | VNullStr => cb_nulls st
  | _ => 0
  end.

(* the sequential  count() by <field> : one row per distinct value with its
   number of occurrences *)
Fixpoint occ (v : value) (l : list value) : Z :=
  match l with
  | [] => 0
  | x :: r => (if value_eqb v x then 1 else 0) + occ v r
  end.

(* ---------------------------------------------------------------- Sum *)

Definition two63 := 9223372036854775808.
Definition two64 := 18446744073709551616.
(* Go int64 arithmetic: results wrap *)
Definition wrap64 (z : Z) : Z := (z + two63) mod two64 - two63.

Definition is_intlike (t : nty) := match t with NInt | NIntLike | NUint | NUintLike => true | _ => false end.

Definition sum_vals (s : Z) (vals : list Z) : Z :=
  fold_left (fun a x => wrap64 (a + wrap64 x)) vals s.

Definition sum_dict (s : Z) (entries counts : list Z) : Z :=
  fold_left (fun a '(v, c) => wrap64 (a + wrap64 (wrap64 v * c))) (combine entries counts) s.

(* Sum.update: Int, Uint, Const of an integer type (value * number of
   non-null slots), Dict of Int/Uint; everything else is skipped silently *)
Definition sum_update (s : Z) (c : col) : Z :=
  match c with
  | CNum t vals _ => if is_intlike t then sum_vals s vals else s
  | CDictNum t e cnt _ _ => if is_intlike t then sum_dict s e cnt else s
  | CConst (KNum t z) n nulls =>
    if is_intlike t then wrap64 (s + wrap64 (wrap64 z * (Z.of_nat n - nullcount n nulls))) else s
  | _ => s
  end.

Definition v_sum (cols : list col) : Z := fold_left sum_update cols 0.

(* the sequential sum() restricted to data whose numbers are all int64:
   nulls, missing fields and non-numbers are skipped; no number at all gives
   a null result (None) *)
Fixpoint ints_of (l : list value) : list Z :=
  match l with
  | [] => []
  | VNum NInt z :: r => z :: ints_of r
  | _ :: r => ints_of r
  end.

Definition only_int64_numbers (l : list value) : Prop :=
  forall t z, In (VNum t z) l -> t = NInt.

Definition seq_sum_int (l : list value) : option Z :=
  match ints_of l with
  | [] => None
  | zs => Some (wrap64 (fold_right Z.add 0 zs))
  end.

(* ---------------------------------------------------------------- planner *)

Inductive shape := SCountBy | SSum | SOther.

(* lakeCompiler.NewLakeQuery + Job.Parallelize + Optimizer.Vectorize:
   a leg is handed to the vector runtime iff parallelism > 1, the pool has at
   least one object, every object has a vector copy, the leg is
   scan | count() by <field>  or  scan | sum(<field>), the scan carries no
   pushed-down filter/pruner ([filt]) and the plan has no Slicer ([sliced]:
   the grouping field is the pool key, so the input must stay sorted). *)
Definition vectorized (sh : shape) (par nobj nvec : N) (filt sliced : bool) : bool :=
  (1 <? par)%N && (0 <? nobj)%N && (nvec =? nobj)%N && negb filt && negb sliced &&
  match sh with SCountBy | SSum => true | SOther => false end.

(* ---------------------------------------------------------------- Head *)

(* runtime/vam/op/head.go.  One Head instance serves every scope of
   `over ... => ( head N )`: a scope is a sequence of batches (their lengths)
   ended by EOS.  [head_scope limit count batches] is what the successive
   Pull(false) calls return for one scope (lengths of the emitted vectors) and
   the count left behind:
   - count >= limit: return EOS and reset (the parent is not pulled);
   - parent EOS: reset and return EOS;
   - a batch shorter than what remains: emit it all, count += n;
   - otherwise: send done upstream, emit the remaining values, count = limit;
     the next Pull then takes the first case. *)
Fixpoint head_scope (limit count : nat) (batches : list nat) : list nat * nat :=
  if (limit <=? count)%nat then ([], O)
  else match batches with
       | [] => ([], O)
       | n :: r =>
         if (n <? limit - count)%nat
         then let '(o, c) := head_scope limit (count + n) r in (n :: o, c)
         else ([(limit - count)%nat], O)
       end.

Fixpoint head_scopes (limit count : nat) (scopes : list (list nat)) : list (list nat) :=
  match scopes with
  | [] => []
  | s :: r => let '(o, c) := head_scope limit count s in o :: head_scopes limit c r
  end.

Definition nsum (l : list nat) : nat := fold_right Nat.add O l.
