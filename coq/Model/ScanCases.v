(* Correspondence check for C04: the harness lists what the real kernel computed
   (CompileBufferFilter nil-ness, BufferFilter.Eval verdicts on raw frames, the
   frame bytes, the evaluator's verdict per value, stringsearch results); these
   functions return the indices where the model differs. *)
From ZV Require Import Base.Prelude Model.Scan.

Fixpoint mism {A} (ok : A -> bool) (i : N) (l : list A) : list N :=
  match l with
  | [] => []
  | x :: r => if ok x then mism ok (N.succ i) r else i :: mism ok (N.succ i) r
  end.

(* one frame observation: the frame, its real bytes, the real buffer filter's
   verdict (ignored when the filter is nil), the evaluator's verdict codes per
   value (None when the expression has uninterpreted leaves) *)
Definition frame_obs := (frame * bytes * bool * option (list N))%type.

Record bf_case := mk_bf_case {
  bc_expr : expr;
  bc_compiled : bool;          (* CompileBufferFilter returned non-nil *)
  bc_frames : list frame_obs
}.

Definition no_oth : nat -> ty -> val -> tv3 := fun _ _ _ => F3.
Definition no_lit_oth : expr -> ty -> val -> tv3 := fun _ _ _ => F3.

Definition frame_ok (e : expr) (c : option bf) (o : frame_obs) : bool :=
  let '(fr, raw, verdict, evs) := o in
  bytes_eqb (frame_bytes fr) raw
  && match c with
     | Some b => Bool.eqb (bf_eval b fr) verdict
     | None => true
     end
  && match evs with
     | Some codes =>
       list_eqb N.eqb (map (fun '(_, t, v) => tv3_code (eval3 no_oth no_lit_oth e t v)) fr) codes
     | None => true
     end.

Definition bf_case_ok (c : bf_case) : bool :=
  let cb := compile_bf (bc_expr c) in
  Bool.eqb (match cb with Some _ => true | None => false end) (bc_compiled c)
  && forallb (frame_ok (bc_expr c) cb) (bc_frames c).

Definition bf_mismatches (l : list bf_case) : list N := mism bf_case_ok 0 l.

(* stringsearch: (text, pattern, case-insensitive?, observed index) *)
Definition ss_case := (bytes * bytes * bool * Z)%type.

Definition ss_ok (c : ss_case) : bool :=
  let '(t, p, ci, idx) := c in
  Z.eqb (if ci then index_ci t p else index_of t p) idx.

Definition ss_mismatches (l : list ss_case) : list N := mism ss_ok 0 l.
