(* Correspondence for C02 (decorators): streams of values of the modelled
   fragment, the text the real Formatter wrote for each value and what the
   real zsonio.Reader read back, compared with the model. *)
From ZV Require Import Base.Prelude Model.Escape Model.EscapeCases Model.Zson.
Local Open Scope N_scope.

Definition tv_eqb (a b : ty * val) : bool := ty_eqb (fst a) (fst b) && val_eqb (snd a) (snd b).

Definition otv_eqb (a b : option (ty * val)) : bool :=
  match a, b with
  | Some x, Some y => tv_eqb x y
  | None, None => true
  | _, _ => false
  end.

(* persist, FormatRecord?, values, texts written, values read back *)
Definition zcase := (persist * bool * list (ty * val) * list str * list (option (ty * val)))%type.

Definition zcase_ok (c : zcase) : bool :=
  let '(P, reset, vals, texts, results) := c in
  let zs := fmt_stream P reset fstate0 vals in
  list_eqb str_eqb (map render_val zs) texts && list_eqb otv_eqb (conv_stream [] zs) results.

Definition zson_mismatches (l : list zcase) : list N := emism zcase_ok 0 l.
