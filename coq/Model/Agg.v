(* C10: executable model of the group-by operator of runtime/sam/op/groupby
   (Aggregator.Consume / spillTable / readSpills / nextResultFromSpills) and of
   the aggregate functions of runtime/sam/expr/agg with their partial forms.

   Part 1 is generic in the key type, the key comparator and the aggregation
   state (a commutative monoid: [op] is ConsumeAsPartial, a consumed value is
   first injected into a one-value state).  Part 2 instantiates it with the
   runtime's key values (type tag + value, compared by expr.compareValues with
   missing-as-null) and with count/sum/min/max/avg/and/or written as the Go code
   is (typed nulls, hasval flag, skipping of nulls). *)
From ZV Require Import Base.Prelude.

(* ------------------------------------------------------------------ generic *)
Section GroupBy.
  Variables K S : Type.
  Variable keqb : K -> K -> bool.          (* identity: same type and value (table key = key bytes + type code) *)
  Variable kcmp : K -> K -> comparison.    (* keysComparator *)
  Variable op : S -> S -> S.               (* row.consumeAsPartial *)
  Variable e : S.                          (* newValRow *)

  Definition row : Type := K * S.

  Fixpoint tbl_mem (k : K) (t : list row) : bool :=
    match t with
    | [] => false
    | (k', _) :: r => if keqb k k' then true else tbl_mem k r
    end.

  (* a.table[key].reducers.apply(...) on an existing row *)
  Fixpoint tbl_upd (k : K) (s : S) (t : list row) : list row :=
    match t with
    | [] => []
    | (k', s') :: r => if keqb k k' then (k', op s' s) :: r else (k', s') :: tbl_upd k s r
    end.

  (* stable insertion: MergeSort.Spill sorts a run with comparator.SortStableReader *)
  Fixpoint ins (r : row) (l : list row) : list row :=
    match l with
    | [] => [r]
    | x :: t => match kcmp (fst r) (fst x) with
                | Gt => x :: ins r t
                | _ => r :: x :: t
                end
    end.

  Definition sort_run (l : list row) : list row := fold_right ins [] l.

  (* stable merge of two sorted runs (elements of the earlier run win ties),
     and of all runs in spill order: MergeSort.Read with Less = (key, ordinal) *)
  Definition merge2 (a b : list row) : list row := fold_right ins b a.
  Definition merge_runs (runs : list (list row)) : list row := fold_right merge2 [] runs.

  (* nextResultFromSpills: a fresh row absorbs every ADJACENT record whose keys
     compare equal to those of the first one; the first record's key is emitted *)
  Fixpoint comb (cur : row) (l : list row) : list row :=
    match l with
    | [] => [cur]
    | r :: t => match kcmp (fst cur) (fst r) with
                | Eq => comb (fst cur, op (snd cur) (snd r)) t
                | _ => cur :: comb r t
                end
    end.

  Definition combine (l : list row) : list row :=
    match l with
    | [] => []
    | r :: t => comb (fst r, op e (snd r)) t
    end.

  (* Aggregator.Consume over the whole input; the input carries, for every
     record, its key and the one-value state of its aggregate arguments *)
  Fixpoint consume (limit : N) (xs : list row) (tbl : list row) (runs : list (list row))
    : list row * list (list row) :=
    match xs with
    | [] => (tbl, runs)
    | (k, s) :: r =>
      if tbl_mem k tbl then consume limit r (tbl_upd k s tbl) runs
      else if (limit <=? N.of_nat (List.length tbl))%N
           then consume limit r [(k, op e s)] (runs ++ [sort_run tbl])       (* spillTable *)
           else consume limit r (tbl ++ [(k, op e s)]) runs
    end.

  Definition eff_limit (limit : N) : N := if (limit =? 0)%N then 1000000%N else limit.  (* DefaultLimit *)

  (* Op.run at end of input: readTable(flush) without spills, else spill the
     table and merge all runs *)
  Definition groupby (limit : N) (xs : list row) : list row :=
    let '(tbl, runs) := consume (eff_limit limit) xs [] [] in
    match runs with
    | [] => tbl
    | _ => combine (merge_runs (runs ++ match tbl with [] => [] | _ => [sort_run tbl] end))
    end.

  (* ---- specification: one row per distinct key, aggregate over exactly the
     records with that key *)
  Definition total (k : K) (l : list row) : S :=
    fold_right (fun r acc => if keqb k (fst r) then op (snd r) acc else acc) e l.

  Fixpoint distinct_keys (seen : list K) (l : list row) : list K :=
    match l with
    | [] => []
    | (k, _) :: r => if existsb (keqb k) seen then distinct_keys seen r
                     else k :: distinct_keys (k :: seen) r
    end.

  Definition groupby_spec (xs : list row) : list row :=
    map (fun k => (k, total k xs)) (distinct_keys [] xs).

  (* the domain on which the spill path is correct: keys that compare equal are identical *)
  Definition cmp_faithful (xs : list row) : Prop :=
    forall k1 k2, In k1 (map fst xs) -> In k2 (map fst xs) -> kcmp k1 k2 = Eq -> k1 = k2.

  Definition cmp_faithfulb (xs : list row) : bool :=
    forallb (fun k1 => forallb (fun k2 => match kcmp k1 k2 with Eq => keqb k1 k2 | _ => true end)
                               (map fst xs)) (map fst xs).
End GroupBy.

Arguments tbl_mem {K S}. Arguments tbl_upd {K S}. Arguments ins {K S}. Arguments sort_run {K S}.
Arguments merge2 {K S}. Arguments merge_runs {K S}. Arguments comb {K S}. Arguments combine {K S}.
Arguments consume {K S}. Arguments groupby {K S}. Arguments total {K S}. Arguments distinct_keys {K S}.
Arguments groupby_spec {K S}. Arguments cmp_faithful {K S}. Arguments cmp_faithfulb {K S}.

(* ------------------------------------------------------------------ keys *)
(* A key value: a number (type tag, value; floats only when integral), a
   string, a null of some type, or error("missing"). *)
Inductive atom :=
| ANum (ty : N) (v : Z)
| AStr (s : bytes)
| ANull (ty : N)
| AMissing.

Definition atom_eqb (a b : atom) : bool :=
  match a, b with
  | ANum t x, ANum u y => N.eqb t u && Z.eqb x y
  | AStr x, AStr y => bytes_eqb x y
  | ANull t, ANull u => N.eqb t u
  | AMissing, AMissing => true
  | _, _ => false
  end.

(* expr.compareValues (nullsMax) behind WithMissingAsNull: nulls and missing are
   equal and largest, numbers compare by value whatever their types, numbers
   sort before strings (zed.CompareTypes on the type ids) *)
Definition atom_rank (a : atom) : N :=
  match a with ANum _ _ => 0 | AStr _ => 1 | _ => 2 end%N.

Definition atom_cmp (a b : atom) : comparison :=
  match a, b with
  | ANum _ x, ANum _ y => Z.compare x y
  | AStr x, AStr y => bytes_cmp x y
  | _, _ => N.compare (atom_rank a) (atom_rank b)
  end.

Definition key := list atom.

Definition key_eqb : key -> key -> bool := list_eqb atom_eqb.

(* Comparator.Compare: first key expression that differs decides *)
Fixpoint key_cmp (a b : key) : comparison :=
  match a, b with
  | [], [] => Eq
  | [], _ :: _ => Lt
  | _ :: _, [] => Gt
  | x :: a', y :: b' => match atom_cmp x y with Eq => key_cmp a' b' | c => c end
  end.

(* Tie-break of the spill comparator (groupby.keyIdentity): after all keys have
   been compared by value, each key is compared again by an encoding of its type
   and bytes, so that two keys compare equal only if they are identical.  The
   model orders identities by constructor, type tag and value; which total order
   is used is immaterial for the result as a multiset. *)
Definition atom_rank4 (a : atom) : N :=
  match a with ANum _ _ => 0 | AStr _ => 1 | ANull _ => 2 | AMissing => 3 end%N.

Definition atom_id_cmp (a b : atom) : comparison :=
  match a, b with
  | ANum t x, ANum u y => match N.compare t u with Eq => Z.compare x y | c => c end
  | AStr x, AStr y => bytes_cmp x y
  | ANull t, ANull u => N.compare t u
  | _, _ => N.compare (atom_rank4 a) (atom_rank4 b)
  end.

Fixpoint key_id_cmp (a b : key) : comparison :=
  match a, b with
  | [], [] => Eq
  | [], _ :: _ => Lt
  | _ :: _, [] => Gt
  | x :: a', y :: b' => match atom_id_cmp x y with Eq => key_id_cmp a' b' | c => c end
  end.

(* keysComparator of the Aggregator: keys by value, then keys by identity *)
Definition spill_cmp (a b : key) : comparison :=
  match key_cmp a b with Eq => key_id_cmp a b | c => c end.

(* ------------------------------------------------------------------ aggregates *)
(* result of a mathReducer over an int64 column *)
Inductive zres := RNone (* no value of a numeric type seen: null *)
                | RNull (* only typed nulls seen: null(int64) *)
                | RVal (v : Z).

Definition zres_eqb (a b : zres) : bool :=
  match a, b with
  | RNone, RNone | RNull, RNull => true
  | RVal x, RVal y => Z.eqb x y
  | _, _ => false
  end.

(* mathReducer.consumeVal, also used for its partials: a null of type null is
   ignored, a typed null fixes the type, a value is folded with f *)
Definition zres_op (f : Z -> Z -> Z) (a b : zres) : zres :=
  match a, b with
  | RNone, x | x, RNone => x
  | RNull, x | x, RNull => x
  | RVal x, RVal y => RVal (f x y)
  end.

(* And/Or: null and non-bool are skipped; state nil until the first bool *)
Definition bres := option bool.
Definition bres_op (f : bool -> bool -> bool) (a b : bres) : bres :=
  match a, b with
  | None, x | x, None => x
  | Some x, Some y => Some (f x y)
  end.

Record st := mkst {
  cnt : N;            (* count()      *)
  sm : zres;          (* sum(a)       *)
  mn : zres;          (* min(a)       *)
  mx : zres;          (* max(a)       *)
  avs : Z; avc : N;   (* avg(a) as (sum, count) of the non-null values *)
  band : bres;        (* and(b)       *)
  bor : bres          (* or(b)        *)
}.

Definition st0 : st := mkst 0 RNone RNone RNone 0 0 None None.

(* ConsumeAsPartial of every aggregate of the row (valRow.consumeAsPartial) *)
Definition st_op (a b : st) : st :=
  mkst (cnt a + cnt b)
       (zres_op Z.add (sm a) (sm b)) (zres_op Z.min (mn a) (mn b)) (zres_op Z.max (mx a) (mx b))
       (avs a + avs b) (avc a + avc b)
       (bres_op andb (band a) (band b)) (bres_op orb (bor a) (bor b)).

(* argument of the numeric aggregates: missing (skipped by Aggregator.Apply),
   null(int64), or an int64 *)
Inductive aval := AvMissing | AvNull | AvInt (v : Z).
Inductive bval := BvMissing | BvNull | BvBool (b : bool).

(* Consume of every aggregate on one record (valRow.apply), as the Go code does it *)
Definition st_consume (s : st) (a : aval) (b : bval) : st :=
  let num f r :=
      match a with
      | AvMissing => r
      | AvNull => match r with RNone => RNull | _ => r end
      | AvInt v => match r with RVal x => RVal (f x v) | _ => RVal v end
      end in
  let bl f r :=
      match b with
      | BvBool x => match r with None => Some x | Some y => Some (f y x) end
      | _ => r
      end in
  mkst (cnt s + 1) (num Z.add (sm s)) (num Z.min (mn s)) (num Z.max (mx s))
       (match a with AvInt v => avs s + v | _ => avs s end)
       (match a with AvInt _ => avc s + 1 | _ => avc s end)
       (bl andb (band s)) (bl orb (bor s)).

(* the one-record state *)
Definition st_inj (a : aval) (b : bval) : st := st_consume st0 a b.

Definition st_eqb (a b : st) : bool :=
  N.eqb (cnt a) (cnt b) && zres_eqb (sm a) (sm b) && zres_eqb (mn a) (mn b) && zres_eqb (mx a) (mx b)
  && Z.eqb (avs a) (avs b) && N.eqb (avc a) (avc b)
  && match band a, band b with None, None => true | Some x, Some y => Bool.eqb x y | _, _ => false end
  && match bor a, bor b with None, None => true | Some x, Some y => Bool.eqb x y | _, _ => false end.

(* the operator on concrete records *)
Definition rec_in : Type := key * aval * bval.
Definition to_rows (xs : list rec_in) : list (key * st) :=
  map (fun '(k, a, b) => (k, st_inj a b)) xs.

Definition groupby_model (limit : N) (xs : list rec_in) : list (key * st) :=
  groupby key_eqb spill_cmp st_op st0 limit (to_rows xs).

(* the operator before the tie-break was added (spill comparator = key_cmp only),
   kept to show why the tie-break is necessary *)
Definition groupby_model_value_order (limit : N) (xs : list rec_in) : list (key * st) :=
  groupby key_eqb key_cmp st_op st0 limit (to_rows xs).

(* naive evaluation: group by key identity, fold Consume over the group's records in input order *)
Definition agg_of (k : key) (xs : list rec_in) : st :=
  fold_left (fun s '(k', a, b) => if key_eqb k k' then st_consume s a b else s) xs st0.

Definition naive_groupby (xs : list rec_in) : list (key * st) :=
  map (fun k => (k, agg_of k xs)) (distinct_keys key_eqb [] (to_rows xs)).
