(* C06 model of sorting with spill runs and of k-way merging:
     runtime/sam/op/sort/sort.go    Op.run (run boundaries by byte budget), send, sendSpills
     runtime/sam/op/spill/merge.go  MergeSort.Spill / Read / Less (Compare, then run ordinal)
     runtime/sam/op/merge/merge.go  Op.Pull / Read / Less
   Generic in the element type and in the "less" function. *)
From ZV Require Import Base.Prelude Base.Num Model.Order.
Local Open Scope Z_scope.

Section Sort.
  Context {A : Type}.
  Variable ltb : A -> A -> bool.

  (* The stable sorted permutation, computed by insertion (what Go's
     sort.SliceStable returns for a strict weak order [ltb]). *)
  Fixpoint insert (x : A) (l : list A) : list A :=
    match l with
    | [] => [x]
    | y :: r => if ltb y x then y :: insert x r else x :: y :: r
    end.

  Definition stable_sort (l : list A) : list A := fold_right insert [] l.

  (* MergeSort.Read: the heap root is the run whose head is least under
     Less = (Compare < 0, or equal and smaller ordinal).  Runs are kept in
     ordinal order; exhausted runs stay as []. *)
  Fixpoint pop_min (rs : list (list A)) : option (A * list (list A)) :=
    match rs with
    | [] => None
    | r :: rs' =>
      match r, pop_min rs' with
      | [], None => None
      | [], Some (y, rs'') => Some (y, [] :: rs'')
      | x :: r', None => Some (x, r' :: rs')
      | x :: r', Some (y, rs'') => if ltb y x then Some (y, r :: rs'') else Some (x, r' :: rs')
      end
    end.

  Fixpoint merge_runs (fuel : nat) (rs : list (list A)) : list A :=
    match fuel with
    | O => []
    | S f =>
      match pop_min rs with
      | None => []
      | Some (x, rs') => x :: merge_runs f rs'
      end
    end.

  Variable runsort : list A -> list A.   (* Comparator.SortStable / SortStableReader *)

  Definition ext_sort (runs : list (list A)) : list A :=
    merge_runs (List.length (List.concat runs)) (map runsort runs).

  (* sort.Op.run: batches are appended to [out]; when the accumulated byte
     count reaches MemMaxBytes the pending values become a spilled run. *)
  Fixpoint split_runs (mem : Z) (bs : list (Z * list A)) (out : list A) (nbytes : Z)
           (runs : list (list A)) : list (list A) * list A :=
    match bs with
    | [] => (runs, out)
    | (sz, rows) :: bs' =>
      let out' := out ++ rows in
      let nb := nbytes + sz in
      if nb <? mem then split_runs mem bs' out' nb runs
      else split_runs mem bs' [] 0 (runs ++ [out'])
    end.

  Definition sort_op (mem : Z) (bs : list (Z * list A)) : list A :=
    let '(runs, out) := split_runs mem bs [] 0 [] in
    match runs with
    | [] => runsort out
    | _ => ext_sort (runs ++ match out with [] => [] | _ => [out] end)
    end.

  (* merge.Op: any number of steps, each emitting a non-empty prefix [p] of
     one parent's remaining values such that the last value of [p] does not
     exceed the head of any other parent (Pull: whole remaining batch when
     cmp(last, hol[0].vals[0]) <= 0; Read: the heap minimum alone). *)
  Inductive kmerge : list (list A) -> list A -> Prop :=
  | km_done : forall rs, List.concat rs = [] -> kmerge rs []
  | km_step : forall before p rest after out d,
      p <> [] ->
      (forall r h t, In r (before ++ after) -> r = h :: t -> ltb h (last p d) = false) ->
      kmerge (before ++ rest :: after) out ->
      kmerge (before ++ (p ++ rest) :: after) (p ++ out).
End Sort.

(* ---- instantiation for rows of key values *)
Definition eff_keys (reverse : bool) (descs : list bool) : list bool := map (xorb reverse) descs.

(* sort.Op.setComparator *)
Definition eff_nullsmax (nullsFirst : bool) (ks : list bool) : bool :=
  xorb (negb nullsFirst) (hd false ks).

Definition irow := (N * list value)%type.

(* Comparator.sortStableIndices on one run *)
Definition sort_run (nm : bool) (ks : list bool) (r : list irow) : list irow :=
  let native := is_native nm (map snd r) in
  stable_sort (fun a b => less_rows nm native true ks (snd a) (snd b)) r.

Definition sort_op_rows (nm : bool) (ks : list bool) (mem : Z) (bs : list (Z * list irow)) : list irow :=
  sort_op (fun a b => lt_rows nm ks (snd a) (snd b)) (sort_run nm ks) mem bs.
