(* C06 model of the value ordering of /repo:
     runtime/sam/expr/sort.go   compareValues, Comparator.Compare, sortStableIndices
     runtime/sam/expr/eval.go   compareNumbers (+ coerce.ToNumeric[float64])
     type.go                    CompareTypes
   Domain: nulls of any modelled type, all integer/duration/time/float
   primitives, bool, bytes, string, ip, net, type values, arrays and sets
   (nested).  Records, maps, unions, enums, errors and named types are not
   modelled (they are exercised by the oracles on the implementation only). *)
From ZV Require Import Base.Prelude Base.Num.
Local Open Scope Z_scope.

Inductive sint := I8 | I16 | I32 | I64 | IDur | ITime.
Inductive uintk := U8 | U16 | U32 | U64.
Inductive fltk := F16 | F32 | F64.

(* type.go: IDUint8..IDNull *)
Definition sint_id (k : sint) : N :=
  match k with I8 => 6 | I16 => 7 | I32 => 8 | I64 => 9 | IDur => 12 | ITime => 13 end.
Definition uint_id (k : uintk) : N :=
  match k with U8 => 0 | U16 => 1 | U32 => 2 | U64 => 3 end.
Definition flt_id (k : fltk) : N :=
  match k with F16 => 14 | F32 => 15 | F64 => 16 end.
Definition id_time : N := 13.
Definition id_decimal256 : N := 22.
Definition id_bool : N := 23.
Definition id_bytes : N := 24.
Definition id_string : N := 25.
Definition id_ip : N := 26.
Definition id_net : N := 27.
Definition id_type : N := 28.
Definition id_null : N := 29.

Inductive ty := TPrim (id : N) | TArray (t : ty) | TSet (t : ty).

(* type.go Kind: PrimitiveKind = 0, RecordKind, ArrayKind = 2, SetKind = 3 *)
Definition kind_of (t : ty) : N :=
  match t with TPrim _ => 0 | TArray _ => 2 | TSet _ => 3 end.

(* type.go CompareTypes on this fragment (no named types: equal IDs <-> equal types). *)
Fixpoint cmpty (a b : ty) : comparison :=
  match a, b with
  | TPrim i, TPrim j => N.compare i j
  | TArray x, TArray y => cmpty x y
  | TSet x, TSet y => cmpty x y
  | _, _ => N.compare (kind_of a) (kind_of b)
  end.

Fixpoint ty_eqb (a b : ty) : bool :=
  match a, b with
  | TPrim i, TPrim j => N.eqb i j
  | TArray x, TArray y => ty_eqb x y
  | TSet x, TSet y => ty_eqb x y
  | _, _ => false
  end.

Inductive value :=
| VNull (t : ty)
| VInt (k : sint) (z : Z)
| VUint (k : uintk) (n : N)
| VFloat (k : fltk) (f : fl)
| VBool (b : bool)
| VBytes (b : bytes)
| VString (b : bytes)      (* UTF-8 bytes; Go compares strings bytewise *)
| VIP (b : bytes)          (* 4 or 16 bytes *)
| VNet (b : bytes)         (* ZNG body *)
| VType (t : ty)
| VArray (et : ty) (l : list value)
| VSet (et : ty) (l : list value).

Definition typeof (v : value) : ty :=
  match v with
  | VNull t => t
  | VInt k _ => TPrim (sint_id k)
  | VUint k _ => TPrim (uint_id k)
  | VFloat k _ => TPrim (flt_id k)
  | VBool _ => TPrim id_bool
  | VBytes _ => TPrim id_bytes
  | VString _ => TPrim id_string
  | VIP _ => TPrim id_ip
  | VNet _ => TPrim id_net
  | VType _ => TPrim id_type
  | VArray et _ => TArray et
  | VSet et _ => TSet et
  end.

Definition isnull (v : value) : bool := match v with VNull _ => true | _ => false end.

(* Numbers: signed (Int()), unsigned (Uint()), float (Float()). *)
Inductive num := NS (z : Z) | NU (n : N) | NF (f : fl).

Definition numof (v : value) : option num :=
  match v with
  | VInt _ z => Some (NS z)
  | VUint _ n => Some (NU n)
  | VFloat _ f => Some (NF f)
  | _ => None
  end.

(* eval.go compareExact[T](i, f, min, max): the integer i against the float f,
   exactly.  [lo], [hi] are the bounds of T (powers of two, exact as floats). *)
Definition cmp_exact (i : Z) (f : fl) (lo hi : Z) : comparison :=
  if isnan f || flt f (FFin lo 0) then Gt
  else if fge f (FFin hi 0) then Lt
  else match Z.compare i (ftrunc f) with
       | Eq => fcmp (FFin 0 0) (ffrac f)
       | c => c
       end.

(* eval.go compareIntegerFloat *)
Definition cmp_int_float (x : num) (f : fl) : comparison :=
  match x with
  | NU n => cmp_exact (Z.of_N n) f 0 (2 ^ 64)
  | NS z => cmp_exact z f (- 2 ^ 63) (2 ^ 63)
  | NF g => fcmp g f
  end.

(* eval.go compareNumbers, case by case *)
Definition cmpnum (a b : num) : comparison :=
  match a, b with
  | NF fa, NF fb => fcmp fa fb
  | NF fa, _ => CompOpp (cmp_int_float b fa)
  | _, NF fb => cmp_int_float a fb
  | NS za, NU nb => if za <? 0 then Lt else Z.compare za (Z.of_N nb)
  | NS za, NS zb => Z.compare za zb
  | NU na, NS zb => if zb <? 0 then Gt else Z.compare (Z.of_N na) zb
  | NU na, NU nb => N.compare na nb
  end.

(* netip.Addr.Compare: bit length first, then the address bytes *)
Definition ipcmp (a b : bytes) : comparison :=
  match N.compare (N.of_nat (List.length a)) (N.of_nat (List.length b)) with
  | Eq => bytes_cmp a b
  | c => c
  end.

(* sort.go compareValues, parameterised by the number comparison [nc]. *)
Fixpoint cmpv_gen (nc : num -> num -> comparison) (nm : bool) (a b : value) {struct a} : comparison :=
  match isnull a, isnull b with
  | true, true => Eq
  | true, false => if nm then Gt else Lt
  | false, true => if nm then Lt else Gt
  | false, false =>
    match numof a, numof b with
    | Some x, Some y => nc x y
    | _, _ =>
      if ty_eqb (typeof a) (typeof b) then
        match a, b with
        | VBool x, VBool y => bool_cmp x y
        | VBytes x, VBytes y => bytes_cmp x y
        | VString x, VString y => bytes_cmp x y
        | VIP x, VIP y => ipcmp x y
        | VNet x, VNet y => bytes_cmp x y
        | VType x, VType y => cmpty x y
        | VArray _ l1, VArray _ l2 => lexcmp (cmpv_gen nc nm) l1 l2
        | VSet _ l1, VSet _ l2 => lexcmp (cmpv_gen nc nm) l1 l2
        | _, _ => Eq
        end
      else cmpty (typeof a) (typeof b)
    end
  end.

Definition cmpv : bool -> value -> value -> comparison := cmpv_gen cmpnum.

(* Comparator.Compare on rows of already evaluated key values; [ks] holds the
   Desc flag of every key; a missing key has become null (WithMissingAsNull). *)
Definition vnull : value := VNull (TPrim id_null).

Fixpoint compare_rows (nm : bool) (ks : list bool) (ra rb : list value) : comparison :=
  match ks with
  | [] => Eq
  | d :: ks' =>
    let a := hd vnull ra in
    let b := hd vnull rb in
    match (if d then cmpv nm b a else cmpv nm a b) with
    | Eq => compare_rows nm ks' (tl ra) (tl rb)
    | c => c
    end
  end.

(* ---- sortStableIndices: the native int64 table of the first key *)
Definition i64of (nm : bool) (v : value) : option Z :=
  match v with
  | VNull (TPrim id) => if (id <=? id_time)%N then Some (if nm then maxi64 else mini64) else None
  | VNull _ => None
  | VInt _ z => Some z
  | VUint _ n => Some (Z.min (Z.of_N n) maxi64)
  | _ => None
  end.

(* The less closure handed to sort.SliceStable, for rows a (index i) and b (index j). *)
Fixpoint less_rows (nm native first : bool) (ks : list bool) (ra rb : list value) : bool :=
  match ks with
  | [] => false
  | d :: ks' =>
    let a := if d then hd vnull rb else hd vnull ra in
    let b := if d then hd vnull ra else hd vnull rb in
    let rest := less_rows nm native false ks' (tl ra) (tl rb) in
    let slow := match cmpv nm a b with Eq => rest | Lt => true | Gt => false end in
    if first && native then
      match i64of nm a, i64of nm b with
      | Some x, Some y =>
        if negb (x =? y) then x <? y
        else if negb (x =? maxi64) && negb (x =? mini64) then rest
        else slow
      | _, _ => slow
      end
    else slow
  end.

Definition is_native (nm : bool) (rows : list (list value)) : bool :=
  forallb (fun r => match i64of nm (hd vnull r) with Some _ => true | None => false end) rows.

Definition lt_rows (nm : bool) (ks : list bool) (ra rb : list value) : bool :=
  match compare_rows nm ks ra rb with Lt => true | _ => false end.

(* Value ranges of the implementation (needed by the sentinel argument). *)
Definition in_range (v : value) : Prop :=
  match v with
  | VInt _ z => mini64 <= z <= maxi64
  | _ => True
  end.

(* ---- well-formedness: integers lie in the range of their 64-bit encoding
   (the model's Z and N are unbounded) *)
Definition num_wf (x : num) : Prop :=
  match x with
  | NS z => mini64 <= z <= maxi64
  | NU n => Z.of_N n < 2 ^ 64
  | NF _ => True
  end.

(* [all_nums P v]: every number occurring in v (at any depth) satisfies P *)
Fixpoint all_nums (P : num -> Prop) (v : value) : Prop :=
  match v with
  | VInt _ z => P (NS z)
  | VUint _ n => P (NU n)
  | VFloat _ f => P (NF f)
  | VArray _ l | VSet _ l => (fix go (l : list value) : Prop :=
                                match l with [] => True | x :: r => all_nums P x /\ go r end) l
  | _ => True
  end.
