(* Correspondence check for C10 (join): inputs (key atom, id) of both sides, the
   join kind and the (outer id, matched inner id) pairs the real operator emitted. *)
From ZV Require Import Base.Prelude Model.Agg Model.AggCases Model.Join.

Definition join_case : Type := N * list jrec * list jrec * list (N * option N).

Definition kind_of (n : N) : jkind :=
  match n with 0%N => JInner | 1%N => JLeft | _ => JAnti end.

Definition pair_eqb (a b : N * option N) : bool :=
  N.eqb (fst a) (fst b) &&
  match snd a, snd b with
  | None, None => true
  | Some x, Some y => N.eqb x y
  | _, _ => false
  end.

Definition ids (l : list (jrec * option jrec)) : list (N * option N) :=
  map (fun '(l, o) => (snd l, option_map snd o)) l.

Definition join_ok (c : join_case) : bool :=
  let '(kd, ls, rs, observed) := c in
  mset_eqb pair_eqb (ids (join_atoms (kind_of kd) ls rs)) observed.

Definition join_spec_ok (c : join_case) : bool :=
  let '(kd, ls, rs, observed) := c in
  mset_eqb pair_eqb (ids (nested_atoms (kind_of kd) ls rs)) observed.

Definition join_mismatches (l : list join_case) : list N := mism10 join_ok 0 l.
Definition join_spec_mismatches (l : list join_case) : list N := mism10 join_spec_ok 0 l.
