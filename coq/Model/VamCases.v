(* Correspondence check for C09: the harness lists the real column vectors of
   each lake case (as [col] literals), their real decoding, what the real
   vam.CountByString / vam.Sum computed from them, and what the real planner
   decided; these functions return the indices where the model differs. *)
From ZV Require Import Base.Prelude Model.Vam Model.VamTail.
Local Open Scope Z_scope.

Inductive cbobs := CBPanic | CBTable (rows : list (bytes * Z)) (nulls : Z).
Inductive sumobs := SumPanic | SumIs (z : Z).

Definition agg_case := (list (list (col * list value)) * cbobs * sumobs)%type.
Definition plan_case := (shape * N * N * N * bool * bool * bool)%type.

Fixpoint mism {A} (ok : A -> bool) (i : N) (l : list A) : list N :=
  match l with
  | [] => []
  | x :: r => if ok x then mism ok (N.succ i) r else i :: mism ok (N.succ i) r
  end.

Fixpoint nodupb (l : list bytes) : bool :=
  match l with
  | [] => true
  | x :: r => negb (existsb (bytes_eqb x) r) && nodupb r
  end.

(* number of non-null slots whose dictionary tag is k *)
Fixpoint tagcount (k : nat) (idx : list nat) (nulls : list bool) : Z :=
  match idx with
  | [] => 0
  | i :: r => (if negb (hd false nulls) && Nat.eqb i k then 1 else 0) + tagcount k r (tl nulls)
  end.

Definition counts_okb (n : nat) (counts : list Z) (idx : list nat) (nulls : list bool) : bool :=
  Nat.eqb (List.length counts) n &&
  forallb (fun i => Nat.ltb i n) idx &&
  forallb (fun k => Z.eqb (nth k counts 0) (tagcount k idx nulls)) (seq 0 n).

(* the invariants of the VNG dictionary encoding the theorems assume *)
Definition col_wfb (c : col) : bool :=
  match c with
  | CDictStr e cnt idx nulls => nodupb e && counts_okb (List.length e) cnt idx nulls
  | CDictNum _ e cnt idx nulls => counts_okb (List.length e) cnt idx nulls
  | CStr vals nulls => (Nat.eqb (List.length nulls) 0 || Nat.eqb (List.length nulls) (List.length vals))
  | CNum _ vals nulls => (Nat.eqb (List.length nulls) 0 || Nat.eqb (List.length nulls) (List.length vals))
  | _ => true
  end.

Definition decode_ok (c : agg_case) : bool :=
  let '(objs, _, _) := c in
  forallb (forallb (fun '(cl, dec) => list_eqb value_eqb (decode cl) dec && col_wfb cl)) objs.

Definition cols_of (c : agg_case) : list col :=
  let '(objs, _, _) := c in flat_map (map fst) objs.

Definition countby_ok (c : agg_case) : bool :=
  let '(_, cb, _) := c in
  match v_count_by (cols_of c), cb with
  | None, CBPanic => true
  | Some st, CBTable rows nulls =>
    Z.eqb (cb_nulls st) nulls && Nat.eqb (List.length rows) (List.length (cb_tbl st)) &&
    forallb (fun '(k, n) => Z.eqb (tbl_get k (cb_tbl st)) n) rows
  | _, _ => false
  end.

Definition sum_ok (c : agg_case) : bool :=
  let '(_, _, sm) := c in
  match sm with SumIs z => Z.eqb (v_sum (cols_of c)) z | SumPanic => false end.

Definition decode_mismatches (l : list agg_case) : list N := mism decode_ok 0 l.
Definition countby_mismatches (l : list agg_case) : list N := mism countby_ok 0 l.
Definition sum_mismatches (l : list agg_case) : list N := mism sum_ok 0 l.

Definition plan_ok (c : plan_case) : bool :=
  let '(sh, par, nobj, nvec, filt, sliced, v) := c in Bool.eqb (vectorized sh par nobj nvec filt sliced) v.
Definition plan_mismatches (l : list plan_case) : list N := mism plan_ok 0 l.

(* Head: (limit, scopes as batch lengths, observed emitted lengths per scope) *)
Definition head_case := (nat * list (list nat) * list (list nat))%type.
Definition head_ok (c : head_case) : bool :=
  let '(limit, scopes, obs) := c in
  list_eqb (list_eqb Nat.eqb) (head_scopes limit O scopes) obs.
Definition head_mismatches (l : list head_case) : list N := mism head_ok 0 l.

(* Tail: (limit, scopes as batches of values, observed emitted vectors per scope) *)
Definition tail_case := (nat * list (list (list Z)) * list (list (list Z)))%type.
Definition tail_ok (c : tail_case) : bool :=
  let '(limit, scopes, obs) := c in
  list_eqb (list_eqb (list_eqb Z.eqb)) (tail_scopes limit scopes) obs.
Definition tail_mismatches (l : list tail_case) : list N := mism tail_ok 0 l.
