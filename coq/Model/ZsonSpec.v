(* C02: the vocabulary of the round-trip theorems about Model/Zson.v:
   well-formed values, the types the theorems cover ([good]), and the
   invariant that relates the formatter's typedef state to the analyzer's. *)
From ZV Require Import Base.Prelude Model.Escape Model.Zson.
Local Open Scope N_scope.

(* the names of all named types occurring in a type *)
Fixpoint names_of (t : ty) : list name :=
  match t with
  | TPrim _ => []
  | TRec fs => (fix go (fs : list (name * ty)) : list name :=
                  match fs with [] => [] | (_, ft) :: fr => names_of ft ++ go fr end) fs
  | TArr u => names_of u
  | TNamed n u => n :: names_of u
  end.

Definition is_named (t : ty) : bool := match t with TNamed _ _ => true | _ => false end.

(* The types the round-trip theorems cover.  Type names are not numeric
   (docs/formats/zson.md).  Two shapes are excluded because the faithful model,
   like the code, does not round-trip them (the _refuted witnesses of
   Props/C02.v; open findings F-C02-7 and F-C02-8): a named type that contains
   a type of the same name, and a named type whose definition is a named type
   that mentions further named types. *)
Fixpoint good (t : ty) : Prop :=
  match t with
  | TPrim _ => True
  | TRec fs => (fix go (fs : list (name * ty)) : Prop :=
                  match fs with [] => True | (_, ft) :: fr => good ft /\ go fr end) fs
  | TArr u => good u
  | TNamed n u =>
    numeric n = false /\ ~ In n (names_of u) /\
    (is_named u = true -> names_of (under u) = []) /\ good u
  end.


Fixpoint wf (t : ty) (v : val) {struct t} : Prop :=
  match v with
  | VNull => True
  | _ =>
    match t with
    | TPrim p =>
      match v with
      | VPrim cls tok =>
        cls <> ID_NULL /\ p <> ID_NULL /\ cast_ok cls (TPrim p) = true /\
        (implied_prim p = true -> cls = p)
      | _ => False
      end
    | TRec fs =>
      match v with
      | VRec vs =>
        (fix go (fs : list (name * ty)) (vs : list val) : Prop :=
           match fs, vs with
           | [], [] => True
           | (_, ft) :: fr, x :: xr => wf ft x /\ go fr xr
           | _, _ => False
           end) fs vs
      | _ => False
      end
    | TArr u =>
      match v with
      | VArr vs => (fix go (vs : list val) : Prop :=
                      match vs with [] => True | x :: xr => wf u x /\ go xr end) vs
      | _ => False
      end
    | TNamed _ u => wf u v
    end
  end.


Definition submap (l a : list (name * ty)) : Prop :=
  forall n t, assoc n l = Some t -> assoc n a = Some t.

Definition perm_ok (P : persist) (st : fstate) : Prop :=
  forall n t, assoc n (perm st) = Some t -> persist_enabled P && persist_match P n = true.

Definition Inv (P : persist) (st : fstate) (a : astate) : Prop :=
  submap (tdefs st) a /\ (persist_enabled P = true -> submap (perm st) a) /\ perm_ok P st.


Definition frame (ns : list name) (st st' : fstate) : Prop :=
  forall m, ~ In m ns -> assoc m (tdefs st') = assoc m (tdefs st) /\ assoc m (perm st') = assoc m (perm st).


Definition implied_ok (pi : bool) (t : ty) : Prop := pi = true -> implied t = true.

