(* zed.Context (context.go): the table of interned types keyed by serialized
   type value, the typedefs map, LookupType*, LookupByValue, DecodeTypeValue.
   Definitions only; the model follows the code as it is. *)
From ZV Require Import Base.Prelude Base.Types Base.TypeValue Base.TypeOrder.
Local Open Scope N_scope.

Record ctx := mkctx {
  types : list ty;                    (* byID[30+i] *)
  toType : list (bytes * N);          (* serialized type value -> id (latest first) *)
  toValue : list (N * bytes);         (* id -> stored type value (latest first) *)
  typedefs : list (bytes * (ty * N))  (* name -> (inner type, id of the named type) *)
}.

Definition empty : ctx := mkctx [] [] [] [].

Fixpoint assocN {A} (k : N) (l : list (N * A)) : option A :=
  match l with
  | [] => None
  | (k', v) :: r => if k =? k' then Some v else assocN k r
  end.

Definition next_id (c : ctx) : N := 30 + N.of_nat (List.length (types c)).

Fixpoint sbytes (s : string) : bytes :=
  match s with EmptyString => [] | String a r => N_of_ascii a :: sbytes r end.

(* LookupPrimitive(name) != nil *)
Definition prim_names : list bytes :=
  map sbytes ["uint8"; "uint16"; "uint32"; "uint64"; "int8"; "int16"; "int32"; "int64"; "duration";
              "time"; "float16"; "float32"; "float64"; "bool"; "bytes"; "string"; "ip"; "net";
              "type"; "null"]%string.
Definition is_prim_name (n : bytes) : bool := existsb (bytes_eqb n) prim_names.

(* duplicateField *)
Fixpoint has_dup (names : list bytes) : bool :=
  match names with
  | [] => false
  | n :: r => existsb (bytes_eqb n) r || has_dup r
  end.

Definition bind (c : ctx) (t : ty) (id : N) : list (bytes * (ty * N)) :=
  match t with TNamed n i => (n, (i, id)) :: typedefs c | _ => typedefs c end.

(* the only structural check made inside a critical section: duplicate record fields *)
Definition rejects (t : ty) : bool :=
  match t with TRecord fs => has_dup (map fst fs) | _ => false end.

(* enterWithLock *)
Definition enter (c : ctx) (t : ty) (k : bytes) (id : N) : ctx :=
  mkctx (types c ++ [t]) ((k, id) :: toType c) ((id, k) :: toValue c) (bind c t id).

(* One critical section of a LookupType* method: [t]'s components are types
   of the context already.  None = error (nothing changes). *)
Definition lookup1 (c : ctx) (t : ty) : ctx * option N :=
  let k := encode t in
  match assoc k (toType c) with
  | Some id => (mkctx (types c) (toType c) (toValue c) (bind c t id), Some id)
  | None =>
    if rejects t then (c, None)
    else let id := next_id c in (enter c t k id, Some id)
  end.

Definition build_list (bf : ctx -> ty -> ctx * option (ty * N)) : ctx -> list ty -> ctx * option (list ty) :=
  fix go (c : ctx) (l : list ty) {struct l} : ctx * option (list ty) :=
    match l with
    | [] => (c, Some [])
    | s :: r =>
      let (c1, o) := bf c s in
      match o with
      | None => (c1, None)
      | Some (t, _) =>
        let (c2, o2) := go c1 r in
        (c2, match o2 with Some ts => Some (t :: ts) | None => None end)
      end
    end.

Definition build_fields (bf : ctx -> ty -> ctx * option (ty * N))
  : ctx -> list (bytes * ty) -> ctx * option (list (bytes * ty)) :=
  fix go (c : ctx) (l : list (bytes * ty)) {struct l} : ctx * option (list (bytes * ty)) :=
    match l with
    | [] => (c, Some [])
    | f :: r =>
      let (c1, o) := bf c (snd f) in
      match o with
      | None => (c1, None)
      | Some (t, _) =>
        let (c2, o2) := go c1 r in
        (c2, match o2 with Some ts => Some ((fst f, t) :: ts) | None => None end)
      end
    end.

Definition finish (c : ctx) (t : ty) : ctx * option (ty * N) :=
  let (c', o) := lookup1 c t in
  (c', match o with Some id => Some (t, id) | None => None end).

(* Creating a type from a tree: "by fields" (harness: components first, left
   to right) and DecodeTypeValue (same order; references read the context's
   typedefs).  Failures keep the types interned so far. *)
Fixpoint build (c : ctx) (s : ty) {struct s} : ctx * option (ty * N) :=
  match s with
  | TPrim id => (c, if valid_prim id then Some (s, id) else None)
  | TRef n => (c, match assoc n (typedefs c) with Some (i, id) => Some (TNamed n i, id) | None => None end)
  | TEnum _ => finish c s
  | TArray s1 =>
    let (c1, o) := build c s1 in
    match o with Some (t, _) => finish c1 (TArray t) | None => (c1, None) end
  | TSet s1 =>
    let (c1, o) := build c s1 in
    match o with Some (t, _) => finish c1 (TSet t) | None => (c1, None) end
  | TError s1 =>
    let (c1, o) := build c s1 in
    match o with Some (t, _) => finish c1 (TError t) | None => (c1, None) end
  | TMap sk sv =>
    let (c1, o) := build c sk in
    match o with
    | None => (c1, None)
    | Some (tk, _) =>
      let (c2, o2) := build c1 sv in
      match o2 with Some (tv, _) => finish c2 (TMap tk tv) | None => (c2, None) end
    end
  | TNamed n s1 =>
    let (c1, o) := build c s1 in
    match o with
    | None => (c1, None)
    | Some (i, _) => if is_prim_name n then (c1, None) else finish c1 (TNamed n i)
    end
  | TRecord fs =>
    let (c1, o) := build_fields (fun c s => build c s) c fs in
    match o with Some ts => finish c1 (TRecord ts) | None => (c1, None) end
  | TUnion ss =>
    let (c1, o) := build_list (fun c s => build c s) c ss in
    match o with Some ts => finish c1 (TUnion (usort ts)) | None => (c1, None) end
  end.

(* LookupByValue's tail: toValue[typ] is set only when absent; toType[tv] = typ *)
Definition alias (c : ctx) (tv : bytes) (id : N) : ctx :=
  mkctx (types c) ((tv, id) :: toType c)
        (match assocN id (toValue c) with Some _ => toValue c | None => (id, tv) :: toValue c end)
        (typedefs c).

Inductive op := OFields (t : ty) | OValue (b : bytes) | ODecode (b : bytes).

Definition do_op (c : ctx) (o : op) : ctx * option N :=
  match o with
  | OFields t => let (c', r) := build c t in (c', option_map snd r)
  | ODecode b =>
    match parse_tv b with
    | None => (c, None)
    | Some (s, _) => let (c', r) := build c s in (c', option_map snd r)
    end
  | OValue b =>
    match assoc b (toType c) with
    | Some id => (c, Some id)
    | None =>
      match parse_tv b with
      | None => (c, None)
      | Some (s, _) =>
        let (c', r) := build c s in
        match r with
        | None => (c', None)
        | Some (_, id) => (alias c' b id, Some id)
        end
      end
    end
  end.

(* LookupTypeValue for the ids of the table *)
Definition table (c : ctx) : list (option bytes) :=
  map (fun i => assocN (30 + N.of_nat i) (toValue c)) (seq 0 (List.length (types c))).
