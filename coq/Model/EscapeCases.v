(* Correspondence for C02 (escaping): what the real QuotedString / QuotedName /
   lexer produced, compared with the model. *)
From ZV Require Import Base.Prelude Model.Escape.
Local Open Scope N_scope.

Fixpoint emism {A} (ok : A -> bool) (i : N) (l : list A) : list N :=
  match l with
  | [] => []
  | x :: r => if ok x then emism ok (N.succ i) r else i :: emism ok (N.succ i) r
  end.

Definition str_eqb : str -> str -> bool := list_eqb N.eqb.

Definition ostr_eqb (a b : option str) : bool :=
  match a, b with
  | Some x, Some y => str_eqb x y
  | None, None => true
  | _, _ => false
  end.

(* (s, QuotedString(s)) *)
Definition quote_mismatches (l : list (str * str)) : list N :=
  emism (fun '(s, q) => str_eqb (quoted s) q) 0 l.

(* (literal text, Some decoded | None if the real parser rejects it) *)
Definition scan_mismatches (l : list (str * option str)) : list N :=
  emism (fun '(t, d) => ostr_eqb (option_map fst (unquote t)) d) 0 l.

(* (ASCII name, QuotedName(name)) *)
Definition name_mismatches (l : list (str * str)) : list N :=
  emism (fun '(s, q) => str_eqb (quoted_name ascii_letter s) q) 0 l.
