(* Correspondence check for C18: the harness lists, for each writer run on the
   real code, the fault-free call counts and the verdict observed for every
   injected fault; these functions return the indices where the model differs. *)
From ZV Require Import Base.Prelude Model.Writer.
Local Open Scope nat_scope.

Fixpoint mism {A} (ok : A -> bool) (i : N) (l : list A) : list N :=
  match l with
  | [] => []
  | x :: r => if ok x then mism ok (N.succ i) r else i :: mism ok (N.succ i) r
  end.

Definition mode_of (c : N) : fmode :=
  match c with 1%N => FOneShot | 2%N => FSticky | 3%N => FShort | 4%N => FClose | _ => FNone end.

(* observation: (mode code, k, verdict); all counts are given in binary *)
Definition obs := (N * N * N)%type.

(* kind, on pkg/bufwriter?, (logical) writes per Write, writes in Close,
   buffered: sink calls per logical write (the last one is bufwriter's final flush),
   observations *)
Definition static_case := (wkind * bool * list N * N * list N * list obs)%type.

Definition static_ok (c : static_case) : bool :=
  let '(k, buffered, ops, nclose, spill, observed) := c in
  let spill := map N.to_nat spill in
  match write_skels k (map N.to_nat ops), close_skel k buffered (N.to_nat nclose) with
  | Some ws, Some cl =>
    forallb (fun '(m, kk, v) =>
               N.eqb (N.of_nat (fst (run (static_env k buffered spill (mkFault (mode_of m) (N.to_nat kk))) ws cl))) v)
            observed
  | _, _ => false
  end.

Definition static_mismatches (l : list static_case) : list N := mism static_ok 0 l.

(* on pkg/bufwriter?, frame threshold, (types bytes, values bytes) added by each value,
   spill, observed logical writes per Write and in Close (fault-free), observations *)
Definition zng_case := (bool * N * list (N * N) * list N * list N * N * list obs)%type.

Definition zng_ok (c : zng_case) : bool :=
  let '(buffered, thresh, szs, spill, ops, nclose, observed) := c in
  let spill := map N.to_nat spill in
  let env_of f := mkEnv buffered spill f in
  (* the model predicts the fault-free call pattern from the sizes alone *)
  (let '(v, _, l, nc) := zrun (env_of (mkFault FNone 0)) thresh szs in
   Nat.eqb v 0 && list_eqb N.eqb (map N.of_nat l) ops && N.eqb (N.of_nat nc) nclose)
  && forallb (fun '(m, kk, v) =>
                let '(v', _, _, _) := zrun (env_of (mkFault (mode_of m) (N.to_nat kk))) thresh szs in
                N.eqb (N.of_nat v') v)
             observed.

Definition zng_mismatches (l : list zng_case) : list N := mism zng_ok 0 l.
