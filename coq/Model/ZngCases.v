(* Correspondence check for C01: the harness lists what the real writer
   produced; these functions return the indices of the cases where the model
   writer produces other bytes, or where the model reader applied to the real
   bytes does not deliver the values that were written. *)
From ZV Require Import Base.Prelude Base.Uvarint Base.Zcode Model.Zng.
Local Open Scope N_scope.

(* LZ4 as observed: (uncompressed block, compressed block) for every frame the
   real writer compressed; blocks it left uncompressed are absent *)
Definition lz4_table := list (bytes * bytes).

Fixpoint tbl_c (t : lz4_table) (b : bytes) : option bytes :=
  match t with
  | [] => None
  | (u, z) :: r => if bytes_eqb u b then Some z else tbl_c r b
  end.

Fixpoint tbl_d (t : lz4_table) (z : bytes) (n : N) : option bytes :=
  match t with
  | [] => None
  | (u, z') :: r => if bytes_eqb z' z && (len u =? n) then Some u else tbl_d r z n
  end.

Fixpoint rty_eqb (a b : rty) : bool :=
  match a, b with
  | RPrim x, RPrim y => N.eqb x y
  | RRecord x, RRecord y =>
    (fix go (x y : list (bytes * rty)) : bool :=
       match x, y with
       | [], [] => true
       | (n, t) :: x', (n', t') :: y' => bytes_eqb n n' && rty_eqb t t' && go x' y'
       | _, _ => false
       end) x y
  | RArray x, RArray y => rty_eqb x y
  | RSet x, RSet y => rty_eqb x y
  | RMap k v, RMap k' v' => rty_eqb k k' && rty_eqb v v'
  | RUnion x, RUnion y =>
    (fix go (x y : list rty) : bool :=
       match x, y with
       | [], [] => true
       | t :: x', t' :: y' => rty_eqb t t' && go x' y'
       | _, _ => false
       end) x y
  | REnum x, REnum y => list_eqb bytes_eqb x y
  | RError x, RError y => rty_eqb x y
  | RNamed n t, RNamed n' t' => bytes_eqb n n' && rty_eqb t t'
  | _, _ => false        (* RBad equals nothing, itself included *)
  end.

Definition obytes_eqb (a b : option bytes) : bool :=
  match a, b with
  | None, None => true
  | Some x, Some y => bytes_eqb x y
  | _, _ => false
  end.

Definition titem_eqb (a b : titem) : bool :=
  match a, b with
  | TVal t x, TVal t' y => rty_eqb t t' && obytes_eqb x y
  | TCtl f x, TCtl f' y => N.eqb f f' && bytes_eqb x y
  | _, _ => false
  end.

(* one case: independently written streams (compress, frame threshold,
   caller-level operations; each writer is closed), the LZ4 table, the bytes
   the real writers produced, concatenated *)
Definition zcase := (list (bool * N * list hop) * lz4_table * bytes)%type.

Definition model_bytes (t : lz4_table) (ss : list (bool * N * list hop)) : bytes :=
  flat_map (fun s => match s with (c, th, hs) => write (tbl_c t) c th (lower e_init hs) end) ss.

Definition write_ok (c : zcase) : bool :=
  match c with (ss, t, real) => bytes_eqb (model_bytes t ss) real end.

Definition read_ok (c : zcase) : bool :=
  match c with
  | (ss, t, real) =>
    match parse (tbl_d t) real with
    | None => false
    | Some streams =>
      list_eqb titem_eqb (flat_map typed_stream streams)
               (flat_map (fun s => match s with (_, _, hs) => typed_hops hs end) ss)
    end
  end.

Fixpoint mism {A} (ok : A -> bool) (i : N) (l : list A) : list N :=
  match l with
  | [] => []
  | x :: r => if ok x then mism ok (N.succ i) r else i :: mism ok (N.succ i) r
  end.

Definition zng_write_mismatches (l : list zcase) : list N := mism write_ok 0 l.
Definition zng_read_mismatches (l : list zcase) : list N := mism read_ok 0 l.

(* uvarint / zcode samples: (n, bytes of binary.AppendUvarint, zcode.SizeOfUvarint) *)
Definition uvarint_mismatches (l : list (N * bytes * N)) : list N :=
  mism (fun c => match c with (n, b, s) =>
                   bytes_eqb (uvarint n) b && (size_of_uvarint n =? s) &&
                   match read_uvarint (b ++ [77]) with Some (m, [77]) => m =? n | _ => false end
                 end) 0 l.
