(* Correspondence check for C13: the commit graph, action logs and object
   contents observed on a real lake are loaded into the model's store; the
   model's read_commit must return what the real query at each commit returned. *)
From ZV Require Import Base.Prelude Model.Merge Model.Commits.

Fixpoint insert_nat (x : nat) (l : list nat) : list nat :=
  match l with [] => [x] | y :: r => if Nat.leb x y then x :: l else y :: insert_nat x r end.
Definition sort_nat (l : list nat) : list nat := fold_right insert_nat [] l.

Definition commit_case :=
  (list (cid * cid * list action) * list (oid * list nat) * list (cid * list nat))%type.

Definition mk_store (c : commit_case) : store :=
  let '(cs, os, _) := c in
  {| commits := map (fun '(i, p, a) => (i, {| cparent := p; cacts := a |})) cs;
     objects := os; branches := [] |}.

Definition query_ok (s : store) (fuel : nat) (q : cid * list nat) : bool :=
  let '(c, want) := q in
  match read_commit s fuel c with
  | Some vs => list_eqb Nat.eqb (sort_nat (List.concat vs)) (sort_nat want)
  | None => false
  end.

Fixpoint cmis (i : N) (l : list commit_case) : list N :=
  match l with
  | [] => []
  | c :: r =>
    let '(cs, _, qs) := c in
    if forallb (query_ok (mk_store c) (S (List.length cs))) qs then cmis (N.succ i) r
    else i :: cmis (N.succ i) r
  end.

Definition commit_mismatches (l : list commit_case) : list N := cmis 0 l.
