(* C20  Model of the fuse operator: the type merge of runtime/sam/expr/agg/schema.go,
   the fuse() aggregate of agg/fuse.go, the shaper of runtime/sam/expr/shaper.go
   specialised to Cast|Fill|Order (what fuse.Fuser.Read builds) and the
   buffering/spilling of runtime/sam/op/fuse/fuser.go.
   Definitions only.  The model mirrors the code as it is.

   Types: primitive ids (zed.ID*; 29 = null), records, arrays, sets, maps,
   unions, named types.  Enums, error types and type values are outside the
   algebra ([ty_err] stands for the type of an error value produced by the
   shaper).  Values are untyped trees like zcode bytes: null, a primitive
   body, a container (record, array, set or map body), a tagged union value.
   Set normalisation (zed.NormalizeSet) is not modelled: a set body is a list. *)
From ZV Require Import Base.Prelude.

Inductive ty :=
| TPrim (id : N)
| TRec (fs : list (string * ty))
| TArr (e : ty)
| TSet (e : ty)
| TMap (k v : ty)
| TUnion (ts : list ty)
| TNamed (n : string) (t : ty).

Definition ty_null := TPrim 29.
Definition ty_err := TPrim 200.

Inductive val :=
| VNull
| VPrim (b : N)
| VList (l : list val)
| VUnion (tag : nat) (v : val).

Definition tv := (ty * val)%type.

(* ---------------------------------------------------------------- equality *)

Fixpoint ty_eqb (a b : ty) {struct a} : bool :=
  match a, b with
  | TPrim x, TPrim y => N.eqb x y
  | TRec fa, TRec fb =>
    (fix go (la lb : list (string * ty)) : bool :=
       match la, lb with
       | [], [] => true
       | (na, ta) :: ra, (nb, tb) :: rb => String.eqb na nb && ty_eqb ta tb && go ra rb
       | _, _ => false
       end) fa fb
  | TArr x, TArr y => ty_eqb x y
  | TSet x, TSet y => ty_eqb x y
  | TMap k v, TMap k' v' => ty_eqb k k' && ty_eqb v v'
  | TUnion la, TUnion lb =>
    (fix go (la lb : list ty) : bool :=
       match la, lb with
       | [], [] => true
       | x :: ra, y :: rb => ty_eqb x y && go ra rb
       | _, _ => false
       end) la lb
  | TNamed n t, TNamed n' t' => String.eqb n n' && ty_eqb t t'
  | _, _ => false
  end.

Fixpoint val_eqb (a b : val) {struct a} : bool :=
  match a, b with
  | VNull, VNull => true
  | VPrim x, VPrim y => N.eqb x y
  | VList la, VList lb =>
    (fix go (la lb : list val) : bool :=
       match la, lb with
       | [], [] => true
       | x :: ra, y :: rb => val_eqb x y && go ra rb
       | _, _ => false
       end) la lb
  | VUnion t x, VUnion t' y => Nat.eqb t t' && val_eqb x y
  | _, _ => false
  end.

(* ---------------------------------------------------------------- zed.TypeUnder, kinds *)

Fixpoint under (t : ty) : ty :=
  match t with TNamed _ t' => under t' | _ => t end.

Definition eq_under (a b : ty) : bool := ty_eqb (under a) (under b).   (* a.ID() == b.ID() *)

Definition is_null (t : ty) : bool :=
  match under t with TPrim 29 => true | _ => false end.
Definition is_prim (t : ty) : bool :=     (* zed.IsPrimitiveType *)
  match under t with TPrim _ => true | _ => false end.
Definition is_rec (t : ty) : bool :=
  match under t with TRec _ => true | _ => false end.
Definition is_map (t : ty) : bool :=
  match under t with TMap _ _ => true | _ => false end.
Definition is_arr (t : ty) : bool :=
  match under t with TArr _ => true | _ => false end.
Definition inner (t : ty) : option ty :=  (* zed.InnerType *)
  match under t with TArr e | TSet e => Some e | _ => None end.

Definition kind (t : ty) : N :=
  match under t with
  | TPrim _ => 0 | TRec _ => 1 | TArr _ => 2 | TSet _ => 3 | TMap _ _ => 4 | TUnion _ => 5
  | TNamed _ _ => 0
  end%N.

(* ---------------------------------------------------------------- zed.CompareTypes, LookupTypeUnion, UniqueTypes *)

Fixpoint lex_cmp {A} (c : A -> A -> comparison) (la lb : list A) : comparison :=
  match la, lb with
  | x :: ra, y :: rb => match c x y with Eq => lex_cmp c ra rb | r => r end
  | _, _ => Eq
  end.

Fixpoint cmp_ty (fuel : nat) (a b : ty) : comparison :=
  match fuel with
  | O => Eq
  | S f =>
    if eq_under a b then
      match a, b with
      | TNamed na ta, TNamed nb tb =>
        match String.compare na nb with Eq => cmp_ty f ta tb | r => r end
      | TNamed _ _, _ => Gt
      | _, TNamed _ _ => Lt
      | _, _ => Eq
      end
    else
      match N.compare (kind a) (kind b) with
      | Eq =>
        match under a, under b with
        | TPrim x, TPrim y => N.compare x y
        | TRec fa, TRec fb =>
          match Nat.compare (List.length fa) (List.length fb) with
          | Eq => match lex_cmp String.compare (map fst fa) (map fst fb) with
                  | Eq => lex_cmp (cmp_ty f) (map snd fa) (map snd fb)
                  | r => r
                  end
          | r => r
          end
        | TArr x, TArr y => cmp_ty f x y
        | TSet x, TSet y => cmp_ty f x y
        | TMap k v, TMap k' v' => match cmp_ty f k k' with Eq => cmp_ty f v v' | r => r end
        | TUnion la, TUnion lb =>
          match Nat.compare (List.length la) (List.length lb) with
          | Eq => lex_cmp (cmp_ty f) la lb
          | r => r
          end
        | _, _ => Eq
        end
      | r => r
      end
  end.

(* stable insertion sort = sort.SliceStable for a strict weak order *)
(* [x] precedes the elements of [l] in the original order: it goes before the
   first element that is not strictly smaller (stability). *)
Fixpoint insert_stable (fuel : nat) (x : ty) (l : list ty) : list ty :=
  match l with
  | [] => [x]
  | y :: r => match cmp_ty fuel y x with
              | Lt => y :: insert_stable fuel x r
              | _ => x :: y :: r
              end
  end.

Definition sort_tys (fuel : nat) (l : list ty) : list ty :=
  fold_right (insert_stable fuel) [] l.

Definition mk_union (fuel : nat) (ts : list ty) : ty := TUnion (sort_tys fuel ts).

Fixpoint dedup_adj (l : list ty) : list ty :=
  match l with
  | x :: ((y :: _) as r) => if ty_eqb x y then dedup_adj r else x :: dedup_adj r
  | _ => l
  end.

Definition unique_types (fuel : nat) (l : list ty) : list ty := dedup_adj (sort_tys fuel l).

(* ---------------------------------------------------------------- agg.merge (schema.go) *)

Fixpoint mem_ty (t : ty) (l : list ty) : bool :=
  match l with [] => false | x :: r => ty_eqb x t || mem_ty t r end.

Definition append_if_absent (types : list ty) (t : ty) : list ty :=
  if mem_ty t types then types else types ++ [t].

Fixpoint lookup_field (n : string) (fs : list (string * ty)) : option ty :=
  match fs with
  | [] => None
  | (n', t) :: r => if String.eqb n' n then Some t else lookup_field n r
  end.

(* fields[i].Type = m fields[i].Type t for the first field named n *)
Fixpoint upd_first (m : ty -> ty -> ty) (n : string) (t : ty) (fs : list (string * ty)) : list (string * ty) :=
  match fs with
  | [] => []
  | (n', t') :: r =>
    if String.eqb n' n then (if ty_eqb t' t then (n', t') else (n', m t' t)) :: r
    else (n', t') :: upd_first m n t r
  end.

Definition merge_fields (m : ty -> ty -> ty) (fa fb : list (string * ty)) : list (string * ty) :=
  fold_left (fun fields '(n, t) =>
               match lookup_field n fields with
               | None => fields ++ [(n, t)]
               | Some _ => upd_first m n t fields
               end) fb fa.

Fixpoint upd_nth {A} (n : nat) (f : A -> A) (l : list A) : list A :=
  match l, n with
  | [], _ => []
  | x :: r, O => f x :: r
  | x :: r, S n' => x :: upd_nth n' f r
  end.

(* mergeAllRecords: every record type is merged into the first one *)
Definition merge_all_records (m : ty -> ty -> ty) (types : list ty) : list ty :=
  fst (fold_left (fun '(out, ri) t =>
                    if is_rec t then
                      match ri with
                      | None => (out ++ [t], Some (List.length out))
                      | Some i => (upd_nth i (fun r => m r t) out, ri)
                      end
                    else (out ++ [t], ri)) types ([], None)).

Fixpoint merge (fuel : nat) (a b : ty) : ty :=
  match fuel with
  | O => a
  | S f =>
    if ty_eqb a b then a            (* a == b: the same type (fix 707f5037f) *)
    else if is_null a then b
    else if is_null b then a
    else
      match under a, under b with
      | TRec fa, TRec fb => TRec (merge_fields (merge f) fa fb)
      | TArr x, TArr y => TArr (merge f x y)
      | TArr x, TSet y => TArr (merge f x y)
      | TSet x, TArr y => TArr (merge f x y)
      | TSet x, TSet y => TSet (merge f x y)
      | TMap k v, TMap k' v' => TMap (merge f k k') (merge f v v')
      | TUnion ta, bu =>
        let types := match bu with
                     | TUnion tb => fold_left append_if_absent tb ta
                     | _ => append_if_absent ta b
                     end in
        match merge_all_records (merge f) types with
        | [t] => t
        | types' => mk_union fuel types'
        end
      | _, TUnion _ => merge f b a
      | _, _ => mk_union fuel [a; b]
      end
  end.

(* Schema.Mixin *)
Definition mixin (fuel : nat) (s : option ty) (t : ty) : option ty :=
  match s with None => Some t | Some c => Some (merge fuel c t) end.

(* ---------------------------------------------------------------- fuse() aggregate (agg/fuse.go) *)

(* Consume records each new type with the next index; Result mixes the types
   in index order. *)
Fixpoint index_of_ty (t : ty) (l : list ty) : option nat :=
  match l with
  | [] => None
  | x :: r => if ty_eqb x t then Some O else option_map S (index_of_ty t r)
  end.

Definition agg_consume (shapes : list ty) (t : ty) : list ty :=
  match index_of_ty t shapes with Some _ => shapes | None => shapes ++ [t] end.

Definition agg_type (fuel : nat) (ts : list ty) : option ty :=
  fold_left (mixin fuel) (fold_left agg_consume ts []) None.

(* ---------------------------------------------------------------- the shaper, Cast|Fill|Order (shaper.go) *)

Fixpoint find_index {A} (p : A -> bool) (l : list A) : option nat :=
  match l with
  | [] => None
  | x :: r => if p x then Some O else option_map S (find_index p r)
  end.

Definition best_union_tag (i o : ty) : option nat :=
  match under o with
  | TUnion ts =>
    match find_index (ty_eqb i) ts with
    | Some k => Some k
    | None =>
      match find_index (ty_eqb (under i)) ts with
      | Some k => Some k
      | None => find_index (fun t => ty_eqb (under t) (under i)) ts
      end
    end
  | _ => None
  end.

Definition is_some {A} (o : option A) : bool := match o with Some _ => true | None => false end.

Fixpoint insert_name (x : string * ty) (l : list (string * ty)) : list (string * ty) :=
  match l with
  | [] => [x]
  | y :: r => if String.ltb (fst x) (fst y) then x :: y :: r else y :: insert_name x r
  end.
Definition sort_fields (l : list (string * ty)) := fold_right insert_name [] l.

Fixpoint fields_eqb (a b : list (string * ty)) : bool :=
  match a, b with
  | [], [] => true
  | (n, t) :: ra, (n', t') :: rb => String.eqb n n' && ty_eqb t t' && fields_eqb ra rb
  | _, _ => false
  end.

Fixpoint map_opt {A B} (f : A -> option B) (l : list A) : option (list B) :=
  match l with
  | [] => Some []
  | x :: r => match f x with
              | None => None
              | Some y => match map_opt f r with None => None | Some ys => Some (y :: ys) end
              end
  end.

Definition has_field (n : string) (fs : list (string * ty)) : bool := is_some (lookup_field n fs).

(* shaperFields with Fill and Order set and Crop clear *)
Definition shaper_fields (st : ty -> ty -> option ty) (fi fo : list (string * ty)) : option (list (string * ty)) :=
  match map_opt (fun '(n, ot) =>
                   match lookup_field n fi with
                   | Some it => option_map (fun t => (n, t)) (st it ot)
                   | None => Some (n, ot)
                   end) fo with
  | None => None
  | Some fields => Some (fields ++ filter (fun '(n, _) => negb (has_field n fo)) (sort_fields fi))
  end.

Fixpoint shaper_type (fuel : nat) (i o : ty) : option ty :=
  match fuel with
  | O => None
  | S f =>
    if eq_under i o || is_null i then Some o
    else if is_map o then None
    else if is_prim i && is_prim o then Some o
    else
      match under i with
      | TUnion ts =>
        if forallb (fun t => is_some (shaper_type f t o)) ts then Some o else None
      | _ =>
        if is_some (best_union_tag i (under o)) then Some o
        else
          match under i, under o with
          | TRec fi, TRec fo =>
            match shaper_fields (shaper_type f) fi fo with
            | None => None
            | Some fields => if fields_eqb fields fo then Some o else Some (TRec fields)
            end
          | _, _ =>
            match inner i, inner o with
            | Some ii, Some oi =>
              match shaper_type f ii oi with
              | None => None
              | Some t => if ty_eqb t oi then Some o
                          else if is_arr o then Some (TArr t) else Some (TSet t)
              end
            | _, _ => Some i
            end
          end
      end
  end.

Inductive step :=
| SCopy (to : ty)
| SNull (to : ty)
| SCastPrim (from to : ty)
| SFromUnion (to : ty) (cs : list step)
| SToUnion (tag : nat) (to : ty)
| SArr (to : ty) (c : step)
| SSet (to : ty) (c : step)
| SRec (to : ty) (cs : list (nat * step)).

Definition step_to (s : step) : ty :=
  match s with
  | SCopy t | SNull t | SCastPrim _ t | SFromUnion t _ | SToUnion _ t | SArr t _ | SSet t _ | SRec t _ => t
  end.

Fixpoint index_field (n : string) (fs : list (string * ty)) : option (nat * ty) :=
  match fs with
  | [] => None
  | (n', t) :: r => if String.eqb n' n then Some (O, t)
                    else option_map (fun '(k, t) => (S k, t)) (index_field n r)
  end.

(* newRecordStep *)
Definition rec_children (ns : ty -> ty -> option step) (fi fo : list (string * ty)) : option (list (nat * step)) :=
  map_opt (fun '(n, ot) =>
             match index_field n fi with
             | None => Some (O, SNull ot)
             | Some (ind, it) => option_map (fun c => (ind, c)) (ns it ot)
             end) fo.

Definition tag_step (i o : ty) : option step :=
  match best_union_tag i o with Some tag => Some (SToUnion tag o) | None => None end.

Fixpoint new_step (fuel : nat) (i o : ty) : option step :=
  match fuel with
  | O => None
  | S f =>
    if is_null i then Some (SNull o)
    else if eq_under i o then Some (SCopy o)
    else
      match under i, under o with
      | TRec fi, TRec fo => option_map (SRec o) (rec_children (new_step f) fi fo)
      | _, _ =>
        if is_prim i && is_prim o then Some (SCastPrim i o)
        else
          match inner i with
          | Some ii =>
            match under o with
            | TArr oi => option_map (SArr o) (new_step f ii oi)
            | TSet oi => option_map (SSet o) (new_step f ii oi)
            | _ => tag_step i o
            end
          | None =>
            match under i with
            | TUnion ts =>
              match map_opt (fun t => new_step f t o) ts with
              | Some cs => Some (SFromUnion o cs)
              | None => tag_step i o
              end
            | _ => tag_step i o
            end
          end
      end
  end.

(* newShaper *)
Definition new_shaper (fuel : nat) (i o : ty) : option (ty * step) :=
  match shaper_type fuel i o with
  | None => None
  | Some typ => match new_step fuel i typ with
                | None => None
                | Some s => Some (typ, s)
                end
  end.

Definition field_names (t : ty) : list string :=
  match under t with TRec fs => map fst fs | _ => [] end.

Definition wrap_union (fuel : nat) (uts : list ty) (r : ty * val) : val :=
  match snd r with
  | VNull => VNull
  | x => match index_of_ty (fst r) uts with
         | Some k => VUnion k x
         | None => VUnion 99 x
         end
  end.

Definition pick_nth {A} (f : step -> A) (d : A) : list step -> nat -> A :=
  fix pick (cs : list step) (k : nat) : A :=
    match cs, k with
    | c :: _, O => f c
    | _ :: r, S k' => pick r k'
    | [], _ => d
    end.

(* step.build; the type returned is the dynamic type of the result *)
Fixpoint build (fuel : nat) (s : step) (v : val) {struct s} : ty * val :=
  match v with
  | VNull => (step_to s, VNull)
  | _ =>
    match s with
    | SCopy to => (to, v)
    | SNull to => (to, VNull)
    | SCastPrim _ _ => (ty_err, VNull)     (* primitive casts are not modelled *)
    | SFromUnion to cs =>
      match v with
      | VUnion tag x =>
        pick_nth (fun c => build fuel c x) (ty_err, VNull) cs tag
      | _ => (ty_err, VNull)
      end
    | SToUnion tag to => (to, VUnion tag v)
    | SArr to c | SSet to c =>
      match v with
      | VList l =>
        let rs := map (build fuel c) l in
        let is_set := match s with SSet _ _ => true | _ => false end in
        match unique_types fuel (map fst rs) with
        | [] => (to, VList (map snd rs))
        | [t1] =>
          ((if eq_under t1 (match inner to with Some e => e | None => ty_null end) then to
            else if is_set then TSet t1 else TArr t1),
           VList (map snd rs))
        | uts =>
          let u := mk_union fuel uts in
          ((if eq_under u (match inner to with Some e => e | None => ty_null end) then to
            else if is_set then TSet u else TArr u),
           VList (map (wrap_union fuel (sort_tys fuel uts)) rs))
        end
      | _ => (ty_err, VNull)
      end
    | SRec to cs =>
      match v with
      | VList l =>
        let rs := map (fun ic : nat * step =>
                         let '(ind, c) := ic in
                         match c with
                         | SNull t => (t, VNull, false)
                         | _ => let r := build fuel c (nth ind l VNull) in
                                if eq_under (fst r) (step_to c) then (step_to c, snd r, false)
                                else (fst r, snd r, true)
                         end) cs in
        ((if existsb (fun x => snd x) rs
          then TRec (combine (field_names to) (map (fun x => fst (fst x)) rs))
          else to),
         VList (map (fun x => snd (fst x)) rs))
      | _ => (ty_err, VNull)
      end
    end
  end.

(* ---------------------------------------------------------------- ConstShaper.Eval with its cache keyed by input type id *)

Definition cache := list (ty * step).   (* key: underlying type = type id *)

Fixpoint cache_get (k : ty) (c : cache) : option step :=
  match c with
  | [] => None
  | (k', s) :: r => if ty_eqb k' k then Some s else cache_get k r
  end.

Definition shaper_eval (fuel : nat) (T : ty) (c : cache) (x : tv) : cache * tv :=
  let '(t, v) := x in
  match v with
  | VNull => (c, (T, VNull))
  | _ =>
    if eq_under t T then (c, (T, v))
    else
      match cache_get (under t) c with
      | Some s => (c, build fuel s v)
      | None =>
        match new_shaper fuel t T with
        | None => (c, (ty_err, VNull))
        | Some (_, s) => ((under t, s) :: c, build fuel s v)
        end
      end
  end.

Fixpoint shape_all (fuel : nat) (T : ty) (c : cache) (vs : list tv) : list tv :=
  match vs with
  | [] => []
  | x :: r => let '(c', y) := shaper_eval fuel T c x in y :: shape_all fuel T c' r
  end.

(* ---------------------------------------------------------------- fuse.Fuser (fuser.go) *)

(* Write: Mixin on a type's first appearance *)
Definition fuser_mix (fuel : nat) (st : list ty * option ty) (t : ty) : list ty * option ty :=
  let '(seen, cur) := st in
  if mem_ty t seen then st else (t :: seen, mixin fuel cur t).

Definition fuser_type (fuel : nat) (vs : list tv) : option ty :=
  snd (fold_left (fuser_mix fuel) (map fst vs) ([], None)).

Section Spill.
  (* the temporary file: what has been written is read back after Rewind *)
  Variable file : Type.
  Variable file_empty : file.
  Variable file_write : file -> tv -> file.
  Variable file_read : file -> list tv.
  Variable vsize : tv -> nat.     (* len(rec.Bytes()) *)

  Record fbuf := { nbytes : nat; vals : list tv; spiller : option file }.

  Definition fuser_write (mem : nat) (b : fbuf) (x : tv) : fbuf :=
    match spiller b with
    | Some f => {| nbytes := nbytes b; vals := vals b; spiller := Some (file_write f x) |}
    | None =>
      let n := (nbytes b + vsize x)%nat in
      if Nat.leb mem n then
        {| nbytes := n; vals := [];
           spiller := Some (file_write (fold_left file_write (vals b) file_empty) x) |}
      else {| nbytes := n; vals := vals b ++ [x]; spiller := None |}
    end.

  Definition fuser_stored (mem : nat) (vs : list tv) : list tv :=
    let b := fold_left (fuser_write mem) vs {| nbytes := 0; vals := []; spiller := None |} in
    match spiller b with Some f => file_read f | None => vals b end.

  (* the operator: buffer everything, then shape every value to the fused type *)
  Definition fuse_op (fuel mem : nat) (vs : list tv) : list tv :=
    match fuser_type fuel vs with
    | None => []
    | Some T => shape_all fuel T [] (fuser_stored mem vs)
    end.
End Spill.

(* ---------------------------------------------------------------- leaves (the specification side) *)

Inductive pelem := PField (n : string) | PIdx (k : nat).
Definition leaf := (list pelem * N * N)%type.   (* path, primitive type id, body *)

Definition leaves_rec (lv : ty -> val -> list pelem -> list leaf) (p : list pelem) :
  list (string * ty) -> list val -> list leaf :=
  fix go (fs : list (string * ty)) (l : list val) {struct l} : list leaf :=
    match fs, l with
    | (n, ft) :: fs', x :: l' => lv ft x (p ++ [PField n]) ++ go fs' l'
    | _, _ => []
    end.

Definition leaves_arr (lv : ty -> val -> list pelem -> list leaf) (p : list pelem) (e : ty) :
  list val -> nat -> list leaf :=
  fix go (l : list val) (k : nat) {struct l} : list leaf :=
    match l with
    | x :: l' => lv e x (p ++ [PIdx k]) ++ go l' (S k)
    | [] => []
    end.

Fixpoint leaves (t : ty) (v : val) (p : list pelem) {struct v} : list leaf :=
  match v with
  | VNull => []
  | VPrim b => match under t with TPrim id => [(p, id, b)] | _ => [] end
  | VUnion tag x =>
    match under t with
    | TUnion ts => match nth_error ts tag with Some m => leaves m x p | None => [] end
    | _ => []
    end
  | VList l =>
    match under t with
    | TRec fs => leaves_rec leaves p fs l
    | TArr e | TSet e => leaves_arr leaves p e l O
    | _ => []      (* map bodies are opaque *)
    end
  end.

(* well-typed values *)
Definition has_ty_rec (ht : val -> ty -> bool) : list (string * ty) -> list val -> bool :=
  fix go (fs : list (string * ty)) (l : list val) {struct l} : bool :=
    match fs, l with
    | [], [] => true
    | (_, ft) :: fs', x :: l' => ht x ft && go fs' l'
    | _, _ => false
    end.

Fixpoint has_ty (v : val) (t : ty) {struct v} : bool :=
  match v with
  | VNull => true
  | VPrim _ => is_prim t && negb (is_null t)
  | VUnion tag x =>
    match under t with
    | TUnion ts => match nth_error ts tag with Some m => has_ty x m | None => false end
    | _ => false
    end
  | VList l =>
    match under t with
    | TRec fs => has_ty_rec has_ty fs l
    | TArr e | TSet e => forallb (fun x => has_ty x e) l
    | TMap _ _ => true
    | _ => false
    end
  end.

(* record types have distinct field names (zed.Context.LookupTypeRecord) *)
Fixpoint mem_str (n : string) (l : list string) : bool :=
  match l with [] => false | x :: r => String.eqb x n || mem_str n r end.
Fixpoint nodup_str (l : list string) : bool :=
  match l with [] => true | x :: r => negb (mem_str x r) && nodup_str r end.

Fixpoint wf_ty (t : ty) : bool :=
  match t with
  | TPrim _ => true
  | TRec fs => nodup_str (map fst fs) && forallb (fun nt => wf_ty (snd nt)) fs
  | TArr e | TSet e => wf_ty e
  | TMap k v => wf_ty k && wf_ty v
  | TUnion ts => forallb wf_ty ts
  | TNamed _ t' => wf_ty t'
  end.

(* ---------------------------------------------------------------- the guard of the uniformity/losslessness theorem *)

(* no primitive cast anywhere in the step (casts are not modelled; fuse never
   builds one because differing primitives are merged into a union) *)
Fixpoint step_ok (s : step) : bool :=
  match s with
  | SCastPrim _ _ => false
  | SFromUnion _ cs => forallb step_ok cs
  | SArr _ c | SSet _ c => step_ok c
  | SRec _ cs => forallb (fun ic : nat * step => step_ok (snd ic)) cs
  | _ => true
  end.

(* [fits i o]: a value of type [i] can be carried into type [o] by the steps
   the shaper knows: same underlying type, null, into a union member of the
   same underlying type, field by field into a record that has all its fields,
   element by element, member by member out of a union. *)
Fixpoint fits (fuel : nat) (i o : ty) : bool :=
  match fuel with
  | O => false
  | S f =>
    if eq_under i o || is_null i then true
    else
      match under i, under o with
      | TUnion ts, _ => forallb (fun t => fits f t o) ts
      | TRec fi, TRec fo =>
        forallb (fun nt : string * ty =>
                   match lookup_field (fst nt) fi with
                   | Some it => fits f it (snd nt)
                   | None => true
                   end) fo
        && forallb (fun nt : string * ty => has_field (fst nt) fo) fi
      | TArr ii, TArr oi | TArr ii, TSet oi | TSet ii, TArr oi | TSet ii, TSet oi => fits f ii oi
      | _, TUnion _ => is_some (best_union_tag i o)
      | _, _ => false
      end
  end.

(* the guard: the real shaper computes the fused type for this input type,
   builds a step for it without primitive casts, and the input type fits *)
Definition shapeable (fuel : nat) (i T : ty) : bool :=
  match new_shaper fuel i T with
  | Some (typ, s) => ty_eqb typ T && step_ok s && fits fuel i T && wf_ty i
  | None => false
  end.
