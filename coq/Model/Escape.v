(* C02: string escaping of the ZSON formatter (zson/escape.go QuotedString,
   QuotedName) and the lexer's string scanner (zson/lexer.go scanString,
   scanToCloseQuote, parseStringBytes), over Unicode code points ([N]).
   UTF-8 encoding/decoding of well-formed text is the identity at this level
   and is not modelled.  Definitions only; mirrors the code as it is. *)
From ZV Require Import Base.Prelude.
Local Open Scope N_scope.

Definition str := list N.

(* safeSet: printable ASCII except the quote and the backslash *)
Definition safe (c : N) : bool :=
  (32 <=? c) && (c <? 128) && negb (c =? 34) && negb (c =? 92).

Definition hexdigit (n : N) : N := if n <? 10 then 48 + n else 87 + n.

(* one character of QuotedString *)
Definition esc1 (c : N) : str :=
  if 128 <=? c then [c]
  else if safe c then [c]
  else if c =? 92 then [92; 92]
  else if c =? 34 then [92; 34]
  else if c =? 8 then [92; 98]
  else if c =? 12 then [92; 102]
  else if c =? 10 then [92; 110]
  else if c =? 13 then [92; 114]
  else if c =? 9 then [92; 116]
  else [92; 117; 48; 48; hexdigit (c / 16); hexdigit (c mod 16)].

Fixpoint escape (s : str) : str :=
  match s with
  | [] => []
  | c :: r => esc1 c ++ escape r
  end.

Definition quoted (s : str) : str := 34 :: escape s ++ [34].

(* ---- lexer ---- *)

Definition unhex (b : N) : N :=
  if (48 <=? b) && (b <=? 57) then b - 48
  else if (97 <=? b) && (b <=? 102) then b - 87
  else if (65 <=? b) && (b <=? 70) then b - 55
  else 255.

Definition unhex_rune (a b c d : N) : option N :=
  let r0 := unhex a in let r1 := unhex b in let r2 := unhex c in let r3 := unhex d in
  if (15 <? r0) || (15 <? r1) || (15 <? r2) || (15 <? r3) then None
  else Some (r0 * 4096 + r1 * 256 + r2 * 16 + r3).

Definition is_surrogate (r : N) : bool := (55296 <=? r) && (r <? 57344).

(* utf16.DecodeRune; 65533 = U+FFFD *)
Definition decode_pair (r1 r2 : N) : N :=
  if (55296 <=? r1) && (r1 <? 56320) && (56320 <=? r2) && (r2 <? 57344)
  then (r1 - 55296) * 1024 + (r2 - 56320) + 65536
  else 65533.

(* scanToCloseQuote: copies up to the first unescaped quote; a backslash
   takes the next character with it. *)
Fixpoint split_close (s : str) : option (str * str) :=
  match s with
  | [] => None
  | c :: r =>
    if c =? 34 then Some ([], s)
    else if c =? 92 then
      match r with
      | [] => None
      | d :: r' =>
        match split_close r' with
        | Some (a, b) => Some (c :: d :: a, b)
        | None => None
        end
      end
    else
      match split_close r with
      | Some (a, b) => Some (c :: a, b)
      | None => None
      end
  end.

(* parseStringBytes.  A \uXXXX escape that is a UTF-16 surrogate is combined
   with an immediately following \uYYYY escape when the two form a valid pair;
   otherwise it yields U+FFFD (65533) and nothing more is consumed, as in
   encoding/json.  (At byte level the code reads 4 bytes after "\u": any
   non-ASCII byte there is an invalid hex digit, as is a non-ASCII code point
   here, so the code-point model is exact.) *)
Fixpoint parse_slow (s : str) : option str :=
  match s with
  | [] => Some []
  | c :: r =>
    if c =? 92 then
      match r with
      | [] => None
      | d :: r1 =>
        if (d =? 34) || (d =? 92) || (d =? 47) || (d =? 39) then option_map (cons d) (parse_slow r1)
        else if d =? 98 then option_map (cons 8) (parse_slow r1)
        else if d =? 102 then option_map (cons 12) (parse_slow r1)
        else if d =? 110 then option_map (cons 10) (parse_slow r1)
        else if d =? 114 then option_map (cons 13) (parse_slow r1)
        else if d =? 116 then option_map (cons 9) (parse_slow r1)
        else if d =? 117 then
          match r1 with
          | h1 :: h2 :: h3 :: h4 :: r2 =>
            match unhex_rune h1 h2 h3 h4 with
            | None => None
            | Some rn =>
              if is_surrogate rn then
                match r2 with
                | a1 :: a2 :: g1 :: g2 :: g3 :: g4 :: r3 =>
                  if (a1 =? 92) && (a2 =? 117) then
                    match unhex_rune g1 g2 g3 g4 with
                    | Some rn2 =>
                      let dec := decode_pair rn rn2 in
                      if dec =? 65533 then option_map (cons 65533) (parse_slow r2)
                      else option_map (cons dec) (parse_slow r3)
                    | None => option_map (cons 65533) (parse_slow r2)
                    end
                  else option_map (cons 65533) (parse_slow r2)
                | _ => option_map (cons 65533) (parse_slow r2)
                end
              else option_map (cons rn) (parse_slow r2)
            end
          | _ => None
          end
        else None
      end
    else if c =? 34 then None           (* cannot happen after split_close *)
    else if c <? 32 then None           (* illegal control code *)
    else option_map (cons c) (parse_slow r)
  end.

Definition slow (s : str) : option (str * str) :=
  match split_close s with
  | Some (buf, rest) =>
    match parse_slow buf with
    | Some d => Some (d, rest)
    | None => None
    end
  | None => None
  end.

Definition pair_cons (x : N) (o : option (str * str)) : option (str * str) :=
  match o with Some (a, b) => Some (x :: a, b) | None => None end.

(* scanString: input is the text after the opening quote; the result is the
   decoded string and the remaining input, which starts at the closing quote. *)
Fixpoint scan (s : str) : option (str * str) :=
  match s with
  | [] => None
  | c :: r =>
    if c =? 34 then Some ([], s)
    else if 128 <=? c then slow s
    else if c =? 10 then None
    else if c =? 92 then
      match r with
      | [] => None
      | d :: r' =>
        if d =? 117 then slow s
        else if (d =? 34) || (d =? 92) || (d =? 47) then pair_cons d (scan r')
        else if d =? 98 then pair_cons 8 (scan r')
        else if d =? 102 then pair_cons 12 (scan r')
        else if d =? 110 then pair_cons 10 (scan r')
        else if d =? 114 then pair_cons 13 (scan r')
        else if d =? 116 then pair_cons 9 (scan r')
        else None
      end
    else pair_cons c (scan r)
  end.

(* A quoted string literal: opening quote, body, closing quote. *)
Definition unquote (s : str) : option (str * str) :=
  match s with
  | 34 :: r =>
    match scan r with
    | Some (d, 34 :: rest) => Some (d, rest)
    | _ => None
    end
  | _ => None
  end.

(* ---- names (zson/name.go, zson/escape.go QuotedName) ----
   [letter] stands for unicode.IsLetter. *)
Section Names.
  Variable letter : N -> bool.

  Definition id_char (c : N) : bool := letter c || (c =? 95) || (c =? 36).
  Definition digit (c : N) : bool := (48 <=? c) && (c <=? 57).

  Fixpoint ident_rest (s : str) : bool :=
    match s with
    | [] => true
    | c :: r => (id_char c || digit c) && ident_rest r
    end.

  Definition is_identifier (s : str) : bool :=
    match s with
    | [] => false
    | c :: r => id_char c && ident_rest r
    end.

  Definition quoted_name (s : str) : str :=
    if is_identifier s then s else quoted s.

  (* matchSymbol: a string literal, else the longest run of type characters
     which must be an identifier.  [type_char] = idChar | digit | '.' *)
  Definition type_char (c : N) : bool := id_char c || digit c || (c =? 46).

  Fixpoint take_type_chars (s : str) : str * str :=
    match s with
    | [] => ([], [])
    | c :: r => if type_char c then let '(a, b) := take_type_chars r in (c :: a, b) else ([], s)
    end.

  Definition match_symbol (s : str) : option (str * str) :=
    match s with
    | [] => None
    | c :: _ =>
      if c =? 34 then unquote s
      else if id_char c then
        let '(a, b) := take_type_chars s in
        if is_identifier a then Some (a, b) else None
      else None
    end.
End Names.

(* ASCII instance used by the correspondence cases *)
Definition ascii_letter (c : N) : bool :=
  ((65 <=? c) && (c <=? 90)) || ((97 <=? c) && (c <=? 122)).
