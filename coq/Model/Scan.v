(* Model of the filter pushed into the ZNG scanner (C04).
   Mirrors, as they are:
     compiler/kernel/bufferfilter.go   CompileBufferFilter, isFieldEqualOrIn,
                                       newBufferFilterForLiteral
     runtime/sam/expr/bufferfilter.go  BufferFilter.Eval, NewBufferFilterFor*
     runtime/sam/expr/fieldnamefinder.go FieldNameFinder.Find, findNames, findHidden,
                                       findBelow, FieldNameIter
     runtime/sam/expr/filter.go        searchString.Eval, search.Eval, stringSearch
     runtime/sam/expr/eval.go          In.Eval, And/Or/Not; boolean.go Comparison, Contains
     compiler/kernel/expr.go           compileConstCompare, compileConstIn, compileSearch
     walk.go                           zed.Walk
     zio/zngio/scanner.go              worker.scanBatch (per-frame gate, per-value filter)
     zcode                             Append (tag = uvarint(len+1), 0 = null)
   Value fragment: primitives (by type id, string = 25), records, arrays.
   Named types, unions, maps, sets, errors are outside the model (exercised by
   the harness oracle only).  Substring search is the spec [contains]; the
   Boyer-Moore implementation in pkg/stringsearch is tested against it.
   Definitions only; proofs are in Proofs/ScanProofs.v. *)
From ZV Require Import Base.Prelude.

(* ---------------------------------------------------------------- search spec *)

Fixpoint prefixb (p t : bytes) : bool :=
  match p, t with
  | [], _ => true
  | x :: p', y :: t' => N.eqb x y && prefixb p' t'
  | _ :: _, [] => false
  end.

(* [contains t p]: p occurs in t as a contiguous substring. *)
Fixpoint contains (t p : bytes) : bool :=
  prefixb p t || match t with [] => false | _ :: t' => contains t' p end.

(* index of the first occurrence (Finder.Next), -1 if none *)
Fixpoint index_from (i : Z) (t p : bytes) : Z :=
  if prefixb p t then i
  else match t with [] => (-1)%Z | _ :: t' => index_from (i + 1)%Z t' p end.
Definition index_of (t p : bytes) : Z := index_from 0%Z t p.

(* stringsearch.tolower: ASCII only *)
Definition lower (b : N) : N := if (65 <=? b)%N && (b <=? 90)%N then (b + 32)%N else b.
Definition lowers (s : bytes) : bytes := map lower s.

(* expr.stringSearch (strings.EqualFold on every window) and
   stringsearch.CaseFinder agree with this for an ASCII pattern. *)
Definition contains_ci (t p : bytes) : bool := contains (lowers t) (lowers p).
Definition index_ci (t p : bytes) : Z := index_of (lowers t) (lowers p).

Definition is_ascii (s : bytes) : bool := forallb (fun b => (b <? 128)%N) s.

(* ---------------------------------------------------------------- values *)

Definition ID_STRING : N := 25.
Definition ID_BYTES : N := 24.
Definition ID_NET : N := 27.
Definition ID_TYPE : N := 28.
Definition ID_NULL : N := 29.
Definition is_number (id : N) : bool := (id <=? 22)%N.   (* zed.IsNumber *)

Inductive ty :=
| TPrim (id : N)
| TRec (fs : list (bytes * ty))
| TArr (t : ty).

Inductive val :=
| VNull                      (* nil body *)
| VPrim (b : bytes)          (* primitive body *)
| VRec (vs : list val)
| VArr (vs : list val).

(* binary.AppendUvarint *)
Fixpoint uvarint_fuel (fuel : nat) (n : N) : bytes :=
  match fuel with
  | O => [N.modulo n 128]
  | S f => if (n <? 128)%N then [n] else (N.modulo n 128 + 128)%N :: uvarint_fuel f (n / 128)%N
  end.
Definition uvarint (n : N) : bytes := uvarint_fuel 10 n.

(* zcode.Append of a non-nil body *)
Definition tagged (b : bytes) : bytes := uvarint (N.of_nat (List.length b) + 1) ++ b.

(* the ZNG encoding of a value: tag + body; containers hold their elements' encodings *)
Fixpoint enc_val (v : val) : bytes :=
  match v with
  | VNull => [0%N]
  | VPrim b => tagged b
  | VRec vs => tagged (flat_map enc_val vs)
  | VArr vs => tagged (flat_map enc_val vs)
  end.

(* zed.Walk: pre-order list of the (type, value) pairs the visitor sees *)
Fixpoint walk (t : ty) (v : val) {struct v} : list (ty * val) :=
  (t, v) ::
  match t, v with
  | TRec fs, VRec vs =>
    (fix go (fs : list (bytes * ty)) (vs : list val) {struct vs} : list (ty * val) :=
       match fs, vs with
       | (_, ft) :: fs', x :: vs' => walk ft x ++ go fs' vs'
       | _, _ => []
       end) fs vs
  | TArr et, VArr vs =>
    (fix go (vs : list val) : list (ty * val) :=
       match vs with
       | [] => []
       | x :: vs' => walk et x ++ go vs'
       end) vs
  | _, _ => []
  end.

(* Value.Deref along a path of field names (records only) *)
Fixpoint field_lookup (f : bytes) (fs : list (bytes * ty)) (vs : list val) : option (ty * val) :=
  match fs, vs with
  | (n, ft) :: fs', x :: vs' => if bytes_eqb n f then Some (ft, x) else field_lookup f fs' vs'
  | _, _ => None
  end.

Fixpoint type_lookup (f : bytes) (fs : list (bytes * ty)) : option ty :=
  match fs with
  | [] => None
  | (n, ft) :: fs' => if bytes_eqb n f then Some ft else type_lookup f fs'
  end.

(* DotExpr.Eval goes by the record TYPE: a field of a null record is a null of
   the field's type, an unknown field is error("missing"). *)
Fixpoint deref (path : list bytes) (t : ty) (v : val) : option (ty * val) :=
  match path with
  | [] => Some (t, v)
  | f :: rest =>
    match t, v with
    | TRec fs, VRec vs =>
      match field_lookup f fs vs with
      | Some (ft, x) => deref rest ft x
      | None => None
      end
    | TRec fs, VNull =>
      match type_lookup f fs with
      | Some ft => deref rest ft VNull
      | None => None
      end
    | _, _ => None
    end
  end.

(* ---------------------------------------------------------------- field names *)

Definition DOT : N := 46.

(* FieldNameIter: the dotted names of the leaf fields of a record type
   (a field whose type is a non-empty record is stepped into; anything else,
   including arrays of records, is a leaf). *)
Fixpoint fnames (t : ty) : list bytes :=
  match t with
  | TRec fs =>
    (fix go (fs : list (bytes * ty)) : list bytes :=
       match fs with
       | [] => []
       | (n, ft) :: fs' =>
         (match ft with
          | TRec (_ :: _) => map (fun s => n ++ DOT :: s) (fnames ft)
          | _ => [n]
          end) ++ go fs'
       end) fs
  | _ => []
  end.

(* searchString.searchType / the per-type part of FieldNameFinder.Find *)
Definition search_type (term : bytes) (t : ty) : bool :=
  existsb (fun n => contains_ci n term) (fnames t).

(* ---------------------------------------------------------------- expressions *)

(* a primitive literal: type id and body (None = null) *)
Record lit := { lid : N; lbody : option bytes }.

Inductive expr :=
| ESearchStr (path : list bytes) (term : bytes)
                                         (* dag.Search over this.path, string literal (NFC
                                            already): `search "x"`, grep("x"), grep("x", a.b).
                                            A search over a COMPUTED expression is EOther:
                                            it gets no buffer filter. *)
| ESearchLit (text : bytes) (l : lit)    (* dag.Search over this, non-string literal *)
| EEq (path : list bytes) (l : lit)      (* this.path == literal *)
| EIn (l : lit) (path : list bytes)      (* literal in this.path *)
| EAnd (a b : expr)
| EOr (a b : expr)
| ENot (a : expr)
| EOther (i : nat).                      (* anything else *)

Inductive bf :=
| BAnd (a b : bf)
| BOr (a b : bf)
| BFieldName (p : bytes)
| BStringCase (p : bytes)
| BString (p : bytes).

(* Value.Encode of the literal *)
Definition lit_enc (l : lit) : bytes :=
  match lbody l with None => [0%N] | Some b => tagged b end.

(* NewBufferFilterForString *)
Definition bf_string (p : bytes) : option bf :=
  if (List.length p <? 2)%nat then None else Some (BString p).

(* NewBufferFilterForStringCase *)
Definition bf_string_case (p : bytes) : option bf :=
  if (List.length p <? 2)%nat then None
  else if is_ascii p then Some (BStringCase p) else None.

(* newBufferFilterForLiteral *)
Definition bf_literal (l : lit) : option bf :=
  if is_number (lid l) || N.eqb (lid l) ID_NULL then None
  else bf_string (lit_enc l).

(* CompileBufferFilter *)
Fixpoint compile_bf (e : expr) : option bf :=
  match e with
  | EEq _ l => bf_literal l
  | EIn l _ => if N.eqb (lid l) ID_NET then None else bf_literal l
  | EAnd a b =>
    match compile_bf a, compile_bf b with
    | None, r => r
    | l, None => l
    | Some l, Some r => Some (BAnd l r)
    end
  | EOr a b =>
    match compile_bf a, compile_bf b with
    | Some l, Some r => Some (BOr l r)
    | _, _ => None
    end
  | ESearchStr _ term =>
    match bf_string_case term with
    | None => None
    | Some l => Some (BOr l (BFieldName term))
    end
  | ESearchLit text l =>
    if N.eqb (lid l) ID_NET then None
    else match bf_string_case text, bf_literal l with
         | Some a, Some b => Some (BOr a b)
         | _, _ => None
         end
  | ENot _ => None
  | EOther _ => None
  end.

(* ---------------------------------------------------------------- frames *)

(* A values frame: (local type id, type, value) triples. *)
Definition frame := list (N * ty * val).

Definition frame_bytes (fr : frame) : bytes :=
  flat_map (fun '(id, _, v) => uvarint id ++ enc_val v) fr.

(* FieldNameFinder.findHidden / findBelow: does a record type nested inside t
   below an array have a matching field name?  (findBelow t = findNames on t
   when t is a record, or findHidden t.)  FieldNameIter does not see those
   record types but the evaluator's walk reaches their values. *)
Fixpoint find_hidden (p : bytes) (t : ty) : bool :=
  match t with
  | TPrim _ => false
  | TRec fs =>
    (fix go (fs : list (bytes * ty)) : bool :=
       match fs with
       | [] => false
       | (_, ft) :: fs' => find_hidden p ft || go fs'
       end) fs
  | TArr e =>
    (match e with TRec _ => search_type p e | _ => false end) || find_hidden p e
  end.

(* FieldNameFinder.Find: true as soon as a value's type is not a record, or a
   dotted leaf name of the record type (findNames), or a field name of a record
   type hidden below an array (findHidden), contains the pattern.  (The
   checkedIDs bitmap only avoids repeating the same work.) *)
Definition fnf_find (p : bytes) (fr : frame) : bool :=
  existsb (fun '(_, t, _) =>
             match t with
             | TRec _ => search_type p t || find_hidden p t
             | _ => true
             end) fr.

(* BufferFilter.Eval *)
Fixpoint bf_eval (b : bf) (fr : frame) : bool :=
  match b with
  | BAnd x y => bf_eval x fr && bf_eval y fr
  | BOr x y => bf_eval x fr || bf_eval y fr
  | BFieldName p => fnf_find p fr
  | BStringCase p => contains_ci (frame_bytes fr) p
  | BString p => contains (frame_bytes fr) p
  end.

(* ---------------------------------------------------------------- evaluator *)

Definition body_eqb (v : val) (b : option bytes) : bool :=
  match v, b with
  | VPrim x, Some y => bytes_eqb x y
  | _, _ => false
  end.

(* Comparison("==", literal) for a non-numeric, non-null literal:
   CompareString / CompareIP / CompareBool require the literal's type id;
   CompareBytes accepts both bytes and type values. *)
Definition cmp_id_ok (lid id : N) : bool :=
  N.eqb lid id ||
  ((N.eqb lid ID_BYTES || N.eqb lid ID_TYPE) && (N.eqb id ID_BYTES || N.eqb id ID_TYPE)).

Definition const_eq (l : lit) (t : ty) (v : val) : bool :=
  match t with
  | TPrim id => cmp_id_ok (lid l) id && body_eqb v (lbody l)
  | _ => false
  end.

(* coerce.Equal(literal, value) for a non-numeric, non-null literal *)
Definition coerce_eq (l : lit) (t : ty) (v : val) : bool :=
  match t with
  | TPrim id => N.eqb (lid l) id && body_eqb v (lbody l)
  | _ => false
  end.

(* `literal in expr`: kernel.compileConstIn uses Contains(Comparison("==", literal))
   when Comparison supports the literal's type, else In.Eval with coerce.Equal
   (of the interpreted literals only net is unsupported by Comparison). *)
Definition in_eq (l : lit) (t : ty) (v : val) : bool :=
  if N.eqb (lid l) ID_NET then coerce_eq l t v else const_eq l t v.

(* literals whose comparison the model does not interpret: numbers (numeric
   coercion), null, typed nulls *)
Definition opaque_lit (l : lit) : bool :=
  is_number (lid l) || N.eqb (lid l) ID_NULL
  || match lbody l with None => true | Some _ => false end.

(* three-valued result of a filter expression: true, false, error("missing") *)
Inductive tv3 := T3 | F3 | M3.
Definition b3 (b : bool) : tv3 := if b then T3 else F3.
Definition is_T3 (x : tv3) : bool := match x with T3 => true | _ => false end.

Definition is_string_leaf (term : bytes) (tv : ty * val) : bool :=
  match tv with
  | (TPrim id, VPrim s) => N.eqb id ID_STRING && contains_ci s term
  | (TPrim id, VNull) => N.eqb id ID_STRING && contains_ci [] term
  | _ => false
  end.

(* the visitor of search.Eval *)
Definition search_lit_leaf (text : bytes) (l : lit) (tv : ty * val) : bool :=
  match tv with
  | (TPrim id, x) =>
    if N.eqb id ID_STRING
    then match x with VPrim s => contains_ci s text | _ => contains_ci [] text end
    else const_eq l (TPrim id) x
  | _ => false
  end.

Section Eval.
  (* verdicts of everything the model does not interpret: other expressions,
     numeric/null literals (numeric coercion), CIDR search *)
  Variable oth : nat -> ty -> val -> tv3.
  Variable lit_oth : expr -> ty -> val -> tv3.

  Fixpoint eval3 (e : expr) (t : ty) (v : val) : tv3 :=
    match e with
    | ESearchStr path term =>
      (* searchString.Eval: the searched value is this.path; an error
         (missing) there is False; otherwise never an error *)
      match deref path t v with
      | Some (t', v') =>
        b3 (search_type term t' ||
            existsb (fun tv => search_type term (fst tv) || is_string_leaf term tv) (walk t' v'))
      | None => F3
      end
    | ESearchLit text l =>
      (* search.Eval; a net literal is searchCIDR *)
      if opaque_lit l || N.eqb (lid l) ID_NET then lit_oth e t v
      else b3 (existsb (search_lit_leaf text l) (walk t v))
    | EEq path l =>
      (* expr.NewFilter(DottedExpr, Comparison("==", literal)) *)
      if opaque_lit l then lit_oth e t v
      else match deref path t v with
           | Some (t', v') => b3 (const_eq l t' v')
           | None => M3
           end
    | EIn l path =>
      (* compileConstIn: NewFilter(path, Contains(==literal)); In.Eval for a net *)
      if opaque_lit l then lit_oth e t v
      else match deref path t v with
           | Some (t', v') => b3 (existsb (fun tv => in_eq l (fst tv) (snd tv)) (walk t' v'))
           | None => M3
           end
    | EAnd a b =>
      match eval3 a t v with
      | T3 => eval3 b t v
      | F3 => F3
      | M3 => M3
      end
    | EOr a b =>
      match eval3 a t v with
      | T3 => T3
      | _ => eval3 b t v
      end
    | ENot a =>
      match eval3 a t v with T3 => F3 | F3 => T3 | M3 => M3 end
    | EOther i => oth i t v
    end.

  (* wantValue/check: the value is kept iff the filter is Bool true *)
  Definition eval (e : expr) (t : ty) (v : val) : bool := is_T3 (eval3 e t v).

  (* worker.scanBatch: the buffer filter gates the whole frame, then every value
     is checked with the evaluator. *)
  Definition gate (e : expr) (fr : frame) : bool :=
    match compile_bf e with
    | Some b => bf_eval b fr
    | None => true
    end.

  Definition frame_vals (fr : frame) : list (ty * val) := map (fun '(_, t, v) => (t, v)) fr.

  Definition keep (e : expr) (tv : ty * val) : bool := eval e (fst tv) (snd tv).

  Definition scan_frame (e : expr) (fr : frame) : list (ty * val) :=
    if gate e fr then filter (keep e) (frame_vals fr) else [].

  Definition scan (e : expr) (frs : list frame) : list (ty * val) :=
    flat_map (scan_frame e) frs.

  (* the specification: the evaluator applied to every value of the stream *)
  Definition spec (e : expr) (frs : list frame) : list (ty * val) :=
    filter (keep e) (flat_map frame_vals frs).
End Eval.

Definition tv3_code (x : tv3) : N := match x with T3 => 1 | F3 => 0 | M3 => 2 end%N.
