(* C18  A failed write to the output is always reported.

   Model: error-flow skeletons.  A writer operation (one Write, or Close) is a
   term of [skel]: the calls that can reach the sink and what the Go code does
   with each returned error.  The semantics runs a skeleton against a sink that
   fails at call k (one-shot, sticky, short write) or whose Close fails, with or
   without a sticky buffer (bufio.Writer) between the writer and the sink.

   The per-writer skeletons below are transcribed by hand from the current
   sources in /repo (file and function named at each definition); they mirror
   the code as it is (at /repo HEAD after the fixes bb75160dc zngio flush,
   4633d767e csvio Close, b8582a178 tableio Write). *)
From ZV Require Import Base.Prelude.
Local Open Scope nat_scope.

(* ------------------------------------------------------------------ faults *)

Inductive fmode := FNone | FOneShot | FSticky | FShort | FClose.

Record fault := mkFault { f_mode : fmode; f_k : nat }.

(* does the c-th sink Write call (1-based) return an error? *)
Definition call_fails (f : fault) (c : nat) : bool :=
  match f_mode f with
  | FOneShot | FShort => Nat.eqb c (f_k f)
  | FSticky => Nat.leb (f_k f) c
  | FNone | FClose => false
  end.

Definition close_fails (f : fault) : bool :=
  match f_mode f with FClose => true | _ => false end.

(* ------------------------------------------------------------------ skeletons *)

Inductive skel :=
| Skip
| W                      (* one write to the sink (or to the bufio layer); `if err != nil { return err }` *)
| Wi                     (* one write whose error is dropped *)
| CloseSink              (* sink.Close(); its error is returned *)
| Seq (a b : skel)
| Rep (n : nat) (a : skel)
| Swallow (a : skel)     (* `if err := a; err != nil { return nil }` *)
| Scope (a : skel)       (* call of a function with body a: `if err := f(); err != nil { return err }` *)
| Ignore (a : skel)      (* call of a function with body a whose result is discarded *)
| Both (a b : skel)      (* `err := a(); err2 := b(); if err == nil { err = err2 }; return err` *)
| IfDirty (a : skel)     (* zngio: `if w.flushed != w.position { a }` *)
| Clean.                 (* zngio: `w.flushed = w.position` *)

Record env := mkEnv {
  e_buf : bool;          (* writes go through a bufio.Writer (sticky error) *)
  e_spill : list nat;    (* buffered: sink calls triggered by the j-th logical write *)
  e_fault : fault }.

Record st := mkSt {
  s_lw : nat;            (* logical writes so far *)
  s_calls : nat;         (* sink Write calls so far *)
  s_berr : bool;         (* bufio's sticky error *)
  s_dirty : bool;        (* zngio: position <> flushed *)
  s_faulted : bool }.    (* some sink call returned an error *)

Definition st0 := mkSt 0 0 false false false.

Inductive res := Cont | RetErr | RetNil.

(* n consecutive sink calls; stops at the first failing one *)
Fixpoint sink_calls (f : fault) (n c : nat) : nat * bool :=
  match n with
  | 0 => (c, false)
  | S n' => if call_fails f (S c) then (S c, true) else sink_calls f n' (S c)
  end.

(* one logical write: true = it returned nil *)
Definition do_write (e : env) (s : st) : bool * st :=
  if e_buf e && s_berr s then
    (false, mkSt (S (s_lw s)) (s_calls s) (s_berr s) (s_dirty s) (s_faulted s))
  else
    let n := if e_buf e then nth (s_lw s) (e_spill e) 1 else 1 in
    let '(c, failed) := sink_calls (e_fault e) n (s_calls s) in
    if failed then (false, mkSt (S (s_lw s)) c (e_buf e) (s_dirty s) true)
    else (true, mkSt (S (s_lw s)) c (s_berr s) true (s_faulted s)).

Definition set_dirty (s : st) (d : bool) := mkSt (s_lw s) (s_calls s) (s_berr s) d (s_faulted s).
Definition set_faulted (s : st) := mkSt (s_lw s) (s_calls s) (s_berr s) (s_dirty s) true.

Fixpoint exec (e : env) (k : skel) (s : st) : res * st :=
  match k with
  | Skip => (Cont, s)
  | W => let '(ok, s') := do_write e s in (if ok then Cont else RetErr, s')
  | Wi => let '(_, s') := do_write e s in (Cont, s')
  | CloseSink => if close_fails (e_fault e) then (RetErr, set_faulted s) else (Cont, s)
  | Seq a b =>
    let '(r, s1) := exec e a s in
    match r with Cont => exec e b s1 | _ => (r, s1) end
  | Rep n a =>
    (fix rep (n : nat) (s : st) : res * st :=
       match n with
       | 0 => (Cont, s)
       | S n' => let '(r, s1) := exec e a s in
                 match r with Cont => rep n' s1 | _ => (r, s1) end
       end) n s
  | Swallow a =>
    let '(r, s1) := exec e a s in
    (match r with RetErr => RetNil | _ => r end, s1)
  | Scope a =>
    let '(r, s1) := exec e a s in
    (match r with RetNil => Cont | _ => r end, s1)
  | Ignore a =>
    let '(_, s1) := exec e a s in (Cont, s1)
  | Both a b =>
    let '(r1, s1) := exec e a s in
    let '(r2, s2) := exec e b s1 in
    (match r1, r2 with RetErr, _ => RetErr | _, RetErr => RetErr | _, _ => Cont end, s2)
  | IfDirty a => if s_dirty s then exec e a s else (Cont, s)
  | Clean => (Cont, set_dirty s false)
  end.

(* ------------------------------------------------------------------ runs *)

(* The caller's protocol (zio.Copy followed by Close): Write the values in
   order, stop at the first error, then Close.  Verdict: 0 = every call
   returned nil; i+1 = operation i was the first to return an error (Close
   is operation [length ops]). *)
Fixpoint run_ops (e : env) (ops : list skel) (i : nat) (s : st) : option nat * st :=
  match ops with
  | [] => (None, s)
  | o :: r =>
    let '(x, s1) := exec e o s in
    match x with RetErr => (Some i, s1) | _ => run_ops e r (S i) s1 end
  end.

Definition run (e : env) (ops : list skel) (close : skel) : nat * st :=
  let '(rep, s1) := run_ops e ops 0 st0 in
  let '(x, s2) := exec e close s1 in
  (match rep with
   | Some i => S i
   | None => match x with RetErr => S (List.length ops) | _ => 0 end
   end, s2).

(* ------------------------------------------------------------------ the checker *)

(* Every sink-touching call is checked and no error is swallowed or discarded. *)
Fixpoint err_checked (k : skel) : bool :=
  match k with
  | Skip | W | CloseSink | Clean => true
  | Wi => false
  | Seq a b | Both a b => err_checked a && err_checked b
  | Rep _ a | Scope a | IfDirty a => err_checked a
  | Swallow _ | Ignore _ => false
  end.

Fixpoint no_close (k : skel) : bool :=
  match k with
  | CloseSink => false
  | Skip | W | Wi | Clean => true
  | Seq a b | Both a b => no_close a && no_close b
  | Rep _ a | Scope a | IfDirty a | Swallow a | Ignore a => no_close a
  end.

(* ------------------------------------------------------------------ writers *)

(* closing the sink: directly, or through pkg/bufwriter.Writer.Close
   (`if err := w.Writer.Flush(); err != nil { return err }; return w.closer.Close()`) *)
Definition sink_close (buffered : bool) : skel :=
  if buffered then Seq W CloseSink else CloseSink.

Inductive wkind := KZson | KZjson | KText | KZeek | KLake | KJson | KCsv | KTable | KVng.

(* Skeleton of one Write that made c (logical) writes in the fault-free run.
   None = the observed count contradicts the transcribed code. *)
Definition write_skel (k : wkind) (c : nat) : option skel :=
  match k, c with
  (* zio/zsonio/writer.go Write: io.WriteString(w.writer, ...) checked; w.writer.Write("\n") returned *)
  | KZson, 2 => Some (Seq W W)
  (* zio/zjsonio/writer.go Write: w.writer.Write(b) checked; w.write("\n") returned *)
  | KZjson, 2 => Some (Seq W W)
  (* zio/textio/writer.go Write/writeRecord: one fmt.Fprintln, error returned *)
  | KText, 1 => Some W
  (* zio/zeekio/writer.go Write: writeHeader (one Write, checked) when the type or path changes; then one Write, returned *)
  | KZeek, 1 => Some W
  | KZeek, 2 => Some (Seq W W)
  (* zio/lakeio/writer.go Write: one Write of the formatted buffer, or WriteZSON = two checked writes *)
  | KLake, 1 => Some W
  | KLake, 2 => Some (Seq W W)
  (* zio/jsonio/writer.go Write: writeAny/WriteByte ignore the bufio errors (overflow flushes), w.writer.Flush() is returned *)
  | KJson, S c' => Some (Seq (Rep c' Wi) W)
  (* zio/csvio/writer.go Write: encoder.Write errors (bufio overflow flushes) are returned *)
  | KCsv, c => Some (Rep c W)
  (* zio/tableio/writer.go Write: `if err := w.flush(); err != nil { return err }` on a type change and
     every 1000 lines, `if err := w.writeHeader(..); err != nil { return err }`, and the Fprintf of the
     line is returned; every sink call made by the tabwriter (flushes; for single-column records also
     the header and the line themselves) is therefore checked *)
  | KTable, c => Some (Scope (Rep c W))
  (* vng/writer.go Write: only fills the encoders *)
  | KVng, 0 => Some Skip
  | _, _ => None
  end.

(* Skeleton of Close with c (logical) writes in the fault-free run. *)
Definition close_skel (k : wkind) (buffered : bool) (c : nat) : option skel :=
  match k, c with
  (* Close = w.writer.Close() *)
  | KZson, 0 | KZjson, 0 | KText, 0 | KZeek, 0 | KLake, 0 => Some (sink_close buffered)
  (* jsonio.Writer embeds the sink's io.Closer; nothing is buffered at that point *)
  | KJson, 0 => Some CloseSink
  (* zio/csvio/writer.go Close: err := w.Flush() (= encoder.Flush(); encoder.Error()); closeErr := w.writer.Close(); first non-nil *)
  | KCsv, c => Some (Both (Rep c W) CloseSink)
  (* zio/tableio/writer.go Close: err := w.flush(); closeErr := w.writer.Close(); first non-nil *)
  | KTable, c => Some (Both (Rep c W) CloseSink)
  (* vng/writer.go Close: finalize (header, metadata, Emit: all checked) and w.writer.Close(); first non-nil *)
  | KVng, c => Some (Both (Rep c W) (sink_close buffered))
  | _, _ => None
  end.

(* json and csv keep a bufio.Writer of their own: sticky errors, one sink call per flush *)
Definition own_bufio (k : wkind) : bool :=
  match k with KJson | KCsv => true | _ => false end.

Fixpoint write_skels (k : wkind) (cs : list nat) : option (list skel) :=
  match cs with
  | [] => Some []
  | c :: r =>
    match write_skel k c, write_skels k r with
    | Some s, Some l => Some (s :: l)
    | _, _ => None
    end
  end.

Definition static_env (k : wkind) (buffered : bool) (spill : list nat) (f : fault) : env :=
  mkEnv (buffered || own_bufio k) (if buffered then spill else []) f.

(* ------------------------------------------------------------------ zngio.Writer *)

(* zio/zngio/writer.go.  State: bytes pending in w.types.bytes and w.values.
   writeBlock = nothing for an empty buffer, else header write + payload write
   (compressed or not), both checked.  flush: `if err := w.writeBlock(..); err
   != nil { return err }` for both blocks, then the buffers are cleared (they
   stay pending when a block failed).  Write: append, `return w.flush()` when a
   buffer reaches the frame threshold.  EndStream: flush (error returned), then
   the EOS byte if anything was written since the last end of stream.  Close:
   EndStream and w.writer.Close(), first error. *)

Definition zblock (b : N) : skel :=
  if N.eqb b 0 then Skip else Seq W W.

Definition zflush (tb vb : N) : skel := Seq (zblock tb) (zblock vb).

Definition zclose (buffered : bool) (tb vb : N) : skel :=
  Both (Seq (Scope (zflush tb vb)) (IfDirty (Seq W Clean))) (sink_close buffered).

(* one Write: returns the result, the pending sizes afterwards and the state *)
Definition zwrite (e : env) (thresh : N) (sz : N * N) (tb vb : N) (s : st)
  : res * (N * N) * st :=
  let tb' := (tb + fst sz)%N in
  let vb' := (vb + snd sz)%N in
  if (thresh <=? vb')%N || (thresh <=? tb')%N then
    let '(r, s1) := exec e (zflush tb' vb') s in
    match r with
    | Cont => (Cont, (0%N, 0%N), s1)
    | RetErr => (RetErr, (tb', vb'), s1)
    | RetNil => (Cont, (tb', vb'), s1)
    end
  else (Cont, (tb', vb'), s).

(* Writes in order until one reports; returns the first reporter, the pending
   sizes, the state and the number of logical writes made by each Write. *)
Fixpoint zwrites (e : env) (thresh : N) (szs : list (N * N)) (i : nat)
         (tb vb : N) (s : st) : option nat * (N * N) * st * list nat :=
  match szs with
  | [] => (None, (tb, vb), s, [])
  | sz :: r =>
    let '(x, (tb1, vb1), s1) := zwrite e thresh sz tb vb s in
    let n := s_lw s1 - s_lw s in
    match x with
    | RetErr => (Some i, (tb1, vb1), s1, [n])
    | _ => let '(rep, p, s2, l) := zwrites e thresh r (S i) tb1 vb1 s1 in (rep, p, s2, n :: l)
    end
  end.

Definition zrun (e : env) (thresh : N) (szs : list (N * N))
  : nat * st * list nat * nat :=
  let '(rep, (tb, vb), s1, l) := zwrites e thresh szs 0 0%N 0%N st0 in
  let '(x, s2) := exec e (zclose (e_buf e) tb vb) s1 in
  let nclose := s_lw s2 - s_lw s1 - (if e_buf e then 1 else 0) in
  (match rep with
   | Some i => S i
   | None => match x with RetErr => S (List.length szs) | _ => 0 end
   end, s2, l, nclose).
