(* Trace correspondence for C12: the storage events the real clients issued on
   one journal (HEAD reads, PutIfNotExists of entries, HEAD writes), in their
   real global order, are checked against the protocol of Model/Journal.v:
   a PutIfNotExists of entry n by a client follows that client's read of HEAD = n-1,
   succeeds iff n-1 entries exist, and a HEAD write of n follows that client's
   successful write of entry n.  The replayed state is the model's (entries, head). *)
From ZV Require Import Base.Prelude Model.Journal.

(* (client, kind, n, ok): kind 0 = read of the HEAD hint returning n, 1 = PutIfNotExists entry n with
   outcome ok, 2 = write HEAD := n, 3 = probe Exists(entry n) with answer ok *)
Definition jevent := (nat * N * nat * bool)%type.

Record tstate := { tlen : nat; thead : nat; tread : list (nat * nat); twrote : list (nat * nat) }.

Fixpoint lookup (k : nat) (l : list (nat * nat)) : option nat :=
  match l with [] => None | (k', v) :: r => if Nat.eqb k k' then Some v else lookup k r end.

Definition tstep (s : tstate) (e : jevent) : option tstate :=
  let '(c, kind, n, ok) := e in
  match kind with
  | 0%N => if Nat.eqb n (thead s) && Nat.leb n (tlen s)
           then Some {| tlen := tlen s; thead := thead s; tread := (c, n) :: tread s; twrote := twrote s |}
           else None
  | 1%N =>
    match lookup c (tread s) with
    | Some a =>
      if Nat.eqb n (S a) && Bool.eqb ok (Nat.eqb n (S (tlen s)))
      then Some {| tlen := if ok then S (tlen s) else tlen s; thead := thead s; tread := tread s;
                   twrote := if ok then (c, n) :: twrote s else twrote s |}
      else None
    | None => None
    end
  | 3%N =>
    match lookup c (tread s) with
    | Some a =>
      if Nat.eqb n (S a) && Bool.eqb ok (Nat.leb n (tlen s))
      then Some {| tlen := tlen s; thead := thead s;
                   tread := if ok then (c, n) :: tread s else tread s; twrote := twrote s |}
      else None
    | None => None
    end
  | 2%N =>
    match lookup c (twrote s) with
    | Some w => if Nat.eqb w n && Nat.leb n (tlen s)
                then Some {| tlen := tlen s; thead := n; tread := tread s; twrote := twrote s |}
                else None
    | None => None
    end
  | _ => None
  end.

Fixpoint treplay (s : tstate) (i : N) (l : list jevent) : option N :=
  match l with
  | [] => None
  | e :: r => match tstep s e with Some s' => treplay s' (N.succ i) r | None => Some i end
  end.

(* a trace case: initial (len, head) and the events; result: index of the first event the model rejects *)
Definition trace_case := (nat * nat * list jevent)%type.

Fixpoint trace_mismatches (i : N) (l : list trace_case) : list (N * N) :=
  match l with
  | [] => []
  | (len0, head0, evs) :: r =>
    match treplay {| tlen := len0; thead := head0; tread := []; twrote := [] |} 0 evs with
    | None => trace_mismatches (N.succ i) r
    | Some k => (i, k) :: trace_mismatches (N.succ i) r
    end
  end.
