(* Channel attribution of multi-output query responses (C19):
   api/queryio/writer.go  Writer.WriteBatch / WhiteChannelEnd  (server side:
   a channel is announced only when it differs from the last announced one;
   the initial channel is the empty name, here 0) and
   api/queryio/client.go  scanner.Pull  (client side: every batch is labelled
   with the last announced channel; a channel end is passed on and does not
   change the current channel).  Definitions only. *)
From ZV Require Import Base.Prelude Model.Service.

(* what the query's outputs hand to the writer, in arrival order *)
Inductive wev :=
| WBatch (ch : nat) (vs : list nat)
| WEnd (ch : nat).

Fixpoint chan_server (cur : nat) (evs : list wev) : list frame :=
  match evs with
  | [] => []
  | WBatch ch vs :: r =>
    (if Nat.eqb ch cur then [] else [FChannelSet ch]) ++ FValues vs :: chan_server ch r
  | WEnd ch :: r => FChannelEnd ch :: chan_server cur r
  end.

(* what the client hands to its caller: labelled batches and channel ends *)
Inductive cev :=
| CBatch (ch : nat) (vs : list nat)
| CEnd (ch : nat).

Fixpoint chan_client (cur : nat) (fs : list frame) : list cev :=
  match fs with
  | [] => []
  | FChannelSet c :: r => chan_client c r
  | FValues vs :: r => CBatch cur vs :: chan_client cur r
  | FChannelEnd c :: r => CEnd c :: chan_client cur r
  | FStats :: r => chan_client cur r
  | FError _ :: _ => []
  end.

Definition relabel (e : wev) : cev :=
  match e with WBatch ch vs => CBatch ch vs | WEnd ch => CEnd ch end.

(* ---- correspondence: the channel sequence the real scanner delivered ---- *)
Definition cev_eqb (a b : cev) : bool :=
  match a, b with
  | CBatch c vs, CBatch c' vs' => Nat.eqb c c' && list_eqb Nat.eqb vs vs'
  | CEnd c, CEnd c' => Nat.eqb c c'
  | _, _ => false
  end.

Definition chan_case := (list wev * list cev)%type.

Fixpoint chan_mis (i : N) (l : list chan_case) : list N :=
  match l with
  | [] => []
  | (evs, got) :: r =>
    if list_eqb cev_eqb (chan_client 0 (chan_server 0 evs)) got
    then chan_mis (N.succ i) r else i :: chan_mis (N.succ i) r
  end.
Definition chan_mismatches (l : list chan_case) : list N := chan_mis 0 l.
