(* Correspondence check for C14: histories observed on the real lake are
   replayed through the model; the result lists the (case, step) positions
   where the model's branch differs from the observed one. *)
From ZV Require Import Base.Prelude Model.Pruner Model.LakeData.

Definition V (k : key) (b : bytes) : val := {| vkey := k; vbody := b |}.

Inductive hop :=
| HLoad (vals : list N)
| HDelete (objs : list (list N))
| HDeleteWhere (hits : list N)
| HCompact (objs : list (list N))
| HNop.

Definition nthv (tbl : list val) (i : N) : val := nth (N.to_nat i) tbl (V KNull []).
Definition vals_of tbl (l : list N) : list val := map (nthv tbl) l.

Definition val_eqb (a b : val) : bool := key_eqb (vkey a) (vkey b) && bytes_eqb (vbody a) (vbody b).
Definition obj_eqb (a b : list val) : bool := list_eqb val_eqb a b.

Definition find_id (b : branch) (o : list val) : option oid :=
  match filter (fun x => obj_eqb (bvals x) o) b with
  | x :: _ => Some (bid x)
  | [] => None
  end.

Fixpoint find_ids (b : branch) (os : list (list val)) : list oid :=
  match os with
  | [] => []
  | o :: r => match find_id b o with Some i => i :: find_ids b r | None => (5000 + List.length r)%nat :: find_ids b r end
  end.

Definition to_lop (tbl : list val) (thresh : Z) (s : lstate) (h : hop) : lop :=
  match h with
  | HLoad l => OLoad (cut thresh [] 0%Z (vals_of tbl l))
  | HDelete os => ODelete (find_ids (lbranch s) (map (vals_of tbl) os))
  | HDeleteWhere hits =>
    let hv := vals_of tbl hits in
    ODeleteWhere (fun v => existsb (val_eqb v) hv) 4000
  | HCompact os => OCompact (find_ids (lbranch s) (map (vals_of tbl) os)) 4000
  | HNop => ONoData
  end.

(* multiset equality of object lists (objects compared as value sequences) *)
Fixpoint remove_first (o : list val) (l : list (list val)) : option (list (list val)) :=
  match l with
  | [] => None
  | x :: r => if obj_eqb x o then Some r
              else match remove_first o r with Some r' => Some (x :: r') | None => None end
  end.

Fixpoint same_objs (a b : list (list val)) : bool :=
  match a with
  | [] => match b with [] => true | _ => false end
  | o :: r => match remove_first o b with Some b' => same_objs r b' | None => false end
  end.

Definition flat_sorted desc (os : list (list val)) : list val := isort (ile desc) (List.concat os).

Definition step_ok (desc : bool) (tbl : list val) (h : hop) (s' : lstate) (obs : list (list N)) : bool :=
  let got := map bvals (lbranch s') in
  let want := map (vals_of tbl) obs in
  match h with
  | HCompact _ | HDeleteWhere _ => list_eqb val_eqb (flat_sorted desc got) (flat_sorted desc want)
  | _ => same_objs got want
  end.

(* returns the indices of the steps whose outcome differs *)
Fixpoint run_steps (desc : bool) (thresh : Z) (tbl : list val) (s : lstate) (i : N)
         (steps : list (hop * list (list N))) : list N :=
  match steps with
  | [] => []
  | (h, obs) :: r =>
    let s' := lstep' desc s (to_lop tbl thresh s h) in
    (* after a compaction the model re-synchronises with the observed objects,
       because the real object boundaries depend on byte sizes not modelled here *)
    let s'' := match h with
               | HCompact _ | HDeleteWhere _ => {| lbranch := fresh_objs (lnext s') (map (vals_of tbl) obs);
                                  lnext := (lnext s' + List.length obs)%nat |}
               | _ => s'
               end in
    if step_ok desc tbl h s' obs then run_steps desc thresh tbl s'' (N.succ i) r
    else i :: run_steps desc thresh tbl s'' (N.succ i) r
  end.

Definition hist_case := (bool * Z * list val * list (hop * list (list N)))%type.

Fixpoint hist_mismatches (i : N) (cs : list hist_case) : list (N * list N) :=
  match cs with
  | [] => []
  | (desc, thresh, tbl, steps) :: r =>
    match run_steps desc thresh tbl {| lbranch := []; lnext := 0%nat |} 0 steps with
    | [] => hist_mismatches (N.succ i) r
    | bad => (i, bad) :: hist_mismatches (N.succ i) r
    end
  end.

(* object metadata: (values of the object, min, max, count) as reported *)
Definition meta_case := (bool * list val * key * key * N)%type.
Definition meta_ok_b (c : meta_case) : bool :=
  let '(desc, vs, mn, mx, cnt) := c in
  let o := mk_obj desc vs in
  key_eqb (dmin o) mn && key_eqb (dmax o) mx && N.eqb (N.of_nat (dcount o)) cnt
  && list_eqb val_eqb (dvals o) vs.

Fixpoint meta_mismatches (i : N) (cs : list meta_case) : list N :=
  match cs with
  | [] => []
  | c :: r => if meta_ok_b c then meta_mismatches (N.succ i) r else i :: meta_mismatches (N.succ i) r
  end.
