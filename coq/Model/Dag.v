(* Deep embedding of the DAG subset handled by the optimizer model (C07).
   Mirrors compiler/ast/dag (op.go, expr.go) as far as the optimizer looks at it:
   expressions are structural where optimizer/op.go inspects them (This, and,
   unary/binary, calls, regexp match, literal, search) and opaque otherwise.
   Field names, operator names, literals and opaque payloads are interned as
   numbers by the harness (equal text <-> equal number within one case).
   Definitions only. *)
From ZV Require Import Base.Prelude.

Definition path := list N.

Definition path_eqb : path -> path -> bool := list_eqb N.eqb.

Inductive expr :=
| EThis (p : path)
| ELit (id : N)
| ESearch (id : N)
| EUnary (o : N) (e : expr)
| EBinary (o : N) (a b : expr)      (* o = 0 is "and" *)
| ERegexp (id : N) (e : expr)
| ECall (fn : N) (args : list expr) (* 1 bucket 2 ceil 3 floor 4 round 5 every; others >= 10 *)
| EOther (id : N).

Definition EAnd (a b : expr) := EBinary 0 a b.

Fixpoint expr_eqb (a b : expr) {struct a} : bool :=
  match a, b with
  | EThis p, EThis q => path_eqb p q
  | ELit x, ELit y => N.eqb x y
  | ESearch x, ESearch y => N.eqb x y
  | EUnary o e, EUnary o' e' => N.eqb o o' && expr_eqb e e'
  | EBinary o x y, EBinary o' x' y' => N.eqb o o' && expr_eqb x x' && expr_eqb y y'
  | ERegexp i e, ERegexp i' e' => N.eqb i i' && expr_eqb e e'
  | ECall f xs, ECall g ys =>
    N.eqb f g &&
    (fix go (xs ys : list expr) {struct xs} : bool :=
       match xs, ys with
       | [], [] => true
       | x :: xs', y :: ys' => expr_eqb x y && go xs' ys'
       | _, _ => false
       end) xs ys
  | EOther x, EOther y => N.eqb x y
  | _, _ => false
  end.

Definition assignment := (expr * expr)%type.   (* LHS := RHS *)

Definition assign_eqb (a b : assignment) : bool :=
  expr_eqb (fst a) (fst b) && expr_eqb (snd a) (snd b).

(* order.SortKey: (descending?, key path); order.SortKeys = list of them *)
Definition sortkey := (bool * path)%type.
Definition sortkeys := list sortkey.

Definition sortkey_eqb (a b : sortkey) : bool :=
  Bool.eqb (fst a) (fst b) && path_eqb (snd a) (snd b).
Definition sortkeys_eqb : sortkeys -> sortkeys -> bool := list_eqb sortkey_eqb.

Inductive op :=
| OScan (sk : sortkeys) (filter : option expr)      (* dag.DefaultScan *)
| OFilter (e : expr)
| OCut (args : list assignment)
| ODrop (args : list expr)
| OPut (args : list assignment)
| ORename (args : list assignment)
| OSort (args : list (expr * bool)) (nullsfirst reverse : bool)
| OHead (n : N)
| OTail (n : N)
| OPass
| OUniq (c : bool)
| OFuse
| OYield (id : N)
| OSummarize (limit : N) (keys : list assignment) (aggs : N) (dir : Z) (pin pout : bool)
| OFork (paths : list (list op))
| OMerge (e : expr) (desc : bool)
| OCombine
| OJoin (id : N) (lk rk : expr) (ld rd : Z)
| OOver (id : N) (body : option (list op))
| OOutput (id : N)
| OOther (id : N).                                  (* switch and everything else: opaque *)

Definition seq := list op.

Definition opt_eqb {A} (eqb : A -> A -> bool) (a b : option A) : bool :=
  match a, b with
  | None, None => true
  | Some x, Some y => eqb x y
  | _, _ => false
  end.

Fixpoint op_eqb (a b : op) {struct a} : bool :=
  let seq_eqb :=
      fix seq_eqb (s t : list op) {struct s} : bool :=
        match s, t with
        | [], [] => true
        | x :: s', y :: t' => op_eqb x y && seq_eqb s' t'
        | _, _ => false
        end in
  match a, b with
  | OScan sk f, OScan sk' f' => sortkeys_eqb sk sk' && opt_eqb expr_eqb f f'
  | OFilter e, OFilter e' => expr_eqb e e'
  | OCut x, OCut y => list_eqb assign_eqb x y
  | ODrop x, ODrop y => list_eqb expr_eqb x y
  | OPut x, OPut y => list_eqb assign_eqb x y
  | ORename x, ORename y => list_eqb assign_eqb x y
  | OSort x nf r, OSort y nf' r' =>
    list_eqb (fun p q => expr_eqb (fst p) (fst q) && Bool.eqb (snd p) (snd q)) x y
    && Bool.eqb nf nf' && Bool.eqb r r'
  | OHead n, OHead m => N.eqb n m
  | OTail n, OTail m => N.eqb n m
  | OPass, OPass => true
  | OUniq c, OUniq c' => Bool.eqb c c'
  | OFuse, OFuse => true
  | OYield i, OYield j => N.eqb i j
  | OSummarize l k a d pi po, OSummarize l' k' a' d' pi' po' =>
    N.eqb l l' && list_eqb assign_eqb k k' && N.eqb a a' && Z.eqb d d'
    && Bool.eqb pi pi' && Bool.eqb po po'
  | OFork ps, OFork qs =>
    (fix go (ps qs : list (list op)) {struct ps} : bool :=
       match ps, qs with
       | [], [] => true
       | p :: ps', q :: qs' => seq_eqb p q && go ps' qs'
       | _, _ => false
       end) ps qs
  | OMerge e d, OMerge e' d' => expr_eqb e e' && Bool.eqb d d'
  | OCombine, OCombine => true
  | OJoin i l r ld rd, OJoin i' l' r' ld' rd' =>
    N.eqb i i' && expr_eqb l l' && expr_eqb r r' && Z.eqb ld ld' && Z.eqb rd rd'
  | OOver i b, OOver i' b' =>
    N.eqb i i' &&
    match b, b' with
    | None, None => true
    | Some s, Some t => seq_eqb s t
    | _, _ => false
    end
  | OOutput i, OOutput j => N.eqb i j
  | OOther i, OOther j => N.eqb i j
  | _, _ => false
  end.

Definition seq_eqb : seq -> seq -> bool := list_eqb op_eqb.
