(* Model of the query response stream between service and client (C19):
   api/queryio/writer.go (Writer.WriteBatch / WhiteChannelEnd / WriteProgress /
   WriteError / WriteControl), service/handlers.go handleQuery, and the client
   scanner api/queryio/client.go.  A late error -- one that occurs after the
   response has started streaming -- can only travel in-band as a control frame.
   Definitions only. *)
From ZV Require Import Base.Prelude.

Inductive frame :=
| FValues (vs : list nat)
| FChannelSet (c : nat)
| FChannelEnd (c : nat)
| FStats
| FError (e : nat).

(* Writer.WriteControl: control frames are written only when the client asked
   for them (ctrl) and the response format has them (zng, zjson). *)
Definition control (enabled : bool) (f : frame) : list frame := if enabled then [f] else [].

(* one output channel "main" = 0; stats may be interleaved anywhere *)
Fixpoint server_batches (enabled : bool) (stats : list bool) (bs : list (list nat)) : list frame :=
  match bs with
  | [] => []
  | b :: r =>
    let st := match stats with true :: _ => control enabled FStats | _ => [] end in
    FValues b :: st ++ server_batches enabled (tl stats) r
  end.

Definition server (ctrl fmt_has_ctrl : bool) (stats : list bool) (bs : list (list nat)) (late : option nat)
  : list frame :=
  let enabled := ctrl && fmt_has_ctrl in
  control enabled (FChannelSet 0) ++ server_batches enabled stats bs ++
  match late with
  | Some e => control enabled (FError e)           (* WriteError *)
  | None => control enabled (FChannelEnd 0)
  end.

(* the client scanner: values in order; a QueryError ends the stream with that error *)
Fixpoint client (fs : list frame) : list nat * option nat :=
  match fs with
  | [] => ([], None)
  | FValues vs :: r => let '(v, e) := client r in (vs ++ v, e)
  | FError e :: _ => ([], Some e)
  | _ :: r => client r
  end.

(* handleQuery's handleError: the error is written in-band (WriteError) AND
   recorded on the query status endpoint (status.setError), which the client can
   read with GET /query/status/{request id} for a while after the query ended. *)
Definition status_endpoint (late : option nat) : option nat := late.

(* what a client learns about a late error: the in-band control frame if one
   arrived, otherwise the status endpoint *)
Definition reported (ctrl fmt_has_ctrl : bool) (stats : list bool) (bs : list (list nat)) (late : option nat)
  : option nat :=
  match snd (client (server ctrl fmt_has_ctrl stats bs late)) with
  | Some e => Some e
  | None => status_endpoint late
  end.

(* ---- request/response codecs of the other endpoints, abstractly ---- *)
Section Endpoints.
  Variables (Req Resp State Wire : Type).
  Variable handler : State -> Req -> State * Resp.          (* the lake operation itself *)
  Variables (ereq : Req -> Wire) (dreq : Wire -> option Req).
  Variables (eresp : Resp -> Wire) (dresp : Wire -> option Resp).

  Definition local_step (s : State) (r : Req) : State * option Resp :=
    let '(s', x) := handler s r in (s', Some x).

  (* client encodes, server decodes and calls the same handler, encodes; client decodes *)
  Definition remote_step (s : State) (r : Req) : State * option Resp :=
    match dreq (ereq r) with
    | None => (s, None)
    | Some r' => let '(s', x) := handler s r' in (s', dresp (eresp x))
    end.
End Endpoints.
