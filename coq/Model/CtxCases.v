(* Correspondence check for C05: the harness lists what the real context did. *)
From ZV Require Import Base.Prelude Base.Types Base.TypeValue Base.TypeOrder Model.Ctx.
Local Open Scope N_scope.

Fixpoint mism {A} (ok : A -> bool) (i : N) (l : list A) : list N :=
  match l with
  | [] => []
  | x :: r => if ok x then mism ok (N.succ i) r else i :: mism ok (N.succ i) r
  end.

Definition optN_eqb (a b : option N) : bool :=
  match a, b with Some x, Some y => x =? y | None, None => true | _, _ => false end.

Definition optb_eqb (a : option bytes) (b : bytes) : bool :=
  match a with Some x => bytes_eqb x b | None => false end.

Definition hist_case := (list (op * option N) * list bytes)%type.

Fixpoint run_ops (c : ctx) (l : list (op * option N)) : ctx * bool :=
  match l with
  | [] => (c, true)
  | (o, want) :: r =>
    let (c', got) := do_op c o in
    if optN_eqb got want then run_ops c' r else (c', false)
  end.

Fixpoint all2 {A B} (f : A -> B -> bool) (la : list A) (lb : list B) : bool :=
  match la, lb with
  | [], [] => true
  | a :: ra, b :: rb => f a b && all2 f ra rb
  | _, _ => false
  end.

Definition hist_ok (h : hist_case) : bool :=
  let (c, ok) := run_ops empty (fst h) in
  ok && all2 optb_eqb (table c) (snd h).

Definition hist_mismatches (l : list hist_case) : list N := mism hist_ok 0 l.

Definition opt_ty_bytes_eqb (a : option (ty * bytes)) (t : ty) : bool :=
  match a with Some (x, []) => ty_eqb x t | _ => false end.

(* serialization of a real type = model's; and it decodes back (empty typedefs) *)
Definition tv_ok (c : ty * bytes) : bool :=
  let (t, b) := c in
  bytes_eqb (encode t) b && opt_ty_bytes_eqb (decode [] b) t.

Definition tv_mismatches (l : list (ty * bytes)) : list N := mism tv_ok 0 l.

Definition cmp_code (c : comparison) : N := match c with Lt => 0 | Eq => 1 | Gt => 2 end.

(* one row of codes per type: CompareTypes(t_i, t_j) for all j *)
Definition cmp_ok (c : list ty * list bytes) : bool :=
  let (ts, m) := c in
  all2 (fun a row => all2 (fun b z => N.eqb (cmp_code (cmp a b)) z) ts row) ts m.

Definition cmp_mismatches (l : list (list ty * list bytes)) : list N := mism cmp_ok 0 l.
