(* Model of the commit store as a write-once object store (C13):
   lake/commits/store.go (Get/Put/Snapshot: walk the parent chain and play the
   actions), lake/data (objects written once under fresh ids), branch pointers,
   and a reader that pins a commit and then reads in separate steps while
   writers keep committing.  Definitions only. *)
From ZV Require Import Base.Prelude Model.Merge.

Definition cid := nat.                      (* commit ids; 0 is the nil commit *)

Record commit_obj := { cparent : cid; cacts : list action }.

(* The storage holds commit objects and data objects under their ids. *)
Record store := {
  commits : list (cid * commit_obj);
  objects : list (oid * list nat);          (* data object id -> its values *)
  branches : list (nat * cid)               (* branch name -> tip *)
}.

Fixpoint assoc {A} (k : nat) (l : list (nat * A)) : option A :=
  match l with
  | [] => None
  | (k', v) :: r => if Nat.eqb k k' then Some v else assoc k r
  end.

(* commits.Store.Snapshot: collect the chain from the leaf to the nil commit,
   then play the actions oldest first.  Fuel bounds the chain length; running
   out of fuel or meeting a missing commit object is an error. *)
Fixpoint chain (s : store) (fuel : nat) (c : cid) : option (list commit_obj) :=
  match c with
  | O => Some []
  | _ =>
    match fuel with
    | O => None
    | S f =>
      match assoc c (commits s) with
      | None => None
      | Some o =>
        match chain s f (cparent o) with
        | None => None
        | Some older => Some (older ++ [o])
        end
      end
    end
  end.

Definition snapshot (s : store) (fuel : nat) (c : cid) : option snap :=
  match chain s fuel c with
  | None => None
  | Some objs => play [] (flat_map cacts objs)
  end.

Fixpoint read_objects (s : store) (ids : list oid) : option (list (list nat)) :=
  match ids with
  | [] => Some []
  | i :: r =>
    match assoc i (objects s), read_objects s r with
    | Some v, Some vs => Some (v :: vs)
    | _, _ => None
    end
  end.

(* What a query pinned to commit c returns. *)
Definition read_commit (s : store) (fuel : nat) (c : cid) : option (list (list nat)) :=
  match snapshot s fuel c with
  | None => None
  | Some ids => read_objects s ids
  end.

(* Writer steps: everything a load / delete / compact / merge / revert / rename
   / branch create does to the storage.  Objects and commits are only ever
   written under fresh ids; branch pointers are freely reassigned. *)
Inductive wstep :=
| WPutCommit (c : cid) (o : commit_obj)
| WPutObject (i : oid) (vals : list nat)
| WSetBranch (b : nat) (c : cid)
| WDropBranch (b : nat).

Definition fresh {A} (k : nat) (l : list (nat * A)) : bool :=
  match assoc k l with None => true | Some _ => false end.

(* A step that would overwrite an existing commit or object is refused. *)
Definition wapply (s : store) (w : wstep) : store :=
  match w with
  | WPutCommit c o =>
    if fresh c (commits s) && negb (Nat.eqb c 0)
    then {| commits := (c, o) :: commits s; objects := objects s; branches := branches s |} else s
  | WPutObject i v =>
    if fresh i (objects s)
    then {| commits := commits s; objects := (i, v) :: objects s; branches := branches s |} else s
  | WSetBranch b c =>
    {| commits := commits s; objects := objects s; branches := (b, c) :: branches s |}
  | WDropBranch b =>
    {| commits := commits s; objects := objects s;
       branches := filter (fun x => negb (Nat.eqb (fst x) b)) (branches s) |}
  end.

(* A reader: resolves the branch when it starts, reads the snapshot in a later
   step and every object in a separate step; writers run in between.
   [sched] gives the writer steps that happen before each reader step. *)
Fixpoint read_objects_sched (s : store) (ids : list oid) (sched : list (list wstep))
  : option (list (list nat)) :=
  match ids with
  | [] => Some []
  | i :: r =>
    let '(ws, sched') := match sched with [] => ([], []) | ws :: t => (ws, t) end in
    let s' := fold_left wapply ws s in
    match assoc i (objects s'), read_objects_sched s' r sched' with
    | Some v, Some vs => Some (v :: vs)
    | _, _ => None
    end
  end.

Definition reader (s : store) (fuel : nat) (b : nat)
           (before_snapshot : list wstep) (sched : list (list wstep))
  : option (list (list nat)) :=
  match assoc b (branches s) with
  | None => None
  | Some c =>
    let s1 := fold_left wapply before_snapshot s in
    match snapshot s1 fuel c with
    | None => None
    | Some ids => read_objects_sched s1 ids sched
    end
  end.
