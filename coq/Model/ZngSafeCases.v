(* Correspondence check for C11: the harness lists, for header-level mutants
   of ZNG streams, the outcome class the real reader produced (synchronous
   scanner, Validate off, Max = [cmax]); these functions return the indices
   where the model differs. *)
From ZV Require Import Base.Prelude Model.ZngSafe.
From Coq Require Import Uint63.
Local Open Scope Z_scope.

(* Byte strings of the case file are packed 7 bytes per primitive integer
   (big-endian; the last word holds the remaining bytes): string literals cost
   about 70 us per character to elaborate, these are 10x cheaper. *)
Fixpoint word_bytes (k : nat) (z : Z) (acc : bytes) : bytes :=
  match k with
  | O => acc
  | S k' => word_bytes k' (z / 256) (Z.to_N (z mod 256) :: acc)
  end.

Fixpoint pk (len : nat) (ws : list int) : bytes :=
  match ws with
  | [] => []
  | w :: r => let k := Nat.min 7 len in word_bytes k (Uint63.to_Z w) [] ++ pk (len - k) r
  end.

Example pk_ex : pk 9 [0x01020304050607%uint63; 0x0809%uint63] = hex "010203040506070809".
Proof. vm_compute. reflexivity. Qed.

Definition cmax : Z := 1048576.

(* LZ4 as observed by the harness on the compressed frames of the case *)
Definition lz4_tbl := list (bytes * Z * option bytes).

Fixpoint lz4_of (t : lz4_tbl) (z : bytes) (n : Z) : option bytes :=
  match t with
  | [] => None
  | (k, m, r) :: t' => if andb (bytes_eqb k z) (m =? n) then r else lz4_of t' z n
  end.

(* observed: (0, n) ok with n values; (1, c) error with code c (0 = an error of
   the type-construction layer that the model abstracts); (2, _) panic *)
Definition agrees (v : verdict) (obs : N * N) : bool :=
  let '(k, a) := obs in
  match k with
  | 0%N => match out v with Ok n => N.eqb n a | _ => false end
  | 2%N => match out v with Panic => true | _ => false end
  | _ =>
    match a with
    | 0%N => sem v
    | _ =>
      match out v with
      | Err e => orb (N.eqb (err_code e) a) (andb (sem v) (orb (N.eqb a 11) (N.eqb a 13)))
      | _ => andb (sem v) (orb (N.eqb a 11) (N.eqb a 13))
      end
    end
  end.

Fixpoint mismz {A} (ok : A -> bool) (i : N) (l : list A) : list N :=
  match l with
  | [] => []
  | x :: r => if ok x then mismz ok (N.succ i) r else i :: mismz ok (N.succ i) r
  end.

Definition zng_mismatches (l : list (bytes * lz4_tbl * (N * N))) : list N :=
  mismz (fun '(b, t, obs) => agrees (zng_parse (lz4_of t) cmax b) obs) 0 l.

(* what the model says, for diagnosis: (class, code/nvals, sem) *)
Definition zng_model (l : list (bytes * lz4_tbl * (N * N))) : list (N * N * bool) :=
  map (fun '(b, t, _) =>
         let v := zng_parse (lz4_of t) cmax b in
         match out v with
         | Ok n => (0%N, n, sem v) | Err e => (1%N, err_code e, sem v) | Panic => (2%N, 0%N, sem v)
         end) l.
