(* C03  Model of the VNG columnar writer and of its two readers, for value
   sequences whose columns are nullable primitive columns:

     vng/nulls.go      NullsEncoder.touchValue/touchNull/Encode, NullsBuilder.Build
     vng/primitive.go  PrimitiveEncoder.update/Const/makeDict/makeDictVector/Metadata,
                       PrimitiveBuilder / DictBuilder / ConstBuilder
     vng/dynamic.go    DynamicEncoder.Write/Encode, dynamicBuilder.Read, vectorBuilder.Read
     runtime/vcache    nulls.fetch (bitmap from run lengths), loader.loadPrimitive
                       (loadDict tag expansion / loadVals / const), projectDynamic
     vector            Dict/Const/<prim>.Serialize, Dynamic.Serialize + TagMap.Forward
     runtime/vam       Materializer.Pull

   Definitions only.  A primitive body is a byte string; [None] is null. *)
From ZV Require Import Base.Prelude.
Local Open Scope N_scope.

Definition body := option bytes.

(* ------------------------------------------------------------------ *)
(* NullsEncoder: run lengths of alternating value / null runs, starting with a
   (possibly empty) value run.  [ns_runs] is the Int64Encoder's content. *)
Record nstate := mkN { ns_runs : list N; ns_run : N; ns_null : bool; ns_count : N }.

Definition ns_init : nstate := mkN [] 0 false 0.

Definition touch_value (s : nstate) : nstate :=
  if ns_null s
  then mkN (ns_runs s ++ [ns_run s]) 1 false (ns_count s)
  else mkN (ns_runs s) (ns_run s + 1) false (ns_count s).

Definition touch_null (s : nstate) : nstate :=
  if ns_null s
  then mkN (ns_runs s) (ns_run s + 1) true (ns_count s + 1)
  else mkN (ns_runs s ++ [ns_run s]) 1 true (ns_count s + 1).

(* Write: [true] = the body is null *)
Definition nulls_write (s : nstate) (isnull : bool) : nstate :=
  if isnull then touch_null s else touch_value s.

Definition nulls_state (bits : list bool) : nstate := fold_left nulls_write bits ns_init.

(* Encode + Metadata: no Nulls node at all when there was no null. *)
Definition nulls_finish (s : nstate) : option (list N) :=
  if ns_count s =? 0 then None
  else Some (if 0 <? ns_run s then ns_runs s ++ [ns_run s] else ns_runs s).

(* NullsBuilder (row reader): state = remaining runs, current polarity, rest of
   the current run.  Starts with null = true, run = 0. *)
Fixpoint nb_skip (runs : list N) (null : bool) : option (N * list N * bool) :=
  match runs with
  | [] => None                                   (* io.EOF *)
  | v :: r => if v =? 0 then nb_skip r (negb null) else Some (v, r, negb null)
  end.

Definition nb_state := (list N * bool * N)%type.

Definition nb_build (st : nb_state) : option (bool * nb_state) :=
  let '(runs, null, run) := st in
  if run =? 0 then
    match nb_skip runs null with
    | None => None
    | Some (v, r, nl) => Some (nl, (r, nl, v - 1))
    end
  else Some (null, (runs, null, run - 1)).

Fixpoint nb_read (n : nat) (st : nb_state) : option (list bool) :=
  match n with
  | O => Some []
  | S n' => match nb_build st with
            | None => None
            | Some (b, st') => match nb_read n' st' with
                               | None => None
                               | Some l => Some (b :: l)
                               end
            end
  end.

Definition nulls_row (runs : list N) (n : nat) : option (list bool) := nb_read n (runs, true, 0).

(* vcache nulls.fetch: fills a bitmap run by run, starting with a value run. *)
Fixpoint expand (null : bool) (runs : list N) : list bool :=
  match runs with
  | [] => []
  | r :: rs => repeat null (N.to_nat r) ++ expand (negb null) rs
  end.

(* the bitmap has exactly [n] slots: bits set beyond it would be out of range *)
Definition nulls_vec (runs : list N) (n : nat) : option (list bool) :=
  let l := expand false runs in
  if Nat.leb (List.length l) n then Some (l ++ repeat false (n - List.length l)) else None.

(* ------------------------------------------------------------------ *)
(* PrimitiveEncoder *)
Definition dict := list (bytes * N).            (* value, count: in insertion order *)

Fixpoint dict_add (d : dict) (k : bytes) : dict :=
  match d with
  | [] => [(k, 1)]
  | (k', c) :: r => if bytes_eqb k k' then (k', c + 1) :: r else (k', c) :: dict_add r k
  end.

(* update: the dictionary is dropped for good once it exceeds MaxDictSize *)
Definition pe_update (maxdict : nat) (st : option dict) (k : bytes) : option dict :=
  match st with
  | None => None
  | Some d => let d' := dict_add d k in
              if Nat.ltb maxdict (List.length d') then None else Some d'
  end.

(* NewPrimitiveEncoder: no dictionary for the 8-bit types *)
Definition pe_init (small : bool) : option dict := if small then None else Some [].

Definition pe_state (maxdict : nat) (small : bool) (vals : list bytes) : option dict :=
  fold_left (pe_update maxdict) vals (pe_init small).

Inductive pmeta :=
| PConst (v : bytes) (n : N)
| PDict (d : dict) (sels : list N) (n : N)      (* Primitive with Dict; segment = selectors *)
| PPlain (vals : list bytes) (n : N).           (* Primitive without Dict; segment = values *)

Fixpoint index_of (k : bytes) (l : list bytes) : nat :=
  match l with
  | [] => O
  | x :: r => if bytes_eqb k x then O else S (index_of k r)
  end.

(* makeDictVector: pos[bytes] = byte(off) *)
Definition selector (sd : dict) (v : bytes) : N := N.of_nat (index_of v (map fst sd)) mod 256.

Definition nlen {A} (l : list A) : N := N.of_nat (List.length l).

(* makeDict = iterate the Go map (in whatever order) and sortDict it: by value
   comparison, ties broken by the bytes.  [less] is that combined order on the
   value bytes of one column type; insertion sort stands for sort.Slice. *)
Section Sort.
  Variable less : bytes -> bytes -> bool.

  Fixpoint dict_insert (e : bytes * N) (l : dict) : dict :=
    match l with
    | [] => [e]
    | x :: r => if less (fst e) (fst x) then e :: l else x :: dict_insert e r
    end.

  Definition sort_dict (d : dict) : dict := fold_right dict_insert [] d.
End Sort.

(* [iter d]: the order in which one range over the Go map yields its entries *)
Definition make_dict (less : bytes -> bytes -> bool) (iter : dict -> dict) (d : dict) : dict :=
  sort_dict less (iter d).

Section Order.
  (* makeDict is called twice, independently: in makeDictVector (selectors)
     and in Metadata (the stored entries). *)
  Variable order_sel : dict -> dict.
  Variable order_meta : dict -> dict.

  Definition pe_finish (st : option dict) (vals : list bytes) : pmeta :=
    match st with
    | None => PPlain vals (nlen vals)
    | Some [] => PPlain vals (nlen vals)
    | Some [(k, _)] => PConst k (nlen vals)
    | Some d => PDict (order_meta d) (map (selector (order_sel d)) vals) (nlen vals)
    end.

  Definition prim_encode (maxdict : nat) (small : bool) (vals : list bytes) : pmeta :=
    pe_finish (pe_state maxdict small vals) vals.
End Order.

(* ConstBuilder / DictBuilder / PrimitiveBuilder (and vector Const / Dict / plain
   vectors restricted to the non-null slots): the values in order; [None] when
   a selector is out of range ("corrupt VNG") *)
Fixpoint all_some {A} (l : list (option A)) : option (list A) :=
  match l with
  | [] => Some []
  | None :: _ => None
  | Some x :: r => match all_some r with None => None | Some r' => Some (x :: r') end
  end.

Definition prim_decode (p : pmeta) : option (list bytes) :=
  match p with
  | PConst v n => Some (repeat v (N.to_nat n))
  | PDict d sels _ => all_some (map (fun s => nth_error (map fst d) (N.to_nat s)) sels)
  | PPlain vals _ => Some vals
  end.

Definition prim_len (p : pmeta) : N :=
  match p with PConst _ n => n | PDict _ _ n => n | PPlain _ n => n end.

(* ------------------------------------------------------------------ *)
(* A nullable primitive column: NullsEncoder (PrimitiveEncoder) *)
Inductive cmeta :=
| CNulls (runs : list N) (nullcount : N) (p : pmeta)
| CVals (p : pmeta).

Definition is_null (b : body) : bool := match b with None => true | Some _ => false end.

Fixpoint somes (l : list body) : list bytes :=
  match l with
  | [] => []
  | None :: r => somes r
  | Some v :: r => v :: somes r
  end.

Definition col_encode_gen (order_sel order_meta : dict -> dict) (maxdict : nat) (small : bool) (l : list body) : cmeta :=
  let s := nulls_state (map is_null l) in
  let p := prim_encode order_sel order_meta maxdict small (somes l) in
  match nulls_finish s with
  | None => CVals p
  | Some runs => CNulls runs (ns_count s) p
  end.

Definition col_encode (less : bytes -> bytes -> bool) (iter1 iter2 : dict -> dict)
           (maxdict : nat) (small : bool) (l : list body) : cmeta :=
  col_encode_gen (make_dict less iter1) (make_dict less iter2) maxdict small l.

(* both readers put the next value into each non-null slot *)
Fixpoint merge (bits : list bool) (vals : list bytes) : option (list body) :=
  match bits with
  | [] => Some []
  | true :: r => match merge r vals with None => None | Some l => Some (None :: l) end
  | false :: r => match vals with
                  | [] => None
                  | v :: vs => match merge r vs with None => None | Some l => Some (Some v :: l) end
                  end
  end.

Definition col_len (c : cmeta) : N :=
  match c with CNulls _ k p => k + prim_len p | CVals p => prim_len p end.

Definition col_decode (vec : bool) (c : cmeta) : option (list body) :=
  match c with
  | CVals p => match prim_decode p with None => None | Some vs => Some (map Some vs) end
  | CNulls runs k p =>
    let n := N.to_nat (k + prim_len p) in
    match (if vec then nulls_vec runs n else nulls_row runs n), prim_decode p with
    | Some bits, Some vs => merge bits vs
    | _, _ => None
    end
  end.

(* ------------------------------------------------------------------ *)
(* DynamicEncoder: one column per top-level type in order of first appearance,
   plus the tag of every value (no tags when there is exactly one type). *)
Definition tyid := N.
Definition value := (tyid * body)%type.

Fixpoint which_add (w : list tyid) (t : tyid) : list tyid :=
  match w with
  | [] => [t]
  | x :: r => if x =? t then w else x :: which_add r t
  end.

Definition which (vs : list value) : list tyid := fold_left which_add (map fst vs) [].

Fixpoint tag_of (w : list tyid) (t : tyid) : nat :=
  match w with
  | [] => O
  | x :: r => if x =? t then O else S (tag_of r t)
  end.

Definition column_of (t : tyid) (vs : list value) : list body :=
  map snd (filter (fun v => fst v =? t) vs).

Inductive ometa :=
| OSingle (t : tyid) (c : cmeta)
| ODyn (types : list tyid) (tags : list N) (cs : list cmeta) (len : N).

Definition obj_encode_gen (order_sel order_meta : tyid -> dict -> dict) (maxdict : nat) (small : tyid -> bool) (vs : list value) : ometa :=
  let w := which vs in
  let cs := map (fun t => col_encode_gen (order_sel t) (order_meta t) maxdict (small t) (column_of t vs)) w in
  match w, cs with
  | [t], [c] => OSingle t c
  | _, _ => ODyn w (map (fun v => N.of_nat (tag_of w (fst v))) vs) cs (nlen vs)
  end.

(* [less t]: the value order of the column type t *)
Definition obj_encode (less : tyid -> bytes -> bytes -> bool) (iter1 iter2 : dict -> dict)
           (maxdict : nat) (small : tyid -> bool) (vs : list value) : ometa :=
  obj_encode_gen (fun t => make_dict (less t) iter1) (fun t => make_dict (less t) iter2) maxdict small vs.

Fixpoint set_nth {A} (l : list A) (k : nat) (x : A) : list A :=
  match l, k with
  | [], _ => []
  | _ :: r, O => x :: r
  | y :: r, S k' => y :: set_nth r k' x
  end.

(* dynamicBuilder.Read: the next value of the column the tag points to *)
Fixpoint mux (tags : list nat) (cols : list (list body)) : option (list (nat * body)) :=
  match tags with
  | [] => Some []
  | k :: r => match nth_error cols k with
              | Some (x :: c') => match mux r (set_nth cols k c') with
                                  | None => None
                                  | Some l => Some ((k, x) :: l)
                                  end
              | _ => None
              end
  end.

(* vector.Dynamic + TagMap.Forward: slot -> (tag, index among the earlier slots of that tag) *)
Fixpoint forward (seen : list nat) (tags : list nat) : list (nat * nat) :=
  match tags with
  | [] => []
  | k :: r => (k, count_occ Nat.eq_dec seen k) :: forward (k :: seen) r
  end.

Definition demux_vec (tags : list nat) (cols : list (list body)) : option (list (nat * body)) :=
  all_some (map (fun '(k, i) => match nth_error cols k with
                                | Some c => match nth_error c i with Some x => Some (k, x) | None => None end
                                | None => None
                                end) (forward [] tags)).

Definition retag (types : list tyid) (l : list (nat * body)) : option (list value) :=
  all_some (map (fun '(k, x) => match nth_error types k with Some t => Some (t, x) | None => None end) l).

Definition obj_read (vec : bool) (o : ometa) : option (list value) :=
  match o with
  | OSingle t c => match col_decode vec c with None => None | Some l => Some (map (fun x => (t, x)) l) end
  | ODyn types tags cs _ =>
    match all_some (map (col_decode vec) cs) with
    | None => None
    | Some cols =>
      (* NewTagMapFromLens panics ("bad VNG tagmap") unless the column lengths add up *)
      if vec && negb (Nat.eqb (fold_right (fun c a => (List.length c + a)%nat) O cols) (List.length tags)) then None
      else match (if vec then demux_vec else mux) (map N.to_nat tags) cols with
           | None => None
           | Some l => retag types l
           end
    end
  end.
