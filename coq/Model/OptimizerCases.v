(* Correspondence check for C07: the harness lists, per program, the analysed
   DAG and what Optimizer.Optimize made of it (None = it panicked with
   "Duplicate op value"); [opt_mismatches] returns the indices where the model
   differs.  [keeps_cases] does the same for the sort-key analysis alone. *)
From ZV Require Import Base.Prelude Model.Dag Model.Optimizer.

Fixpoint mism {A} (ok : A -> bool) (i : N) (l : list A) : list N :=
  match l with
  | [] => []
  | x :: r => if ok x then mism ok (N.succ i) r else i :: mism ok (N.succ i) r
  end.

Definition opt_ok (c : seq * option seq) : bool :=
  opt_eqb seq_eqb (optimize (fst c)) (snd c).

Definition opt_mismatches (l : list (seq * option seq)) : list N := mism opt_ok 0 l.

(* Lake plans: the analysed DAG (pool scan written as OScan with the pool's
   sort key), whether the real optimizer inserted a Slicer, and whether it gave
   the Lister a key-range pruner. *)
Definition lake_ok (c : seq * bool * bool) : bool :=
  let '(s, slicer, pruner) := c in
  opt_eqb Bool.eqb (lake_order_required s) (Some slicer)
  && opt_eqb Bool.eqb (lake_pruner_present s) (Some pruner).

Definition lake_mismatches (l : list (seq * bool * bool)) : list N := mism lake_ok 0 l.
