(* Tie T for C07: the language into which go2coq translates the type switch of
   Optimizer.concurrentPath (compiler/optimizer/parallelize.go), and its
   interpreter over the model's operators.  Gen/ParallelizeGen.v (regenerated
   from the Go source on every run) defines one [cp_body] per operator kind;
   Proofs/ParallelizeGenProofs.v proves that interpreting that table is the
   hand-written [concurrent_path] of Model/Optimizer.v. *)
From ZV Require Import Base.Prelude Model.Dag Model.Optimizer.

(* the dag operator types a case label can name *)
Inductive cp_kind :=
| KSummarize | KSort | KLoad | KFork | KScatter | KMirror | KHead | KTail | KUniq
| KFuse | KJoin | KOutput | KFilter | KCut | KDrop | KPut | KRename | KPass | KYield
| KMerge | KCombine | KOver | KDefaultScan | KOtherOp.

Inductive cp_idx := IK | IZero.
(* sortKeys | nil | newKeys (sortKeysOfSort(op)) | next (analyzeSortKeys(op, sortKeys)) *)
Inductive cp_keys := KsKeep | KsNil | KsNew | KsNext.

Inductive cp_cond :=
| CKeyOfSummarize                (* isKeyOfSummarize(op, sortKeys) *)
| CIsNil (ks : cp_keys)          (* <keys>.IsNil() *)
| CNot (c : cp_cond)
| CAnd (a b : cp_cond)
| COr (a b : cp_cond).

Inductive cp_body :=
| BRet (i : cp_idx) (ks : cp_keys) (order_required need_merge : bool)   (* return i, ks, b, b, nil *)
| BIf (c : cp_cond) (t e : cp_body)
| BLetSort (b : cp_body)         (* newKeys := sortKeysOfSort(op) *)
| BLetAnalyze (b : cp_body)      (* next, err := o.analyzeSortKeys(op, sortKeys); if err != nil { return ..., err } *)
| BContinue (ks : cp_keys).      (* [sortKeys = ks;] leave the switch: next loop iteration *)

Definition kind_of (o : op) : cp_kind :=
  match o with
  | OScan _ _ => KDefaultScan
  | OFilter _ => KFilter
  | OCut _ => KCut
  | ODrop _ => KDrop
  | OPut _ => KPut
  | ORename _ => KRename
  | OSort _ _ _ => KSort
  | OHead _ => KHead
  | OTail _ => KTail
  | OPass => KPass
  | OUniq _ => KUniq
  | OFuse => KFuse
  | OYield _ => KYield
  | OSummarize _ _ _ _ _ _ => KSummarize
  | OFork _ => KFork
  | OMerge _ _ => KMerge
  | OCombine => KCombine
  | OJoin _ _ _ _ _ => KJoin
  | OOver _ _ => KOver
  | OOutput _ => KOutput
  | OOther _ => KOtherOp
  end.

Record cp_vars := mkVars { v_sk : sortkeys; v_new : sortkeys; v_next : sortkeys }.

Definition cp_keys_val (v : cp_vars) (ks : cp_keys) : sortkeys :=
  match ks with
  | KsKeep => v_sk v
  | KsNil => []
  | KsNew => v_new v
  | KsNext => v_next v
  end.

Fixpoint cp_cond_val (o : op) (v : cp_vars) (c : cp_cond) : bool :=
  match c with
  | CKeyOfSummarize =>
    match o with
    | OSummarize _ keys _ _ _ _ => is_key_of_summarize keys (v_sk v)
    | _ => false
    end
  | CIsNil ks => sk_nil (cp_keys_val v ks)
  | CNot a => negb (cp_cond_val o v a)
  | CAnd a b => cp_cond_val o v a && cp_cond_val o v b
  | COr a b => cp_cond_val o v a || cp_cond_val o v b
  end.

(* inl = the function returns; inr = the loop goes on with these sort keys *)
Fixpoint cp_exec (b : cp_body) (o : op) (k : nat) (v : cp_vars)
  : (nat * sortkeys * bool * bool) + sortkeys :=
  match b with
  | BRet i ks rq nm => inl (match i with IK => k | IZero => O end, cp_keys_val v ks, rq, nm)
  | BIf c t e => if cp_cond_val o v c then cp_exec t o k v else cp_exec e o k v
  | BLetSort b' =>
    let nk := match o with OSort args _ rev => sort_keys_of_sort args rev | _ => [] end in
    cp_exec b' o k (mkVars (v_sk v) nk (v_next v))
  | BLetAnalyze b' => cp_exec b' o k (mkVars (v_sk v) (v_new v) (analyze o (v_sk v)))
  | BContinue ks => inr (cp_keys_val v ks)
  end.

(* for k := range ops { switch ops[k].(type) { table } }; return len(ops), <final> *)
Fixpoint cp_interp (tbl : cp_kind -> cp_body) (final : cp_keys * bool * bool)
         (ops : list op) (k : nat) (sk : sortkeys) : nat * sortkeys * bool * bool :=
  match ops with
  | [] => let '(ks, rq, nm) := final in (k, cp_keys_val (mkVars sk [] []) ks, rq, nm)
  | o :: r =>
    match cp_exec (tbl (kind_of o)) o k (mkVars sk [] []) with
    | inl res => res
    | inr sk' => cp_interp tbl final r (S k) sk'
    end
  end.
