(* Model of the lake data layer (C14): import sort and object cutting
   (lake/writer.go Writer.Write/flipBuffers/writeObject, zbuf.NewComparatorNullsMax),
   object metadata (lake/data/writer.go: count, min, max in ascending terms),
   branch contents under load / delete / delete-where / compact
   (lake/branch.go, runtime/exec/compact.go), and the merging scan
   (runtime/sam/op/meta + merge).  Definitions only. *)
From ZV Require Import Base.Prelude Model.Pruner.
Local Open Scope Z_scope.

(* A stored value: its pool key and its ZNG body bytes (the tie breaker). *)
Record val := { vkey : key; vbody : bytes }.

(* The import comparator: pool key with nulls max (missing as null), operands
   swapped for a descending pool, then the value bytes in the pool's order. *)
Definition bcmpZ (a b : bytes) : Z := cmp_to_Z (bytes_cmp a b).

Definition icmp (desc : bool) (a b : val) : Z :=
  let c := if desc then cmpk (vkey b) (vkey a) else cmpk (vkey a) (vkey b) in
  if c =? 0 then (if desc then bcmpZ (vbody b) (vbody a) else bcmpZ (vbody a) (vbody b)) else c.

Definition ile (desc : bool) (a b : val) : bool := icmp desc a b <=? 0.

(* Stable insertion sort (sort.SliceStable is modelled by its specification:
   the stable sorted permutation; insertion sort computes exactly that). *)
Fixpoint insert (le : val -> val -> bool) (x : val) (l : list val) : list val :=
  match l with
  | [] => [x]
  | y :: r => if le x y then x :: l else y :: insert le x r
  end.

Fixpoint isort (le : val -> val -> bool) (l : list val) : list val :=
  match l with
  | [] => []
  | x :: r => insert le x (isort le r)
  end.

(* Writer.Write: buffer values until the accumulated body bytes reach the
   threshold, then cut.  [cut thresh acc size l] returns the chunks. *)
Fixpoint cut (thresh : Z) (acc : list val) (size : Z) (l : list val) : list (list val) :=
  match l with
  | [] => match acc with [] => [] | _ => [rev acc] end
  | v :: r =>
    let size' := size + Z.of_nat (List.length (vbody v)) in
    if size' >=? thresh then rev (v :: acc) :: cut thresh [] 0 r
    else cut thresh (v :: acc) size' r
  end.

Record dobj := { dvals : list val; dmin : key; dmax : key; dcount : nat }.

Definition first_key (l : list val) : key :=
  match l with [] => KNull | v :: _ => man (vkey v) end.
Definition last_key (l : list val) : key := first_key (rev l).

(* data.Writer: Min = first key written, Max = last key written, swapped at
   Close for a descending pool so that Min/Max are in ascending terms. *)
Definition mk_obj (desc : bool) (chunk : list val) : dobj :=
  let s := isort (ile desc) chunk in
  {| dvals := s;
     dmin := if desc then last_key s else first_key s;
     dmax := if desc then first_key s else last_key s;
     dcount := List.length s |}.

Definition load_objs (desc : bool) (thresh : Z) (l : list val) : list dobj :=
  map (mk_obj desc) (cut thresh [] 0 l).

(* ---------------- branch contents under operations ---------------- *)

(* Objects carry system-chosen identities; here an identity is its position
   in a global creation order. *)
Definition oid := nat.
Record bobj := { bid : oid; bvals : list val }.
Definition branch := list bobj.

Definition contents (b : branch) : list val := flat_map bvals b.

Inductive lop :=
| OLoad (chunks : list (list val))          (* values already cut into objects *)
| ODelete (ids : list oid)
| ODeleteWhere (p : val -> bool) (chunks : nat)  (* survivors of the affected objects are rewritten as [chunks]-sized objects *)
| OCompact (ids : list oid) (chunks : nat)  (* rewrite as [chunks] objects *)
| ONoData.                                  (* vector add/del, vacuum *)

Definition has_id (b : branch) (i : oid) : bool := existsb (fun o => Nat.eqb (bid o) i) b.
Definition remove_ids (ids : list oid) (b : branch) : branch :=
  filter (fun o => negb (existsb (Nat.eqb (bid o)) ids)) b.
Definition select_ids (ids : list oid) (b : branch) : branch :=
  filter (fun o => existsb (Nat.eqb (bid o)) ids) b.

Fixpoint nodupb (l : list oid) : bool :=
  match l with [] => true | x :: r => negb (existsb (Nat.eqb x) r) && nodupb r end.

Fixpoint fresh_objs (next : oid) (chunks : list (list val)) : branch :=
  match chunks with
  | [] => []
  | c :: r => {| bid := next; bvals := c |} :: fresh_objs (S next) r
  end.

(* split a list into at most n pieces (any re-chunking is allowed by the
   theorems; this one is only used to run the model) *)
Fixpoint chunk_every (n : nat) (l : list val) (fuel : nat) : list (list val) :=
  match fuel with
  | O => match l with [] => [] | _ => [l] end
  | S f => match l with
           | [] => []
           | _ => firstn n l :: chunk_every n (skipn n l) f
           end
  end.

Record lstate := { lbranch : branch; lnext : oid }.

(* One operation.  [None] = the operation reports an error and changes nothing. *)
Definition lstep (desc : bool) (s : lstate) (o : lop) : option lstate :=
  let b := lbranch s in
  match o with
  | OLoad chunks =>
    let chunks := filter (fun c => negb (Nat.eqb (List.length c) 0)) chunks in
    match chunks with
    | [] => None                                  (* empty transaction *)
    | _ => Some {| lbranch := b ++ fresh_objs (lnext s) (map (isort (ile desc)) chunks);
                   lnext := (lnext s + List.length chunks)%nat |}
    end
  | ODelete ids =>
    if forallb (has_id b) ids && nodupb ids && negb (Nat.eqb (List.length ids) 0)
    then Some {| lbranch := remove_ids ids b; lnext := lnext s |}
    else None
  | ODeleteWhere p n =>
    let hit := filter (fun o => existsb p (bvals o)) b in
    match hit with
    | [] => None
    | _ =>
      let keep := filter (fun o => negb (existsb p (bvals o))) b in
      (* the affected objects are scanned in pool order through the complement
         filter and rewritten by one sorted writer *)
      let compl := isort (ile desc)
                         (List.concat (map (fun o => filter (fun v => negb (p v)) (bvals o)) hit)) in
      let rest := chunk_every (S n) compl (List.length compl) in
      Some {| lbranch := keep ++ fresh_objs (lnext s) rest; lnext := (lnext s + List.length rest)%nat |}
    end
  | OCompact ids n =>
    if forallb (has_id b) ids && nodupb ids && (2 <=? List.length ids)%nat then
      let src := select_ids ids b in
      let merged := isort (ile desc) (contents src) in
      let chunks := chunk_every (S n) merged (List.length merged) in
      Some {| lbranch := remove_ids ids b ++ fresh_objs (lnext s) chunks; lnext := (lnext s + List.length chunks)%nat |}
    else None
  | ONoData => Some s
  end.

Definition lstep' desc (s : lstate) (o : lop) : lstate :=
  match lstep desc s o with Some s' => s' | None => s end.

Definition lrun desc (h : list lop) : lstate :=
  fold_left (lstep' desc) h {| lbranch := []; lnext := 0%nat |}.

(* The specification ledger: everything loaded so far and everything deleted
   so far (by object id or by predicate), accumulated along the history.
   The property is  loaded = deleted + contents  as multisets. *)
Record ledger := { st : lstate; loaded : list val; deleted : list val }.

Definition ledger_step (desc : bool) (l : ledger) (o : lop) : ledger :=
  match lstep desc (st l) o with
  | None => l
  | Some s' =>
    match o with
    | OLoad chunks => {| st := s'; loaded := loaded l ++ List.concat chunks; deleted := deleted l |}
    | ODelete ids => {| st := s'; loaded := loaded l;
                        deleted := deleted l ++ contents (select_ids ids (lbranch (st l))) |}
    | ODeleteWhere p _ => {| st := s'; loaded := loaded l;
                           deleted := deleted l ++ filter p (contents (lbranch (st l))) |}
    | _ => {| st := s'; loaded := loaded l; deleted := deleted l |}
    end
  end.

Definition ledger_run desc (h : list lop) : ledger :=
  fold_left (ledger_step desc) h
            {| st := {| lbranch := []; lnext := 0%nat |}; loaded := []; deleted := [] |}.

(* ---------------- merging scan ---------------- *)

Fixpoint merge2 (le : val -> val -> bool) (a : list val) : list val -> list val :=
  fix inner (b : list val) : list val :=
    match a, b with
    | [], _ => b
    | _, [] => a
    | x :: a', y :: b' => if le x y then x :: merge2 le a' b else y :: inner b'
    end.

Definition scan (desc : bool) (b : branch) : list val :=
  fold_right (fun o acc => merge2 (ile desc) (bvals o) acc) [] b.
