(* Correspondence check for C16: the harness lists what the real kernel
   computed; these functions return the indices where the model differs. *)
From ZV Require Import Base.Prelude Model.Pruner.

Definition oth_of (n : N) : nat -> key -> tv :=
  fun _ _ => match n with 0%N => TF | 1%N => TT | 2%N => TMissing | _ => TErr end.

Fixpoint mism {A} (ok : A -> bool) (i : N) (l : list A) : list N :=
  match l with
  | [] => []
  | x :: r => if ok x then mism ok (N.succ i) r else i :: mism ok (N.succ i) r
  end.

Definition cmp_mismatches (l : list (key * key * Z)) : list N :=
  mism (fun '(a, b, v) => Z.eqb (cmpk a b) v) 0 l.

Definition eval_mismatches (l : list (pred * key * N * N)) : list N :=
  mism (fun '(p, k, o, t) => N.eqb (tv_code (eval (oth_of o) p k)) t) 0 l.

Definition prune_mismatches (l : list (pred * key * key * bool)) : list N :=
  mism (fun '(p, mn, mx, b) => Bool.eqb (prune p mn mx) b) 0 l.

(* Compact form: one entry per predicate with its observed truth table over
   [vins] and its observed prune verdicts over [ranges]. *)
Definition pred_ok (vins : list (key * N)) (ranges : list (key * key))
           (c : pred * list N * list bool) : bool :=
  let '(p, tvs, pbs) := c in
  list_eqb N.eqb (map (fun '(k, o) => tv_code (eval (oth_of o) p k)) vins) tvs
  && list_eqb Bool.eqb (map (fun '(mn, mx) => prune p mn mx) ranges) pbs.

Definition pred_mismatches vins ranges (l : list (pred * list N * list bool)) : list N :=
  mism (pred_ok vins ranges) 0 l.
