(* Correspondence check for C08: each case lists what the real Lister, Slicer
   and parallel query produced for one generated pool; [par_mismatches]
   returns the indices of the cases on which the model differs. *)
From ZV Require Import Base.Prelude Model.Par.

(* (desc, legs n, (c1,c2) defining the assignment a i = (i*c1+c2) mod n,
    objects in the order the Slicer received them,
    sizes of the partitions the Slicer emitted,
    keys of `from p | yield key` at parallelism n,
    rows of `from p | count() by key` at parallelism n (if the pool has no missing keys)) *)
Definition pcase := (bool * nat * (nat * nat) * list obj * list nat * list key * option (list (key * nat)))%type.

Definition assign (n c1 c2 : nat) : nat -> nat := fun i => Nat.modulo (i * c1 + c2) n.

Definition keys_eqb : list key -> list key -> bool := list_eqb keqb.

Definition row_eqb (a b : key * nat) : bool := keqb (fst a) (fst b) && Nat.eqb (snd a) (snd b).

Definition rows_same (m o : list (key * nat)) : bool :=
  Nat.eqb (List.length m) (List.length o) && forallb (fun r => existsb (row_eqb r) o) m.

(* every key of an object lies within its [min,max] and the keys are in pool order *)
Fixpoint run_sorted (desc : bool) (l : list key) : bool :=
  match l with
  | a :: (b :: _) as r => dle desc a b && run_sorted desc r
  | _ => true
  end.

Definition obj_ok (desc : bool) (o : obj) : bool :=
  forallb (fun k => kle (omin o) k && kle k (omax o)) (okeys o) && run_sorted desc (okeys o).

Definition case_ok (c : pcase) : bool :=
  let '(desc, n, (c1, c2), objs, sizes, out, rows) := c in
  let a := assign n c1 c2 in
  forallb (obj_ok desc) objs
  && lister_sorted desc objs
  && list_eqb Nat.eqb (map (@List.length obj) (slice objs)) sizes
  && keys_eqb (scan_par desc n a objs) out
  && keys_eqb (scan_par desc 1 (fun _ => 0) objs) out
  && match rows with
     | None => true
     | Some rs => rows_same (count_par desc n a objs) rs
     end.

Fixpoint mism {A} (ok : A -> bool) (i : N) (l : list A) : list N :=
  match l with
  | [] => []
  | x :: r => if ok x then mism ok (N.succ i) r else i :: mism ok (N.succ i) r
  end.

Definition par_mismatches (l : list pcase) : list N := mism case_ok 0 l.
