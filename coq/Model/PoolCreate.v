(* C12: creation of a named object whose parts live at several storage paths
   (lake.Root.CreatePool: the pool's branches journal, its main branch, then
   the entry in the lake's pools journal that makes the name visible).  The
   effects on shared storage are a sequence of steps; a second client may look
   at the lake between any two of them (and the creator may stop for good at
   any of them).  A lake is consistent when every listed pool is complete. *)
From ZV Require Import Base.Prelude.

Inductive pstep :=
| PLayout (part : nat)     (* a write under the pool's own directory: part 0 = branches journal, 1 = main branch, ... *)
| PRegister                (* the pools-journal entry: the name becomes visible *)
| POther.                  (* reads, probes, writes elsewhere *)

Record pstate := mkP { p_parts : list nat; p_listed : bool }.

Definition p0 := mkP [] false.

Definition papply (s : pstate) (e : pstep) : pstate :=
  match e with
  | PLayout k => mkP (k :: p_parts s) (p_listed s)
  | PRegister => mkP (p_parts s) true
  | POther => s
  end.

Definition prun (l : list pstep) : pstate := fold_left papply l p0.

Definition has_parts (need : list nat) (s : pstate) : bool :=
  forallb (fun k => existsb (Nat.eqb k) (p_parts s)) need.

(* what a second client requires of every state it can observe *)
Definition pconsistent (need : list nat) (s : pstate) : bool :=
  negb (p_listed s) || has_parts need s.

(* the order the code must keep: no registration before the layout is complete *)
Fixpoint register_last (need : list nat) (s : pstate) (l : list pstep) : bool :=
  match l with
  | [] => true
  | e :: r =>
    (match e with PRegister => has_parts need s | _ => true end) &&
    register_last need (papply s e) r
  end.

(* correspondence: the classes of the storage operations the real CreatePool
   issued, in order; [need] = the layout parts seen in the whole run *)
Definition create_case := (list nat * list pstep)%type.
Definition create_ok (c : create_case) : bool :=
  let '(need, steps) := c in
  register_last need p0 steps && p_listed (prun steps) && has_parts need (prun steps).
Fixpoint pc_mism (i : N) (l : list create_case) : list N :=
  match l with
  | [] => []
  | c :: r => if create_ok c then pc_mism (N.succ i) r else i :: pc_mism (N.succ i) r
  end.
Definition create_mismatches (l : list create_case) : list N := pc_mism 0 l.
