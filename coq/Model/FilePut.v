(* The file engine's puts (pkg/storage/file.go): Put = create-or-truncate, then
   write; PutIfNotExists = exclusive create, then write.  Each half is a
   separate persistent step, so a crash may fall between them.  This tiny model
   fixes what a reader can find after a crash; it is what the harness's engine
   implements in its "file mode".  Definitions only. *)
From ZV Require Import Base.Prelude.

Inductive fstate := Absent | Content (b : bytes).

(* persistent states a Put(new) over [old] passes through, in order *)
Definition put_states (old : fstate) (new : bytes) : list fstate := [old; Content []; Content new].
(* atomic engine: only before / after *)
Definition put_states_atomic (old : fstate) (new : bytes) : list fstate := [old; Content new].

(* journal.readID: parse decimal digits; an empty file does not parse *)
Fixpoint parse_digits (acc : N) (b : bytes) : option N :=
  match b with
  | [] => Some acc
  | d :: r => if (48 <=? d)%N && (d <=? 57)%N then parse_digits (acc * 10 + (d - 48)) r else None
  end.
Definition read_head (f : fstate) : option N :=
  match f with
  | Absent => None
  | Content [] => None
  | Content b => parse_digits 0 b
  end.

(* commits.decodeSnapshot on a file: the stream of the snapshot's objects; an
   empty file is the valid encoding of the empty snapshot.  Objects are
   abstracted to one byte each. *)
Definition decode_snapshot (f : fstate) : option (list N) :=
  match f with Absent => None | Content b => Some b end.
