(* The file engine's puts (pkg/storage/file.go): Put = create-or-truncate, then
   write; PutIfNotExists = exclusive create, then write.  Each half is a
   separate persistent step, so a crash may fall between them.  This tiny model
   fixes what a reader can find after a crash; it is what the harness's engine
   implements in its "file mode".  Definitions only. *)
From ZV Require Import Base.Prelude.

Inductive fstate := Absent | Content (b : bytes).

(* persistent states a Put(new) over [old] passes through, in order *)
Definition put_states (old : fstate) (new : bytes) : list fstate := [old; Content []; Content new].
(* atomic engine: only before / after *)
Definition put_states_atomic (old : fstate) (new : bytes) : list fstate := [old; Content new].

(* journal.readID: parse decimal digits; an empty file does not parse *)
Fixpoint parse_digits (acc : N) (b : bytes) : option N :=
  match b with
  | [] => Some acc
  | d :: r => if (48 <=? d)%N && (d <=? 57)%N then parse_digits (acc * 10 + (d - 48)) r else None
  end.
Definition read_head (f : fstate) : option N :=
  match f with
  | Absent => None
  | Content [] => None
  | Content b => parse_digits 0 b
  end.

(* commits.decodeSnapshot on a file: the stream of the snapshot's objects; an
   empty file is the valid encoding of the empty snapshot.  Objects are
   abstracted to one byte each. *)
Definition decode_snapshot (f : fstate) : option (list N) :=
  match f with Absent => None | Content b => Some b end.

(* commits.Store.getSnapshot as it is now: a snapshot file without entries is
   treated as absent (None = fs.ErrNotExist: the caller rebuilds the snapshot
   from the commit objects); putSnapshot does not store an empty snapshot. *)
Definition get_snapshot (f : fstate) : option (list N) :=
  match decode_snapshot f with
  | Some [] => None
  | r => r
  end.
Definition put_snapshot_states (old : fstate) (new : bytes) : list fstate :=
  match new with [] => [old] | _ => put_states old new end.

(* journal.Queue.ReadHead as it is now (lake/journal/queue.go): HEAD is a hint.
   A HEAD that is absent is an error; one that does not parse (torn by a
   create-then-fill put) is replaced by TAIL-1; then Exists(entry id+1) is
   probed while it succeeds.  [present id] says whether entry [id] exists;
   fuel bounds the probe (the real loop ends at the first missing entry). *)
Fixpoint probe (present : N -> bool) (fuel : nat) (id : N) : N :=
  match fuel with
  | O => id
  | S f => if present (id + 1)%N then probe present f (id + 1)%N else id
  end.

Definition journal_read_head (head : fstate) (tail : N) (present : N -> bool) (fuel : nat) : option N :=
  match head with
  | Absent => None
  | Content _ =>
    let start := match read_head head with Some h => h | None => (tail - 1)%N end in
    Some (probe present fuel start)
  end.

(* a journal whose entries are exactly tail..n *)
Definition entries_between (tail n : N) (id : N) : bool := (tail <=? id)%N && (id <=? n)%N.
