(* Model of the journal commit protocol under arbitrary interleaving (C12):
   lake/journal/store.go Store.commit/load and lake/journal/queue.go CommitAt.
     attempt:  at := ReadHead (the HEAD hint, then a forward probe over existing
               entries: with atomic entry writes this is the true end of the log) ;
               table := entries 1..at ; check constraint on table ;
               PutIfNotExists(entry at+1)  -- on "exists": retry (<= maxRetries) ;
               Put HEAD := at+1 ; acknowledge.
   Every step below is one storage operation; any client may take the next
   step at any time (no preemption bound).  Definitions only. *)
From ZV Require Import Base.Prelude.

Definition payload := nat.

(* An operation: a constraint over the table denoted by a log prefix, and the
   entry it appends.  (Insert: key absent; Update/Delete with a Constraint: key
   present and constraint true; Move: old present and new absent.) *)
Record jop := { jcheck : list payload -> bool; jentry : payload }.

Inductive pc :=
| PStart                       (* about to read HEAD *)
| PLoaded (pos : nat)           (* HEAD read, table for prefix [at] loaded *)
| PChecked (pos : nat)          (* constraint held on prefix [at] *)
| PWroteEntry (pos : nat)       (* entry at+1 written, HEAD not yet *)
| PDone (ok : bool).           (* acknowledged (true) or reported failure (false) *)

Record client := { cop : jop; cpc : pc; cretries : nat }.

Record jstate := {
  entries : list (nat * payload);   (* (client index, payload); position i holds entry i+1 *)
  head : nat;
  clients : list client
}.

Definition max_retries := 10%nat.

Definition table (s : jstate) (at_ : nat) : list payload := map snd (firstn at_ (entries s)).

Fixpoint set_nth {A} (n : nat) (x : A) (l : list A) : list A :=
  match l, n with
  | [], _ => []
  | _ :: r, O => x :: r
  | y :: r, S m => y :: set_nth m x r
  end.

Definition upd (s : jstate) (i : nat) (c : client) (es : list (nat * payload)) (h : nat) : jstate :=
  {| entries := es; head := h; clients := set_nth i c (clients s) |}.

(* One storage-level step of client i. *)
Definition jstep (s : jstate) (i : nat) : jstate :=
  match nth_error (clients s) i with
  | None => s
  | Some c =>
    match cpc c with
    | PStart =>
      (* Queue.ReadHead: read the hint, then probe Exists(entry id+1) while it
         succeeds.  Entries are gapless and head <= length, so the probe ends at
         the last entry. *)
      upd s i {| cop := cop c; cpc := PLoaded (List.length (entries s)); cretries := cretries c |} (entries s) (head s)
    | PLoaded at_ =>
      if jcheck (cop c) (table s at_)
      then upd s i {| cop := cop c; cpc := PChecked at_; cretries := cretries c |} (entries s) (head s)
      else upd s i {| cop := cop c; cpc := PDone false; cretries := cretries c |} (entries s) (head s)
    | PChecked at_ =>
      if Nat.eqb (List.length (entries s)) at_
      then (* PutIfNotExists succeeds *)
        upd s i {| cop := cop c; cpc := PWroteEntry at_; cretries := cretries c |}
            (entries s ++ [(i, jentry (cop c))]) (head s)
      else (* exists: retry or give up *)
        if Nat.leb max_retries (S (cretries c))
        then upd s i {| cop := cop c; cpc := PDone false; cretries := S (cretries c) |} (entries s) (head s)
        else upd s i {| cop := cop c; cpc := PStart; cretries := S (cretries c) |} (entries s) (head s)
    | PWroteEntry at_ =>
      upd s i {| cop := cop c; cpc := PDone true; cretries := cretries c |} (entries s) (S at_)
    | PDone _ => s
    end
  end.

Definition jinit (ops : list jop) : jstate :=
  {| entries := []; head := 0;
     clients := map (fun o => {| cop := o; cpc := PStart; cretries := 0 |}) ops |}.

(* A schedule is any list of client indices. *)
Definition jrun (ops : list jop) (sched : list nat) : jstate := fold_left jstep sched (jinit ops).

(* The log is a valid sequential history: the constraint of every entry's
   operation held in the state denoted by the entries before it. *)
Definition entry_ok (s : jstate) (k : nat) : Prop :=
  match nth_error (entries s) k with
  | None => True
  | Some (i, p) =>
    match nth_error (clients s) i with
    | None => False
    | Some c => p = jentry (cop c) /\ jcheck (cop c) (table s k) = true
    end
  end.

Definition count_entries (s : jstate) (i : nat) : nat :=
  List.length (filter (fun e => Nat.eqb (fst e) i) (entries s)).

(* ---- the branch-pointer instance: payload = new tip, constraint = current tip is the expected parent ---- *)
Definition tip_of (t : list payload) : nat := last t 0%nat.
Definition branch_update (parent newtip : nat) : jop :=
  {| jcheck := fun t => Nat.eqb (tip_of t) parent; jentry := newtip |}.
