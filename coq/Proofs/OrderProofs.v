(* C06: the value comparison is a total preorder (guarded where the code is
   not), the multi-key comparator inherits it, and the native fast path of
   sortStableIndices agrees with Compare. *)
From Coq Require Import QArith.
From ZV Require Import Base.Prelude Base.Num Model.Order.
Close Scope Q_scope.
Local Open Scope Z_scope.

(* ---------------------------------------------------------------- types *)
Lemma cmpty_antisym a : forall b, antisym cmpty a b.
Proof.
  unfold antisym.
  induction a as [i|x IH|x IH]; intros [j|y|y]; simpl; try reflexivity; auto.
  apply N.compare_antisym.
Qed.

Lemma cmpty_strans a : forall b c, strans cmpty a b c.
Proof.
  unfold strans.
  induction a as [i|x IH|x IH]; intros [j|y|y] [k|z|z]; cbn; intros H1 H2;
    try congruence; try reflexivity;
    try (apply IH; assumption);
    try (destruct (cmpty _ _); cbn in *; congruence);
    try (destruct (N.compare _ _); cbn in *; congruence).
  apply Ncompare_strans; assumption.
Qed.

Lemma cmpty_eq a : forall b, cmpty a b = Eq -> a = b.
Proof.
  induction a as [i|x IH|x IH]; intros [j|y|y]; simpl; intros H; try discriminate.
  - apply N.compare_eq in H. congruence.
  - f_equal; auto.
  - f_equal; auto.
Qed.

Lemma cmpty_refl a : cmpty a a = Eq.
Proof. induction a; simpl; auto. apply N.compare_refl. Qed.

Lemma ty_eqb_eq a : forall b, ty_eqb a b = true <-> a = b.
Proof.
  induction a as [i|x IH|x IH]; intros [j|y|y]; simpl; split; intros H;
    try discriminate; try congruence.
  - apply N.eqb_eq in H. congruence.
  - inversion H. apply N.eqb_refl.
  - f_equal. apply IH. assumption.
  - inversion H; subst. apply IH. reflexivity.
  - f_equal. apply IH. assumption.
  - inversion H; subst. apply IH. reflexivity.
Qed.

Lemma ty_eqb_cmpty a b : ty_eqb a b = match cmpty a b with Eq => true | _ => false end.
Proof.
  destruct (ty_eqb a b) eqn:E.
  - apply ty_eqb_eq in E. subst. rewrite cmpty_refl. reflexivity.
  - destruct (cmpty a b) eqn:C; try reflexivity.
    apply cmpty_eq in C. apply ty_eqb_eq in C. congruence.
Qed.

(* ---------------------------------------------------------------- numbers *)
(* the exact value of a number *)
Definition nkey (x : num) : fl :=
  match x with NS z => FFin z 0 | NU n => FFin (Z.of_N n) 0 | NF f => f end.

Definition cmpnum_x (a b : num) : comparison := xcmp (nkey a) (nkey b).

Lemma fcmp_antisym x y : antisym fcmp x y.
Proof. unfold antisym. rewrite !fcmp_xcmp. apply xcmp_antisym. Qed.

Lemma dyq0 i : dyq i 0 = inject_Z i.
Proof. unfold dyq. simpl. rewrite Z.mul_1_r. reflexivity. Qed.

Lemma Qcompare_inject a b : Qcompare (inject_Z a) (inject_Z b) = Z.compare a b.
Proof. unfold Qcompare, inject_Z. simpl. rewrite !Z.mul_1_r. reflexivity. Qed.

Lemma trunc_cmp i m e :
  match Z.compare i (ftrunc (FFin m e)) with
  | Eq => fcmp (FFin 0 0) (ffrac (FFin m e))
  | c => c
  end = Qcompare (inject_Z i) (dyq m e).
Proof.
  unfold ftrunc, ffrac, dyq. destruct (Z.leb_spec 0 e) as [He|He].
  - rewrite Qcompare_inject. destruct (Z.compare i (m * 2 ^ e)); reflexivity.
  - set (d := 2 ^ (- e)).
    assert (Hd : 0 < d) by (apply Z.pow_pos_nonneg; lia).
    rewrite fcmp_xcmp. unfold xcmp, dyq.
    destruct (Z.leb_spec 0 e) as [He'|_]; [lia|]. fold d.
    unfold Qcompare, inject_Z. simpl Qnum. simpl Qden.
    rewrite (Z2Pos.id d Hd). rewrite !Z.mul_1_r. simpl (0 * d).
    pose proof (Z.quot_rem' m d) as Hqr.
    assert (Hr : Z.abs (Z.rem m d) < Z.abs d) by (apply Z.rem_bound_abs; lia).
    set (t := Z.quot m d) in *. set (r := Z.rem m d) in *.
    destruct (Z.compare_spec i t) as [E|L|G].
    + subst i. destruct (Z.compare_spec 0 r); symmetry;
        [apply Z.compare_eq_iff | apply Z.compare_lt_iff | apply Z.compare_gt_iff]; nia.
    + symmetry. apply Z.compare_lt_iff. nia.
    + symmetry. apply Z.compare_gt_iff. nia.
Qed.

Lemma Qcmp_ge (q h : Q) : Qcompare q h <> Lt -> (h <= q)%Q.
Proof.
  intros H. apply Qle_alt. rewrite (Qcompare_antisym' q h).
  destruct (Qcompare q h); simpl; congruence.
Qed.

Lemma cmp_exact_xcmp i f lo hi : lo <= i < hi -> cmp_exact i f lo hi = xcmp (FFin i 0) f.
Proof.
  intros R. unfold cmp_exact. destruct f as [|[|]|m e]; try reflexivity.
  unfold fge. unfold xcmp, flt, isnan. rewrite (dyq0 hi), (dyq0 lo), (dyq0 i). simpl orb. simpl andb.
  set (q := dyq m e).
  destruct (Qcompare q (inject_Z lo)) eqn:E1;
    [| symmetry; apply Qgt_alt; apply Qlt_alt in E1;
       eapply Qlt_le_trans; [exact E1|]; rewrite <- Zle_Qle; lia |];
    (destruct (Qcompare q (inject_Z hi)) eqn:E2; simpl;
     [ symmetry; apply Qlt_alt; apply Qlt_le_trans with (inject_Z hi);
       [rewrite <- Zlt_Qlt; lia | apply Qcmp_ge; congruence]
     | apply trunc_cmp
     | symmetry; apply Qlt_alt; apply Qlt_le_trans with (inject_Z hi);
       [rewrite <- Zlt_Qlt; lia | apply Qcmp_ge; congruence] ]).
Qed.

Lemma cmp_int_float_exact x f : num_wf x -> cmp_int_float x f = xcmp (nkey x) f.
Proof.
  destruct x as [z|n|g]; simpl; intros H.
  - apply cmp_exact_xcmp. unfold mini64, maxi64 in H. lia.
  - apply cmp_exact_xcmp. lia.
  - apply fcmp_xcmp.
Qed.

Lemma cmpnum_antisym a b : antisym cmpnum a b.
Proof.
  unfold antisym.
  destruct a as [za|na|fa], b as [zb|nb|fb]; simpl;
    try apply fcmp_antisym;
    try (match goal with |- _ = CompOpp (CompOpp ?c) => destruct c; reflexivity end);
    try reflexivity.
  - apply Z.compare_antisym.
  - destruct (za <? 0); [reflexivity | apply Z.compare_antisym].
  - destruct (zb <? 0); [reflexivity | apply Z.compare_antisym].
  - apply N.compare_antisym.
Qed.

(* on well-formed numbers the code's comparison is the exact one *)
Lemma cmpnum_is_exact a b : num_wf a -> num_wf b -> cmpnum a b = cmpnum_x a b.
Proof.
  intros Ha Hb. unfold cmpnum_x.
  destruct a as [za|na|fa], b as [zb|nb|fb]; unfold cmpnum.
  - unfold nkey. rewrite xcmp_int. reflexivity.
  - unfold nkey. rewrite xcmp_int.
    destruct (Z.ltb_spec za 0); [symmetry; apply Z.compare_lt_iff; lia | reflexivity].
  - apply (cmp_int_float_exact (NS za) fb Ha).
  - unfold nkey. rewrite xcmp_int.
    destruct (Z.ltb_spec zb 0); [symmetry; apply Z.compare_gt_iff; lia | reflexivity].
  - unfold nkey. rewrite xcmp_int. symmetry. apply N2Z.inj_compare.
  - apply (cmp_int_float_exact (NU na) fb Ha).
  - rewrite (cmp_int_float_exact (NS zb) fa Hb). symmetry. apply xcmp_antisym.
  - rewrite (cmp_int_float_exact (NU nb) fa Hb). symmetry. apply xcmp_antisym.
  - apply fcmp_xcmp.
Qed.

Lemma cmpnum_x_strans a b c : strans cmpnum_x a b c.
Proof. unfold strans, cmpnum_x. apply xcmp_strans. Qed.

Lemma cmpnum_strans a b c :
  num_wf a -> num_wf b -> num_wf c -> strans cmpnum a b c.
Proof.
  intros Ha Hb Hc. unfold strans.
  rewrite !cmpnum_is_exact by assumption. apply cmpnum_x_strans.
Qed.

(* ---------------------------------------------------------------- values *)
Section ValueInd.
  Variable P : value -> Prop.
  Hypothesis Hleaf : forall v,
      match v with VArray _ _ | VSet _ _ => False | _ => True end -> P v.
  Hypothesis Harr : forall et l, Forall P l -> P (VArray et l).
  Hypothesis Hset : forall et l, Forall P l -> P (VSet et l).

  Fixpoint value_ind' (v : value) : P v :=
    match v with
    | VArray et l =>
      Harr et l ((fix go (l : list value) : Forall P l :=
                    match l with
                    | [] => Forall_nil P
                    | x :: r => Forall_cons x (value_ind' x) (go r)
                    end) l)
    | VSet et l =>
      Hset et l ((fix go (l : list value) : Forall P l :=
                    match l with
                    | [] => Forall_nil P
                    | x :: r => Forall_cons x (value_ind' x) (go r)
                    end) l)
    | v' => Hleaf v' I
    end.
End ValueInd.

Lemma all_nums_list P l :
  (fix go (l : list value) : Prop :=
     match l with [] => True | x :: r => all_nums P x /\ go r end) l <-> Forall (all_nums P) l.
Proof.
  induction l as [|x r IH]; simpl; split; intros H; auto.
  - destruct H as [H1 H2]. constructor; [assumption | apply IH; assumption].
  - inversion H; subst. split; [assumption | apply IH; assumption].
Qed.

Lemma all_nums_array P et l : all_nums P (VArray et l) <-> Forall (all_nums P) l.
Proof. simpl. apply all_nums_list. Qed.
Lemma all_nums_set P et l : all_nums P (VSet et l) <-> Forall (all_nums P) l.
Proof. simpl. apply all_nums_list. Qed.

(* compareValues split into its layers *)
Definition same_cmp (nc : num -> num -> comparison) (nm : bool) (a b : value) : comparison :=
  match a, b with
  | VBool x, VBool y => bool_cmp x y
  | VBytes x, VBytes y => bytes_cmp x y
  | VString x, VString y => bytes_cmp x y
  | VIP x, VIP y => ipcmp x y
  | VNet x, VNet y => bytes_cmp x y
  | VType x, VType y => cmpty x y
  | VArray _ l1, VArray _ l2 => lexcmp (cmpv_gen nc nm) l1 l2
  | VSet _ l1, VSet _ l2 => lexcmp (cmpv_gen nc nm) l1 l2
  | _, _ => Eq
  end.

Definition nn_cmp nc nm (a b : value) : comparison :=
  match numof a, numof b with
  | Some x, Some y => nc x y
  | _, _ =>
    if ty_eqb (typeof a) (typeof b) then same_cmp nc nm a b
    else cmpty (typeof a) (typeof b)
  end.

Lemma cmpv_gen_unfold nc nm a b :
  cmpv_gen nc nm a b =
  match isnull a, isnull b with
  | true, true => Eq
  | true, false => if nm then Gt else Lt
  | false, true => if nm then Lt else Gt
  | false, false => nn_cmp nc nm a b
  end.
Proof. destruct a; reflexivity. Qed.

Lemma ipcmp_antisym x y : antisym ipcmp x y.
Proof.
  unfold antisym, ipcmp.
  rewrite (N.compare_antisym (N.of_nat (List.length x)) (N.of_nat (List.length y))).
  destruct (N.compare (N.of_nat (List.length x)) (N.of_nat (List.length y))); simpl; auto.
  apply bytes_cmp_antisym.
Qed.

Lemma ipcmp_strans x y z : strans ipcmp x y z.
Proof.
  unfold strans, ipcmp.
  pose proof (Ncompare_strans (N.of_nat (List.length x)) (N.of_nat (List.length y)) (N.of_nat (List.length z))) as HN.
  pose proof (bytes_cmp_strans x y z) as HB. unfold strans in *.
  destruct (N.compare (N.of_nat (List.length x)) (N.of_nat (List.length y))) eqn:E1;
  destruct (N.compare (N.of_nat (List.length y)) (N.of_nat (List.length z))) eqn:E2;
    intros H1 H2; try congruence; rewrite HN by congruence; simpl; try reflexivity.
  - apply HB; assumption.
  - destruct (bytes_cmp x y); reflexivity.
Qed.

Section Values.
  Variable nc : num -> num -> comparison.
  Variable nm : bool.
  Hypothesis nc_antisym : forall x y, antisym nc x y.

  Lemma same_cmp_antisym a :
    (match a with
     | VArray _ l | VSet _ l => Forall (fun x => forall y, antisym (cmpv_gen nc nm) x y) l
     | _ => True
     end) ->
    forall b, antisym (same_cmp nc nm) a b.
  Proof.
    unfold antisym. intros IH b.
    destruct a, b; simpl; try reflexivity.
    - apply bool_cmp_antisym.
    - apply bytes_cmp_antisym.
    - apply bytes_cmp_antisym.
    - apply ipcmp_antisym.
    - apply bytes_cmp_antisym.
    - apply cmpty_antisym.
    - apply lexcmp_antisym; assumption.
    - apply lexcmp_antisym; assumption.
  Qed.

  Lemma ty_eqb_sym a b : ty_eqb a b = ty_eqb b a.
  Proof.
    destruct (ty_eqb a b) eqn:E1, (ty_eqb b a) eqn:E2; try reflexivity.
    - apply ty_eqb_eq in E1. subst. rewrite (proj2 (ty_eqb_eq b b) eq_refl) in E2. discriminate.
    - apply ty_eqb_eq in E2. subst. rewrite (proj2 (ty_eqb_eq a a) eq_refl) in E1. discriminate.
  Qed.

  Lemma nn_cmp_antisym a :
    (match a with
     | VArray _ l | VSet _ l => Forall (fun x => forall y, antisym (cmpv_gen nc nm) x y) l
     | _ => True
     end) ->
    forall b, antisym (nn_cmp nc nm) a b.
  Proof.
    intros IH b. unfold antisym, nn_cmp.
    rewrite (ty_eqb_sym (typeof b) (typeof a)).
    destruct (numof a) as [x|] eqn:Na, (numof b) as [y|] eqn:Nb;
      try apply nc_antisym;
      (destruct (ty_eqb (typeof a) (typeof b));
       [apply same_cmp_antisym; assumption | apply cmpty_antisym]).
  Qed.

  Theorem cmpv_gen_antisym : forall a b, antisym (cmpv_gen nc nm) a b.
  Proof.
    intros a. induction a as [v Hv|et l IH|et l IH] using value_ind'; intros b; unfold antisym;
      rewrite !cmpv_gen_unfold.
    - destruct (isnull v) eqn:Ia, (isnull b) eqn:Ib; try (destruct nm; reflexivity).
      apply nn_cmp_antisym. destruct v; try exact I; contradiction.
    - simpl isnull. destruct (isnull b); try (destruct nm; reflexivity).
      apply nn_cmp_antisym. assumption.
    - simpl isnull. destruct (isnull b); try (destruct nm; reflexivity).
      apply nn_cmp_antisym. assumption.
  Qed.

  (* ---- transitivity on the domain where [nc] is transitive *)
  Variable P : num -> Prop.
  Hypothesis nc_strans : forall x y z, P x -> P y -> P z -> strans nc x y z.

  Let D := all_nums P.

  (* a number is below every non-null non-number (type order: numeric ids first) *)
  Lemma nn_num_non a b x :
    numof a = Some x -> numof b = None -> isnull b = false -> nn_cmp nc nm a b = Lt.
  Proof.
    intros Na Nb Ib. unfold nn_cmp. rewrite Na, Nb.
    destruct a; try discriminate; destruct b; try discriminate;
      match goal with k : sint |- _ => destruct k | k : uintk |- _ => destruct k | k : fltk |- _ => destruct k end;
      reflexivity.
  Qed.

  Lemma nn_non_num a b y :
    numof a = None -> numof b = Some y -> isnull a = false -> nn_cmp nc nm a b = Gt.
  Proof.
    intros Na Nb Ia. unfold nn_cmp. rewrite Nb, Na.
    destruct b; try discriminate; destruct a; try discriminate;
      match goal with k : sint |- _ => destruct k | k : uintk |- _ => destruct k | k : fltk |- _ => destruct k end;
      reflexivity.
  Qed.

  Lemma nn_non_non a b :
    numof a = None -> numof b = None ->
    nn_cmp nc nm a b = match cmpty (typeof a) (typeof b) with Eq => same_cmp nc nm a b | c => c end.
  Proof.
    intros Na Nb. unfold nn_cmp. rewrite Na.
    rewrite ty_eqb_cmpty. destruct (cmpty (typeof a) (typeof b)); reflexivity.
  Qed.

  Lemma D_num a x : D a -> numof a = Some x -> P x.
  Proof. destruct a; simpl; intros H E; inversion E; subst; assumption. Qed.

  Lemma nn_num_num a b x y :
    numof a = Some x -> numof b = Some y -> nn_cmp nc nm a b = nc x y.
  Proof. intros Na Nb. unfold nn_cmp. rewrite Na, Nb. reflexivity. Qed.

  Definition elemIH (x : value) : Prop :=
    forall y z, D x -> D y -> D z -> strans (cmpv_gen nc nm) x y z.

  Lemma elemIH_dom l :
    Forall elemIH l -> Forall D l ->
    Forall (fun x => forall y z, D y -> D z -> strans (cmpv_gen nc nm) x y z) l.
  Proof.
    intros H1 H2. apply Forall_forall. intros x Hx y z Dy Dz.
    rewrite Forall_forall in H1, H2. apply H1; auto.
  Qed.

  Ltac tydisc H := try (cbv in H; discriminate H).

  Lemma same_cmp_strans a :
    (match a with
     | VArray _ l | VSet _ l => Forall elemIH l
     | _ => True
     end) ->
    forall b c, D a -> D b -> D c ->
      typeof a = typeof b -> typeof b = typeof c ->
      isnull a = false -> isnull b = false -> isnull c = false ->
      numof a = None -> numof b = None -> numof c = None ->
      strans (same_cmp nc nm) a b c.
  Proof.
    intros IH b c Da Db Dc Tab Tbc Ia Ib Ic Na Nb Nc.
    destruct a; try discriminate;
      destruct b; try discriminate; tydisc Tab;
      destruct c; try discriminate; tydisc Tbc; unfold strans; simpl.
    - apply bool_cmp_strans.
    - apply bytes_cmp_strans.
    - apply bytes_cmp_strans.
    - apply ipcmp_strans.
    - apply bytes_cmp_strans.
    - apply cmpty_strans.
    - apply (lexcmp_strans_dom (cmpv_gen nc nm) D).
      + apply elemIH_dom; [assumption | apply (all_nums_array P et l); assumption].
      + apply (all_nums_array P et0 l0); assumption.
      + apply (all_nums_array P et1 l1); assumption.
    - apply (lexcmp_strans_dom (cmpv_gen nc nm) D).
      + apply elemIH_dom; [assumption | apply (all_nums_set P et l); assumption].
      + apply (all_nums_set P et0 l0); assumption.
      + apply (all_nums_set P et1 l1); assumption.
  Qed.

  Lemma nn_cmp_strans a :
    (match a with
     | VArray _ l | VSet _ l => Forall elemIH l
     | _ => True
     end) ->
    forall b c, D a -> D b -> D c ->
      isnull a = false -> isnull b = false -> isnull c = false ->
      strans (nn_cmp nc nm) a b c.
  Proof.
    intros IH b c Da Db Dc Ia Ib Ic. unfold strans.
    destruct (numof a) as [x|] eqn:Na, (numof b) as [y|] eqn:Nb, (numof c) as [z|] eqn:Nc.
    - rewrite (nn_num_num a b x y Na Nb), (nn_num_num b c y z Nb Nc), (nn_num_num a c x z Na Nc).
      apply nc_strans; [apply (D_num a x Da Na) | apply (D_num b y Db Nb) | apply (D_num c z Dc Nc)].
    - rewrite (nn_num_num a b x y Na Nb), (nn_num_non b c y Nb Nc Ic), (nn_num_non a c x Na Nc Ic).
      intros H1 _. destruct (nc x y); simpl; congruence.
    - rewrite (nn_non_num b c z Nb Nc Ib). congruence.
    - rewrite (nn_num_non a b x Na Nb Ib), (nn_num_non a c x Na Nc Ic). reflexivity.
    - rewrite (nn_non_num a b y Na Nb Ia). congruence.
    - rewrite (nn_non_num a b y Na Nb Ia). congruence.
    - rewrite (nn_non_num b c z Nb Nc Ib). congruence.
    - rewrite (nn_non_non a b Na Nb), (nn_non_non b c Nb Nc), (nn_non_non a c Na Nc).
      pose proof (cmpty_strans (typeof a) (typeof b) (typeof c)) as HT. unfold strans in HT.
      destruct (cmpty (typeof a) (typeof b)) eqn:E1; try congruence;
      destruct (cmpty (typeof b) (typeof c)) eqn:E2; try congruence;
        intros H1 H2; rewrite HT by congruence; simpl; try reflexivity.
      + apply cmpty_eq in E1. apply cmpty_eq in E2.
        apply same_cmp_strans; assumption.
      + destruct (same_cmp nc nm a b); reflexivity.
  Qed.

  Theorem cmpv_gen_strans : forall a b c, D a -> D b -> D c -> strans (cmpv_gen nc nm) a b c.
  Proof.
    intros a. induction a as [v Hv|et l IH|et l IH] using value_ind'; intros b c Da Db Dc;
      unfold strans; rewrite !cmpv_gen_unfold.
    - destruct (isnull v) eqn:Ia, (isnull b) eqn:Ib, (isnull c) eqn:Ic;
        try solve [destruct nm; simpl; intros; try congruence; try reflexivity;
          match goal with |- _ = comp_cmp ?c _ => destruct c; simpl in *; congruence end].
      apply nn_cmp_strans; auto. destruct v; try exact I; contradiction.
    - simpl isnull. destruct (isnull b) eqn:Ib, (isnull c) eqn:Ic;
        try solve [destruct nm; simpl; intros; try congruence; try reflexivity;
          match goal with |- _ = comp_cmp ?c _ => destruct c; simpl in *; congruence end].
      apply nn_cmp_strans; auto.
    - simpl isnull. destruct (isnull b) eqn:Ib, (isnull c) eqn:Ic;
        try solve [destruct nm; simpl; intros; try congruence; try reflexivity;
          match goal with |- _ = comp_cmp ?c _ => destruct c; simpl in *; congruence end].
      apply nn_cmp_strans; auto.
  Qed.
End Values.

(* ---------------------------------------------------------------- cmpv *)
Theorem cmpv_antisym nm a b : cmpv nm b a = CompOpp (cmpv nm a b).
Proof. apply (cmpv_gen_antisym cmpnum nm cmpnum_antisym). Qed.

(* Well-formed values: every integer at any depth lies in its 64-bit range. *)
Definition wfv : value -> Prop := all_nums num_wf.

Theorem cmpv_strans nm a b c : wfv a -> wfv b -> wfv c -> strans (cmpv nm) a b c.
Proof. apply (cmpv_gen_strans cmpnum nm num_wf cmpnum_strans). Qed.

Lemma wfv_in_range v : wfv v -> in_range v.
Proof. destruct v; simpl; auto. Qed.

(* ---------------------------------------------------------------- rows *)
Lemma compare_rows_antisym nm ks : forall ra rb,
  compare_rows nm ks rb ra = CompOpp (compare_rows nm ks ra rb).
Proof.
  induction ks as [|d ks IH]; intros ra rb; simpl; [reflexivity|].
  destruct d.
  - rewrite (cmpv_antisym nm (hd vnull rb) (hd vnull ra)).
    destruct (cmpv nm (hd vnull rb) (hd vnull ra)); simpl; auto.
  - rewrite (cmpv_antisym nm (hd vnull ra) (hd vnull rb)).
    destruct (cmpv nm (hd vnull ra) (hd vnull rb)); simpl; auto.
Qed.

Definition rowD (D : value -> Prop) (r : list value) : Prop := Forall D r.

Lemma rowD_hd (D : value -> Prop) r : D vnull -> rowD D r -> D (hd vnull r).
Proof. intros H0 H. destruct r; simpl; [assumption | inversion H; assumption]. Qed.
Lemma rowD_tl (D : value -> Prop) r : rowD D r -> rowD D (tl r).
Proof. intros H. destruct r; simpl; [constructor | inversion H; assumption]. Qed.

Lemma compare_rows_strans nm ks : forall ra rb rc,
  rowD wfv ra -> rowD wfv rb -> rowD wfv rc -> strans (compare_rows nm ks) ra rb rc.
Proof.
  pose (D := wfv). assert (D0 : D vnull) by exact I.
  assert (HD : forall nm a b c, D a -> D b -> D c -> strans (cmpv nm) a b c)
    by (intros; apply cmpv_strans; assumption).
  induction ks as [|d ks IH]; intros ra rb rc Da Db Dc; unfold strans; simpl.
  - reflexivity.
  - pose proof (rowD_hd D ra D0 Da) as Ha. pose proof (rowD_hd D rb D0 Db) as Hb.
    pose proof (rowD_hd D rc D0 Dc) as Hc.
    specialize (IH (tl ra) (tl rb) (tl rc) (rowD_tl D ra Da) (rowD_tl D rb Db) (rowD_tl D rc Dc)).
    unfold strans in IH.
    set (a := hd vnull ra) in *. set (b := hd vnull rb) in *. set (c := hd vnull rc) in *.
    assert (HS : strans (fun x y => if d then cmpv nm y x else cmpv nm x y) a b c).
    { destruct d.
      - apply flip_strans; [intros; unfold antisym; apply cmpv_antisym | apply HD; assumption].
      - apply HD; assumption. }
    unfold strans in HS.
    destruct (if d then cmpv nm b a else cmpv nm a b) eqn:E1; try congruence;
    destruct (if d then cmpv nm c b else cmpv nm b c) eqn:E2; try congruence;
      intros H1 H2; rewrite HS by congruence; simpl; try reflexivity.
    + apply IH; assumption.
    + destruct (compare_rows nm ks (tl ra) (tl rb)); reflexivity.
Qed.

(* The statements in the usual integer form. *)
Theorem cmpv_antisym_Z nm a b : cmp_to_Z (cmpv nm b a) = - cmp_to_Z (cmpv nm a b).
Proof. rewrite cmpv_antisym. apply cmp_to_Z_opp. Qed.

Theorem cmpv_refl_Z nm a : cmp_to_Z (cmpv nm a a) = 0.
Proof. pose proof (cmpv_antisym_Z nm a a). lia. Qed.

Theorem cmpv_trans_Z nm a b c :
  wfv a -> wfv b -> wfv c ->
  cmp_to_Z (cmpv nm a b) <= 0 -> cmp_to_Z (cmpv nm b c) <= 0 -> cmp_to_Z (cmpv nm a c) <= 0.
Proof.
  rewrite !cmp_to_Z_le. intros Ha Hb Hc. apply strans_le. apply cmpv_strans; assumption.
Qed.

Theorem compare_rows_antisym_Z nm ks ra rb :
  cmp_to_Z (compare_rows nm ks rb ra) = - cmp_to_Z (compare_rows nm ks ra rb).
Proof. rewrite compare_rows_antisym. apply cmp_to_Z_opp. Qed.

Theorem compare_rows_trans_Z nm ks ra rb rc :
  rowD wfv ra -> rowD wfv rb -> rowD wfv rc ->
  cmp_to_Z (compare_rows nm ks ra rb) <= 0 -> cmp_to_Z (compare_rows nm ks rb rc) <= 0 ->
  cmp_to_Z (compare_rows nm ks ra rc) <= 0.
Proof.
  rewrite !cmp_to_Z_le. intros Ha Hb Hc. apply strans_le.
  apply compare_rows_strans; assumption.
Qed.

(* non-vacuity: integers beyond 2^53 next to floats, nested, are well-formed;
   the former counterexample is now ordered consistently *)
Example wfv_inhabited :
  wfv (VArray (TPrim 9) [VInt I64 (2 ^ 53 + 1); VFloat F64 (FFin 1 53); VNull (TPrim 9)]) /\
  wfv (VUint U64 18446744073709551615) /\
  cmpv true (VInt I64 (2 ^ 53 + 1)) (VFloat F64 (FFin 1 53)) = Gt /\
  cmpv true (VFloat F64 (FFin 1 53)) (VInt I64 (2 ^ 53)) = Eq /\
  cmpv true (VUint U64 18446744073709551615) (VFloat F64 (FFin 1 64)) = Lt.
Proof. repeat split; unfold mini64, maxi64; simpl; try lia; vm_compute; reflexivity. Qed.

(* ---------------------------------------------------------------- native fast path *)
Lemma less_rows_slow nm native ks : forall ra rb,
  less_rows nm native false ks ra rb = lt_rows nm ks ra rb.
Proof.
  unfold lt_rows.
  induction ks as [|d ks IH]; intros ra rb; simpl; [reflexivity|].
  rewrite IH.
  destruct d; simpl;
    match goal with |- context [cmpv nm ?x ?y] => destruct (cmpv nm x y) end; reflexivity.
Qed.

(* int64 table entries decide the comparison unless they collide on a sentinel *)
Lemma i64_cmp nm a b x y :
  in_range a -> in_range b -> i64of nm a = Some x -> i64of nm b = Some y ->
  (x <> y -> cmpv nm a b = if x <? y then Lt else Gt) /\
  (x = y -> x <> maxi64 -> x <> mini64 -> cmpv nm a b = Eq).
Proof.
  unfold cmpv, maxi64, mini64.
  intros Ra Rb Ia Ib.
  destruct a as [[ida| |]| ka za | ka na | | | | | | | | | ]; simpl in Ia; try discriminate;
  destruct b as [[idb| |]| kb zb | kb nb | | | | | | | | | ]; simpl in Ib; try discriminate;
    simpl in Ra, Rb; unfold maxi64, mini64 in *;
    repeat match goal with
           | H : (if (?i <=? id_time)%N then _ else _) = Some _ |- _ =>
             destruct (i <=? id_time)%N; [|discriminate H]
           end;
    inversion Ia; inversion Ib; subst; clear Ia Ib;
    destruct nm; simpl; split; intros; try lia; try reflexivity;
    repeat match goal with
           | |- context [?p <? ?q] => destruct (Z.ltb_spec p q)
           | |- context [Z.compare ?p ?q] => destruct (Z.compare_spec p q)
           | |- context [N.compare ?p ?q] => destruct (N.compare_spec p q)
           end; try reflexivity; try lia.
Qed.

Theorem less_rows_agrees nm native ks ra rb :
  in_range (hd vnull ra) -> in_range (hd vnull rb) ->
  less_rows nm native true ks ra rb = lt_rows nm ks ra rb.
Proof.
  intros Ra Rb. destruct ks as [|d ks]; [reflexivity|].
  unfold lt_rows. simpl. rewrite less_rows_slow. unfold lt_rows.
  destruct native; simpl.
  2:{ destruct d; match goal with |- context [cmpv nm ?x ?y] => destruct (cmpv nm x y) end; reflexivity. }
  set (a := if d then hd vnull rb else hd vnull ra).
  set (b := if d then hd vnull ra else hd vnull rb).
  assert (Ra' : in_range a) by (destruct d; assumption).
  assert (Rb' : in_range b) by (destruct d; assumption).
  assert (E : (if d then cmpv nm (hd vnull rb) (hd vnull ra) else cmpv nm (hd vnull ra) (hd vnull rb)) = cmpv nm a b)
    by (destruct d; reflexivity).
  rewrite E.
  destruct (i64of nm a) as [x|] eqn:Ia; [|destruct (cmpv nm a b); reflexivity].
  destruct (i64of nm b) as [y|] eqn:Ib; [|destruct (cmpv nm a b); reflexivity].
  destruct (i64_cmp nm a b x y Ra' Rb' Ia Ib) as [Hne Heq].
  destruct (Z.eqb_spec x y) as [Exy|Nxy]; simpl.
  - destruct (Z.eqb_spec x maxi64); simpl; [destruct (cmpv nm a b); reflexivity|].
    destruct (Z.eqb_spec x mini64); simpl; [destruct (cmpv nm a b); reflexivity|].
    rewrite Heq by assumption. reflexivity.
  - rewrite (Hne Nxy). destruct (x <? y); reflexivity.
Qed.
