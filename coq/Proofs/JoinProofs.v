(* C10: the merge join walk over sorted inputs produces exactly the nested-loop join. *)
From ZV Require Import Base.Prelude Model.Agg Model.Join Proofs.AggProofs.
From Coq Require Import Permutation Sorting.Sorted.

Section JoinProofs.
  Variables K L R : Type.
  Variable kcmp : K -> K -> comparison.
  Hypothesis kcmp_refl : forall a, kcmp a a = Eq.
  Hypothesis kcmp_antisym : forall a b, kcmp b a = CompOpp (kcmp a b).
  Hypothesis kcmp_trans : forall a b c, kcmp a b <> Gt -> kcmp b c <> Gt -> kcmp a c <> Gt.
  Variable lkey : L -> K.
  Variable rkey : R -> K.

  Definition kle (a b : K) : Prop := kcmp a b <> Gt.

  Lemma cmp_eq_sym a b : kcmp a b = Eq -> kcmp b a = Eq.
  Proof. intros H. rewrite kcmp_antisym, H. reflexivity. Qed.

  Lemma cmp_lt_gt a b : kcmp a b = Lt -> kcmp b a = Gt.
  Proof. intros H. rewrite kcmp_antisym, H. reflexivity. Qed.

  Lemma cmp_gt_lt a b : kcmp a b = Gt -> kcmp b a = Lt.
  Proof. intros H. rewrite kcmp_antisym, H. reflexivity. Qed.

  Lemma kle_of_ngt a b : kcmp b a <> Lt -> kle a b.
  Proof. unfold kle. intros H G. apply H. apply cmp_gt_lt. exact G. Qed.

  Lemma lt_le_trans a b c : kcmp a b = Lt -> kle b c -> kcmp a c = Lt.
  Proof.
    intros H1 H2.
    assert (Hac : kle a c) by (apply (kcmp_trans a b c); [rewrite H1; discriminate | exact H2]).
    destruct (kcmp a c) eqn:C; [|reflexivity|exfalso; apply Hac; exact C].
    exfalso. assert (Hba : kle b a).
    { apply (kcmp_trans b c a); [exact H2 | rewrite (cmp_eq_sym _ _ C); discriminate]. }
    apply Hba. apply cmp_lt_gt. exact H1.
  Qed.

  Lemma le_lt_trans a b c : kle a b -> kcmp b c = Lt -> kcmp a c = Lt.
  Proof.
    intros H1 H2.
    assert (Hac : kle a c) by (apply (kcmp_trans a b c); [exact H1 | rewrite H2; discriminate]).
    destruct (kcmp a c) eqn:C; [|reflexivity|exfalso; apply Hac; exact C].
    exfalso. assert (Hcb : kle c b).
    { apply (kcmp_trans c a b); [rewrite (cmp_eq_sym _ _ C); discriminate | exact H1]. }
    apply Hcb. apply cmp_lt_gt. exact H2.
  Qed.

  Lemma cmp_compat_l a b c : kcmp a b = Eq -> kcmp a c = kcmp b c.
  Proof.
    intros E. pose proof (cmp_eq_sym _ _ E) as E'.
    assert (Lab : kle a b) by (unfold kle; rewrite E; discriminate).
    assert (Lba : kle b a) by (unfold kle; rewrite E'; discriminate).
    destruct (kcmp b c) eqn:C.
    - destruct (kcmp a c) eqn:D; [reflexivity| |].
      + exfalso. assert (X : kcmp a b = Lt) by (apply (lt_le_trans a c b D); unfold kle; rewrite (cmp_eq_sym _ _ C); discriminate).
        congruence.
      + exfalso. apply (kcmp_trans a b c Lab); [rewrite C; discriminate | exact D].
    - apply (le_lt_trans a b c Lab C).
    - destruct (kcmp a c) eqn:D; [| |reflexivity]; exfalso.
      + apply (kcmp_trans b a c Lba); [rewrite D; discriminate | exact C].
      + apply (kcmp_trans b a c Lba); [rewrite D; discriminate | exact C].
  Qed.

  Lemma cmp_compat_r a b c : kcmp b c = Eq -> kcmp a b = kcmp a c.
  Proof.
    intros E. rewrite (kcmp_antisym b a), (kcmp_antisym c a). f_equal. apply cmp_compat_l. exact E.
  Qed.

  Notation sortedR := (StronglySorted (fun x y : R => kle (rkey x) (rkey y))).
  Notation sortedL := (StronglySorted (fun x y : L => kle (lkey x) (lkey y))).
  Notation mt := (matches kcmp rkey).

  Lemma sortedR_app_r (a b : list R) : sortedR (a ++ b) -> sortedR b.
  Proof. induction a as [|x a IH]; simpl; [auto|]. intros H. inversion H; subst. auto. Qed.

  Lemma mt_app k a b : mt k (a ++ b) = mt k a ++ mt k b.
  Proof. apply filter_app. Qed.

  Lemma mt_none k l : Forall (fun r => kcmp k (rkey r) <> Eq) l -> mt k l = [].
  Proof.
    induction 1 as [|x l H _ IH]; [reflexivity|]. simpl. unfold keq.
    destruct (kcmp k (rkey x)); [contradiction | exact IH | exact IH].
  Qed.

  Lemma mt_all k l : Forall (fun r => kcmp k (rkey r) = Eq) l -> mt k l = l.
  Proof.
    induction 1 as [|x l H _ IH]; [reflexivity|]. simpl. unfold keq. rewrite H, IH. reflexivity.
  Qed.

  Lemma drop_lt_spec k rs :
    exists pre, rs = pre ++ drop_lt kcmp rkey k rs /\
                Forall (fun r => kcmp k (rkey r) = Gt) pre /\
                match drop_lt kcmp rkey k rs with [] => True | r :: _ => kcmp k (rkey r) <> Gt end.
  Proof.
    induction rs as [|r t IH]; simpl.
    - exists []. auto.
    - destruct (kcmp k (rkey r)) eqn:C.
      + exists []. simpl. rewrite C. repeat split; [constructor | discriminate].
      + exists []. simpl. rewrite C. repeat split; [constructor | discriminate].
      + destruct IH as [pre [E [F H]]]. exists (r :: pre). simpl. rewrite <- E.
        repeat split; [constructor; assumption | exact H].
  Qed.

  Lemma take_eq_spec jk rs : forall a b,
    take_eq kcmp rkey jk rs = (a, b) ->
    rs = a ++ b /\ Forall (fun r => kcmp (rkey r) jk = Eq) a /\
    match b with [] => True | r :: _ => kcmp (rkey r) jk <> Eq end.
  Proof.
    induction rs as [|r t IH]; simpl; intros a b H.
    - inversion H; subst. auto.
    - destruct (kcmp (rkey r) jk) eqn:C.
      + destruct (take_eq kcmp rkey jk t) as [a' b'] eqn:T. inversion H; subst.
        destruct (IH a' b eq_refl) as [E [F G]]. subst t. repeat split; [constructor; assumption | exact G].
      + inversion H; subst. simpl. rewrite C. repeat split; [constructor | discriminate].
      + inversion H; subst. simpl. rewrite C. repeat split; [constructor | discriminate].
  Qed.

  Lemma sorted_all_ge k r t : sortedR (r :: t) -> kle k (rkey r) ->
    Forall (fun x => kle k (rkey x)) (r :: t).
  Proof.
    intros S H. inversion S as [|? ? _ F]; subst. constructor; [exact H|].
    rewrite Forall_forall in *. intros x Hx. apply (kcmp_trans k (rkey r)); [exact H | apply F, Hx].
  Qed.

  Lemma sorted_all_gt k r t : sortedR (r :: t) -> kcmp k (rkey r) = Lt ->
    Forall (fun x => kcmp k (rkey x) = Lt) (r :: t).
  Proof.
    intros S H. inversion S as [|? ? _ F]; subst. constructor; [exact H|].
    rewrite Forall_forall in *. intros x Hx. apply (lt_le_trans k (rkey r)); [exact H | apply F, Hx].
  Qed.

  (* the cache of the last join set: all its records equal the join key, every
     remaining right record is strictly greater, and the join key does not
     exceed the current left key *)
  Definition wf (c : cache K R) (rs : list R) (k : K) : Prop :=
    match c with
    | None => True
    | Some (jk, js) => Forall (fun r => kcmp (rkey r) jk = Eq) js /\
                       Forall (fun r => kcmp jk (rkey r) = Lt) rs /\ kle jk k
    end.

  Definition virt (c : cache K R) (rs : list R) : list R :=
    match c with Some (_, js) => js | None => [] end ++ rs.

  Lemma Forall_impl' {A} (P Q : A -> Prop) l : (forall x, P x -> Q x) -> Forall P l -> Forall Q l.
  Proof. intros H F. eapply Forall_impl; [exact H | exact F]. Qed.

  (* a cache whose key differs from (hence is below) k contributes no match for any k' >= k *)
  Lemma cache_below c rs k k' :
    wf c rs k -> match c with Some (jk, _) => keq kcmp k jk = false | None => True end ->
    kle k k' -> mt k' match c with Some (_, js) => js | None => [] end = [].
  Proof.
    destruct c as [[jk js]|]; [|reflexivity]. intros [Fj [_ Hle]] Hne Hk.
    apply mt_none. eapply Forall_impl'; [|exact Fj]. intros r Hr. simpl in Hr.
    rewrite (cmp_compat_r k' (rkey r) jk Hr).
    assert (Hlt : kcmp jk k = Lt).
    { unfold keq in Hne. destruct (kcmp jk k) eqn:C; [|reflexivity|exfalso; apply Hle; exact C].
      rewrite (cmp_eq_sym _ _ C) in Hne. discriminate. }
    rewrite (cmp_lt_gt _ _ (lt_le_trans jk k k' Hlt Hk)). discriminate.
  Qed.

  Lemma miss_step k rs c js rs' c' :
    match drop_lt kcmp rkey k rs with
    | [] => ([], [], c)
    | r :: t => match kcmp k (rkey r) with
                | Eq => let '(js, rest) := take_eq kcmp rkey k (r :: t) in (js, rest, Some (k, js))
                | _ => ([], r :: t, c)
                end
    end = (js, rs', c') ->
    sortedR rs -> wf c rs k ->
    match c with Some (jk, _) => keq kcmp k jk = false | None => True end ->
    js = mt k (virt c rs) /\ sortedR rs' /\
    forall k', kle k k' -> wf c' rs' k' /\ mt k' (virt c' rs') = mt k' (virt c rs).
  Proof.
    intros H S W Hne.
    destruct (drop_lt_spec k rs) as [pre [E [Fpre Hhead]]].
    assert (Spost : sortedR (drop_lt kcmp rkey k rs)) by (apply (sortedR_app_r pre); rewrite <- E; exact S).
    assert (Mpre : forall k', kle k k' -> mt k' pre = []).
    { intros k' Hk. apply mt_none. eapply Forall_impl'; [|exact Fpre]. intros r Hr. simpl in Hr.
      rewrite (cmp_lt_gt _ _ (lt_le_trans (rkey r) k k' (cmp_gt_lt _ _ Hr) Hk)). discriminate. }
    assert (Mc : forall k', kle k k' -> mt k' match c with Some (_, js) => js | None => [] end = [])
      by (intros k' Hk; apply (cache_below c rs k k' W Hne Hk)).
    assert (Wsuffix : forall post k', kle k k' -> rs = pre ++ post -> wf c post k').
    { intros post k' Hk Epost. destruct c as [[jk js0]|]; [|exact I]. destruct W as [Fj [Frs Hle]].
      repeat split; [exact Fj | | apply (kcmp_trans jk k k' Hle Hk)].
      rewrite Epost in Frs. apply Forall_app in Frs. tauto. }
    assert (Hkk : kle k k) by (unfold kle; rewrite kcmp_refl; discriminate).
    unfold virt. destruct (drop_lt kcmp rkey k rs) as [|r t] eqn:D.
    - inversion H; subst js rs' c'. rewrite app_nil_r in E.
      rewrite E, mt_app, (Mc k Hkk), (Mpre k Hkk). split; [reflexivity | split; [constructor|]].
      intros k' Hk. split; [apply (Wsuffix [] k' Hk); rewrite app_nil_r; exact E|].
      rewrite !mt_app, (Mpre k' Hk). reflexivity.
    - destruct (kcmp k (rkey r)) eqn:C.
      + destruct (take_eq kcmp rkey k (r :: t)) as [a b] eqn:T. inversion H; subst js rs' c'.
        destruct (take_eq_spec _ _ _ _ T) as [Eab [Fa Hb]].
        assert (Sb : sortedR b) by (apply (sortedR_app_r a); rewrite <- Eab; exact Spost).
        assert (Fge : Forall (fun x => kle k (rkey x)) (r :: t)).
        { apply sorted_all_ge; [exact Spost | unfold kle; rewrite C; discriminate]. }
        assert (Fb : Forall (fun x => kcmp k (rkey x) = Lt) b).
        { destruct b as [|b0 b']; [constructor|].
          apply sorted_all_gt; [exact Sb|].
          assert (Hge : kle k (rkey b0)).
          { rewrite Eab in Fge. apply Forall_app in Fge. destruct Fge as [_ Fg]. inversion Fg; assumption. }
          destruct (kcmp k (rkey b0)) eqn:Cb; [|reflexivity|exfalso; apply Hge; exact Cb].
          exfalso. apply Hb. apply cmp_eq_sym. exact Cb. }
        assert (Ma : mt k a = a).
        { apply mt_all. eapply Forall_impl'; [|exact Fa]. intros x Hx. apply cmp_eq_sym. exact Hx. }
        assert (Mb : mt k b = []).
        { apply mt_none. eapply Forall_impl'; [|exact Fb]. intros x Hx. simpl in Hx. rewrite Hx. discriminate. }
        split; [|split; [exact Sb|]].
        * rewrite E, Eab, !mt_app, (Mc k Hkk), (Mpre k Hkk), Ma, Mb. simpl. rewrite app_nil_r. reflexivity.
        * intros k' Hk. split; [repeat split; [exact Fa | exact Fb | exact Hk]|].
          rewrite E, Eab, !mt_app, (Mc k' Hk), (Mpre k' Hk). reflexivity.
      + inversion H; subst js rs' c'.
        assert (Fgt : Forall (fun x => kcmp k (rkey x) = Lt) (r :: t)) by (apply sorted_all_gt; assumption).
        split; [|split; [exact Spost|]].
        * rewrite E, !mt_app, (Mc k Hkk), (Mpre k Hkk). rewrite (mt_none k (r :: t)); [reflexivity|].
          eapply Forall_impl'; [|exact Fgt]. intros x Hx. simpl in Hx. rewrite Hx. discriminate.
        * intros k' Hk. split; [apply (Wsuffix (r :: t) k' Hk E)|].
          rewrite E, !mt_app, (Mpre k' Hk). reflexivity.
      + exfalso. apply Hhead. reflexivity.
  Qed.

  Lemma join_set_step k rs c js rs' c' :
    join_set kcmp rkey k rs c = (js, rs', c') -> sortedR rs -> wf c rs k ->
    js = mt k (virt c rs) /\ sortedR rs' /\
    forall k', kle k k' -> wf c' rs' k' /\ mt k' (virt c' rs') = mt k' (virt c rs).
  Proof.
    unfold join_set. intros H S W.
    destruct c as [[jk js0]|].
    - destruct (keq kcmp k jk) eqn:Q.
      + inversion H; subst js rs' c'. destruct W as [Fj [Frs Hle]].
        assert (Ekj : kcmp k jk = Eq) by (unfold keq in Q; destruct (kcmp k jk); [reflexivity|discriminate|discriminate]).
        split; [|split; [exact S|]].
        * unfold virt. rewrite mt_app. rewrite mt_all, mt_none; [rewrite app_nil_r; reflexivity | |].
          -- eapply Forall_impl'; [|exact Frs]. intros x Hx. simpl in Hx.
             rewrite (cmp_compat_l k jk (rkey x) Ekj), Hx. discriminate.
          -- eapply Forall_impl'; [|exact Fj]. intros x Hx. simpl in Hx.
             rewrite (cmp_compat_r k (rkey x) jk Hx). exact Ekj.
        * intros k' Hk. split; [|reflexivity]. repeat split; [exact Fj | exact Frs|].
          apply (kcmp_trans jk k k' Hle Hk).
      + apply (miss_step k rs (Some (jk, js0)) js rs' c' H S W Q).
    - apply (miss_step k rs None js rs' c' H S W I).
  Qed.

  Lemma nested_ext kd (ls : list L) (A B : list R) :
    (forall l, In l ls -> mt (lkey l) A = mt (lkey l) B) ->
    nested kcmp lkey rkey kd ls A = nested kcmp lkey rkey kd ls B.
  Proof.
    induction ls as [|l t IH]; intros H; [reflexivity|]. unfold nested in *. simpl.
    rewrite (H l (or_introl eq_refl)). f_equal. apply IH. intros x Hx. apply H. right. exact Hx.
  Qed.

  Theorem walk_nested kd : forall (ls : list L) (rs : list R) (c : cache K R),
    sortedL ls -> sortedR rs ->
    match ls with [] => True | l :: _ => wf c rs (lkey l) end ->
    walk kcmp lkey rkey kd ls rs c = nested kcmp lkey rkey kd ls (virt c rs).
  Proof.
    induction ls as [|l t IH]; intros rs c SL SR W; [reflexivity|].
    simpl walk. destruct (join_set kcmp rkey (lkey l) rs c) as [[js rs'] c'] eqn:J.
    destruct (join_set_step _ _ _ _ _ _ J SR W) as [Ejs [SR' Hfut]].
    apply StronglySorted_inv in SL. destruct SL as [SLt FL].
    unfold nested at 1. simpl flat_map. fold (nested kcmp lkey rkey kd t (virt c rs)).
    rewrite <- Ejs. f_equal.
    rewrite IH; [| exact SLt | exact SR' |].
    - apply nested_ext. intros x Hx. rewrite Forall_forall in FL. apply (Hfut (lkey x)), FL, Hx.
    - destruct t as [|l2 t']; [exact I|]. inversion FL; subst. apply (Hfut (lkey l2)). assumption.
  Qed.

  (* sorting *)
  Lemma insk_perm {A} (key : A -> K) x l : Permutation (insk kcmp key x l) (x :: l).
  Proof.
    induction l as [|y t IH]; simpl; [apply Permutation_refl|].
    destruct (kcmp (key x) (key y)); try apply Permutation_refl.
    eapply Permutation_trans; [apply perm_skip, IH | apply perm_swap].
  Qed.

  Lemma sortk_perm {A} (key : A -> K) l : Permutation (sortk kcmp key l) l.
  Proof.
    induction l as [|x t IH]; simpl; [constructor|].
    eapply Permutation_trans; [apply insk_perm | apply perm_skip, IH].
  Qed.

  Lemma insk_sorted {A} (key : A -> K) x l :
    StronglySorted (fun a b => kle (key a) (key b)) l ->
    StronglySorted (fun a b => kle (key a) (key b)) (insk kcmp key x l).
  Proof.
    induction l as [|y t IH]; intros Hs; simpl.
    - repeat constructor.
    - inversion Hs as [|? ? Hst Hfa]; subst.
      destruct (kcmp (key x) (key y)) eqn:C.
      + constructor; [exact Hs|]. constructor; [unfold kle; rewrite C; discriminate|].
        rewrite Forall_forall in *. intros z Hz.
        apply (kcmp_trans _ (key y)); [rewrite C; discriminate | apply Hfa, Hz].
      + constructor; [exact Hs|]. constructor; [unfold kle; rewrite C; discriminate|].
        rewrite Forall_forall in *. intros z Hz.
        apply (kcmp_trans _ (key y)); [rewrite C; discriminate | apply Hfa, Hz].
      + constructor; [apply IH, Hst|].
        rewrite Forall_forall in *. intros z Hz.
        apply (Permutation_in _ (insk_perm key x t)) in Hz. destruct Hz as [Hz|Hz].
        * subst z. unfold kle. rewrite kcmp_antisym, C. discriminate.
        * apply Hfa, Hz.
  Qed.

  Lemma sortk_sorted {A} (key : A -> K) l :
    StronglySorted (fun a b => kle (key a) (key b)) (sortk kcmp key l).
  Proof. induction l; simpl; [constructor | apply insk_sorted; assumption]. Qed.

  (* the nested-loop join does not depend on the order of its inputs (as a multiset) *)
  Lemma mt_perm k (a b : list R) : Permutation a b -> Permutation (mt k a) (mt k b).
  Proof.
    induction 1; simpl; try constructor.
    - destruct (keq kcmp k (rkey x)); [constructor|]; assumption.
    - destruct (keq kcmp k (rkey x)), (keq kcmp k (rkey y)); try apply Permutation_refl. constructor.
    - eapply Permutation_trans; eassumption.
  Qed.

  Lemma emit_perm kd (l : L) (a b : list R) : Permutation a b -> Permutation (emit kd l a) (emit kd l b).
  Proof.
    intros P. pose proof (Permutation_length P) as Len.
    destruct kd, a, b; simpl in *; try discriminate; try apply Permutation_refl;
      try (apply (Permutation_map (fun r => (l, Some r))) in P; exact P).
  Qed.

  Lemma nested_perm_r kd (ls : list L) (a b : list R) : Permutation a b ->
    Permutation (nested kcmp lkey rkey kd ls a) (nested kcmp lkey rkey kd ls b).
  Proof.
    intros P. induction ls as [|l t IH]; [constructor|]. unfold nested in *. simpl.
    apply Permutation_app; [apply emit_perm, mt_perm, P | exact IH].
  Qed.

  Lemma nested_perm_l kd (a b : list L) (rs : list R) : Permutation a b ->
    Permutation (nested kcmp lkey rkey kd a rs) (nested kcmp lkey rkey kd b rs).
  Proof.
    unfold nested. induction 1; simpl.
    - constructor.
    - apply Permutation_app_head. assumption.
    - rewrite !app_assoc. apply Permutation_app_tail, Permutation_app_comm.
    - eapply Permutation_trans; eassumption.
  Qed.

  (* the join operator with its inserted sorts = nested loop, as multisets; and,
     on inputs that are already sorted, as lists *)
  Theorem join_model_correct kd (ls : list L) (rs : list R) :
    Permutation (join_model kcmp lkey rkey kd ls rs) (nested kcmp lkey rkey kd ls rs).
  Proof.
    unfold join_model. rewrite walk_nested; [| apply sortk_sorted | apply sortk_sorted |].
    - simpl virt. eapply Permutation_trans; [apply nested_perm_l, sortk_perm | apply nested_perm_r, sortk_perm].
    - destruct (sortk kcmp lkey ls); exact I.
  Qed.

  Theorem join_sorted_inputs kd (ls : list L) (rs : list R) :
    sortedL ls -> sortedR rs ->
    walk kcmp lkey rkey kd ls rs None = nested kcmp lkey rkey kd ls rs.
  Proof. intros SL SR. rewrite walk_nested; [reflexivity | exact SL | exact SR |]. destruct ls; exact I. Qed.
End JoinProofs.

(* instance: the runtime's value comparison on key atoms *)
Theorem join_atoms_correct kd (ls rs : list jrec) :
  Permutation (join_atoms kd ls rs) (nested_atoms kd ls rs).
Proof.
  unfold join_atoms, nested_atoms. apply join_model_correct.
  - exact atom_cmp_refl.
  - intros a b. apply atom_cmp_antisym.
  - intros a b c. apply atom_cmp_trans.
Qed.

(* Open finding: in descending mode the inserted sort and the walk disagree on
   where nulls go, and the null keys of the two sides no longer meet. *)
Definition desc_left : list jrec := [(ANull 0, 1%N); (ANum 0 1, 2%N)].
Definition desc_right : list jrec := [(ANull 4, 3%N); (ANum 0 1, 4%N)].   (* descending, nulls first *)

Lemma desc_right_sorted :
  StronglySorted (fun x y : jrec => atom_cmp_desc (fst x) (fst y) <> Gt) desc_right.
Proof. repeat constructor; vm_compute; discriminate. Qed.

Theorem join_desc_inserted_sort_refuted :
  exists ls rs,
    StronglySorted (fun x y : jrec => atom_cmp_desc (fst x) (fst y) <> Gt) rs /\
    ~ Permutation (join_desc_left_inserted JInner ls rs) (nested atom_cmp_desc fst fst JInner ls rs).
Proof.
  exists desc_left, desc_right. split; [exact desc_right_sorted|].
  intros P. apply Permutation_length in P. vm_compute in P. discriminate.
Qed.
