From ZV Require Import Base.Prelude Model.Service.

Lemma client_batches_app enabled stats : forall bs rest,
  client (server_batches enabled stats bs ++ rest) =
  let '(v, e) := client rest in (List.concat bs ++ v, e).
Proof.
  intros bs. revert stats. induction bs as [|b r IH]; intros stats rest; simpl.
  - destruct (client rest); reflexivity.
  - assert (G : forall st, client ((match st with true :: _ => control enabled FStats | _ => [] end ++
                               server_batches enabled (tl st) r) ++ rest)
                       = let '(v, e) := client rest in (List.concat r ++ v, e)).
    { intros st. destruct st as [|[|] t]; simpl; try apply IH.
      unfold control. destruct enabled; simpl; apply IH. }
    rewrite <- app_assoc in *. specialize (G stats). rewrite <- app_assoc in G. rewrite G.
    destruct (client rest). rewrite app_assoc. reflexivity.
Qed.

(* With control frames: the client receives exactly the batches' values, in
   order, and the late error if there was one -- whatever the batching and
   wherever progress frames are interleaved. *)
Theorem stream_codec_ctrl stats bs late :
  client (server true true stats bs late) = (List.concat bs, late).
Proof.
  unfold server. simpl. rewrite client_batches_app.
  destruct late as [e|]; simpl; rewrite app_nil_r; reflexivity.
Qed.

(* Without control frames the values still arrive in order ... *)
Theorem stream_codec_values ctrl fmtc stats bs late :
  fst (client (server ctrl fmtc stats bs late)) = List.concat bs.
Proof.
  unfold server. destruct (ctrl && fmtc); simpl; rewrite client_batches_app;
    destruct late; simpl; rewrite app_nil_r; reflexivity.
Qed.

(* ... but a late error is dropped: the client sees a complete-looking stream. *)
Theorem late_error_dropped_refuted :
  exists ctrl fmtc stats bs e,
    client (server ctrl fmtc stats bs (Some e)) = (List.concat bs, None).
Proof. exists false, true, [], [[1; 2]], 7. reflexivity. Qed.

Theorem late_error_needs_ctrl ctrl fmtc stats bs e :
  snd (client (server ctrl fmtc stats bs (Some e))) = Some e <-> ctrl && fmtc = true.
Proof.
  unfold server. destruct (ctrl && fmtc); simpl; rewrite client_batches_app; simpl; split; auto; discriminate.
Qed.

(* With the status endpoint a late error is never lost, in any mode. *)
Theorem late_error_reported ctrl fmtc stats bs late :
  reported ctrl fmtc stats bs late = late.
Proof.
  unfold reported, status_endpoint, server.
  destruct (ctrl && fmtc); simpl; rewrite client_batches_app;
    destruct late; simpl; reflexivity.
Qed.

(* Endpoints: if the request and response codecs round-trip, the remote path is
   the local path. *)
Section Endpoints.
  Variables (Req Resp State Wire : Type).
  Variable handler : State -> Req -> State * Resp.
  Variables (ereq : Req -> Wire) (dreq : Wire -> option Req).
  Variables (eresp : Resp -> Wire) (dresp : Wire -> option Resp).
  Hypothesis req_rt : forall r, dreq (ereq r) = Some r.
  Hypothesis resp_rt : forall x, dresp (eresp x) = Some x.

  Theorem remote_refines_local s r :
    remote_step Req Resp State Wire handler ereq dreq eresp dresp s r =
    local_step Req Resp State handler s r.
  Proof.
    unfold remote_step, local_step. rewrite req_rt. destruct (handler s r). rewrite resp_rt. reflexivity.
  Qed.

  Theorem remote_history_refines_local (h : list Req) s :
    fold_left (fun st r => fst (remote_step Req Resp State Wire handler ereq dreq eresp dresp st r)) h s =
    fold_left (fun st r => fst (local_step Req Resp State handler st r)) h s.
  Proof.
    revert s. induction h as [|r t IH]; intros s; simpl; [reflexivity|].
    rewrite remote_refines_local. apply IH.
  Qed.
End Endpoints.
