(* C10: proofs about the group-by model (Model/Agg.v). *)
From ZV Require Import Base.Prelude Model.Agg.
From Coq Require Import Permutation Sorting.Sorted.

Section GroupByProofs.
  Variables K S : Type.
  Variable keqb : K -> K -> bool.
  Hypothesis keqb_eq : forall a b, keqb a b = true <-> a = b.
  Variable kcmp : K -> K -> comparison.
  Hypothesis kcmp_refl : forall a, kcmp a a = Eq.
  Hypothesis kcmp_antisym : forall a b, kcmp b a = CompOpp (kcmp a b).
  Hypothesis kcmp_trans : forall a b c, kcmp a b <> Gt -> kcmp b c <> Gt -> kcmp a c <> Gt.
  Variable op : S -> S -> S.
  Variable e : S.
  Hypothesis op_assoc : forall a b c, op a (op b c) = op (op a b) c.
  Hypothesis op_comm : forall a b, op a b = op b a.
  Hypothesis op_e : forall a, op e a = a.

  Notation row := (K * S)%type.
  Notation tot := (total keqb op e).

  Lemma op_e_r a : op a e = a.
  Proof. rewrite op_comm. apply op_e. Qed.

  Lemma keqb_refl a : keqb a a = true.
  Proof. apply keqb_eq. reflexivity. Qed.

  Lemma keqb_neq a b : a <> b -> keqb a b = false.
  Proof. intros H. destruct (keqb a b) eqn:E; [apply keqb_eq in E; contradiction | reflexivity]. Qed.

  Lemma keqb_false a b : keqb a b = false -> a <> b.
  Proof. intros E H. subst. rewrite keqb_refl in E. discriminate. Qed.

  (* ---- totals *)
  Lemma tot_cons k (r : row) l :
    tot k (r :: l) = if keqb k (fst r) then op (snd r) (tot k l) else tot k l.
  Proof. reflexivity. Qed.

  Lemma tot_app k (l1 l2 : list row) : tot k (l1 ++ l2) = op (tot k l1) (tot k l2).
  Proof.
    induction l1 as [|r l1 IH]; simpl app.
    - unfold total at 2. simpl. rewrite op_e. reflexivity.
    - rewrite !tot_cons. destruct (keqb k (fst r)); [rewrite IH, op_assoc; reflexivity | exact IH].
  Qed.

  Lemma tot_perm k (l l' : list row) : Permutation l l' -> tot k l = tot k l'.
  Proof.
    induction 1 as [|x l l' _ IH|x y l|l l' l'' _ IH1 _ IH2].
    - reflexivity.
    - rewrite !tot_cons, IH. reflexivity.
    - rewrite !tot_cons. destruct (keqb k (fst x)), (keqb k (fst y)); try reflexivity.
      rewrite !op_assoc, (op_comm (snd y)). reflexivity.
    - congruence.
  Qed.

  Lemma tot_notin k (l : list row) : ~ In k (map fst l) -> tot k l = e.
  Proof.
    induction l as [|r l IH]; intros H; [reflexivity|].
    rewrite tot_cons. simpl in H.
    rewrite keqb_neq by (intros E; apply H; left; symmetry; exact E).
    apply IH. intros I. apply H. right. exact I.
  Qed.

  Lemma tot_nodup k s (l : list row) : NoDup (map fst l) -> In (k, s) l -> tot k l = s.
  Proof.
    induction l as [|r l IH]; intros ND I; [contradiction|].
    simpl in ND. inversion ND as [|? ? NI ND']; subst.
    rewrite tot_cons. destruct I as [E|I].
    - subst r. simpl. rewrite keqb_refl, tot_notin by exact NI. apply op_e_r.
    - rewrite keqb_neq; [apply IH; assumption|].
      intros E. apply NI. rewrite <- E. apply (in_map fst) in I. exact I.
  Qed.

  (* ---- the table *)
  Lemma tbl_mem_in k (t : list row) : tbl_mem keqb k t = true <-> In k (map fst t).
  Proof.
    induction t as [|[k' s'] t IH]; simpl; [split; [discriminate|contradiction]|].
    destruct (keqb k k') eqn:E.
    - split; [intros _; left; symmetry; apply keqb_eq; exact E | reflexivity].
    - rewrite IH. split; [intros H; right; exact H|].
      intros [H|H]; [subst; rewrite keqb_refl in E; discriminate | exact H].
  Qed.

  Lemma tbl_upd_keys k s (t : list row) : map fst (tbl_upd keqb op k s t) = map fst t.
  Proof.
    induction t as [|[k' s'] t IH]; simpl; [reflexivity|].
    destruct (keqb k k'); simpl; [reflexivity | rewrite IH; reflexivity].
  Qed.

  Lemma op_swap a b c : op (op a b) c = op (op a c) b.
  Proof. rewrite <- !op_assoc, (op_comm b c). reflexivity. Qed.

  Lemma tbl_upd_tot k s k' (t : list row) :
    tbl_mem keqb k t = true ->
    tot k' (tbl_upd keqb op k s t) = if keqb k' k then op (tot k' t) s else tot k' t.
  Proof.
    induction t as [|[k1 s1] t IH]; simpl tbl_mem; simpl tbl_upd; [discriminate|].
    destruct (keqb k k1) eqn:E; intros M.
    - apply keqb_eq in E. subst k1. rewrite !tot_cons. simpl fst. simpl snd.
      destruct (keqb k' k); [apply op_swap | reflexivity].
    - rewrite !tot_cons. simpl fst. simpl snd. rewrite (IH M).
      destruct (keqb k' k) eqn:E2.
      + apply keqb_eq in E2. subst k'. rewrite E. reflexivity.
      + reflexivity.
  Qed.

  (* ---- sorting and merging *)
  Lemma ins_perm (r : row) l : Permutation (ins kcmp r l) (r :: l).
  Proof.
    induction l as [|x t IH]; simpl; [apply Permutation_refl|].
    destruct (kcmp (fst r) (fst x)); try apply Permutation_refl.
    eapply Permutation_trans; [apply perm_skip, IH | apply perm_swap].
  Qed.

  Lemma sort_run_perm (l : list row) : Permutation (sort_run kcmp l) l.
  Proof.
    induction l as [|x t IH]; simpl; [constructor|].
    eapply Permutation_trans; [apply ins_perm | apply perm_skip, IH].
  Qed.

  Lemma merge2_perm (a b : list row) : Permutation (merge2 kcmp a b) (a ++ b).
  Proof.
    induction a as [|x t IH]; simpl; [apply Permutation_refl|].
    eapply Permutation_trans; [apply ins_perm | apply perm_skip, IH].
  Qed.

  Lemma merge_runs_perm (runs : list (list row)) : Permutation (merge_runs kcmp runs) (List.concat runs).
  Proof.
    induction runs as [|a t IH]; simpl; [constructor|].
    eapply Permutation_trans; [apply merge2_perm | apply Permutation_app_head, IH].
  Qed.

  Definition le (a b : row) : Prop := kcmp (fst a) (fst b) <> Gt.
  Notation srt := (StronglySorted le).

  Lemma ins_sorted (r : row) l : srt l -> srt (ins kcmp r l).
  Proof.
    induction l as [|x t IH]; intros Hs; simpl.
    - repeat constructor.
    - inversion Hs as [|? ? Hst Hfa]; subst.
      destruct (kcmp (fst r) (fst x)) eqn:C.
      + constructor; [exact Hs|]. constructor; [unfold le; rewrite C; discriminate|].
        rewrite Forall_forall in *. intros y Hy. unfold le.
        apply (kcmp_trans _ (fst x)); [rewrite C; discriminate | apply Hfa, Hy].
      + constructor; [exact Hs|]. constructor; [unfold le; rewrite C; discriminate|].
        rewrite Forall_forall in *. intros y Hy. unfold le.
        apply (kcmp_trans _ (fst x)); [rewrite C; discriminate | apply Hfa, Hy].
      + constructor; [apply IH, Hst|].
        rewrite Forall_forall in *. intros y Hy.
        apply (Permutation_in _ (ins_perm r t)) in Hy. destruct Hy as [Hy|Hy].
        * subst y. unfold le. rewrite kcmp_antisym, C. discriminate.
        * apply Hfa, Hy.
  Qed.

  Lemma sort_run_sorted (l : list row) : srt (sort_run kcmp l).
  Proof. induction l; simpl; [constructor | apply ins_sorted; assumption]. Qed.

  Lemma merge2_sorted (a b : list row) : srt b -> srt (merge2 kcmp a b).
  Proof. intros Hb. induction a; simpl; [exact Hb | apply ins_sorted; assumption]. Qed.

  Lemma merge_runs_sorted (runs : list (list row)) : srt (merge_runs kcmp runs).
  Proof. induction runs; simpl; [constructor | apply merge2_sorted; assumption]. Qed.

  (* ---- combining adjacent records *)
  Definition kfaithful (ks : list K) : Prop :=
    forall a b, In a ks -> In b ks -> kcmp a b = Eq -> a = b.

  Lemma kfaithful_incl ks ks' : (forall k, In k ks' -> In k ks) -> kfaithful ks -> kfaithful ks'.
  Proof. intros I F a b Ha Hb. apply F; apply I; assumption. Qed.

  Lemma comb_tot k (l : list row) : forall cur,
    kfaithful (map fst (cur :: l)) -> tot k (comb kcmp op cur l) = tot k (cur :: l).
  Proof.
    induction l as [|r t IH]; intros cur F; [reflexivity|].
    simpl comb. destruct (kcmp (fst cur) (fst r)) eqn:C.
    - assert (E : fst cur = fst r) by (apply F; simpl; auto).
      rewrite IH.
      + rewrite !tot_cons. simpl fst. simpl snd. rewrite <- E.
        destruct (keqb k (fst cur)); [rewrite op_assoc; reflexivity | reflexivity].
      + eapply kfaithful_incl; [|exact F]. simpl. intros x [H|H]; auto.
    - rewrite tot_cons, IH, <- tot_cons; [reflexivity|].
      eapply kfaithful_incl; [|exact F]. simpl. intros x H; auto.
    - rewrite tot_cons, IH, <- tot_cons; [reflexivity|].
      eapply kfaithful_incl; [|exact F]. simpl. intros x H; auto.
  Qed.

  Lemma comb_keys_sub k (l : list row) : forall cur,
    In k (map fst (comb kcmp op cur l)) -> In k (map fst (cur :: l)).
  Proof.
    induction l as [|r t IH]; intros cur; [auto|].
    simpl comb. destruct (kcmp (fst cur) (fst r)).
    - intros H. apply IH in H. simpl in *. destruct H; auto.
    - simpl. intros [H|H]; auto. right. apply (IH r). exact H.
    - simpl. intros [H|H]; auto. right. apply (IH r). exact H.
  Qed.

  Lemma comb_keys_sup k (l : list row) : forall cur,
    kfaithful (map fst (cur :: l)) ->
    In k (map fst (cur :: l)) -> In k (map fst (comb kcmp op cur l)).
  Proof.
    induction l as [|r t IH]; intros cur F; [auto|].
    simpl comb. destruct (kcmp (fst cur) (fst r)) eqn:C.
    - assert (E : fst cur = fst r) by (apply F; simpl; auto).
      intros H. apply IH.
      + eapply kfaithful_incl; [|exact F]. simpl. intros x [Hx|Hx]; auto.
      + simpl in *. destruct H as [H|[H|H]]; auto. left. congruence.
    - intros H. simpl in H. simpl. destruct H as [H|H]; auto. right. apply (IH r); [|exact H].
      eapply kfaithful_incl; [|exact F]. simpl. intros x Hx; auto.
    - intros H. simpl in H. simpl. destruct H as [H|H]; auto. right. apply (IH r); [|exact H].
      eapply kfaithful_incl; [|exact F]. simpl. intros x Hx; auto.
  Qed.

  Lemma comb_nodup (l : list row) : forall cur,
    srt (cur :: l) -> NoDup (map fst (comb kcmp op cur l)).
  Proof.
    induction l as [|r t IH]; intros cur Hs; [simpl; repeat constructor; auto|].
    inversion Hs as [|? ? Hs1 Hf1]; subst. inversion Hs1 as [|? ? Hs2 Hf2]; subst.
    inversion Hf1 as [|? ? Hle Hf1']; subst.
    simpl comb. destruct (kcmp (fst cur) (fst r)) eqn:C.
    - apply IH. constructor; [exact Hs2|].
      rewrite Forall_forall in *. intros y Hy. unfold le. simpl. apply Hf1'. exact Hy.
    - simpl. constructor; [|apply IH; exact Hs1].
      intros H. apply comb_keys_sub in H. apply in_map_iff in H. destruct H as [x [Ex Hx]].
      assert (Hrx : kcmp (fst r) (fst x) <> Gt).
      { destruct Hx as [Hx|Hx]; [subst x; rewrite kcmp_refl; discriminate|].
        rewrite Forall_forall in Hf2. apply Hf2. exact Hx. }
      rewrite Ex in Hrx. rewrite kcmp_antisym, C in Hrx. apply Hrx. reflexivity.
    - exfalso. apply Hle. exact C.
  Qed.

  (* ---- characterisation of a result up to permutation *)
  Lemma nodup_keys_nodup (l : list row) : NoDup (map fst l) -> NoDup l.
  Proof. apply NoDup_map_inv. Qed.

  Lemma perm_char (l1 l2 : list row) :
    NoDup (map fst l1) -> NoDup (map fst l2) ->
    (forall k, In k (map fst l1) <-> In k (map fst l2)) ->
    (forall k, tot k l1 = tot k l2) ->
    Permutation l1 l2.
  Proof.
    intros N1 N2 HK HT.
    apply NoDup_Permutation; [apply nodup_keys_nodup, N1 | apply nodup_keys_nodup, N2|].
    intros [k s]. split; intros I.
    - assert (Ik : In k (map fst l2)) by (apply HK; apply (in_map fst) in I; exact I).
      apply in_map_iff in Ik. destruct Ik as [[k' s'] [Ek I2]]. simpl in Ek. subst k'.
      rewrite <- (tot_nodup k s l1 N1 I), (HT k), (tot_nodup k s' l2 N2 I2). exact I2.
    - assert (Ik : In k (map fst l1)) by (apply HK; apply (in_map fst) in I; exact I).
      apply in_map_iff in Ik. destruct Ik as [[k' s'] [Ek I1]]. simpl in Ek. subst k'.
      rewrite <- (tot_nodup k s l2 N2 I), <- (HT k), (tot_nodup k s' l1 N1 I1). exact I1.
  Qed.

  (* ---- the consume loop *)
  Definition flat (tbl : list row) (runs : list (list row)) : list row := tbl ++ List.concat runs.

  Definition same_content (a b : list row) : Prop :=
    (forall k, tot k a = tot k b) /\ (forall k, In k (map fst a) <-> In k (map fst b)).

  Lemma same_content_perm a b : Permutation a b -> same_content a b.
  Proof.
    intros P. split; intros k; [apply tot_perm, P|].
    split; apply Permutation_in; [|apply Permutation_sym]; apply Permutation_map, P.
  Qed.

  Lemma same_content_trans a b c : same_content a b -> same_content b c -> same_content a c.
  Proof.
    intros [T1 K1] [T2 K2]. split; intros k; [rewrite T1; apply T2|].
    rewrite K1. apply K2.
  Qed.

  Lemma perm_spill (r : row) (T C X ST : list row) :
    Permutation ST T -> Permutation (r :: (C ++ ST) ++ X) ((T ++ C) ++ r :: X).
  Proof.
    intros P. apply Permutation_cons_app. apply Permutation_app_tail.
    eapply Permutation_trans; [apply Permutation_app_comm|]. apply Permutation_app_tail, P.
  Qed.

  Lemma perm_append (r : row) (T C X : list row) :
    Permutation (((T ++ [r]) ++ C) ++ X) ((T ++ C) ++ r :: X).
  Proof.
    eapply Permutation_trans; [|apply Permutation_middle].
    rewrite <- !app_assoc. simpl. apply Permutation_sym, Permutation_middle.
  Qed.

  Lemma consume_inv limit : forall xs tbl runs tbl' runs',
    consume keqb kcmp op e limit xs tbl runs = (tbl', runs') ->
    NoDup (map fst tbl) ->
    NoDup (map fst tbl') /\ same_content (flat tbl' runs') (flat tbl runs ++ xs).
  Proof.
    induction xs as [|[k s] xs IH]; intros tbl runs tbl' runs' H ND.
    - simpl in H. inversion H; subst. split; [exact ND|]. rewrite app_nil_r.
      apply same_content_perm, Permutation_refl.
    - simpl in H. destruct (tbl_mem keqb k tbl) eqn:M.
      + apply IH in H; [|rewrite tbl_upd_keys; exact ND]. destruct H as [N' SC]. split; [exact N'|].
        eapply same_content_trans; [exact SC|]. unfold flat. split; intros k'.
        * rewrite !tot_app, tot_cons, (tbl_upd_tot _ _ _ _ M). simpl fst. simpl snd.
          destruct (keqb k' k); [|reflexivity].
          rewrite <- !op_assoc. f_equal. rewrite !op_assoc. rewrite (op_comm s). rewrite <- !op_assoc. reflexivity.
        * rewrite !map_app, tbl_upd_keys. simpl map. rewrite !in_app_iff. simpl.
          apply tbl_mem_in in M. intuition. subst. auto.
      + destruct (limit <=? N.of_nat (List.length tbl))%N.
        * apply IH in H; [|simpl; constructor; [intros []|constructor]]. destruct H as [N' SC].
          split; [exact N'|]. eapply same_content_trans; [exact SC|].
          apply same_content_perm. unfold flat. rewrite op_e, concat_app. simpl List.concat.
          rewrite app_nil_r. simpl app. apply perm_spill, sort_run_perm.
        * apply IH in H.
          -- destruct H as [N' SC]. split; [exact N'|]. eapply same_content_trans; [exact SC|].
             apply same_content_perm. unfold flat. rewrite op_e. apply perm_append.
          -- rewrite map_app. simpl map.
             apply (Permutation_NoDup (Permutation_cons_append _ _)).
             constructor; [|exact ND]. intros I. apply tbl_mem_in in I. congruence.
  Qed.

  (* ---- the specification *)
  Lemma distinct_keys_spec (l : list row) : forall seen,
    NoDup (distinct_keys keqb seen l) /\
    (forall k, In k (distinct_keys keqb seen l) <-> In k (map fst l) /\ ~ In k seen).
  Proof.
    induction l as [|[k s] l IH]; intros seen; simpl.
    - split; [constructor|]. intros k. tauto.
    - destruct (existsb (keqb k) seen) eqn:X.
      + destruct (IH seen) as [N I]. split; [exact N|]. intros k'. rewrite I.
        apply existsb_exists in X. destruct X as [x [Hx Ex]]. apply keqb_eq in Ex. subst x.
        split; [tauto|]. intros [[E|H] NS]; [subst; contradiction | tauto].
      + assert (NS : ~ In k seen).
        { intros I. assert (existsb (keqb k) seen = true) by (apply existsb_exists; exists k; split; [exact I | apply keqb_refl]). congruence. }
        destruct (IH (k :: seen)) as [N I]. split.
        * constructor; [|exact N]. rewrite I. simpl. tauto.
        * intros k'. simpl. rewrite I. simpl.
          destruct (keqb k k') eqn:E.
          -- apply keqb_eq in E. subst k'. tauto.
          -- apply keqb_false in E. tauto.
  Qed.

  Lemma spec_props (xs : list row) :
    NoDup (map fst (groupby_spec keqb op e xs)) /\
    same_content (groupby_spec keqb op e xs) xs.
  Proof.
    unfold groupby_spec. destruct (distinct_keys_spec xs []) as [N I].
    assert (EK : map fst (map (fun k => (k, tot k xs)) (distinct_keys keqb [] xs)) = distinct_keys keqb [] xs).
    { rewrite map_map. simpl. apply map_id. }
    split; [rewrite EK; exact N|]. split; intros k.
    - destruct (in_dec (fun a b => match keqb a b as x return keqb a b = x -> _ with
                                   | true => fun E => left (proj1 (keqb_eq a b) E)
                                   | false => fun E => right (keqb_false a b E) end eq_refl)
                       k (distinct_keys keqb [] xs)) as [Hin|Hout].
      + apply tot_nodup; [rewrite EK; exact N|]. apply in_map_iff. exists k. split; [reflexivity|exact Hin].
      + rewrite tot_notin by (rewrite EK; exact Hout).
        symmetry. apply tot_notin. intros Hk. apply Hout. apply I. split; [exact Hk | intros []].
    - rewrite EK, I. simpl. tauto.
  Qed.

  (* ---- main theorem: any limit, guarded by comparator faithfulness *)
  Theorem groupby_correct (limit : N) (xs : list row) :
    cmp_faithful kcmp xs ->
    Permutation (groupby keqb kcmp op e limit xs) (groupby_spec keqb op e xs).
  Proof.
    intros F. unfold groupby.
    destruct (consume keqb kcmp op e (eff_limit limit) xs [] []) as [tbl runs] eqn:C.
    apply consume_inv in C; [|constructor]. destruct C as [NT [CT CK]]. simpl in CT, CK.
    destruct (spec_props xs) as [NS [ST SK]].
    destruct runs as [|r0 runs].
    - unfold flat in *. simpl in *. rewrite app_nil_r in *.
      apply perm_char; [exact NT | exact NS | |].
      + intros k. rewrite CK, SK. tauto.
      + intros k. rewrite CT, ST. reflexivity.
    - set (rs := (r0 :: runs) ++ match tbl with [] => [] | _ => [sort_run kcmp tbl] end).
      assert (PM : Permutation (merge_runs kcmp rs) (flat tbl (r0 :: runs))).
      { eapply Permutation_trans; [apply merge_runs_perm|]. unfold rs, flat. rewrite concat_app.
        eapply Permutation_trans; [apply Permutation_app_comm|]. apply Permutation_app_tail.
        destruct tbl as [|t0 tbl]; simpl List.concat; [constructor|]. rewrite app_nil_r. apply (sort_run_perm (t0 :: tbl)). }
      destruct (same_content_perm _ _ PM) as [MT MK].
      assert (SM := merge_runs_sorted rs).
      assert (FM : kfaithful (map fst (merge_runs kcmp rs))).
      { intros a b Ha Hb. apply F; apply CK; apply MK; assumption. }
      destruct (merge_runs kcmp rs) as [|m ms] eqn:EM.
      + simpl. apply perm_char; [constructor | exact NS | |].
        * intros k. rewrite SK, <- CK, <- MK. tauto.
        * intros k. rewrite ST, <- CT, <- MT. reflexivity.
      + simpl combine. rewrite op_e. replace (fst m, snd m) with m by (destruct m; reflexivity).
        apply perm_char; [apply comb_nodup; exact SM | exact NS | |].
        * intros k. rewrite SK, <- CK, <- MK. split; [apply comb_keys_sub | apply comb_keys_sup; exact FM].
        * intros k. rewrite comb_tot by exact FM. rewrite ST, <- CT, <- MT. reflexivity.
  Qed.

  Lemma spec_perm (xs ys : list row) :
    Permutation xs ys -> Permutation (groupby_spec keqb op e xs) (groupby_spec keqb op e ys).
  Proof.
    intros P. destruct (spec_props xs) as [N1 S1], (spec_props ys) as [N2 S2].
    pose proof (same_content_perm _ _ P) as [PT PK].
    destruct S1 as [T1 K1], S2 as [T2 K2].
    apply perm_char; [exact N1 | exact N2 | |].
    - intros k. rewrite K1, K2. apply PK.
    - intros k. rewrite T1, T2. apply PT.
  Qed.

  Lemma cmp_faithful_perm (xs ys : list row) :
    Permutation xs ys -> cmp_faithful kcmp xs -> cmp_faithful kcmp ys.
  Proof.
    intros P F a b Ha Hb. apply F; eapply Permutation_in; try eassumption;
      apply Permutation_sym, Permutation_map, P.
  Qed.

  (* input order and limits do not matter *)
  Theorem groupby_order_limit_independent (l1 l2 : N) (xs ys : list row) :
    Permutation xs ys -> cmp_faithful kcmp xs ->
    Permutation (groupby keqb kcmp op e l1 xs) (groupby keqb kcmp op e l2 ys).
  Proof.
    intros P F.
    eapply Permutation_trans; [apply groupby_correct, F|].
    eapply Permutation_trans; [apply spec_perm, P|].
    apply Permutation_sym, groupby_correct. eapply cmp_faithful_perm; eassumption.
  Qed.

  Lemma cmp_faithfulb_ok (xs : list row) : cmp_faithfulb keqb kcmp xs = true -> cmp_faithful kcmp xs.
  Proof.
    unfold cmp_faithfulb. intros H a b Ha Hb C.
    rewrite forallb_forall in H. specialize (H a Ha). rewrite forallb_forall in H.
    specialize (H b Hb). rewrite C in H. apply keqb_eq. exact H.
  Qed.

  (* partial results compose: folding ConsumeAsPartial over the partial results
     of any split of the input = consuming the whole input *)
  Lemma fold_op_acc (l : list S) : forall a, fold_left op l a = op a (fold_left op l e).
  Proof.
    induction l as [|x l IH]; intros a; simpl.
    - symmetry. apply op_e_r.
    - rewrite IH, (IH (op e x)), op_e, op_assoc. reflexivity.
  Qed.

  Theorem partial_compose_generic (splits : list (list S)) :
    fold_left op (map (fun part => fold_left op part e) splits) e = fold_left op (List.concat splits) e.
  Proof.
    induction splits as [|p ps IH]; simpl; [reflexivity|].
    rewrite fold_left_app. rewrite fold_op_acc, IH, op_e.
    symmetry. apply fold_op_acc.
  Qed.
End GroupByProofs.

(* ------------------------------------------------------------------ comparators *)
Section CmpFacts.
  Variable K : Type.
  Variable c1 : K -> K -> comparison.
  Hypothesis c1_refl : forall a, c1 a a = Eq.
  Hypothesis c1_antisym : forall a b, c1 b a = CompOpp (c1 a b).
  Hypothesis c1_trans : forall a b c, c1 a b <> Gt -> c1 b c <> Gt -> c1 a c <> Gt.

  Lemma pre_eq_sym a b : c1 a b = Eq -> c1 b a = Eq.
  Proof. intros H. rewrite c1_antisym, H. reflexivity. Qed.

  Lemma pre_lt_gt a b : c1 a b = Lt -> c1 b a = Gt.
  Proof. intros H. rewrite c1_antisym, H. reflexivity. Qed.

  Lemma pre_lt_le_trans a b c : c1 a b = Lt -> c1 b c <> Gt -> c1 a c = Lt.
  Proof.
    intros H1 H2.
    assert (Hac : c1 a c <> Gt) by (apply (c1_trans a b c); [rewrite H1; discriminate | exact H2]).
    destruct (c1 a c) eqn:C; [|reflexivity|exfalso; apply Hac; reflexivity].
    exfalso. assert (Hba : c1 b a <> Gt).
    { apply (c1_trans b c a); [exact H2 | rewrite (pre_eq_sym _ _ C); discriminate]. }
    apply Hba. apply pre_lt_gt. exact H1.
  Qed.

  Lemma pre_le_lt_trans a b c : c1 a b <> Gt -> c1 b c = Lt -> c1 a c = Lt.
  Proof.
    intros H1 H2.
    assert (Hac : c1 a c <> Gt) by (apply (c1_trans a b c); [exact H1 | rewrite H2; discriminate]).
    destruct (c1 a c) eqn:C; [|reflexivity|exfalso; apply Hac; reflexivity].
    exfalso. assert (Hcb : c1 c b <> Gt).
    { apply (c1_trans c a b); [rewrite (pre_eq_sym _ _ C); discriminate | exact H1]. }
    apply Hcb. apply pre_lt_gt. exact H2.
  Qed.

  Lemma pre_compat_l a b c : c1 a b = Eq -> c1 a c = c1 b c.
  Proof.
    intros E. pose proof (pre_eq_sym _ _ E) as E'.
    assert (Lab : c1 a b <> Gt) by (rewrite E; discriminate).
    assert (Lba : c1 b a <> Gt) by (rewrite E'; discriminate).
    destruct (c1 b c) eqn:C.
    - destruct (c1 a c) eqn:D; [reflexivity| |].
      + exfalso. assert (X : c1 a b = Lt).
        { apply (pre_lt_le_trans a c b D). rewrite (pre_eq_sym _ _ C). discriminate. }
        congruence.
      + exfalso. apply (c1_trans a b c Lab); [rewrite C; discriminate | exact D].
    - apply (pre_le_lt_trans a b c Lab C).
    - destruct (c1 a c) eqn:D; [| |reflexivity]; exfalso.
      + apply (c1_trans b a c Lba); [rewrite D; discriminate | exact C].
      + apply (c1_trans b a c Lba); [rewrite D; discriminate | exact C].
  Qed.

  Lemma pre_compat_r a b c : c1 b c = Eq -> c1 a b = c1 a c.
  Proof.
    intros E. rewrite (c1_antisym b a), (c1_antisym c a). f_equal. apply pre_compat_l. exact E.
  Qed.

  (* lexicographic refinement of a total preorder by a second one *)
  Variable c2 : K -> K -> comparison.
  Hypothesis c2_refl : forall a, c2 a a = Eq.
  Hypothesis c2_antisym : forall a b, c2 b a = CompOpp (c2 a b).
  Hypothesis c2_trans : forall a b c, c2 a b <> Gt -> c2 b c <> Gt -> c2 a c <> Gt.

  Definition lexc (a b : K) : comparison := match c1 a b with Eq => c2 a b | c => c end.

  Lemma lexc_refl a : lexc a a = Eq.
  Proof. unfold lexc. rewrite c1_refl. apply c2_refl. Qed.

  Lemma lexc_antisym a b : lexc b a = CompOpp (lexc a b).
  Proof. unfold lexc. rewrite (c1_antisym a b). destruct (c1 a b); simpl; auto. Qed.

  Lemma lexc_trans a b c : lexc a b <> Gt -> lexc b c <> Gt -> lexc a c <> Gt.
  Proof.
    unfold lexc. intros H1 H2.
    destruct (c1 a b) eqn:C1.
    - rewrite (pre_compat_l a b c C1).
      destruct (c1 b c) eqn:C2; [eapply c2_trans; eassumption | discriminate | congruence].
    - destruct (c1 b c) eqn:C2.
      + rewrite <- (pre_compat_r a b c C2), C1. discriminate.
      + rewrite (pre_lt_le_trans a b c C1); [discriminate | rewrite C2; discriminate].
      + congruence.
    - congruence.
  Qed.
End CmpFacts.

(* ------------------------------------------------------------------ instance: keys *)
Lemma atom_eqb_eq a b : atom_eqb a b = true <-> a = b.
Proof.
  destruct a, b; simpl; split; intros H; try discriminate; try congruence; try reflexivity.
  - apply andb_true_iff in H as [H1 H2]. apply N.eqb_eq in H1. apply Z.eqb_eq in H2. congruence.
  - inversion H; subst. rewrite N.eqb_refl, Z.eqb_refl. reflexivity.
  - apply bytes_eqb_eq in H. congruence.
  - inversion H; subst. apply bytes_eqb_eq. reflexivity.
  - apply N.eqb_eq in H. congruence.
  - inversion H; subst. apply N.eqb_refl.
Qed.

Lemma key_eqb_eq a b : key_eqb a b = true <-> a = b.
Proof. apply list_eqb_eq. apply atom_eqb_eq. Qed.

Lemma atom_cmp_refl a : atom_cmp a a = Eq.
Proof. destruct a; simpl; [apply Z.compare_refl | apply bytes_cmp_refl | reflexivity | reflexivity]. Qed.

Lemma atom_cmp_antisym a b : atom_cmp b a = CompOpp (atom_cmp a b).
Proof.
  destruct a, b; simpl; try reflexivity.
  - apply Z.compare_antisym.
  - apply bytes_cmp_antisym.
Qed.

Lemma bytes_cmp_le_trans a b c :
  bytes_cmp a b <> Gt -> bytes_cmp b c <> Gt -> bytes_cmp a c <> Gt.
Proof.
  intros H1 H2.
  destruct (bytes_cmp a b) eqn:C1; [apply bytes_cmp_eq in C1; subst; exact H2 | | congruence].
  destruct (bytes_cmp b c) eqn:C2; [apply bytes_cmp_eq in C2; subst; rewrite C1; discriminate | | congruence].
  rewrite (bytes_cmp_lt_trans _ _ _ C1 C2). discriminate.
Qed.

Lemma atom_cmp_trans a b c :
  atom_cmp a b <> Gt -> atom_cmp b c <> Gt -> atom_cmp a c <> Gt.
Proof.
  destruct a, b, c; simpl; intros H1 H2; try discriminate; try congruence;
    try (exfalso; apply H1; reflexivity); try (exfalso; apply H2; reflexivity).
  - destruct (Z.compare_spec v v0), (Z.compare_spec v0 v1), (Z.compare_spec v v1); try congruence; lia.
  - eapply bytes_cmp_le_trans; eassumption.
Qed.

(* when two keys compare equal, so do their tails: Eq of the head is needed for lexicographic steps *)
Lemma atom_cmp_eq_l a b c : atom_cmp a b = Eq -> atom_cmp a c = atom_cmp b c.
Proof.
  destruct a, b, c; simpl; intros H; try discriminate; try reflexivity.
  - apply Z.compare_eq in H. subst. reflexivity.
  - apply bytes_cmp_eq in H. subst. reflexivity.
Qed.

Lemma atom_cmp_eq_r a b c : atom_cmp b c = Eq -> atom_cmp a b = atom_cmp a c.
Proof.
  destruct a, b, c; simpl; intros H; try discriminate; try reflexivity.
  - apply Z.compare_eq in H. subst. reflexivity.
  - apply bytes_cmp_eq in H. subst. reflexivity.
Qed.

Lemma key_cmp_refl a : key_cmp a a = Eq.
Proof. induction a as [|x a IH]; simpl; [reflexivity|]. rewrite atom_cmp_refl. exact IH. Qed.

Lemma key_cmp_antisym a : forall b, key_cmp b a = CompOpp (key_cmp a b).
Proof.
  induction a as [|x a IH]; destruct b as [|y b]; simpl; try reflexivity.
  rewrite (atom_cmp_antisym x y). destruct (atom_cmp x y); simpl; auto.
Qed.

Lemma key_cmp_trans a : forall b c,
  key_cmp a b <> Gt -> key_cmp b c <> Gt -> key_cmp a c <> Gt.
Proof.
  induction a as [|x a IH]; destruct b as [|y b]; destruct c as [|z c]; simpl; intros H1 H2;
    try discriminate; try congruence.
  destruct (atom_cmp x y) eqn:C1.
  - rewrite (atom_cmp_eq_l _ _ z C1).
    destruct (atom_cmp y z) eqn:C2; [eapply IH; eassumption | discriminate | congruence].
  - destruct (atom_cmp y z) eqn:C2.
    + rewrite <- (atom_cmp_eq_r x _ _ C2), C1. discriminate.
    + assert (T : atom_cmp x z <> Gt) by (apply (atom_cmp_trans x y z); [rewrite C1|rewrite C2]; discriminate).
      destruct (atom_cmp x z) eqn:C3; [|discriminate|congruence].
      (* x<y, y<z but x~z: impossible *)
      exfalso. assert (G : atom_cmp y x <> Gt).
      { apply (atom_cmp_trans y z x); [rewrite C2; discriminate|].
        rewrite (atom_cmp_antisym x z), C3. discriminate. }
      rewrite (atom_cmp_antisym x y), C1 in G. apply G. reflexivity.
    + congruence.
  - congruence.
Qed.

(* ---- the identity tie-break and the spill comparator *)
Lemma atom_id_cmp_eq a b : atom_id_cmp a b = Eq -> a = b.
Proof.
  destruct a, b; simpl; intros H; try discriminate; try reflexivity.
  - destruct (N.compare_spec ty ty0); try discriminate. apply Z.compare_eq in H. congruence.
  - apply bytes_cmp_eq in H. congruence.
  - apply N.compare_eq in H. congruence.
Qed.

Lemma atom_id_cmp_refl a : atom_id_cmp a a = Eq.
Proof.
  destruct a; simpl; try reflexivity.
  - rewrite N.compare_refl. apply Z.compare_refl.
  - apply bytes_cmp_refl.
  - apply N.compare_refl.
Qed.

Lemma atom_id_cmp_antisym a b : atom_id_cmp b a = CompOpp (atom_id_cmp a b).
Proof.
  destruct a, b; simpl; try reflexivity.
  - rewrite (N.compare_antisym ty ty0). destruct (N.compare ty ty0); simpl; auto. apply Z.compare_antisym.
  - apply bytes_cmp_antisym.
  - apply N.compare_antisym.
Qed.

Lemma atom_id_cmp_trans a b c :
  atom_id_cmp a b <> Gt -> atom_id_cmp b c <> Gt -> atom_id_cmp a c <> Gt.
Proof.
  destruct a, b, c; simpl; intros H1 H2; try discriminate; try congruence;
    try (exfalso; apply H1; reflexivity); try (exfalso; apply H2; reflexivity).
  - destruct (N.compare_spec ty ty0), (N.compare_spec ty0 ty1), (N.compare_spec ty ty1);
      subst; try lia; try congruence; try discriminate.
    destruct (Z.compare_spec v v0), (Z.compare_spec v0 v1), (Z.compare_spec v v1); try congruence; lia.
  - eapply bytes_cmp_le_trans; eassumption.
  - destruct (N.compare_spec ty ty0), (N.compare_spec ty0 ty1), (N.compare_spec ty ty1); try congruence; lia.
Qed.

Lemma key_id_cmp_eq a : forall b, key_id_cmp a b = Eq -> a = b.
Proof.
  induction a as [|x a IH]; destruct b as [|y b]; simpl; intros H; try discriminate; [reflexivity|].
  destruct (atom_id_cmp x y) eqn:C; try discriminate.
  apply atom_id_cmp_eq in C. subst. f_equal. apply IH. exact H.
Qed.

Lemma key_id_cmp_refl a : key_id_cmp a a = Eq.
Proof. induction a as [|x a IH]; simpl; [reflexivity|]. rewrite atom_id_cmp_refl. exact IH. Qed.

Lemma key_id_cmp_antisym a : forall b, key_id_cmp b a = CompOpp (key_id_cmp a b).
Proof.
  induction a as [|x a IH]; destruct b as [|y b]; simpl; try reflexivity.
  rewrite (atom_id_cmp_antisym x y). destruct (atom_id_cmp x y); simpl; auto.
Qed.

Lemma key_id_cmp_trans a : forall b c,
  key_id_cmp a b <> Gt -> key_id_cmp b c <> Gt -> key_id_cmp a c <> Gt.
Proof.
  induction a as [|x a IH]; destruct b as [|y b]; destruct c as [|z c]; simpl; intros H1 H2;
    try discriminate; try congruence.
  destruct (atom_id_cmp x y) eqn:C1.
  - apply atom_id_cmp_eq in C1. subst y.
    destruct (atom_id_cmp x z) eqn:C2; [eapply IH; eassumption | discriminate | congruence].
  - destruct (atom_id_cmp y z) eqn:C2.
    + apply atom_id_cmp_eq in C2. subst z. rewrite C1. discriminate.
    + assert (T : atom_id_cmp x z = Lt).
      { eapply pre_lt_le_trans; try exact atom_id_cmp_antisym; try exact atom_id_cmp_trans;
          [exact C1 | rewrite C2; discriminate]. }
      rewrite T. discriminate.
    + congruence.
  - congruence.
Qed.

Lemma spill_cmp_lexc a b : spill_cmp a b = lexc key key_cmp key_id_cmp a b.
Proof. reflexivity. Qed.

Ltac c10_cmp :=
  first [exact key_cmp_refl | exact key_id_cmp_refl
        | exact (fun a b => key_cmp_antisym a b) | exact (fun a b => key_id_cmp_antisym a b)
        | exact (fun a b c => key_cmp_trans a b c) | exact (fun a b c => key_id_cmp_trans a b c)].

Lemma spill_cmp_refl a : spill_cmp a a = Eq.
Proof. apply lexc_refl; c10_cmp. Qed.

Lemma spill_cmp_antisym a b : spill_cmp b a = CompOpp (spill_cmp a b).
Proof. apply lexc_antisym; c10_cmp. Qed.

Lemma spill_cmp_trans a b c : spill_cmp a b <> Gt -> spill_cmp b c <> Gt -> spill_cmp a c <> Gt.
Proof. apply lexc_trans; c10_cmp. Qed.

(* keys that the spill comparator cannot tell apart are identical *)
Lemma spill_cmp_eq a b : spill_cmp a b = Eq -> a = b.
Proof.
  unfold spill_cmp. destruct (key_cmp a b); try discriminate. apply key_id_cmp_eq.
Qed.

Lemma spill_cmp_faithful (xs : list (key * st)) : cmp_faithful spill_cmp xs.
Proof. intros a b _ _. apply spill_cmp_eq. Qed.

(* ------------------------------------------------------------------ instance: aggregates *)
Lemma zres_op_assoc f (Hf : forall a b c, f a (f b c) = f (f a b) c) a b c :
  zres_op f a (zres_op f b c) = zres_op f (zres_op f a b) c.
Proof. destruct a, b, c; simpl; try reflexivity. rewrite Hf. reflexivity. Qed.

Lemma zres_op_comm f (Hf : forall a b, f a b = f b a) a b : zres_op f a b = zres_op f b a.
Proof. destruct a, b; simpl; try reflexivity. rewrite Hf. reflexivity. Qed.

Lemma bres_op_assoc f (Hf : forall a b c, f a (f b c) = f (f a b) c) (a b c : bres) :
  bres_op f a (bres_op f b c) = bres_op f (bres_op f a b) c.
Proof. destruct a, b, c; simpl; try reflexivity. rewrite Hf. reflexivity. Qed.

Lemma bres_op_comm f (Hf : forall a b, f a b = f b a) (a b : bres) : bres_op f a b = bres_op f b a.
Proof. destruct a, b; simpl; try reflexivity. rewrite Hf. reflexivity. Qed.

Lemma st_op_assoc a b c : st_op a (st_op b c) = st_op (st_op a b) c.
Proof.
  unfold st_op; simpl. f_equal; try lia.
  - apply zres_op_assoc. intros; lia.
  - apply zres_op_assoc. intros; lia.
  - apply zres_op_assoc. intros; lia.
  - apply bres_op_assoc. intros x y z; destruct x, y, z; reflexivity.
  - apply bres_op_assoc. intros x y z; destruct x, y, z; reflexivity.
Qed.

Lemma st_op_comm a b : st_op a b = st_op b a.
Proof.
  unfold st_op; simpl. f_equal; try lia.
  - apply zres_op_comm. intros; lia.
  - apply zres_op_comm. intros; lia.
  - apply zres_op_comm. intros; lia.
  - apply bres_op_comm. intros x y; destruct x, y; reflexivity.
  - apply bres_op_comm. intros x y; destruct x, y; reflexivity.
Qed.

Lemma st_op_e a : st_op st0 a = a.
Proof.
  destruct a as [c s1 s2 s3 as_ ac b1 b2]. unfold st_op; simpl.
  destruct s1, s2, s3, b1, b2; reflexivity.
Qed.

(* Consume on a record = ConsumeAsPartial of the one-record state *)
Lemma st_consume_op s a b : st_consume s a b = st_op s (st_inj a b).
Proof.
  destruct s as [c s1 s2 s3 as_ ac b1 b2]. unfold st_inj, st_consume, st_op; simpl.
  assert (Hb : forall f (r : bres),
             match b with
             | BvBool x => match r with None => Some x | Some y => Some (f y x) end
             | _ => r
             end = bres_op f r match b with BvBool x => Some x | _ => None end).
  { intros f r. destruct b, r; reflexivity. }
  destruct a; simpl; f_equal; try lia; try (destruct s1; reflexivity);
    try (destruct s2; reflexivity); try (destruct s3; reflexivity); apply Hb.
Qed.

(* ------------------------------------------------------------------ concrete theorems *)
Lemma agg_of_total k (xs : list rec_in) :
  agg_of k xs = total key_eqb st_op st0 k (to_rows xs).
Proof.
  unfold agg_of.
  assert (G : forall s, fold_left (fun s '(k', a, b) => if key_eqb k k' then st_consume s a b else s) xs s
                        = st_op s (total key_eqb st_op st0 k (to_rows xs))).
  { induction xs as [|[[k' a] b] xs IH]; intros s; simpl.
    - unfold total; simpl. rewrite st_op_comm. symmetry. apply st_op_e.
    - rewrite IH. unfold total at 2. simpl. fold (total key_eqb st_op st0 k (to_rows xs)).
      destruct (key_eqb k k'); [|reflexivity].
      rewrite st_consume_op, st_op_assoc. reflexivity. }
  rewrite G. apply st_op_e.
Qed.

Lemma naive_is_spec (xs : list rec_in) :
  naive_groupby xs = groupby_spec key_eqb st_op st0 (to_rows xs).
Proof.
  unfold naive_groupby, groupby_spec. apply map_ext. intros k. rewrite agg_of_total. reflexivity.
Qed.

Ltac c10_inst :=
  first [exact key_eqb_eq | exact spill_cmp_refl | exact (fun a b => spill_cmp_antisym a b)
        | exact (fun a b c => spill_cmp_trans a b c)
        | exact key_cmp_refl | exact (fun a b => key_cmp_antisym a b)
        | exact (fun a b c => key_cmp_trans a b c) | exact st_op_assoc | exact st_op_comm | exact st_op_e].

(* Full strength: the spill comparator tells apart any two distinct keys, so no
   guard on the input is needed. *)
Theorem groupby_model_correct (limit : N) (xs : list rec_in) :
  Permutation (groupby_model limit xs) (naive_groupby xs).
Proof.
  rewrite naive_is_spec. unfold groupby_model.
  apply groupby_correct; try c10_inst. apply spill_cmp_faithful.
Qed.

Lemma to_rows_perm xs ys : Permutation xs ys -> Permutation (to_rows xs) (to_rows ys).
Proof. apply Permutation_map. Qed.

Theorem groupby_model_order_limit_independent (l1 l2 : N) (xs ys : list rec_in) :
  Permutation xs ys ->
  Permutation (groupby_model l1 xs) (groupby_model l2 ys).
Proof.
  intros P. unfold groupby_model.
  apply groupby_order_limit_independent; try c10_inst; [apply to_rows_perm, P | apply spill_cmp_faithful].
Qed.

(* Why the tie-break is needed: with the value comparison alone (the operator
   before the fix) 1:int64 and 1:uint64, which compare equal, are merged at limit 1. *)
Definition refute_input : list rec_in :=
  [([ANum 0 1], AvInt 1, BvMissing); ([ANum 1 1], AvInt 1, BvMissing)].

Example value_order_alone_merges_distinct_keys :
  ~ Permutation (groupby_model_value_order 1 refute_input) (naive_groupby refute_input).
Proof. intros P. apply Permutation_length in P. vm_compute in P. discriminate. Qed.

Example tie_break_separates_them :
  List.length (groupby_model 1 refute_input) = 2%nat.
Proof. vm_compute. reflexivity. Qed.

(* the guarded statement still holds for the value comparison alone *)
Theorem groupby_value_order_guarded (limit : N) (xs : list rec_in) :
  cmp_faithful key_cmp (to_rows xs) ->
  Permutation (groupby_model_value_order limit xs) (naive_groupby xs).
Proof.
  intros F. rewrite naive_is_spec. unfold groupby_model_value_order.
  apply groupby_correct; try c10_inst. exact F.
Qed.

(* a spilling run over keys that compare equal pairwise but are all distinct *)
Definition sample_input : list rec_in :=
  [([ANum 0 1; ANull 0], AvInt 3, BvBool true); ([ANum 1 1; ANull 4], AvNull, BvNull);
   ([ANum 3 1; AMissing], AvInt (-1), BvBool false); ([ANum 0 1; ANull 0], AvMissing, BvMissing);
   ([ANum 1 1; ANull 4], AvInt 5, BvMissing)].

Example sample_spills_and_agrees :
  List.length (snd (consume key_eqb spill_cmp st_op st0 1 (to_rows sample_input) [] [])) = 4%nat /\
  List.length (groupby_model 1 sample_input) = 3%nat /\
  Permutation (groupby_model 1 sample_input) (naive_groupby sample_input).
Proof. split; [vm_compute; reflexivity | split; [vm_compute; reflexivity | apply groupby_model_correct]]. Qed.

(* partial results compose for every modelled aggregate at once: consuming the
   partial results (ResultAsPartial = the state) of any split = consuming everything *)
Definition consume_all (l : list (aval * bval)) (s : st) : st :=
  fold_left (fun s '(a, b) => st_consume s a b) l s.

Lemma consume_all_op l : forall s, consume_all l s = st_op s (consume_all l st0).
Proof.
  induction l as [|[a b] l IH]; intros s; simpl.
  - rewrite st_op_comm. symmetry. apply st_op_e.
  - unfold consume_all in *. simpl. rewrite IH, (IH (st_consume st0 a b)).
    rewrite st_consume_op, <- st_op_assoc. reflexivity.
Qed.

Lemma consume_all_app l1 l2 s : consume_all (l1 ++ l2) s = consume_all l2 (consume_all l1 s).
Proof. unfold consume_all. apply fold_left_app. Qed.

Theorem partial_compose (splits : list (list (aval * bval))) :
  fold_left st_op (map (fun part => consume_all part st0) splits) st0
  = consume_all (List.concat splits) st0.
Proof.
  induction splits as [|p ps IH]; simpl; [reflexivity|].
  rewrite consume_all_app, (consume_all_op (List.concat ps)), <- IH, st_op_e.
  apply fold_op_acc; c10_inst.
Qed.
