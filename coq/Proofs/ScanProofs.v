From ZV Require Import Base.Prelude Model.Scan.

(* ---------------------------------------------------------------- segments *)

(* [seg x y]: x is a contiguous part of y *)
Definition seg (x y : bytes) : Prop := exists a b, y = a ++ x ++ b.

Lemma seg_refl x : seg x x.
Proof. exists [], []. rewrite app_nil_r. reflexivity. Qed.

Lemma seg_trans x y z : seg x y -> seg y z -> seg x z.
Proof.
  intros [a [b E1]] [c [d E2]]. exists (c ++ a), (b ++ d).
  subst. repeat rewrite <- app_assoc. reflexivity.
Qed.

Lemma seg_app_l x y a : seg x y -> seg x (a ++ y).
Proof. intros [c [d E]]. exists (a ++ c), d. subst. rewrite <- app_assoc. reflexivity. Qed.

Lemma seg_app_r x y b : seg x y -> seg x (y ++ b).
Proof. intros [c [d E]]. exists c, (d ++ b). subst. repeat rewrite <- app_assoc. reflexivity. Qed.

Lemma seg_nil y : seg [] y.
Proof. exists [], y. reflexivity. Qed.

Lemma prefixb_app p b : prefixb p (p ++ b) = true.
Proof. induction p as [|x p IH]; simpl; [reflexivity|]. rewrite N.eqb_refl. exact IH. Qed.

Lemma prefixb_split p : forall t, prefixb p t = true -> exists b, t = p ++ b.
Proof.
  induction p as [|x p IH]; intros t H; simpl in *.
  - exists t. reflexivity.
  - destruct t as [|y t]; [discriminate|].
    apply andb_true_iff in H as [H1 H2]. apply N.eqb_eq in H1. subst.
    destruct (IH _ H2) as [b E]. exists b. subst. reflexivity.
Qed.

Lemma contains_prefix t p : prefixb p t = true -> contains t p = true.
Proof. intros H. destruct t; simpl; rewrite H; reflexivity. Qed.

Lemma contains_seg t p : contains t p = true <-> seg p t.
Proof.
  split.
  - induction t as [|y t IH]; simpl; intros H.
    + rewrite orb_false_r in H. destruct (prefixb_split _ _ H) as [b E]. exists [], b. exact E.
    + apply orb_true_iff in H as [H|H].
      * destruct (prefixb_split _ _ H) as [b E]. exists [], b. exact E.
      * destruct (IH H) as [a [b E]]. exists (y :: a), b. subst. reflexivity.
  - intros [a [b E]]. subst. induction a as [|y a IH].
    + apply contains_prefix. simpl. apply prefixb_app.
    + simpl. change (contains (a ++ p ++ b) p) with (contains (a ++ p ++ b) p).
      rewrite IH. apply orb_true_r.
Qed.

Lemma lowers_app a b : lowers (a ++ b) = lowers a ++ lowers b.
Proof. apply map_app. Qed.

Lemma seg_lowers x y : seg x y -> seg (lowers x) (lowers y).
Proof. intros [a [b E]]. exists (lowers a), (lowers b). subst. repeat rewrite lowers_app. reflexivity. Qed.

(* a match inside a part is a match in the whole *)
Lemma contains_mono t m p : seg m t -> contains m p = true -> contains t p = true.
Proof.
  intros S H. apply contains_seg. apply contains_seg in H. eapply seg_trans; eauto.
Qed.

Lemma contains_ci_mono t m p : seg m t -> contains_ci m p = true -> contains_ci t p = true.
Proof.
  unfold contains_ci. intros S H. eapply contains_mono; [|exact H]. apply seg_lowers. exact S.
Qed.

Lemma contains_self p : contains p p = true.
Proof. apply contains_seg. apply seg_refl. Qed.

(* Finder.Next(...) > -1  <->  contains *)
Lemma index_from_nonneg i t p : (0 <= i)%Z -> ((0 <= index_from i t p)%Z <-> contains t p = true).
Proof.
  revert i. induction t as [|y t IH]; intros i Hi; simpl.
  - destruct (prefixb p []); simpl; split; intros; try lia; try reflexivity; discriminate.
  - destruct (prefixb p (y :: t)); simpl.
    + split; intros; [reflexivity|lia].
    + apply IH. lia.
Qed.

Lemma index_of_nonneg t p : (0 <= index_of t p)%Z <-> contains t p = true.
Proof. apply index_from_nonneg. lia. Qed.

(* ---------------------------------------------------------------- induction on values *)

Fixpoint val_ind' (P : val -> Prop)
         (HN : P VNull) (HP : forall b, P (VPrim b))
         (HR : forall vs, Forall P vs -> P (VRec vs))
         (HA : forall vs, Forall P vs -> P (VArr vs)) (v : val) : P v :=
  match v with
  | VNull => HN
  | VPrim b => HP b
  | VRec vs =>
    HR vs ((fix go (l : list val) : Forall P l :=
              match l with
              | [] => Forall_nil _
              | x :: r => Forall_cons _ (val_ind' P HN HP HR HA x) (go r)
              end) vs)
  | VArr vs =>
    HA vs ((fix go (l : list val) : Forall P l :=
              match l with
              | [] => Forall_nil _
              | x :: r => Forall_cons _ (val_ind' P HN HP HR HA x) (go r)
              end) vs)
  end.

(* ---------------------------------------------------------------- unfolding lemmas *)

Definition walk_fields (fs : list (bytes * ty)) (vs : list val) : list (ty * val) :=
  tl (walk (TRec fs) (VRec vs)).
Definition walk_elems (et : ty) (vs : list val) : list (ty * val) :=
  tl (walk (TArr et) (VArr vs)).

Lemma walk_rec fs vs : walk (TRec fs) (VRec vs) = (TRec fs, VRec vs) :: walk_fields fs vs.
Proof. reflexivity. Qed.
Lemma walk_arr et vs : walk (TArr et) (VArr vs) = (TArr et, VArr vs) :: walk_elems et vs.
Proof. reflexivity. Qed.
Lemma walk_fields_cons n ft fs x vs :
  walk_fields ((n, ft) :: fs) (x :: vs) = walk ft x ++ walk_fields fs vs.
Proof. reflexivity. Qed.
Lemma walk_fields_nil_l vs : walk_fields [] vs = [].
Proof. destruct vs; reflexivity. Qed.
Lemma walk_fields_nil_r fs : walk_fields fs [] = [].
Proof. destruct fs as [|[n ft] fs]; reflexivity. Qed.
Lemma walk_elems_cons et x vs : walk_elems et (x :: vs) = walk et x ++ walk_elems et vs.
Proof. reflexivity. Qed.
Lemma walk_elems_nil et : walk_elems et [] = [].
Proof. reflexivity. Qed.

Lemma walk_head t v : exists r, walk t v = (t, v) :: r.
Proof. destruct v; simpl; eexists; reflexivity. Qed.

Lemma walk_other t v :
  (forall fs vs, ~ (t = TRec fs /\ v = VRec vs)) ->
  (forall et vs, ~ (t = TArr et /\ v = VArr vs)) ->
  walk t v = [(t, v)].
Proof.
  intros H1 H2. destruct t, v; simpl; try reflexivity.
  - exfalso. eapply H1. split; reflexivity.
  - exfalso. eapply H2. split; reflexivity.
Qed.

Lemma fnames_cons n ft fs :
  fnames (TRec ((n, ft) :: fs)) =
  (match ft with
   | TRec (_ :: _) => map (fun s => n ++ DOT :: s) (fnames ft)
   | _ => [n]
   end) ++ fnames (TRec fs).
Proof. reflexivity. Qed.

Lemma find_hidden_cons p n ft fs :
  find_hidden p (TRec ((n, ft) :: fs)) = find_hidden p ft || find_hidden p (TRec fs).
Proof. reflexivity. Qed.

Lemma find_hidden_arr p e :
  find_hidden p (TArr e) = (match e with TRec _ => search_type p e | _ => false end) || find_hidden p e.
Proof. reflexivity. Qed.

(* ---------------------------------------------------------------- encodings nest *)

Lemma seg_tagged b : seg b (tagged b).
Proof. unfold tagged. apply seg_app_l. apply seg_refl. Qed.

Lemma seg_flat_map (x : val) vs : In x vs -> seg (enc_val x) (flat_map enc_val vs).
Proof.
  induction vs as [|y vs IH]; simpl; intros H; [contradiction|].
  destruct H as [H|H].
  - subst. apply seg_app_r. apply seg_refl.
  - apply seg_app_l. apply IH. exact H.
Qed.

Lemma enc_rec vs : enc_val (VRec vs) = tagged (flat_map enc_val vs).
Proof. reflexivity. Qed.
Lemma enc_arr vs : enc_val (VArr vs) = tagged (flat_map enc_val vs).
Proof. reflexivity. Qed.

Lemma seg_child_rec x vs : In x vs -> seg (enc_val x) (enc_val (VRec vs)).
Proof. intros H. rewrite enc_rec. eapply seg_trans; [apply seg_flat_map; exact H|apply seg_tagged]. Qed.
Lemma seg_child_arr x vs : In x vs -> seg (enc_val x) (enc_val (VArr vs)).
Proof. intros H. rewrite enc_arr. eapply seg_trans; [apply seg_flat_map; exact H|apply seg_tagged]. Qed.

(* every value the walk visits is encoded inside the root's encoding *)
Lemma walk_seg : forall v t t' v', In (t', v') (walk t v) -> seg (enc_val v') (enc_val v).
Proof.
  induction v as [| b | vs IH | vs IH] using val_ind'; intros t t' v' H.
  - destruct t; simpl in H; destruct H as [H|[]]; inversion H; subst; apply seg_refl.
  - destruct t; simpl in H; destruct H as [H|[]]; inversion H; subst; apply seg_refl.
  - destruct t as [id | fs | et].
    + simpl in H. destruct H as [H|[]]. inversion H; subst. apply seg_refl.
    + rewrite walk_rec in H. destruct H as [H|H]; [inversion H; subst; apply seg_refl|].
      assert (G : forall fs, In (t', v') (walk_fields fs vs) ->
                             exists x, In x vs /\ seg (enc_val v') (enc_val x)).
      { clear H fs. induction IH as [|x vs Hx Hvs IHvs]; intros fs H.
        - rewrite walk_fields_nil_r in H. contradiction.
        - destruct fs as [|[n ft] fs]; [rewrite walk_fields_nil_l in H; contradiction|].
          rewrite walk_fields_cons in H. apply in_app_or in H as [H|H].
          + exists x. split; [left; reflexivity|]. eapply Hx. exact H.
          + destruct (IHvs _ H) as [y [Hy Sy]]. exists y. split; [right; exact Hy|exact Sy]. }
      destruct (G _ H) as [x [Hx Sx]].
      eapply seg_trans; [exact Sx|]. apply seg_child_rec. exact Hx.
    + simpl in H. destruct H as [H|[]]. inversion H; subst. apply seg_refl.
  - destruct t as [id | fs | et].
    + simpl in H. destruct H as [H|[]]. inversion H; subst. apply seg_refl.
    + simpl in H. destruct H as [H|[]]. inversion H; subst. apply seg_refl.
    + rewrite walk_arr in H. destruct H as [H|H]; [inversion H; subst; apply seg_refl|].
      assert (G : In (t', v') (walk_elems et vs) ->
                  exists x, In x vs /\ seg (enc_val v') (enc_val x)).
      { clear H. induction IH as [|x vs Hx Hvs IHvs]; intros H.
        - rewrite walk_elems_nil in H. contradiction.
        - rewrite walk_elems_cons in H. apply in_app_or in H as [H|H].
          + exists x. split; [left; reflexivity|]. eapply Hx. exact H.
          + destruct (IHvs H) as [y [Hy Sy]]. exists y. split; [right; exact Hy|exact Sy]. }
      destruct (G H) as [x [Hx Sx]].
      eapply seg_trans; [exact Sx|]. apply seg_child_arr. exact Hx.
Qed.

Lemma frame_seg (fr : frame) id t v : In (id, t, v) fr -> seg (enc_val v) (frame_bytes fr).
Proof.
  unfold frame_bytes. induction fr as [|[[id' t'] v'] fr IH]; simpl; intros H; [contradiction|].
  destruct H as [H|H].
  - inversion H; subst. apply seg_app_r. apply seg_app_l. apply seg_refl.
  - apply seg_app_l. apply IH. exact H.
Qed.

Lemma field_lookup_in f : forall fs vs ft x,
  field_lookup f fs vs = Some (ft, x) -> In x vs.
Proof.
  induction fs as [|[n t] fs IH]; intros vs ft x H; simpl in H; [discriminate|].
  destruct vs as [|y vs]; [discriminate|].
  destruct (bytes_eqb n f).
  - inversion H; subst. left. reflexivity.
  - right. eapply IH. exact H.
Qed.

Lemma deref_seg : forall path t v t' v',
  deref path t v = Some (t', v') -> seg (enc_val v') (enc_val v).
Proof.
  induction path as [|f path IH]; intros t v t' v' H; simpl in H.
  - inversion H; subst. apply seg_refl.
  - destruct t as [id | fs | et]; try discriminate.
    destruct v as [| b | vs | vs]; try discriminate.
    + destruct (type_lookup f fs) as [ft|]; [|discriminate].
      eapply IH. exact H.
    + destruct (field_lookup f fs vs) as [[ft x]|] eqn:E; [|discriminate].
      eapply seg_trans; [eapply IH; exact H|].
      apply seg_child_rec. eapply field_lookup_in. exact E.
Qed.

(* ---------------------------------------------------------------- field names *)

Lemma search_type_nonrec term t : (forall fs, t <> TRec fs) -> search_type term t = false.
Proof. intros H. destruct t; try reflexivity. exfalso. eapply H. reflexivity. Qed.

Lemma search_type_field term n ft fs :
  search_type term ft = true -> search_type term (TRec ((n, ft) :: fs)) = true.
Proof.
  unfold search_type. intros H. rewrite fnames_cons. rewrite existsb_app.
  apply orb_true_iff. left.
  destruct ft as [id | fs' | et]; try (simpl in H; discriminate).
  destruct fs' as [|f1 fs']; [simpl in H; discriminate|].
  apply existsb_exists in H as [s [Hs Cs]].
  apply existsb_exists. exists (n ++ DOT :: s). split.
  - apply in_map_iff. exists s. split; [reflexivity|exact Hs].
  - eapply contains_ci_mono; [|exact Cs].
    exists (n ++ [DOT]), []. rewrite app_nil_r. rewrite <- app_assoc. reflexivity.
Qed.

Lemma search_type_tail term n ft fs :
  search_type term (TRec fs) = true -> search_type term (TRec ((n, ft) :: fs)) = true.
Proof.
  unfold search_type. intros H. rewrite fnames_cons. rewrite existsb_app.
  apply orb_true_iff. right. exact H.
Qed.

(* findBelow: what the finder establishes about a type *)
Definition find_below (p : bytes) (t : ty) : bool := search_type p t || find_hidden p t.

(* [subty t' t]: the type t' occurs inside t *)
Inductive subty : ty -> ty -> Prop :=
| sub_refl t : subty t t
| sub_field t n ft fs : In (n, ft) fs -> subty t ft -> subty t (TRec fs)
| sub_elem t e : subty t e -> subty t (TArr e).

Lemma subty_trans a b c : subty a b -> subty b c -> subty a c.
Proof.
  intros H1 H2. induction H2.
  - exact H1.
  - eapply sub_field; eauto.
  - apply sub_elem. auto.
Qed.

Lemma search_type_in term n ft : forall fs,
  In (n, ft) fs -> search_type term ft = true -> search_type term (TRec fs) = true.
Proof.
  induction fs as [|[n' ft'] fs IH]; intros I S; [contradiction|].
  destruct I as [I|I].
  - inversion I; subst. apply search_type_field. exact S.
  - apply search_type_tail. apply IH; assumption.
Qed.

Lemma find_hidden_in term n ft : forall fs,
  In (n, ft) fs -> find_hidden term ft = true -> find_hidden term (TRec fs) = true.
Proof.
  induction fs as [|[n' ft'] fs IH]; intros I S; [contradiction|].
  rewrite find_hidden_cons. destruct I as [I|I].
  - inversion I; subst. rewrite S. reflexivity.
  - rewrite (IH I S). apply orb_true_r.
Qed.

Lemma search_type_arr_elem p e :
  search_type p e = true -> (match e with TRec _ => search_type p e | _ => false end) = true.
Proof. destruct e; simpl; intros H; try discriminate; exact H. Qed.

(* A field-name match on ANY type occurring inside t is found by the finder on
   t: either among the dotted names (records nested directly in records) or by
   findHidden (records below arrays). *)
Lemma subty_find_below term t' t :
  subty t' t -> search_type term t' = true -> find_below term t = true.
Proof.
  unfold find_below. intros H S. induction H.
  - rewrite S. reflexivity.
  - specialize (IHsubty S). apply orb_true_iff in IHsubty as [G|G].
    + rewrite (search_type_in term n ft fs H G). reflexivity.
    + rewrite (find_hidden_in term n ft fs H G). apply orb_true_r.
  - specialize (IHsubty S). rewrite find_hidden_arr. apply orb_true_iff. right.
    apply orb_true_iff in IHsubty as [G|G].
    + rewrite (search_type_arr_elem _ _ G). reflexivity.
    + rewrite G. apply orb_true_r.
Qed.

(* the evaluator's walk only reaches types occurring inside the root type *)
Lemma walk_subty : forall v t t' v', In (t', v') (walk t v) -> subty t' t.
Proof.
  induction v as [| b | vs IH | vs IH] using val_ind'; intros t t' v' H.
  - destruct t; simpl in H; destruct H as [H|[]]; inversion H; subst; apply sub_refl.
  - destruct t; simpl in H; destruct H as [H|[]]; inversion H; subst; apply sub_refl.
  - destruct t as [id | fs | et].
    + simpl in H. destruct H as [H|[]]. inversion H; subst. apply sub_refl.
    + rewrite walk_rec in H. destruct H as [H|H]; [inversion H; subst; apply sub_refl|].
      assert (G : forall fs, In (t', v') (walk_fields fs vs) ->
                             exists n ft, In (n, ft) fs /\ subty t' ft).
      { clear H fs. induction IH as [|x vs Hx Hvs IHvs]; intros fs H.
        - rewrite walk_fields_nil_r in H. contradiction.
        - destruct fs as [|[n ft] fs]; [rewrite walk_fields_nil_l in H; contradiction|].
          rewrite walk_fields_cons in H. apply in_app_or in H as [H|H].
          + exists n, ft. split; [left; reflexivity|]. eapply Hx. exact H.
          + destruct (IHvs _ H) as [n' [ft' [I' S']]]. exists n', ft'. split; [right; exact I'|exact S']. }
      destruct (G _ H) as [n [ft [I S]]]. eapply sub_field; eauto.
    + simpl in H. destruct H as [H|[]]. inversion H; subst. apply sub_refl.
  - destruct t as [id | fs | et].
    + simpl in H. destruct H as [H|[]]. inversion H; subst. apply sub_refl.
    + simpl in H. destruct H as [H|[]]. inversion H; subst. apply sub_refl.
    + rewrite walk_arr in H. destruct H as [H|H]; [inversion H; subst; apply sub_refl|].
      apply sub_elem.
      induction IH as [|x vs Hx Hvs IHvs].
      * rewrite walk_elems_nil in H. contradiction.
      * rewrite walk_elems_cons in H. apply in_app_or in H as [H|H].
        -- eapply Hx. exact H.
        -- apply IHvs. exact H.
Qed.

Lemma field_lookup_in_fs f : forall fs vs ft x,
  field_lookup f fs vs = Some (ft, x) -> exists n, In (n, ft) fs.
Proof.
  induction fs as [|[n t] fs IH]; intros vs ft x H; simpl in H; [discriminate|].
  destruct vs as [|y vs]; [discriminate|].
  destruct (bytes_eqb n f).
  - inversion H; subst. exists n. left. reflexivity.
  - destruct (IH _ _ _ H) as [n' I]. exists n'. right. exact I.
Qed.

Lemma type_lookup_in_fs f : forall fs ft,
  type_lookup f fs = Some ft -> exists n, In (n, ft) fs.
Proof.
  induction fs as [|[n t] fs IH]; intros ft H; simpl in H; [discriminate|].
  destruct (bytes_eqb n f).
  - inversion H; subst. exists n. left. reflexivity.
  - destruct (IH _ H) as [n' I]. exists n'. right. exact I.
Qed.

(* a path only leads to types occurring inside the root type *)
Lemma deref_subty : forall path t v t' v',
  deref path t v = Some (t', v') -> subty t' t.
Proof.
  induction path as [|f path IH]; intros t v t' v' H; simpl in H.
  - inversion H; subst. apply sub_refl.
  - destruct t as [id | fs | et]; try discriminate.
    destruct v as [| b | vs | vs]; try discriminate.
    + destruct (type_lookup f fs) as [ft|] eqn:E; [|discriminate].
      destruct (type_lookup_in_fs _ _ _ E) as [n I].
      eapply sub_field; [exact I|]. eapply IH. exact H.
    + destruct (field_lookup f fs vs) as [[ft x]|] eqn:E; [|discriminate].
      destruct (field_lookup_in_fs _ _ _ _ _ E) as [n I].
      eapply sub_field; [exact I|]. eapply IH. exact H.
Qed.

Lemma walk_find_below term v t t' v' :
  In (t', v') (walk t v) -> search_type term t' = true -> find_below term t = true.
Proof. intros W S. eapply subty_find_below; [eapply walk_subty; exact W|exact S]. Qed.

(* ---------------------------------------------------------------- soundness *)

Lemma bf_string_some p b : bf_string p = Some b -> b = BString p.
Proof. unfold bf_string. destruct (_ <? _)%nat; intros H; [discriminate|]. inversion H. reflexivity. Qed.

Lemma bf_string_case_some p b : bf_string_case p = Some b -> b = BStringCase p.
Proof.
  unfold bf_string_case. destruct (_ <? _)%nat; [discriminate|].
  destruct (is_ascii p); intros H; [|discriminate]. inversion H. reflexivity.
Qed.

Lemma bf_literal_some l b : bf_literal l = Some b -> b = BString (lit_enc l).
Proof.
  unfold bf_literal. destruct (_ || _); [discriminate|]. apply bf_string_some.
Qed.

Lemma bf_literal_not_opaque l b : bf_literal l = Some b -> opaque_lit l = false.
Proof.
  unfold bf_literal, opaque_lit.
  destruct (is_number (lid l) || N.eqb (lid l) ID_NULL); [discriminate|]. simpl.
  unfold bf_string, lit_enc. destruct (lbody l); [reflexivity|]. simpl. discriminate.
Qed.

Lemma body_eqb_enc v l : body_eqb v (lbody l) = true -> enc_val v = lit_enc l.
Proof.
  unfold body_eqb, lit_enc. destruct v as [| x | |]; try discriminate.
  destruct (lbody l) as [y|]; [|discriminate].
  intros H. apply bytes_eqb_eq in H. subst. reflexivity.
Qed.

Lemma const_eq_enc l t v : const_eq l t v = true -> enc_val v = lit_enc l.
Proof.
  unfold const_eq. destruct t; try discriminate. intros H.
  apply andb_true_iff in H as [_ H]. apply body_eqb_enc. exact H.
Qed.

Lemma coerce_eq_enc l t v : coerce_eq l t v = true -> enc_val v = lit_enc l.
Proof.
  unfold coerce_eq. destruct t; try discriminate. intros H.
  apply andb_true_iff in H as [_ H]. apply body_eqb_enc. exact H.
Qed.

Lemma in_eq_enc l t v : in_eq l t v = true -> enc_val v = lit_enc l.
Proof.
  unfold in_eq. destruct (N.eqb (lid l) ID_NET); [apply coerce_eq_enc|apply const_eq_enc].
Qed.

Lemma b3_T b : b3 b = T3 -> b = true.
Proof. destruct b; [reflexivity|discriminate]. Qed.

Lemma is_T3_b3 b : is_T3 (b3 b) = true -> b = true.
Proof. destruct b; [reflexivity|discriminate]. Qed.

Section Sound.
  Variable oth : nat -> ty -> val -> tv3.
  Variable lit_oth : expr -> ty -> val -> tv3.

  Notation eval3 := (eval3 oth lit_oth).
  Notation eval := (eval oth lit_oth).

  Lemma string_leaf_seg term tv :
    is_string_leaf term tv = true ->
    exists m, seg m (enc_val (snd tv)) /\ contains_ci m term = true.
  Proof.
    destruct tv as [t v]. simpl. destruct t as [id| |]; try discriminate.
    destruct v as [| s | |]; try discriminate; intros H; apply andb_true_iff in H as [_ H].
    - exists []. split; [apply seg_nil|exact H].
    - exists s. split; [apply seg_tagged|exact H].
  Qed.

  (* Generic form: any field-name finder [F] that answers true whenever a type
     reached by the evaluator's walk has a matching field name (on frames
     satisfying [okf]) makes the compiled buffer filter sound. *)
  Variable F : bytes -> frame -> bool.
  Variable okf : frame -> Prop.
  Hypothesis F_sound : forall term (fr : frame) id t v t',
    okf fr -> In (id, t, v) fr -> subty t' t ->
    search_type term t' = true -> F term fr = true.

  Fixpoint bf_eval_with (b : bf) (fr : frame) : bool :=
    match b with
    | BAnd x y => bf_eval_with x fr && bf_eval_with y fr
    | BOr x y => bf_eval_with x fr || bf_eval_with y fr
    | BFieldName p => F p fr
    | BStringCase p => contains_ci (frame_bytes fr) p
    | BString p => contains (frame_bytes fr) p
    end.

  Theorem generic_sound : forall e b (fr : frame),
    compile_bf e = Some b ->
    okf fr ->
    (exists id t v, In (id, t, v) fr /\ eval e t v = true) ->
    bf_eval_with b fr = true.
  Proof.
    induction e as [spath term | text l | path l | l path | a IHa c IHc | a IHa c IHc | a IHa | i];
      intros b fr C V [id [t [v [I E]]]]; simpl in C; unfold eval in E.
    - (* keyword search *)
      destruct (bf_string_case term) as [b1|] eqn:B; [|discriminate].
      apply bf_string_case_some in B. inversion C; subst. simpl.
      simpl in E.
      destruct (deref spath t v) as [[t1 v1]|] eqn:D; [|discriminate].
      apply is_T3_b3 in E.
      assert (FN : forall t', subty t' t ->
                              search_type term t' = true -> F term fr = true).
      { intros t' Sb S. eapply F_sound; eauto. }
      pose proof (deref_subty _ _ _ _ _ D) as Sb1.
      apply orb_true_iff in E as [E|E].
      + apply orb_true_iff. right. apply (FN t1); assumption.
      + apply existsb_exists in E as [[t' v'] [W E]]. simpl in E.
        apply orb_true_iff in E as [E|E].
        * apply orb_true_iff. right. apply (FN t'); [|exact E].
          eapply subty_trans; [eapply walk_subty; exact W|exact Sb1].
        * apply orb_true_iff. left.
          destruct (string_leaf_seg term (t', v') E) as [m [S Cm]]. simpl in S.
          eapply contains_ci_mono; [|exact Cm].
          eapply seg_trans; [exact S|]. eapply seg_trans; [eapply walk_seg; exact W|].
          eapply seg_trans; [eapply deref_seg; exact D|].
          eapply frame_seg; exact I.
    - (* search for a non-string literal *)
      destruct (N.eqb (lid l) ID_NET) eqn:Net; [discriminate|].
      destruct (bf_string_case text) as [b1|] eqn:B1; [|discriminate].
      destruct (bf_literal l) as [b2|] eqn:B2; [|discriminate].
      pose proof (bf_literal_not_opaque _ _ B2) as O.
      apply bf_string_case_some in B1. apply bf_literal_some in B2. inversion C; subst. simpl.
      simpl in E. rewrite Net, O in E. simpl in E.
      apply is_T3_b3 in E.
        apply existsb_exists in E as [[t' v'] [W E]]. unfold search_lit_leaf in E.
        destruct t' as [pid | |]; try discriminate.
        destruct (N.eqb pid ID_STRING).
        * apply orb_true_iff. left.
          assert (S : exists m, seg m (enc_val v') /\ contains_ci m text = true).
          { destruct v' as [| s | |]; try (exists []; split; [apply seg_nil|exact E]).
            exists s. split; [apply seg_tagged|exact E]. }
          destruct S as [m [S Cm]].
          eapply contains_ci_mono; [|exact Cm].
          eapply seg_trans; [exact S|]. eapply seg_trans; [eapply walk_seg; exact W|].
          eapply frame_seg; exact I.
        * apply orb_true_iff. right.
          apply const_eq_enc in E. apply contains_seg. rewrite <- E.
          eapply seg_trans; [eapply walk_seg; exact W|]. eapply frame_seg; exact I.
    - (* field == literal *)
      pose proof (bf_literal_not_opaque _ _ C) as O.
      apply bf_literal_some in C. subst. simpl.
      simpl in E. rewrite O in E.
      destruct (deref path t v) as [[t' v']|] eqn:D; [|discriminate].
      apply is_T3_b3 in E.
      apply const_eq_enc in E. apply contains_seg. rewrite <- E.
      eapply seg_trans; [eapply deref_seg; exact D|]. eapply frame_seg; exact I.
    - (* literal in field *)
      destruct (N.eqb (lid l) ID_NET); [discriminate|].
      pose proof (bf_literal_not_opaque _ _ C) as O.
      apply bf_literal_some in C. subst. simpl.
      simpl in E. rewrite O in E.
      destruct (deref path t v) as [[t' v']|] eqn:D; [|discriminate].
      apply is_T3_b3 in E.
      apply existsb_exists in E as [[t'' v''] [W E]]. simpl in E.
      apply in_eq_enc in E. apply contains_seg. rewrite <- E.
      eapply seg_trans; [eapply walk_seg; exact W|].
      eapply seg_trans; [eapply deref_seg; exact D|]. eapply frame_seg; exact I.
    - (* and *)
      simpl in E.
      assert (Ea : eval a t v = true /\ eval c t v = true).
      { unfold eval. destruct (eval3 a t v); try discriminate. split; [reflexivity|exact E]. }
      destruct Ea as [Ea Ec].
      destruct (compile_bf a) as [ba|] eqn:Ca; destruct (compile_bf c) as [bc|] eqn:Cc;
        inversion C; subst; simpl.
      + rewrite (IHa ba fr eq_refl V), (IHc bc fr eq_refl V); [reflexivity| |]; eauto 6.
      + apply (IHa b fr eq_refl V). eauto 6.
      + apply (IHc b fr eq_refl V). eauto 6.
    - (* or *)
      destruct (compile_bf a) as [ba|] eqn:Ca; [|discriminate].
      destruct (compile_bf c) as [bc|] eqn:Cc; [|discriminate].
      inversion C; subst. simpl. simpl in E.
      apply orb_true_iff.
      destruct (eval3 a t v) eqn:Ea.
      + left. apply (IHa ba fr eq_refl V). exists id, t, v. split; [exact I|].
        unfold eval. rewrite Ea. reflexivity.
      + right. apply (IHc bc fr eq_refl V). exists id, t, v. split; [exact I|exact E].
      + right. apply (IHc bc fr eq_refl V). exists id, t, v. split; [exact I|exact E].
    - discriminate.
    - discriminate.
  Qed.

End Sound.

Lemma bf_eval_with_fnf b fr : bf_eval_with fnf_find b fr = bf_eval b fr.
Proof. induction b; simpl; congruence. Qed.

Lemma fnf_find_sound : forall term (fr : frame) id t v t',
  True -> In (id, t, v) fr -> subty t' t ->
  search_type term t' = true -> fnf_find term fr = true.
Proof.
  intros term fr id t v t' _ I W S.
  unfold fnf_find. apply existsb_exists. exists (id, t, v).
  split; [exact I|]. destruct t as [pid | fs | et]; try reflexivity.
  exact (subty_find_below term _ _ W S).
Qed.

Section Sound2.
  Variable oth : nat -> ty -> val -> tv3.
  Variable lit_oth : expr -> ty -> val -> tv3.
  Notation eval := (eval oth lit_oth).

  (* CompileBufferFilter's contract: the buffer filter accepts every frame that
     holds a value the filter accepts *)
  Theorem bufferfilter_sound : forall e b (fr : frame),
    compile_bf e = Some b ->
    (exists id t v, In (id, t, v) fr /\ eval e t v = true) ->
    bf_eval b fr = true.
  Proof.
    intros e b fr C H. rewrite <- bf_eval_with_fnf.
    eapply (generic_sound oth lit_oth fnf_find (fun _ => True) fnf_find_sound); eauto.
  Qed.

  Lemma filter_none {A} (f : A -> bool) l : (forall x, In x l -> f x = false) -> filter f l = [].
  Proof.
    induction l as [|x l IH]; intros H; simpl; [reflexivity|].
    rewrite (H x (or_introl eq_refl)). apply IH. intros y Hy. apply H. right. exact Hy.
  Qed.

  Lemma scan_frame_is_filter e fr :
    scan_frame oth lit_oth e fr = filter (keep oth lit_oth e) (frame_vals fr).
  Proof.
    unfold scan_frame, gate.
    destruct (compile_bf e) as [b|] eqn:C; [|reflexivity].
    destruct (bf_eval b fr) eqn:B; [reflexivity|].
    symmetry. apply filter_none. intros [t v] H.
    unfold frame_vals in H. apply in_map_iff in H as [[[id t'] v'] [Eq I]]. inversion Eq; subst.
    unfold keep. simpl. destruct (eval e t v) eqn:E; [|reflexivity].
    rewrite (bufferfilter_sound e b fr C) in B; [discriminate|].
    exists id, t, v. split; assumption.
  Qed.

  Lemma filter_flat_map {A B} (f : B -> bool) (g : A -> list B) l :
    filter f (flat_map g l) = flat_map (fun x => filter f (g x)) l.
  Proof.
    induction l as [|x l IH]; simpl; [reflexivity|].
    rewrite filter_app. rewrite IH. reflexivity.
  Qed.

  (* per-frame gate + per-value evaluator = the evaluator alone, for any split
     of the stream into frames *)
  Theorem scan_is_filter : forall e frs,
    scan oth lit_oth e frs = spec oth lit_oth e frs.
  Proof.
    intros e frs. unfold scan, spec. rewrite filter_flat_map.
    induction frs as [|fr frs IH]; simpl; [reflexivity|].
    rewrite scan_frame_is_filter. rewrite IH. reflexivity.
  Qed.

  (* the result does not depend on how the same values are cut into frames *)
  Theorem scan_segmentation_independent : forall e frs1 frs2,
    flat_map frame_vals frs1 = flat_map frame_vals frs2 ->
    scan oth lit_oth e frs1 = scan oth lit_oth e frs2.
  Proof.
    intros e frs1 frs2 H. repeat rewrite scan_is_filter. unfold spec. rewrite H. reflexivity.
  Qed.
End Sound2.

(* ---------------------------------------------------------------- regression witnesses *)

Definition cex_term : bytes := hex "666f6f".           (* foo *)
Definition cex_type : ty := TRec [(hex "61", TArr (TRec [(hex "666f6f", TPrim 9)]))].
Definition cex_val : val := VRec [VArr [VRec [VPrim (hex "02")]]].   (* {a:[{foo:1}]} *)
Definition cex_frame : frame := [(32%N, cex_type, cex_val)].

(* `search foo` over {a:[{foo:1}]}: the evaluator's walk reaches the record type
   below the array and matches the field name.  Before commit 8b4b6dcf4 the
   finder only looked at the dotted names of the top-level type and the frame
   was dropped; findHidden now finds it. *)
Example former_counterexample_passes :
  compile_bf (ESearchStr [] cex_term) = Some (BOr (BStringCase cex_term) (BFieldName cex_term)) /\
  (forall oth lit_oth, eval oth lit_oth (ESearchStr [] cex_term) cex_type cex_val = true) /\
  bf_eval (BOr (BStringCase cex_term) (BFieldName cex_term)) cex_frame = true /\
  contains_ci (frame_bytes cex_frame) cex_term = false.
Proof. repeat split; intros; vm_compute; reflexivity. Qed.

(* non-vacuity: a frame, a filter with a buffer filter, a value it keeps, and a
   frame the gate really drops *)
Example sound_nonvacuous :
  let fr : frame := [(30%N, TRec [(hex "6e", TRec [(hex "666f6f", TPrim 25)])], VRec [VRec [VPrim (hex "626172")]])] in
  let fr2 : frame := [(31%N, TRec [(hex "78", TPrim 25)], VRec [VPrim (hex "626172")])] in
  compile_bf (EOr (ESearchStr [] cex_term) (EEq [hex "6e"; hex "666f6f"] {| lid := 25; lbody := Some (hex "626172") |})) <> None /\
  gate (ESearchStr [] cex_term) fr2 = false /\
  scan (fun _ _ _ => F3) (fun _ _ _ => F3) (ESearchStr [] cex_term) [fr; fr2] = frame_vals fr.
Proof.
  simpl. split; [discriminate|]. split; vm_compute; reflexivity.
Qed.
